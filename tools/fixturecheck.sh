#!/bin/bash
# For every fixture patch: does it compile, does the suite still pass (informational), and is it reported by its property's check?
# Fixtures are applied to scratch copies of /repo, 8 at a time.
export GOFLAGS=-mod=mod GOPROXY=off GOSUMDB=off GOTOOLCHAIN=local; unset GOWORK
if [ "$1" = "--one" ]; then
  fx=$2; name=$(basename $fx); id=${name%%-*}
  scratch=$(mktemp -d /tmp/mut.XXXXXX); cp -r /repo/. $scratch/; rm -rf $scratch/.git
  (cd $scratch && patch -p1 -s < $fx/patch.diff) || { echo "$name: PATCH FAILED"; rm -rf $scratch; exit 0; }
  comp=ok; (cd $scratch && go build ./... 2>/dev/null) || comp=NOCOMPILE
  tests=$(/verif/tools/repotest.sh $scratch 2>/dev/null | tail -1)
  vd=$(mktemp -d /tmp/mutv.XXXXXX); cp /verif/known_findings.json $vd/
  out=$(${ARGVERIF:-/verif/bin/argverif} -repo $scratch -verif $vd -property $id 2>&1); rc=$?
  rules=$(echo "$out" | grep -oE "rule=[A-Z0-9-]+" | sort -u | sed 's/rule=//' | tr '\n' ',')
  echo "$name compile=$comp tests[$tests] rc=$rc rules=$rules"
  rm -rf $scratch $vd
  exit 0
fi
ls -d /verif/fixtures/C* | xargs -P 8 -I{} /verif/tools/fixturecheck.sh --one {} | sort
