#!/bin/bash
# seedmatrix.sh [seed ids...] : for each confirmed seeded change, applies it to a scratch
# copy of /repo and runs every check; prints which properties/rules report it.
# Nothing is applied to /repo itself. Seeds are processed 6 at a time.
export GOFLAGS=-mod=mod GOPROXY=off GOSUMDB=off GOTOOLCHAIN=local; unset GOWORK
cd /verif
if [ "$1" = "--one" ]; then
  s=$2
  props=$(python3 -c "import json;print(' '.join(c['property_id'] for c in json.load(open('MANIFEST.json'))['checks']))")
  own=${s%%-*}
  scratch=$(mktemp -d /tmp/mut.XXXXXX); cp -r /repo/. $scratch/; rm -rf $scratch/.git
  (cd $scratch && patch -p1 -s < /verif/seeded/$s/patch.diff) || { echo "$s: PATCH FAILED"; rm -rf $scratch; exit 0; }
  vd=$(mktemp -d /tmp/mutv.XXXXXX); cp known_findings.json $vd/
  hits=""; ownhit=no
  for p in $props; do
    out=$(${ARGVERIF:-/verif/bin/argverif} -repo $scratch -verif $vd -property $p 2>&1)
    rules=$(echo "$out" | grep -oE "rule=[A-Z0-9-]+" | sort -u | sed 's/rule=//' | tr '\n' ',' )
    if [ -n "$rules" ]; then hits="$hits $p[${rules%,}]"; [ "$p" = "$own" ] && ownhit=yes; fi
  done
  echo "$s own-property-check-fires=$ownhit :$hits"
  rm -rf $scratch $vd
  exit 0
fi
seeds=${*:-$(ls seeded)}
printf '%s\n' $seeds | xargs -P 6 -I{} /verif/tools/seedmatrix.sh --one {} | sort
