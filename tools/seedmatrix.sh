#!/bin/bash
# seedmatrix.sh [seed ids...] : for each confirmed seeded change, applies it to a scratch
# copy of /repo and runs every check; prints which properties/rules report it.
# Nothing is applied to /repo itself. Seeds are processed 8 at a time.
export GOFLAGS=-mod=mod GOPROXY=off GOSUMDB=off GOTOOLCHAIN=local; unset GOWORK
cd /verif
if [ "$1" = "--one" ]; then
  s=$2
  own=${s%%-*}
  scratch=$(mktemp -d /tmp/mut.XXXXXX); cp -r /repo/. $scratch/; rm -rf $scratch/.git
  (cd $scratch && patch -p1 -s < /verif/seeded/$s/patch.diff) || { echo "$s: PATCH FAILED"; rm -rf $scratch; exit 0; }
  hits=$(/verif/tools/allprops.sh $scratch); ownhit=no
  case " $hits" in *" $own["*) ownhit=yes;; esac
  hits=" $hits"
  echo "$s own-property-check-fires=$ownhit :$hits"
  rm -rf $scratch
  exit 0
fi
seeds=${*:-$(ls seeded)}
printf '%s\n' $seeds | xargs -P 8 -I{} /verif/tools/seedmatrix.sh --one {} | sort
