#!/bin/bash
# trymutant.sh <patch.diff | -e 'sed-expr' file> [property ids...]
# Applies a change to a scratch copy of /repo (never to /repo itself), optionally
# runs the test suite (TESTS=1), runs the checker on the copy and removes it.
set -u
export GOFLAGS=-mod=mod GOPROXY=off GOSUMDB=off GOTOOLCHAIN=local; unset GOWORK
scratch=$(mktemp -d /tmp/mut.XXXXXX)
trap 'rm -rf "$scratch"' EXIT
cp -r /repo/. "$scratch/" && rm -rf "$scratch/.git"
if [ "$1" = "-e" ]; then
  sed -i -E "$2" "$scratch/$3" || exit 2
  (cd /repo && diff -u "$3" "$scratch/$3" | head -20)
  shift 3
else
  (p=$(readlink -f "$1"); cd "$scratch" && patch -p1 -s < "$p") || { echo "patch failed"; exit 2; }
  shift
fi
(cd "$scratch" && go build ./... ) || { echo "MUTANT DOES NOT COMPILE"; exit 3; }
if [ "${TESTS:-0}" = 1 ]; then /verif/tools/repotest.sh "$scratch"; fi
props=${*:-all}
vd=$(mktemp -d /tmp/mutv.XXXXXX)
cp /verif/known_findings.json "$vd/" 2>/dev/null
rc=0
for p in $props; do
  ${ARGVERIF:-/verif/bin/argverif} -repo "$scratch" -verif "$vd" -property "$p" | grep -E 'VIOLATION|rule=|expected:|found:|KNOWN|cannot' 
done
rm -rf "$vd"
