#!/bin/bash
# allprops.sh <repo dir> : runs every property's check over the given tree in one process
# (the tree is loaded once) and prints "Cxx[RULE,RULE] ..." for each property that reports.
export GOFLAGS=-mod=mod GOPROXY=off GOSUMDB=off GOTOOLCHAIN=local; unset GOWORK
vd=$(mktemp -d /tmp/mutv.XXXXXX); cp /verif/known_findings.json $vd/
out=$(${ARGVERIF:-/verif/bin/argverif} -repo $1 -verif $vd -property all 2>&1); rc=$?
rm -rf $vd
[ $rc -ge 2 ] && { echo "ERROR[$(echo "$out" | grep -m1 argverif: | cut -c1-120)]"; exit 0; }
echo "$out" | awk '
/^VIOLATION property=/ { split($2,a,"="); cur=a[2]; if(!(cur in seen)){seen[cur]=1; order[++n]=cur}; next }
/^  rule=/ { split($1,b,"="); r=b[2]; if(index(","rules[cur]",", ","r",")==0) rules[cur]=(rules[cur]==""?r:rules[cur]","r) }
END { for(i=1;i<=n;i++) printf "%s%s[%s]", (i>1?" ":""), order[i], rules[order[i]]; print "" }'
