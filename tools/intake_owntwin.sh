#!/bin/bash
# intake_owntwin.sh <Cxx> <n> <label>: round 14 candidates come with their own faithful twin (/tmp/wt/Cxx/seed<n>/twin.diff:
# the same refactoring without the slip). Checks on a scratch copy that the twin applies, builds, keeps the suite green and
# makes the seed's demonstration pass, stores it as /verif/benign/<label>-Cxx-seed<n> and runs every check on it.
export GOFLAGS=-mod=mod GOPROXY=off GOSUMDB=off GOTOOLCHAIN=local; unset GOWORK
id=$1; n=$2; label=$3; d=/tmp/wt/$id/seed$n
[ -f $d/twin.diff ] || { echo "$id-seed$n: no twin"; exit 1; }
name=$label-$id-seed$n
s=$(mktemp -d /tmp/mut.XXXXXX); cp -r /repo/. $s/
if ! (cd $s && git apply $d/twin.diff 2>/dev/null); then echo "$name: TWIN DOES NOT APPLY"; rm -rf $s; exit 1; fi
if ! (cd $s && go build ./... 2>/dev/null); then echo "$name: DOES NOT COMPILE"; rm -rf $s; exit 1; fi
dest=$(cat $d/DEST 2>/dev/null | tr -d ' \n'); [ -z "$dest" ] && dest=.
cp $d/demo_test.go $s/$dest/zz_demo_seed_test.go
demo=$(cd $s/$dest && go test -vet=off -count=1 -run 'Seed|seed' . 2>&1 | grep -v TRACE | grep -E '^(ok|FAIL|---|panic)' | head -2 | tr '\n' ' ')
rm $s/$dest/zz_demo_seed_test.go
suite=$(/verif/tools/repotest.sh $s | tail -1)
rm -rf $s
case "$suite" in "pass=79 fail=0") ;; *) echo "$name: SUITE $suite"; exit 1;; esac
case "$demo" in ok*) ;; *) echo "$name: DEMO STILL FAILS: $demo"; exit 1;; esac
dest2=/verif/benign/$name; mkdir -p $dest2; cp $d/twin.diff $dest2/patch.diff
echo "Faithful twin of seeded/$id-seed$n, delivered by the same sub-agent: the same refactoring with the slip corrected (the seed's demonstration passes on it). Suite: $suite." > $dest2/note.md
/verif/tools/refactorcheck.sh --one $dest2
