#!/bin/bash
# intake_benign.sh <Bxx worktree name> <round label> : takes /tmp/wt/<Bxx>/refactorN/patch.diff produced by a sub-agent,
# checks on a scratch copy that it applies, builds and keeps the suite green, stores it as /verif/benign/<label>-<xx>-N
# and runs every check on it (must be silent).
export GOFLAGS=-mod=mod GOPROXY=off GOSUMDB=off GOTOOLCHAIN=local; unset GOWORK
b=$1; label=$2; xx=${b#B}
for d in /tmp/wt/$b/refactor*; do
  [ -f $d/patch.diff ] || continue
  n=${d##*refactor}
  s=$(mktemp -d /tmp/mut.XXXXXX); cp -r /repo/. $s/
  if ! (cd $s && git apply $d/patch.diff 2>/dev/null); then echo "$label-$xx-$n: PATCH DOES NOT APPLY"; rm -rf $s; continue; fi
  if ! (cd $s && go build ./... 2>/dev/null); then echo "$label-$xx-$n: DOES NOT COMPILE"; rm -rf $s; continue; fi
  suite=$(/verif/tools/repotest.sh $s | tail -1)
  rm -rf $s
  case "$suite" in "pass=79 fail=0") ;; *) echo "$label-$xx-$n: SUITE $suite"; continue;; esac
  dest=/verif/benign/$label-$xx-$n; mkdir -p $dest; cp $d/patch.diff $dest/; cp $d/note.md $dest/ 2>/dev/null
  /verif/tools/refactorcheck.sh --one $dest
done
