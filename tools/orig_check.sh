#!/bin/bash
# Runs the checker against the original pinned tree (d5478e5) in a scratch worktree:
# every defect D1..D15 of DESIGN §6 must be reported there.
wt=$(mktemp -d /tmp/orig.XXXXXX); rmdir $wt
git -C /repo worktree add -q --detach $wt d5478e5 || exit 2
vd=$(mktemp -d /tmp/origv.XXXXXX)
for p in ${*:-$(${ARGVERIF:-/verif/bin/argverif} -property all -dump engines 2>/dev/null | awk '{print $1}')}; do
  ${ARGVERIF:-/verif/bin/argverif} -repo $wt -verif $vd -property $p | grep -E "^VIOLATION|rule=|found:" | paste - - - | sed -e "s#replay=[^ ]*##" | cut -c1-330
done
git -C /repo worktree remove --force $wt; rm -rf $vd $wt
