#!/bin/bash
# rebase_patches.sh <old-commit> <new-commit>: after a `fix:` commit in /repo, carries every stored variant patch
# (seeded/, benign/, newmech/, fixtures/) that touches a changed file over to the new tree: the patch is committed on
# top of <old-commit> in a scratch worktree and the fix commits are cherry-picked onto it (3-way merge); the new patch
# is the difference between <new-commit> and the result. Conflicts are listed and the patch is left as it was (such a
# control is skipped by the thorough tier and recorded, never counted as a failure).
old=$1; new=$2
files=$(git -C /repo diff --name-only $old $new | tr '\n' ' ')
wt=$(mktemp -d /tmp/rebase.XXXXXX); rmdir $wt
git -C /repo worktree add -q --detach $wt $old || exit 2
cd $wt; git config user.email rebase@local; git config user.name rebase
ok=0; conflict=0; untouched=0
for pd in /verif/seeded/*/patch.diff /verif/benign/*/patch.diff /verif/newmech/*/patch.diff /verif/fixtures/*/patch.diff; do
  touches=0
  for f in $files; do grep -q "^+++ b/$f" $pd && touches=1; done
  if [ $touches = 0 ]; then untouched=$((untouched+1)); continue; fi
  git reset -q --hard $old; git clean -qfd
  if ! patch -p1 -s --no-backup-if-mismatch < $pd >/dev/null 2>&1; then echo "DOES NOT APPLY TO OLD: $pd"; conflict=$((conflict+1)); continue; fi
  git add -A; git commit -qm variant
  if git cherry-pick $(git -C /repo rev-list --reverse $old..$new) >/dev/null 2>&1; then
    git diff $new HEAD > $pd.new
    if [ -s $pd.new ]; then mv $pd.new $pd; ok=$((ok+1)); else rm -f $pd.new; echo "EMPTY AFTER REBASE: $pd"; conflict=$((conflict+1)); fi
  else
    git cherry-pick --abort 2>/dev/null; echo "CONFLICT: $pd"; conflict=$((conflict+1))
  fi
done
cd /; git -C /repo worktree remove --force $wt
echo "rebased=$ok conflicts=$conflict untouched=$untouched"
