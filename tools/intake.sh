#!/bin/bash
# intake.sh <Cxx> <n> "<needs_to_manifest>" : takes the candidate /tmp/wt/Cxx/seed<n> produced by a sub-agent,
# confirms it in a scratch worktree (suite passes with it; demo fails with it, passes without), and if confirmed stores
# it as /verif/seeded/Cxx-seed<n> with meta.json. Prints the confirmation line.
set -u
id=$1; n=$2; needs=${3:-}
src=/tmp/wt/$id/seed$n
[ -f $src/patch.diff ] || { echo "$id-seed$n: no candidate"; exit 1; }
tmp=$(mktemp -d /tmp/cand.XXXXXX)/$id-seed$n; mkdir -p $tmp
cp $src/patch.diff $src/notes.md $tmp/ 2>/dev/null
cp $src/DEST $tmp/ 2>/dev/null || echo . > $tmp/DEST
cp $src/demo_test.go $tmp/demo_test.go.txt
line=$(/verif/tools/confirm_seed.sh $tmp)
echo "$line"
case "$line" in
  *"suite[pass=79 fail=0]"*"with-patch["*FAIL*"without[ok"*) ;;
  *) echo "  NOT CONFIRMED"; rm -rf $(dirname $tmp); exit 1;;
esac
dest=/verif/seeded/$id-seed$n
rm -rf $dest; mkdir -p $dest; cp $tmp/* $dest/
python3 - "$id" "$n" "$needs" "$line" "${ROUND:-4}" <<'PY'
import json,sys
id,n,needs,line,rnd=sys.argv[1:6]
origins={"16":"Asked for a change whose breakage shows only in NESTED resolution (a converter on the path of a parameter whose own inputs need converters): the outer requirement's name, graph, state or bookkeeping leaking into an inner requirement, failing to reach it, restored late, computed for one requirement and used for another, or two cooperating sites that each look fine alone (5-40 changed lines); run on the tree with D16 repaired","15":"Asked for a value-level change that a structural checker is least likely to notice: the shape of the code stays the same and only a constant, a comparison operator, the operand order of an arithmetic expression, the choice between two similar library methods, the field or variable used, a default, a format verb or a map key component changes (at most about eight changed lines; no function, loop, branch, copy or call added or removed)","14":"Asked for a refactoring PR with a slip: a readability clean-up of 30-120 lines (helper extracted or inlined, loops or functions merged, if-chain to switch or table, early returns, hoisting, parameter struct, closure to method) where one detail was not carried over faithfully; the agent also delivered the faithful twin of the same refactoring (benign/R23-twin-*)","13":"Asked for a modernisation PR with a slip: go.mod bumped from go 1.14 to go 1.22 and part of the code rewritten with slices/maps/min/max/clear/any/range-over-int/errors.Join/per-iteration loop variables, where the new facility differs semantically from the hand-written code","12":"Asked for an issue-driven fix that overcorrects: the agent writes down a plausible user complaint, lands the targeted patch a hurried maintainer would merge for it, and the patch is too broad, too narrow or one layer off for other inputs","4":"Asked for a change a maintainer lands on purpose: an optimisation, a hardening change, a small feature/generalisation or a modernisation","11":"Asked for a change confined to a listed set of small, rarely touched helpers and accessors (the functions with the fewest obligations in the evidence)","10":"Asked for any plausible change that breaks the property only when two or more features of the library are combined (each feature alone unaffected, shown by passing control sub-tests)","9":"Asked for the substitution of one library or language facility for a similar one (reflect, strings, fmt verbs used as identities, copy/append, heap, sort, errors, defer) with the mechanisms of all earlier rounds listed as known","8":"Asked for a change of data representation or of a type-level decision (map key composition, pointer vs value, receiver kind, slice vs map, sentinel, field placement, sharing vs copying) with the mechanisms of all earlier rounds listed as known","7":"Second round of SMALL edits (about ten changed lines at most) with the mechanisms of all earlier rounds listed as known","6":"Asked for two SMALL edits (about ten changed lines at most: off-by-one, swapped arguments, wrong variable, inverted or merged condition, stale shadowed variable, deleted redundant-looking line) on clauses the known mechanisms had not touched","5":"Asked for any realistic change, preferably one where two places of the code that must agree (writer/reader, guard/guarded, table/lookup) are changed inconsistently, on clauses the known mechanisms had not touched"}
json.dump({"id":f"{id}-seed{n}","breaks_property":id,"round":int(rnd),
 "origin":"fresh sub-agent given only the property text, a list of already known mechanisms to avoid, and its own scratch worktree of /repo (current HEAD); nothing from /verif. "+origins.get(rnd,""),
 "needs_to_manifest":needs,
 "demo":"demo_test.go.txt (copy into the package directory named in DEST as a _test.go file)",
 "confirmed_by":"tools/confirm_seed.sh in a scratch worktree: suite passes with the patch, demo fails with the patch, demo passes without it",
 "confirmation":line}, open(f"/verif/seeded/{id}-seed{n}/meta.json","w"), indent=1)
PY
rm -rf $(dirname $tmp)
ARGVERIF=${ARGVERIF:-/verif/bin/argverif} /verif/tools/seedmatrix.sh $id-seed$n
