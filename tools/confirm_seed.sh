#!/bin/bash
# confirm_seed.sh <seed dir with patch.diff demo_test.go DEST>
# Confirms in a scratch worktree (removed afterwards): suite passes with the patch,
# demo fails with the patch, demo passes without it. Prints one summary line.
set -u
export GOFLAGS=-mod=mod GOPROXY=off GOSUMDB=off GOTOOLCHAIN=local; unset GOWORK
sd=$(cd "$1" && pwd); name=$(basename "$sd")
wt=$(mktemp -d /tmp/confirm.XXXXXX); rmdir "$wt"
git -C /repo worktree add -q --detach "$wt" HEAD || exit 2
cleanup() { git -C /repo worktree remove --force "$wt" >/dev/null 2>&1; rm -rf "$wt"; }
trap cleanup EXIT
dest=$(cat "$sd/DEST" 2>/dev/null | tr -d ' \n'); [ -z "$dest" ] && dest=.
cd "$wt"
git apply "$sd/patch.diff" || { echo "$name: PATCH-DOES-NOT-APPLY"; exit 1; }
go build ./... 2>/dev/null || { echo "$name: DOES-NOT-COMPILE"; exit 1; }
suite=$(/verif/tools/repotest.sh "$wt" | tail -1)
race=""
grep -q -- '-race' "$sd/notes.md" 2>/dev/null && race="-race"
cp "$sd/demo_test.go"* "$wt/$dest/zz_demo_seed_test.go"
with=$(cd "$wt/$dest" && timeout 600 go test $race -vet=off -count=1 -run 'Seed|seed|C[0-9][0-9]' . 2>&1 | grep -v TRACE | grep -E '^(ok|FAIL|---|panic|fatal)' | head -3 | tr '\n' ' ')
git checkout -q -- . 
without=$(cd "$wt/$dest" && timeout 600 go test $race -vet=off -count=1 -run 'Seed|seed|C[0-9][0-9]' . 2>&1 | grep -v TRACE | grep -E '^(ok|FAIL|---|panic|fatal)' | head -3 | tr '\n' ' ')
echo "$name: suite[$suite] with-patch[$with] without[$without]"
