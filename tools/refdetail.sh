#!/bin/bash
# refdetail.sh <benign name> <props...>: show violations for one benign refactor
export GOFLAGS=-mod=mod GOPROXY=off GOSUMDB=off GOTOOLCHAIN=local; unset GOWORK
d=/verif/benign/$1; shift
scratch=$(mktemp -d /tmp/mut.XXXXXX); cp -r /repo/. $scratch/; rm -rf $scratch/.git
(pp=$(readlink -f $d/patch.diff); cd $scratch && patch -p1 -s < $pp)
vd=$(mktemp -d /tmp/mutv.XXXXXX); cp /verif/known_findings.json $vd/
for p in $*; do ${ARGVERIF:-/verif/bin/argverif} -repo $scratch -verif $vd -property $p | grep -E "rule=|expected:|found:" | cut -c1-400; done
[ -n "${KEEP:-}" ] && echo "kept $scratch" || rm -rf $scratch
rm -rf $vd
