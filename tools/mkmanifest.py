#!/usr/bin/env python3
"""Regenerates /verif/MANIFEST.json from the table below and validates it.

A property is listed under checks only if its engines exist in the checker
(`argverif -property <id>` works); otherwise it goes to not_applicable with the
reason given here."""
import json, subprocess, sys, os

HERE = os.path.dirname(os.path.dirname(os.path.abspath(__file__)))

FIX_COMMITS = []  # hook commits (none: the checker needs no source hooks)

# id -> (claimed?, technique, level text, level note, design ref)
P = {
 "C01": ("static analysis: SSA extraction of every graph-edge rule with dominating guards; value-routing dataflow rules",
         "Structural necessary conditions, decided for every execution of the enumerated constructs: no edge-creating site joins label-incompatible vertices (type identical or provider-implements-consumer under an interface-kind guard; subtype equal or empty on one side; equal names between named vertices); vertex identity hashes every label; label fields immutable after construction; values routed by the vertex's own label in the path walk, output mapper and executor; no fabricated value outside the redefine flag; the implements rule is applied to every candidate without an unreviewed restriction; converter outputs mapped onto the graph are exactly the Result the executor returned for that step, and only Call and the resolver reach the executor; no object that lives across calls holds a per-call value store (a value supplied to one call cannot be injected into another); an argument-map entry filled from a vertex is filled from the vertex its key names. The behaviour itself (which value a re-used vertex carries across successive walks, flows through reflect containers) is not decided.",
         "Trusted: go/ssa + go/types (x/tools v0.29.0), Go map semantics, reflect. Flow-insensitive field reasoning is licensed by the IMMUT rule checked in the same run.", "§4 EDGE/HASH/IMMUT/WALK/OUTMAP/ARGPOP/SIBLING/ORDER/FAB/BIND/SHARED-E, §5 C01"),
 "C02": ("static analysis: dominance/error-flow rules on the Call pipeline, must-pass guards around the unsatisfied report, termination witness for the resolver",
         "Decided structurally: target and converters execute only behind nil-error checks of option building, graph building and resolution; pruned requirements always yield the dedicated error; the executor's last-resort guard; every return of Call is an error Result on a non-nil-error branch or exactly the executor's Result after resolution (no memoised shortcut past resolution); edge rules join only label-compatible vertices (an unsatisfiable target cannot look satisfiable through a wrong edge); cyclic converter dependencies cannot recurse unboundedly; no object that lives across calls holds a per-call value store (a value of an earlier call cannot make an unsatisfiable target look satisfiable). Not decided: that pruning computes exactly the least fixpoint of derivable values.",
         "Trusted: go/ssa, reflect.Value.Call returns what the function returned.", "§4 ERRFLOW/UNSAT/TERM/EDGE/EXEC-X8/SHARED-E, §5 C02"),
 "C03": ("static analysis: abstract cost model (Bellman–Ford lower bound over the extracted edge-weight table) plus direct-use rule recognition",
         "Decided: an exactly matching supplied named value is used directly (direct-use rule in the resolver) or every >=2-edge path is strictly dearer than the direct input edge; for type-only parameters every path through a function vertex costs more than the direct typed route; inputs overwrite the coinciding requirement vertex and hang off the root; path selection uses Dijkstra from the root on the reverse of the same graph; every supplied/generated converter is registered; every vertex added to a call's graph is freshly allocated; removing a vertex leaves no dangling in-edge; a requirement that needs no path is bound to its value before anything can overwrite the shared vertex and only to the value of its own vertex; a nil value in a multi-value option skips only itself; the option list a call applies is its own private list (defaults, then call options). Not decided: which of two equal-cost exact type-only candidates is taken.",
         "Sound lower-bound argument: every tentative distance Dijkstra holds is the length of a real path. Trusted: go/ssa constant folding of weights.", "§4 PRIO/INPUT/EDGE-V/MIRROR-REMOVE/BIND/OPTORDER, §5 C03"),
 "C04": ("static analysis: Result typestate (Err()==nil dominance), error-identity taint rule, final-error predicate agreement",
         "Decided: after each converter execution the result's error is checked and returned unchanged before anything else runs; error values on the chain are only returned/stored/boxed, never wrapped; the target executes only on the nil branch; the final-error predicate is type identity at the last position everywhere and Result.Err reports the final output as the error under exactly the reviewed conditions (a typed-nil error is still an error); no per-call cache of converter results.", "Trusted: reflect.Value.Call, go/ssa.", "§4 ERRFLOW/ERRPRED/EXEC-X7, §5 C04"),
 "C05": ("static analysis: five necessary structural conditions (chaining edge class, pruning guard, path search pairing, argument-map plumbing, in-progress-set stack discipline)",
         "Necessary structural conditions of chaining only (chaining and implements edge classes present and unrestricted, every converter registered, a function vertex hangs off the root only when it has no inputs, pruning guard, path search pairing on a per-parameter private copy, argument-map plumbing, in-progress-set stack discipline); completeness of chaining and outcome stability over map order are NOT decided (no sound static argument in reach bounds reachability in a runtime-built graph or randomized iteration). The path search settles each vertex once and a memoized converter result is never modified in place (HEAP-H3/H6, ALIAS).", "Each clause is a genuine necessary condition: breaking it breaks chaining for some well-behaved converter set.", "§5 C05"),
 "C06": ("static analysis: reachable-panic audit, compiler-unproven bounds checks justified by guards/loop bounds/reviewed length invariants, reflect.Value validity typestate, positional packing agreement, StructOf name uniqueness, termination witnesses",
         "Decided: every explicit panic reachable from Call/Convert/Redefine is discharged mechanically or by a reviewed invariant table; reflect.Value methods on API inputs are dominated by IsValid; nil options are rejected; slices indexed by struct-field ordinal are sized by the value list; dynamic struct field names are unique; every recursive SCC carries a visited/in-progress witness and every loop is regular or in the reviewed table; Dijkstra's predecessor map is only written together with a lowered distance on unsettled vertices (acyclic walk); vertex values are assigned only under validity/assignability guards; Remove leaves no dangling edge; every index or slice expression the Go compiler cannot prove in range is bounded by a dominating guard, a loop bound, its construction or a reviewed length invariant of where the slice comes from (BOUNDS); every *Func entering a converter list is non-nil (NILOPT-F); the planner's zero stand-in renders results with the pointer-depth-aware packer (EXEC-X3). Not decided: panics raised inside reflect for other reasons, exhaustion by sheer size.",
         "Trusted: reflect, hclog; reviewed invariant tables are listed in the checker source with one reason each.", "§4 PANIC/BOUNDS/REFLVALID/NILOPT/NILOPT-F/PACK/STRUCTOF/TERM, §5 C06"),
 "C07": ("static analysis: weight-order and discount-loop rules over the extracted edge table",
         "Decided clauses: the matching-name discount is negative and strictly below every other in-edge weight, applied only to in-edges of same-named value vertices, on a private copy of the graph, and the named requirement edge is cheaper than the typed route; converter results are not cached across positions of one call; requirements that already carry a value are bound when classified (not re-read after sibling paths ran); a named requirement is used directly only when it is a supplied value hanging off the root (a walk by-product is re-resolved under the parameter's own name). Not decided: optimality of Dijkstra under a negative edge, tie-breaking.", "Trusted: go/ssa constant folding.", "§4 PRIO-W/D/P/N, BIND, §5 C07"),
 "C08": ("static analysis: must-pass-edge gating of redefine root edges, input-set provenance, exclusion key-space agreement, output-filter error flow",
         "Decided clauses: the redefine-only root edge is gated by the input filter; only path inputs are recorded in the input set; struct fields are appended only for entries not supplied; rejected outputs return an error before planning and no successful return of Redefine bypasses that validation; the generated function forwards options and declared inputs to Call. The output filter is shown every output (no early exit), and the generated function's error path returns zeros with the error written last. Not decided: that the planning run visits exactly the inputs a real call would use; result equality.", "Known finding D12 (typed supplied inputs use a different hash namespace).", "§4 REDEF, §5 C08"),
 "C09": ("static analysis: who-may-call audit of reflect.Value.Call, must-pass zeroing loop before the planning resolver call, whole-program shared-write audit",
         "Decided for all interleavings: user functions execute only in the executor; in the planning function every func vertex is replaced by a fresh copy with a zero-producing body before the resolver runs; that body calls no user code; nothing reachable from the original functions is written.", "Trusted: reflect.MakeFunc, go/ssa.", "§4 EXEC/SHARED/ALIAS, §5 C09"),
 "C10": ("static analysis: structural identity of Convert with Call on a synthesized identity function",
         "Decided: Convert's only in-package callee builds func(T) T whose body returns its parameter, calls Call with its own options unmodified, checks Err() before reading outputs, returns (nil, err) on error. Convert has no resolution logic of its own. The requested target list is not edited before the identity function is built.", "Trusted: reflect.FuncOf/MakeFunc.", "§4 CONVERT, §5 C10"),
 "C11": ("static analysis: dominance rules around the memoized call, alias rule on Result.out, shared-write audit",
         "Sequential clause decided structurally (the call is dominated by not(once and cached); under once the store post-dominates the call; the cache is never modified; the memo is read by the executor only and Call never returns it ahead of resolution; the wrapped function is invoked at a single site; a Func is never copied by value outside the planner's stand-in step, so the memo cannot fork). The concurrent clause is decided negatively: the cache is an unsynchronised shared write (known finding D9).", "Known finding D9.", "§4 ONCE/ALIAS/SHARED, §5 C11"),
 "C12": ("static analysis: exhaustive store audit over both packages with ownership classes",
         "Decided for all interleavings at once: every store/map update/delete in both packages is classified by owner; writes to shared owners (Func, ValueSet, captured variables of option closures, globals) occur only on objects fresh in the writing function (or in the private helper of the constructing function); no field of a shared object is handed by address to external code (pools, atomics); package variables are only read after init. Outcome-equivalence with a sequential run follows only because all post-construction state is per-call.", "Known finding D9 (Func.onceResult). Trusted: hclog and reflect are thread-safe.", "§4 SHARED/IMMUT, §5 C12"),
 "C13": ("static analysis: dataflow from requirement/input/converter lists into the error literal and its rendering",
         "Decided: missing arguments are exactly the requirement vertices no longer in the pruned graph; the input list converts every input vertex; the error literal stores Func, Args, Inputs and Converters (the slice that received every supplied and generated converter); Error() renders every missing argument into the returned message (interprocedural may-flow); Call cannot return a stale success ahead of resolution. Each vertex kind's Value carries that vertex's own labels; an invalid option value skips only itself. Not decided: 'genuinely underivable' beyond 'pruned from the graph'.", "Trusted: go/ssa.", "§4 UNSAT, §5 C13"),
 "C14": ("static analysis: lower-casing dataflow, final-error predicate, validity typestate, tag writer/reader agreement, rejection error paths",
         "Decided clauses: names are always lower-cased; final error excluded by type identity at the last position; non-function/nil values rejected with an error; tag namespace and option keys agree between writers and the reader; documented rejections return errors; the input set is built over exactly NumIn() positions and the output set over NumOut() less only the final error. Not decided: declaration order, tag parsing details, unexported-field skipping.", "Trusted: reflect.", "§4 LOWER/ERRPRED/REFLVALID/TAGS, §5 C14"),
 "C15": ("static analysis: positional packing agreement across the five packing sites, tag agreement, adapter error plumbing",
         "Decided clauses: slices indexed by field ordinal are sized by and filled from the ordered value list; tag writers and reader agree; FromSignature cannot fail; the adapter appends the callback's error as the final result; value-set accessors scan/look up by the value's own label; no value set or parsed struct is cached in package state; Signature, SignatureValues and FromSignature treat the set as empty under the same test (sibling agreement). Not decided: value equality through reflect, lookup semantics of Typed/TypedSubtype.", "Trusted: reflect.", "§4 PACK/TAGS, §5 C15"),
 "C16": ("static analysis: lower-casing dataflow, option-order recogniser, nil-option and nil-value guards",
         "Decided: keys of the builder's named maps are ToLower results; defaults precede call options in the slice handed to the applier which iterates in increasing order; nil options return an error; nil values are ignored; accumulation is plain map assignment; an invalid (nil) value in a multi-value option skips only itself; Call returns the executor's Result only behind the nil-error branch of option merging (no shortcut skips the rejection of a nil option). Not decided: permutation invariance beyond map semantics and C03.", "Trusted: Go map semantics.", "§4 LOWER/OPTORDER/NILOPT/ERRFLOW-E3/E6, §5 C16"),
 "C17": ("static analysis: final-error predicate agreement, Result literal discipline, Len/Out arithmetic",
         "Decided: every comparison against the error type is type identity at index len-1; every Result construction sets exactly one of out/buildErr; Len = len(out) minus one iff hasError; Out(i) indexes out with i; Err reports the final output under exactly the reviewed conditions; Call returns the executor's Result unmodified; a memoised Result is exactly the Result of the function's own first execution and cannot be written through the planner's copy. No error of option building, generation or resolution is dropped on the way to the executor; a Result that was handed out is never modified in place.", "Trusted: reflect.", "§4 ERRPRED/RESULTLIT/LEN, §5 C17"),
 "C18": ("static analysis: heap-position bookkeeping and relaxation pairing rules on Dijkstra",
         "Decided clauses: Swap maintains index==position; every distance store is followed by a heap repair before the next pop and paired with the predecessor store; the stored distance is u.distance+weight guarded by a strict/non-strict less and by 'not visited'; source initialised to 0 before heap.Init; results read from the items; path reconstruction follows the predecessor map; queue items are allocated per search and a predecessor is written only together with a strictly lowered distance; read-only graph functions mutate nothing. NOT decided: exactness on all graphs. Removal keeps the adjacency the search reads consistent; a relaxation carries no condition beyond the visited and improvement tests.", "Trusted: container/heap.", "§4 HEAP/PURITY, §5 C18"),
 "C19": ("static analysis: paired-update (mirror) rules, copy freshness, purity of read-only methods, hash-key discipline",
         "Decided: every inner-map update/delete on adjacencyOut[a][b] has its twin on adjacencyIn[b][a] with the same weight in the same function; Remove deletes mirrored entries of every neighbour and the hash entry; Add keeps/AddOverwrite replaces the hash entry and neither touches edges; Copy stores only fresh inner maps; Reverse swaps the two fields and shares hash; read-only methods perform no update. Agreement with an adjacency model on all histories then follows from Go's map semantics (trusted). No table of a copy is a map taken over from another graph.", "Trusted: Go map semantics.", "§4 MIRROR/COPY/PURITY, §5 C19"),
 "C20": ("static analysis: visited-set discipline of DFS, copy-only mutation and leftover-edge scan of Kahn, bookkeeping obligations of Tarjan's SCC routine and of the DAG relaxation, heap discipline of the Dijkstra it is compared with",
         "Decided clauses: visited[v] is stored before successors are iterated, the callback runs only for undiscovered successors, descent only through the next closure; KahnSort mutates only its copy and its normal return is dominated by the leftover-edge scan whose positive branch panics; Tarjan: index/low-link bookkeeping, stack-membership test for visited successors, root test, pop-until-self, driver over all unvisited vertices; TopoShortestPath: candidate = dist[u]+w over out-edges in the given order, update only if absent or better; Dijkstra's repair/visited/predecessor discipline. These are necessary conditions on the shape of the algorithms: the partition as a theorem and agreement of the two shortest-path routines on all DAGs are NOT decided.", "Trusted: Go map semantics, container/heap.", "§4 DFSV/KAHN/TARJAN/TOPO/HEAP, §5 C20"),
}

def built(pid):
    """A property is claimed when the checker knows it."""
    try:
        out = subprocess.run([os.path.join(HERE, "bin/argverif"), "-dump", "engines", "-property", pid],
                             capture_output=True, text=True, timeout=120)
    except Exception:
        return False
    return "unknown property" not in out.stderr and "not built" not in out.stderr

def main():
    checks, na = [], []
    for pid in sorted(P):
        tech, text, note, ref = P[pid]
        if built(pid):
            checks.append({
                "property_id": pid,
                "quick_cmd": f"./run.sh {pid} quick",
                "thorough_cmd": f"./run.sh {pid} thorough",
                "evidence_file": f"/verif/evidence/{pid}.json",
                "replay_cmd_template": "./bin/argverif -replay {path}",
                "engine": "argverif",
                "level_claimed": {"category": "other", "text": text, "design_ref": "DESIGN.md " + ref},
                "level_note": note,
                "technique": tech,
            })
        else:
            na.append({"property_id": pid, "reason": "static check designed (DESIGN.md " + ref + ") but its rule engines are not built yet; not claimed until they are"})
    m = {
        "version": 1,
        "setup_cmd": "cd /verif/checker && GOFLAGS=-mod=mod GOPROXY=off GOSUMDB=off GOTOOLCHAIN=local GOWORK=off go build -o /verif/bin/argverif ./cmd/argverif",
        "hooks": {
            "guard": "verif",
            "enable": "none needed: the checker analyses /repo's source with -tags=verif so tagged files would be covered; there are no hook commits",
            "baseline_off_cmd": "cd /repo && GOFLAGS=-mod=mod GOPROXY=off GOSUMDB=off GOTOOLCHAIN=local go test -mod=mod -json -vet=off -count=1 -timeout 25m ./...",
            "source_commits": FIX_COMMITS,
            "add_only": True,
        },
        "engines": [{"name": "argverif", "path": "/verif/checker", "serves_properties": [c["property_id"] for c in checks],
                     "kind_free_text": "custom static analyser over go/packages + go/ssa (x/tools v0.29.0): per-repository rule engines (edge rules, cost model, store audit, error flow, typestate, pairing rules); never executes the target"}],
        "checks": checks,
        "not_applicable": na,
        "notes": "Technique family: static analysis. Every check loads /repo's working tree from source on each run. Level is 'other' everywhere: named structural necessary conditions are decided for all executions of the enumerated constructs; the behaviour itself is not claimed. See DESIGN.md.",
    }
    json.dump(m, open(os.path.join(HERE, "MANIFEST.json"), "w"), indent=1)
    try:
        import jsonschema
        jsonschema.validate(m, json.load(open("/root/.vp/MANIFEST.schema.json")))
        print("MANIFEST.json valid;", len(checks), "checks,", len(na), "not applicable")
    except ImportError:
        print("jsonschema not importable; wrote MANIFEST.json", len(checks), len(na))

if __name__ == "__main__":
    main()
