#!/bin/bash
# mutsweep.sh [outfile]: calibration of the checker against mechanical value-level mutants (comparison and boolean
# operators, +/-, integer literals +-1, boolean literals, dropped negations) of /repo's non-test sources. Each mutant is
# applied to a scratch copy under /tmp (removed at once); mutants that do not compile are skipped; for the others the
# test suite says whether the tests kill it and the checker (all properties, analysis only) whether it is reported.
# Output: one line per compiling mutant: "<tests: killed|survives> <checker: reported by Cxx,..|silent> <description>".
export GOFLAGS=-mod=mod GOPROXY=off GOSUMDB=off GOTOOLCHAIN=local; unset GOWORK
out=${1:-/tmp/mutsweep.txt}
bin=${ARGVERIF:-/verif/bin/argverif}
(cd /verif/checker && go build -o /tmp/mutgen ./cmd/mutgen) || exit 2
/tmp/mutgen /repo > /tmp/mutants.tsv
echo "$(wc -l < /tmp/mutants.tsv) mutants"
one() {
  IFS=$'\t' read -r file off len repl desc <<< "$1"
  s=$(mktemp -d /tmp/mut.XXXXXX); cp -r /repo/. $s/; rm -rf $s/.git
  python3 - "$s/$file" "$off" "$len" "$repl" <<'PY'
import sys
p,off,n,repl=sys.argv[1],int(sys.argv[2]),int(sys.argv[3]),sys.argv[4]
b=open(p,'rb').read(); open(p,'wb').write(b[:off]+repl.encode()+b[off+n:])
PY
  if ! (cd $s && go build ./... 2>/dev/null && go vet -vettool=/bin/true ./... >/dev/null 2>&1 || go build ./... 2>/dev/null); then rm -rf $s; return; fi
  if ! (cd $s && go build ./... 2>/dev/null); then rm -rf $s; return; fi
  t=$(/verif/tools/repotest.sh $s | tail -1)
  case "$t" in "pass=79 fail=0") tv=survives;; *) tv=killed;; esac
  vd=$(mktemp -d /tmp/mutv.XXXXXX); cp /verif/known_findings.json $vd/
  props=$($2 -repo $s -verif $vd -property all 2>&1 | grep -o "VIOLATION property=C[0-9]*" | sort -u | sed 's/VIOLATION property=//' | tr '\n' ',' )
  rm -rf $s $vd
  [ -z "$props" ] && cv=silent || cv="reported:${props%,}"
  echo "$tv $cv $desc"
}
export -f one
cat /tmp/mutants.tsv | xargs -d '\n' -P 12 -I{} bash -c 'one "$1" "$2"' _ {} $bin > $out
sort -o $out $out
echo "compiling mutants: $(wc -l < $out)"
echo "tests kill: $(grep -c '^killed' $out)   tests miss: $(grep -c '^survives' $out)"
echo "of those the tests miss: checker reports $(grep '^survives' $out | grep -c 'reported:')   checker silent $(grep '^survives' $out | grep -c ' silent ')"
echo "of all: checker reports $(grep -c 'reported:' $out)"
