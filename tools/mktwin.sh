#!/bin/bash
# mktwin.sh <seed id> <benign name> <python fix script file>
# Applies the seed's patch to a scratch copy, runs the fix script there (it must repair the behavioural slip, leaving the
# refactoring), checks build + suite + that the seed's demo now PASSES, and stores the resulting diff as a benign patch.
set -u
export GOFLAGS=-mod=mod GOPROXY=off GOSUMDB=off GOTOOLCHAIN=local; unset GOWORK
seed=/verif/seeded/$1; name=$2; fix=$(readlink -f $3)
s=$(mktemp -d /tmp/mut.XXXXXX); cp -r /repo/. $s/
cd $s && git apply $seed/patch.diff || { echo "patch failed"; exit 1; }
python3 $fix || { echo "fix failed"; rm -rf $s; exit 1; }
gofmt -l . >/dev/null
go build ./... || { echo "twin does not compile"; rm -rf $s; exit 1; }
git diff > /tmp/twin.diff
dest=$(cat $seed/DEST | tr -d ' \n'); [ -z "$dest" ] && dest=.
cp $seed/demo_test.go.txt $s/$dest/zz_demo_seed_test.go
demo=$(cd $s/$dest && go test -vet=off -count=1 -run 'Seed|seed' . 2>&1 | grep -v TRACE | grep -E '^(ok|FAIL|---|panic)' | head -2 | tr '\n' ' ')
rm $s/$dest/zz_demo_seed_test.go
suite=$(/verif/tools/repotest.sh $s | tail -1)
mkdir -p /verif/benign/$name; cp /tmp/twin.diff /verif/benign/$name/patch.diff
echo "Repaired twin of seeded/$1: the same refactoring with the behavioural slip corrected by hand (the seed's demonstration passes on it). Suite: $suite." > /verif/benign/$name/note.md
echo "$name: suite[$suite] demo[$demo] lines=$(wc -l < /tmp/twin.diff)"
rm -rf $s
