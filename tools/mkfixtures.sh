#!/bin/bash
# Regenerates /verif/fixtures/<property>-<name>/patch.diff: small hand-written breaking
# changes (from the design-phase calibration), one per rule, used as positive controls in the
# thorough tier next to the independently produced changes under seeded/.
set -u
mk() { # id name file sed-expr
  id=$1; name=$2; file=$3; expr=$4
  tmp=$(mktemp -d /tmp/fx.XXXXXX); mkdir -p $tmp/a/$(dirname $file) $tmp/b/$(dirname $file)
  cp /repo/$file $tmp/a/$file; cp /repo/$file $tmp/b/$file
  sed -i -E "$expr" $tmp/b/$file
  if cmp -s $tmp/a/$file $tmp/b/$file; then echo "NO CHANGE: $id-$name"; rm -rf $tmp; return; fi
  mkdir -p /verif/fixtures/$id-$name
  (cd $tmp && diff -u a/$file b/$file) > /verif/fixtures/$id-$name/patch.diff
  rm -rf $tmp
}
# (hand-written fixtures are kept: nothing is deleted here)
mk C16 named-not-lowered args.go 's/a\.named\[strings\.ToLower\(n\)\] = rv/a.named[n] = rv/'
mk C16 call-options-before-defaults func.go 's/copy\(optsCopy, f\.callOpts\)/copy(optsCopy, opts)/; s/copy\(optsCopy\[len\(f\.callOpts\):\], opts\)/copy(optsCopy[len(opts):], f.callOpts)/'
mk C04 converter-error-wrapped call.go 's/if err := result\.Err\(\); err != nil \{/if err := result.Err(); err != nil {\n\t\t\t\t\terr = fmt.Errorf("converter failed: %w", err)/'
mk C17 haserror-implements result.go 's/return final\.Type\(\) == errType/return final.Type().Implements(errType)/'
mk C19 remove-forgets-mirror internal/graph/graph.go 's/delete\(g\.adjacencyOut\[in\], h\)/_ = in/'
mk C19 copy-aliases-inner-map internal/graph/graph.go '173s/copy := make\(map\[interface\{\}\]int\)/copy := set/'
mk C19 reverse-same-map internal/graph/graph.go 's/adjacencyIn:  g\.adjacencyOut,/adjacencyIn:  g.adjacencyIn,/'
mk C01 zero-outside-planning call.go 's/^\t\tif redefine \{$/\t\tif redefine || true {/'
mk C13 error-drops-inputs call.go 's/^\t\t\tInputs:     inputs,$/\t\t\tInputs:     nil,/'
mk C01 g6-type-check-dropped call.go 's/if !ok \|\| v2\.Name != v\.Name \|\| v2\.Type != v\.Type \|\| v2\.Subtype == "" \{/if !ok || v2.Name != v.Name || v2.Subtype == "" {/'
mk C07 discount-positive graph.go 's/weightMatchingName = -1/weightMatchingName = 1/'
mk C10 err-check-removed convert.go 's/if err := result\.Err\(\); err != nil \{/if err := result.Err(); err != nil \&\& false {/'
mk C13 message-omits-missing error.go 's/for _, arg := range e\.Args \{/for _, arg := range e.Args[:0] {/'
mk C07 discount-on-shared-graph call.go 's/currentG = currentG\.Copy\(\)/currentG = g/'
mk C03 discount-on-shared-graph call.go 's/currentG = currentG\.Copy\(\)/currentG = g/'
mk C09 planner-zeroes-original redefine.go 's/^\t\t\tfCopy := \*v\.Func$/\t\t\tfCopy := v.Func/; s/^\t\t\tv\.Func = &fCopy$/\t\t\tv.Func = fCopy/'
mk C18 heap-fix-removed internal/graph/dijkstra.go 's/heap\.Fix\(&queue, v\.index\)/_ = v.index/'
mk C18 swap-forgets-index internal/graph/dijkstra.go 's/^\tpq\[j\]\.index = j$/\tpq[j].index = i/'
mk C01 hash-drops-subtype graph.go 's/return fmt\.Sprintf\("out: %s\/%s", v\.Type\.String\(\), v\.Subtype\)/return fmt.Sprintf("out: %s\/", v.Type.String())/'
mk C01 assignable-guard-removed call.go 's/if state\.Value\.IsValid\(\) && state\.Value\.Type\(\)\.AssignableTo\(v\.Type\) \{/if state.Value.IsValid() {/'
mk C11 cache-check-disabled call.go 's/if f\.once && f\.onceResult != nil \{/if f.once \&\& f.onceResult != nil \&\& false {/'
mk C02 unsatisfied-threshold call.go '0,/if len\(unsatisfied\) > 0 \{/s//if len(unsatisfied) > 1 {/'
mk C01 implements-reversed call.go 's/if !ok \|\| !v2\.Type\.Implements\(v\.Type\) \{/if !ok || !v.Type.Implements(v2.Type) {/'
mk C08 output-filter-ignored redefine.go 's/^\t\t\terr = multierror\.Append\(err, fmt\.Errorf\($/\t\t\t_ = multierror.Append(err, fmt.Errorf(/'
mk C08 supplied-exclusion-removed redefine.go 's/if _, ok := inputsProvided\[k\]; ok \{/if _, ok := inputsProvided[k]; ok \&\& false {/'
mk C20 dfs-no-mark internal/graph/dfs.go 's/^\tvisited\[v\] = struct\{\}\{\}$/\t_ = visited/'
mk C06 dfs-no-mark internal/graph/dfs.go 's/^\tvisited\[v\] = struct\{\}\{\}$/\t_ = visited/'
mk C06 nil-func-unchecked func.go 's/if !fv\.IsValid\(\) \{/if !fv.IsValid() \&\& false {/'
mk C14 nil-func-unchecked func.go 's/if !fv\.IsValid\(\) \{/if !fv.IsValid() \&\& false {/'
mk C15 lifted-sized-by-type-map value_set.go 's/result := make\(\[\]reflect\.Type, len\(vs\.values\)\)/result := make([]reflect.Type, len(vs.typedValues))/'
mk C06 lifted-sized-by-type-map value_set.go 's/result := make\(\[\]reflect\.Type, len\(vs\.values\)\)/result := make([]reflect.Type, len(vs.typedValues))/'
mk C12 option-writes-captured args.go 's/^\tname := strings\.ToLower\(n\)$/\tname := n/; s/^\t\tif a\.namedSub\[name\] == nil \{/\t\tname = strings.ToLower(name)\n\t\tif a.namedSub[name] == nil {/'
mk C05 chaining-rule-removed call.go '/We need to allow any typed argument to depend on a typed output/,/^\t}$/{s/g\.AddEdgeWeighted\(v, g\.Add\(&typedOutputVertex\{/_ = (\&typedOutputVertex{/; s/^\t\t\}\), weightTyped\)$/\t\t})/}'
ls /verif/fixtures | wc -l
# fixtures/C15-fromsignature-empty-guard-removed and C06-fromsignature-empty-guard-removed are the reverse of fix 25d796e (git diff -R); C08-filter-gate-removed is hand-written: not regenerated here
mk C06 redefine-len-guard-removed redefine.go 's/if len\(out\) == 0 \|\| out\[len\(out\)-1\] != errType/if out[len(out)-1] != errType/'
mk C06 err-len-guard-weakened result.go 's/if len\(r\.out\) > 0 \{/if len(r.out) >= 0 {/'
