#!/bin/bash
# control_one.sh <checker binary> <tree> <known_findings.json> <property id> <positive|negative> <variant dir> <out file>
# One control of the thorough tier (run.sh runs many of these in parallel): the variant's patch.diff is applied to a
# scratch copy of <tree> outside /repo and /verif, the copy is analysed (never executed) and removed at once; one JSON
# object describing the outcome is written to <out file>.
set -u
bin=$1; repo=$2; known=$3; id=$4; kind=$5; dir=$6; out=$7
name=$(basename "$dir")
# Machine-wide limit: thorough checks of several properties may be started side by side, and every one of them runs
# VERIF_JOBS workers; a worker starts only while it holds one of <cores> slots (a lock file created on demand, released
# when this process ends), so the analyses in flight never exceed the cores whatever was started (≈0.3 GB each).
slots=${VERIF_SLOTS:-$(nproc 2>/dev/null || echo 4)}
[ "$slots" -ge 1 ] 2>/dev/null || slots=4
if command -v flock >/dev/null 2>&1 && mkdir -p /tmp/argverif-slots 2>/dev/null; then
  while :; do
    i=1
    while [ $i -le "$slots" ]; do
      exec 9>"/tmp/argverif-slots/$i.lock" && flock -n 9 && break 2
      i=$((i+1))
    done
    sleep 0.2
  done
fi
scratch=$(mktemp -d /tmp/argverif-ctl.XXXXXX)
vd=$(mktemp -d /tmp/argverif-ctlv.XXXXXX)
child=
cleanup() {
  # stopped from outside (run.sh interrupted): the step in flight is ended first, so that nothing writes into the
  # scratch copy while it is being removed
  if [ -n "$child" ]; then kill -TERM "$child" 2>/dev/null; wait "$child" 2>/dev/null; fi
  rm -rf "$scratch" "$vd"
}
trap cleanup EXIT
trap 'exit 143' INT TERM HUP
if command -v rsync >/dev/null 2>&1; then
  rsync -a --exclude=/.git "$repo"/ "$scratch"/ 2>/dev/null & child=$!; wait $child; child=
else
  cp -r "$repo"/. "$scratch"/ 2>/dev/null & child=$!; wait $child; child=
fi
rm -rf "$scratch/.git"
status=skipped-patch-does-not-apply; rules=""
if (cd "$scratch" && patch -p1 -s --no-backup-if-mismatch < "$dir/patch.diff" >/dev/null 2>&1); then
  cp "$known" "$vd/" 2>/dev/null
  "$bin" -repo "$scratch" -verif "$vd" -property "$id" -tier quick > "$vd/out.txt" 2>&1 & child=$!
  wait $child; rc=$?; child=
  res=$(cat "$vd/out.txt")
  rules=$(echo "$res" | grep -oE "rule=[A-Z0-9-]+" | sort -u | sed 's/rule=//' | tr '\n' ' ')
  if [ "$kind" = positive ]; then
    if [ $rc -eq 1 ]; then status=reported; elif [ $rc -eq 2 ]; then status=not-analysable; else status=MISSED; fi
  else
    if [ $rc -eq 0 ]; then status=silent; elif [ $rc -eq 2 ]; then status=not-analysable; else status=reported-though-benign; fi
  fi
fi
if [ "$kind" = positive ]; then
  printf '{"control":"%s","status":"%s","rules":"%s"}' "$name" "$status" "$rules" > "$out.part"
else
  printf '{"control":"%s","kind":"negative","status":"%s","rules":"%s"}' "$name" "$status" "$rules" > "$out.part"
fi
mv "$out.part" "$out"
