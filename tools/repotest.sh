#!/bin/bash
# Runs the pinned test suite of a go-argmapper tree (default /repo) and prints pass/fail counts.
dir=${1:-/repo}
export GOFLAGS=-mod=mod GOPROXY=off GOSUMDB=off GOTOOLCHAIN=local; unset GOWORK
cd "$dir" || exit 2
out=$(go test -mod=mod -json -vet=off -count=1 -timeout 25m ./... 2>&1)
pass=$(echo "$out" | grep -c '"Action":"pass".*"Test"')
fail=$(echo "$out" | grep -c '"Action":"fail"')
echo "pass=$pass fail=$fail"
[ "$fail" = 0 ] && [ "$pass" -ge 79 ]
