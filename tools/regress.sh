#!/bin/bash
# regress.sh [binary] : the whole regression — current tree silent, every seed and fixture reported, benign variants silent.
export ARGVERIF=${1:-${ARGVERIF:-/verif/bin/argverif}}
cd /verif
echo "== /repo"; tools/allprops.sh /repo
tools/seedmatrix.sh > /tmp/seedmatrix.txt 2>&1; echo "== seeds reported by own check: $(grep -c fires=yes /tmp/seedmatrix.txt)/$(ls seeded | wc -l)"; grep -v fires=yes /tmp/seedmatrix.txt
tools/fixturecheck.sh > /tmp/fixtures.txt 2>&1; echo "== fixtures reported: $(grep -c rc=1 /tmp/fixtures.txt)/$(ls -d fixtures/C* | wc -l)"; grep -v rc=1 /tmp/fixtures.txt
tools/refactorcheck.sh > /tmp/benign.txt 2>&1; echo "== benign silent: $(grep -c silent /tmp/benign.txt)/$(ls -d benign/*/ | wc -l)"; grep -v silent /tmp/benign.txt
