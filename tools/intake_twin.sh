#!/bin/bash
# intake_twin.sh <Txx worktree name> <label>: takes /tmp/wt/<Txx>/case{A,B}/twin.diff produced by a sub-agent (the repaired
# version of seeded/Cxx-seed22 / -seed23: same modernisation, slip corrected), checks on a scratch copy that it applies,
# builds, keeps the suite green and makes the seed's demonstration pass, stores it as /verif/benign/<label>-Cxx-seedNN
# and runs every check on it (must be silent).
export GOFLAGS=-mod=mod GOPROXY=off GOSUMDB=off GOTOOLCHAIN=local; unset GOWORK
t=$1; label=$2; xx=${t#T}
for pair in ${PAIRS:-A:22 B:23}; do
  c=${pair%%:*}; n=${pair##*:}; d=/tmp/wt/$t/case$c
  [ -f $d/twin.diff ] || continue
  name=$label-C$xx-seed$n
  s=$(mktemp -d /tmp/mut.XXXXXX); cp -r /repo/. $s/
  if ! (cd $s && git apply $d/twin.diff 2>/dev/null); then echo "$name: TWIN DOES NOT APPLY"; rm -rf $s; continue; fi
  if ! (cd $s && go build ./... 2>/dev/null); then echo "$name: DOES NOT COMPILE"; rm -rf $s; continue; fi
  dest=$(cat $d/DEST | tr -d ' \n'); [ -z "$dest" ] && dest=.
  cp $d/demo_test.go.txt $s/$dest/zz_demo_seed_test.go
  demo=$(cd $s/$dest && go test -vet=off -count=1 -run 'Seed|seed' . 2>&1 | grep -v TRACE | grep -E '^(ok|FAIL|---|panic)' | head -2 | tr '\n' ' ')
  rm $s/$dest/zz_demo_seed_test.go
  suite=$(/verif/tools/repotest.sh $s | tail -1)
  rm -rf $s
  case "$suite" in "pass=79 fail=0") ;; *) echo "$name: SUITE $suite"; continue;; esac
  case "$demo" in ok*) ;; *) echo "$name: DEMO STILL FAILS: $demo"; continue;; esac
  dest2=/verif/benign/$name; mkdir -p $dest2; cp $d/twin.diff $dest2/patch.diff
  { echo "Repaired twin of seeded/C$xx-seed$n, made by a sub-agent that was given the seed's patch, notes and demonstration: the same modernisation with the slip corrected (the seed's demonstration passes on it). Suite: $suite."; cat $d/twin-note.md 2>/dev/null; } > $dest2/note.md
  /verif/tools/refactorcheck.sh --one $dest2
done
