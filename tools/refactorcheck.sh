#!/bin/bash
# refactorcheck.sh <dir with */patch.diff> : behaviour-preserving variants must stay silent.
export GOFLAGS=-mod=mod GOPROXY=off GOSUMDB=off GOTOOLCHAIN=local; unset GOWORK
props=$(python3 -c "import json;print(' '.join(c['property_id'] for c in json.load(open('/verif/MANIFEST.json'))['checks']))")
for d in ${1:-/verif/benign}/*; do
  [ -f $d/patch.diff ] || continue
  scratch=$(mktemp -d /tmp/mut.XXXXXX); cp -r /repo/. $scratch/; rm -rf $scratch/.git
  (pp=$(readlink -f $d/patch.diff); cd $scratch && patch -p1 -s < $pp) || { echo "$(basename $d): PATCH FAILED"; rm -rf $scratch; continue; }
  (cd $scratch && go build ./... 2>/dev/null) || { echo "$(basename $d): NOCOMPILE"; rm -rf $scratch; continue; }
  vd=$(mktemp -d /tmp/mutv.XXXXXX); cp /verif/known_findings.json $vd/
  alarms=""
  for p in $props; do
    out=$(${ARGVERIF:-/verif/bin/argverif} -repo $scratch -verif $vd -property $p 2>&1); rc=$?
    if [ $rc -ne 0 ]; then
      rules=$(echo "$out" | grep -oE "rule=[A-Z0-9-]+" | sort -u | sed 's/rule=//' | tr '\n' ',')
      alarms="$alarms $p[$rules]"
    fi
  done
  echo "$(basename $d): ${alarms:-silent}"
  rm -rf $scratch $vd
done
