#!/bin/bash
# refactorcheck.sh [dir with */patch.diff] : behaviour-preserving variants must stay silent.
# Each variant is applied to a scratch copy of /repo; variants are processed 8 at a time.
export GOFLAGS=-mod=mod GOPROXY=off GOSUMDB=off GOTOOLCHAIN=local; unset GOWORK
if [ "$1" = "--one" ]; then
  d=$2
  scratch=$(mktemp -d /tmp/mut.XXXXXX); cp -r /repo/. $scratch/; rm -rf $scratch/.git
  (pp=$(readlink -f $d/patch.diff); cd $scratch && patch -p1 -s < $pp) || { echo "$(basename $d): PATCH FAILED"; rm -rf $scratch; exit 0; }
  (cd $scratch && go build ./... 2>/dev/null) || { echo "$(basename $d): NOCOMPILE"; rm -rf $scratch; exit 0; }
  alarms=$(/verif/tools/allprops.sh $scratch)
  echo "$(basename $d): ${alarms:-silent}"
  rm -rf $scratch
  exit 0
fi
ls -d ${1:-/verif/benign}/*/ | sed 's,/$,,' | xargs -P 8 -I{} /verif/tools/refactorcheck.sh --one {} | sort -V
