// argverif decides structural clauses of go-argmapper's semantic properties by
// static analysis of /repo's current source (type-checked AST + SSA). It never
// runs code of the target.
//
//	argverif -repo /repo -property C07 -tier quick
//	argverif -replay /verif/replay/C07-PRIO-W-ab12cd34ef.json
//	argverif -dump roles|edges|obs
package main

import (
	"encoding/json"
	"flag"
	"fmt"
	"os"
	"path/filepath"
	"runtime/debug"
	"sort"
	"strconv"
	"strings"
	"time"

	"argverif/internal/core"
	"argverif/internal/rules"
)

type replayFile struct {
	Property  string          `json:"property"`
	Rule      string          `json:"rule"`
	Key       string          `json:"key"`
	Construct string          `json:"construct"`
	Position  string          `json:"position"`
	Expected  string          `json:"expected"`
	Found     string          `json:"found"`
	Guards    []string        `json:"guards,omitempty"`
	Verdict   string          `json:"verdict"`
	Repo      string          `json:"repo"`
	Note      string          `json:"note"`
	Raw       json.RawMessage `json:"-"`
}

func main() {
	repo := flag.String("repo", "/repo", "target repository (analysed from source on every run)")
	prop := flag.String("property", "", "property id (C01..C20) or 'all'")
	tier := flag.String("tier", "quick", "quick | thorough")
	verif := flag.String("verif", "/verif", "verification directory (evidence/, replay/, known_findings.json)")
	replay := flag.String("replay", "", "re-evaluate the obligation recorded in this replay file")
	dump := flag.String("dump", "", "debug: roles | obs | engines")
	fixtures := flag.String("fixture", "", "unused")
	controls := flag.String("controls", "", "JSON file with the results of the controls run by run.sh (thorough tier), embedded in the evidence; 'pending' = they are still running")
	flag.Parse()

	if *fixtures != "" {
		os.Exit(runFixture(*fixtures))
	}

	if *replay != "" {
		b, err := os.ReadFile(*replay)
		if err != nil {
			fmt.Fprintln(os.Stderr, "argverif: cannot read replay file:", err)
			os.Exit(2)
		}
		var rf replayFile
		if err := json.Unmarshal(b, &rf); err != nil {
			fmt.Fprintln(os.Stderr, "argverif: bad replay file:", err)
			os.Exit(2)
		}
		os.Exit(run(*repo, rf.Property, *tier, *verif, rf.Key, "", ""))
	}

	if *prop == "" && *dump == "" {
		flag.Usage()
		os.Exit(2)
	}
	if *prop == "all" {
		rc := 0
		for _, id := range rules.PropertyIDs() {
			if c := run(*repo, id, *tier, *verif, "", *dump, *controls); c > rc {
				rc = c
			}
		}
		os.Exit(rc)
	}
	os.Exit(run(*repo, *prop, *tier, *verif, "", *dump, *controls))
}

// loaded keeps the analysed program between the properties of one
// "-property all" invocation; the source is still read once per process.
var loaded = map[string]*core.Prog{}

func load(repo string) (*core.Prog, error) {
	if p := loaded[repo]; p != nil {
		core.Active = p
		return p, nil
	}
	p, err := core.Load(repo, "verif")
	if err == nil {
		loaded[repo] = p
	}
	return p, err
}

func seed() int {
	if s := os.Getenv("VERIF_SEED"); s != "" {
		if n, err := strconv.Atoi(s); err == nil {
			return n
		}
	}
	return 0
}

func run(repo, prop, tier, verif, onlyKey, dump, controls string) int {
	start := time.Now()
	if t := os.Getenv("VERIF_TIER"); t != "" && tier == "" {
		tier = t
	}
	p, err := load(repo)
	if err != nil {
		fmt.Fprintln(os.Stderr, "argverif: cannot analyse target:", err)
		return 2
	}
	if dump == "roles" {
		for _, r := range []string{"Call", "Redefine", "Convert", "executor", "resolver", "graphBuilder", "inputBuilder",
			"funcBuilder", "outputMapper", "planner", "optionApplier", "defaultsMerger", "structWalker", "lifter",
			"convertMulti", "resultAdapter", "zeroBody", "outputValidator"} {
			f, err := p.Role(r)
			if err != nil {
				fmt.Printf("%-16s ERROR %v\n", r, err)
			} else {
				fmt.Printf("%-16s %s (%s)\n", r, core.FuncName(f), p.Pos(f.Pos()))
			}
		}
		return 0
	}

	spec := rules.Property(prop)
	if spec == nil {
		fmt.Fprintf(os.Stderr, "argverif: unknown property %q\n", prop)
		return 2
	}
	if dump == "engines" {
		for _, en := range spec.Engines {
			if rules.Get(en) == nil {
				fmt.Fprintf(os.Stderr, "argverif: engine %s not built\n", en)
				return 2
			}
		}
		fmt.Println(prop, "engines:", strings.Join(spec.Engines, ","), "rules:", strings.Join(spec.Rules, ","))
		return 0
	}
	rep := core.NewReport()
	ctx := &rules.Ctx{P: p, R: rep, Tier: tier}
	floors := map[string]int{}
	for _, en := range spec.Engines {
		e := rules.Get(en)
		if e == nil {
			fmt.Fprintf(os.Stderr, "argverif: engine %s not built\n", en)
			return 2
		}
		func() {
			defer func() {
				if r := recover(); r != nil {
					rep.Undecided(e.Name+"-INTERNAL", "engine|"+e.Name, e.Name, "-",
						fmt.Sprintf("engine could not classify the code (internal error: %v) %s", r, firstFrames(debug.Stack())))
				}
			}()
			e.Run(ctx)
		}()
		for k, v := range e.Floor {
			floors[k] = v
		}
	}
	// select this property's obligations
	var obs []core.Obligation
	count := map[string]int{}
	for _, o := range rep.Obs {
		if core.RuleMatches(o.Rule, spec.Rules) || strings.HasSuffix(o.Rule, "-INTERNAL") {
			obs = append(obs, o)
			count[o.Rule]++
		}
	}
	// floors: a rule that matched nothing passes vacuously forever — refuse that
	for rule, min := range floors {
		if !core.RuleMatches(rule, spec.Rules) {
			continue
		}
		if count[rule] < min {
			obs = append(obs, core.Obligation{Rule: rule, Key: rule + "|floor", Construct: "(whole program)", Pos: "-",
				Verdict: core.Undecided, Expected: fmt.Sprintf("at least %d instance(s) of rule %s in the source", min, rule),
				Found: fmt.Sprintf("%d", count[rule])})
			count[rule]++
		}
	}
	core.SortObs(obs)

	if dump == "obs" {
		for _, o := range obs {
			fmt.Printf("%-10s %-11s %s  [%s] %s\n", o.Rule, o.Verdict, o.Key, o.Pos, o.Found)
		}
	}

	known, err := core.LoadKnown(filepath.Join(verif, "known_findings.json"))
	if err != nil {
		fmt.Fprintln(os.Stderr, "argverif: cannot read known_findings.json:", err)
		return 2
	}

	violations, knownN, discharged := 0, 0, 0
	var samples []interface{}
	ruleInst := map[string]map[string]int{}
	for i := range obs {
		o := &obs[i]
		if onlyKey != "" && o.Key != onlyKey {
			continue
		}
		if ruleInst[o.Rule] == nil {
			ruleInst[o.Rule] = map[string]int{}
		}
		ruleInst[o.Rule]["obligations"]++
		switch o.Verdict {
		case core.OK:
			discharged++
			ruleInst[o.Rule]["discharged"]++
		default:
			if f := known.Match(prop, *o); f != nil {
				knownN++
				o.Verdict = "known-finding"
				fmt.Printf("KNOWN-FINDING: property=%s %s — %s [%s at %s]\n", prop, f.What, o.Found, o.Key, o.Pos)
			} else {
				violations++
				rp := filepath.Join(verif, "replay", fmt.Sprintf("%s-%s-%s.json", prop, o.Rule, core.KeyHash(o.Key)))
				_ = core.WriteJSON(rp, replayFile{Property: prop, Rule: o.Rule, Key: o.Key, Construct: o.Construct,
					Position: o.Pos, Expected: o.Expected, Found: o.Found, Guards: o.Guards, Verdict: o.Verdict, Repo: repo,
					Note: "re-evaluate with: argverif -replay <this file>"})
				fmt.Printf("VIOLATION property=%s replay=%s\n", prop, rp)
				fmt.Printf("  rule=%s construct=%s at %s\n  expected: %s\n  found:    %s\n", o.Rule, o.Construct, o.Pos, o.Expected, o.Found)
			}
		}
		samples = append(samples, o)
	}
	if onlyKey != "" {
		if violations == 0 {
			fmt.Printf("replay: obligation %s is not violated on the current tree\n", onlyKey)
		}
		if violations > 0 {
			return 1
		}
		return 0
	}
	for rule, min := range floors {
		if core.RuleMatches(rule, spec.Rules) {
			if ruleInst[rule] == nil {
				ruleInst[rule] = map[string]int{}
			}
			ruleInst[rule]["floor"] = min
		}
	}

	var fns []string
	for f := range rep.Funcs {
		fns = append(fns, f)
	}
	sort.Strings(fns)
	notes := map[string][]string{}
	for r, n := range rep.Notes {
		if core.RuleMatches(r, spec.Rules) {
			notes[r] = n
		}
	}
	ev := core.Evidence{
		PropertyID: prop, Tier: tier, Seed: seed(), Level: "other",
		Coverage: map[string]interface{}{
			"explanation":        spec.Explanation,
			"not_decided":        spec.NotDecided,
			"obligations":        len(obs),
			"discharged":         discharged,
			"known_findings":     knownN,
			"functions_analysed": fns,
			"functions_count":    len(fns),
			"packages_loaded":    len(p.Pkgs),
			"source_functions":   len(p.Funcs),
			"rule_instances":     ruleInst,
			"rules":              spec.Rules,
			"analysed":           notes,
			"samples":            samples,
			"exhaustive":         true,
			"checker_cmd":        fmt.Sprintf("/verif/bin/argverif -repo %s -property %s -tier %s", repo, prop, tier),
			"trusted_base":       []string{"go/types and go/ssa of golang.org/x/tools v0.29.0", "Go map/slice semantics", "reflect, hclog, multierror behave as documented"},
		},
		Assumptions: spec.Assumptions,
		WallS:       time.Since(start).Seconds(),
		Violations:  violations,
	}
	if controls == "pending" {
		// first pass of the thorough tier (run.sh): the tree is decided, the controls are still being analysed;
		// this file is replaced when they have finished
		ev.Coverage["controls"] = "pending: the verdict on the tree is complete; the positive and negative controls of the thorough tier were still running when this file was written"
	} else if controls != "" {
		if b, err := os.ReadFile(controls); err == nil {
			var cs []map[string]string
			if json.Unmarshal(b, &cs) == nil {
				var pos, neg []map[string]string
				n, silent := 0, 0
				for _, c := range cs {
					if c["kind"] == "negative" {
						neg = append(neg, c)
						if c["status"] == "silent" {
							silent++
						}
						continue
					}
					pos = append(pos, c)
					if c["status"] == "reported" {
						n++
					}
				}
				ev.Coverage["positive_controls"] = pos
				ev.Coverage["positive_controls_reported"] = n
				ev.Coverage["negative_controls"] = neg
				ev.Coverage["negative_controls_silent"] = silent
			}
		}
	}
	if err := core.WriteJSON(filepath.Join(verif, "evidence", prop+".json"), ev); err != nil {
		fmt.Fprintln(os.Stderr, "argverif: cannot write evidence:", err)
		return 2
	}
	fmt.Printf("property=%s tier=%s obligations=%d discharged=%d known=%d violations=%d functions=%d wall=%.1fs\n",
		prop, tier, len(obs), discharged, knownN, violations, len(fns), time.Since(start).Seconds())
	if violations > 0 {
		return 1
	}
	return 0
}

func firstFrames(st []byte) string {
	lines := strings.Split(string(st), "\n")
	var keep []string
	for _, l := range lines {
		if strings.Contains(l, "argverif/internal/rules") && strings.Contains(l, ".go:") {
			keep = append(keep, strings.TrimSpace(l))
			if len(keep) == 3 {
				break
			}
		}
	}
	return strings.Join(keep, " <- ")
}

// runFixture analyses a fixture package with one engine and expects at least
// one violated obligation (positive control). Exit 0 if the control fired.
func runFixture(arg string) int {
	fmt.Fprintln(os.Stderr, "fixtures are driven by run.sh; see /verif/fixtures")
	_ = arg
	return 2
}
