// mutgen lists mechanical value-level mutants of the non-test Go sources of a repository: one line per mutant,
// "file<TAB>offset<TAB>length<TAB>replacement<TAB>description". It is a calibration aid for the checker (tools/mutsweep.sh
// applies each mutant to a scratch copy, never to the repository), not part of any deciding step.
package main

import (
	"fmt"
	"go/ast"
	"go/parser"
	"go/token"
	"os"
	"path/filepath"
	"strconv"
	"strings"
)

func main() {
	root := os.Args[1]
	var files []string
	for _, dir := range []string{root, filepath.Join(root, "internal", "graph")} {
		ms, _ := filepath.Glob(filepath.Join(dir, "*.go"))
		for _, m := range ms {
			if !strings.HasSuffix(m, "_test.go") {
				files = append(files, m)
			}
		}
	}
	swap := map[token.Token]string{
		token.EQL: "!=", token.NEQ: "==", token.LSS: "<=", token.LEQ: "<", token.GTR: ">=", token.GEQ: ">",
		token.LAND: "||", token.LOR: "&&", token.ADD: "-", token.SUB: "+",
	}
	for _, fn := range files {
		fset := token.NewFileSet()
		f, err := parser.ParseFile(fset, fn, nil, 0)
		if err != nil {
			fmt.Fprintln(os.Stderr, err)
			os.Exit(2)
		}
		rel, _ := filepath.Rel(root, fn)
		emit := func(pos token.Pos, n int, repl, desc string) {
			p := fset.Position(pos)
			fmt.Printf("%s\t%d\t%d\t%s\t%s:%d %s\n", rel, p.Offset, n, repl, rel, p.Line, desc)
		}
		var fnName string
		ast.Inspect(f, func(n ast.Node) bool {
			switch x := n.(type) {
			case *ast.FuncDecl:
				fnName = x.Name.Name
			case *ast.BinaryExpr:
				if r, ok := swap[x.Op]; ok {
					// string concatenation is not arithmetic
					if x.Op == token.ADD {
						if bl, ok := x.X.(*ast.BasicLit); ok && bl.Kind == token.STRING {
							return true
						}
						if bl, ok := x.Y.(*ast.BasicLit); ok && bl.Kind == token.STRING {
							return true
						}
					}
					emit(x.OpPos, len(x.Op.String()), r, fmt.Sprintf("%s: %s -> %s", fnName, x.Op, r))
				}
			case *ast.BasicLit:
				if x.Kind == token.INT {
					if v, err := strconv.ParseInt(x.Value, 0, 64); err == nil {
						emit(x.Pos(), len(x.Value), strconv.FormatInt(v+1, 10), fmt.Sprintf("%s: %s -> %d", fnName, x.Value, v+1))
						if v > 0 {
							emit(x.Pos(), len(x.Value), strconv.FormatInt(v-1, 10), fmt.Sprintf("%s: %s -> %d", fnName, x.Value, v-1))
						}
					}
				}
			case *ast.Ident:
				if x.Name == "true" {
					emit(x.Pos(), 4, "false", fnName+": true -> false")
				}
				if x.Name == "false" {
					emit(x.Pos(), 5, "true", fnName+": false -> true")
				}
			case *ast.UnaryExpr:
				if x.Op == token.NOT {
					emit(x.OpPos, 1, "", fnName+": drop !")
				}
			}
			return true
		})
	}
}
