package rules

import (
	"fmt"
	"go/token"
	"go/types"
	"regexp"
	"sort"
	"strings"

	"argverif/internal/core"

	"golang.org/x/tools/go/ssa"
)

// IMMUT / SHARED / ALIAS / HASH — the write audit (C01, C09, C11, C12). DESIGN §4.
//
// Every Store, MapUpdate, delete and append-into-existing-backing in both
// packages is enumerated and classified by the owner of the written memory.

func init() {
	register(&Engine{
		Name: "SHARED",
		Doc:  "exhaustive write audit with ownership classes; label immutability; Result.out aliasing; hash completeness",
		Run:  runShared,
		Floor: map[string]int{
			"SHARED-W": 30, "SHARED-E": 3, "SHARED-G": 2, "SHARED-C": 10, "SHARED-P": 1, "IMMUT": 10, "ALIAS": 1, "HASH": 4,
		},
	})
}

// perCall lists struct types all of whose instances belong to one call
// (created downstream of Call/Convert/Redefine or inside one graph algorithm
// run). SHARED-E checks they never leak into shared owners.
var perCallTypes = map[string]string{
	"argBuilder":          "built by the option applier for one call",
	"callState":           "created by Call/Redefine for one resolution",
	"graph.Graph":         "the per-call resolution graph and its private copies",
	"structValue":         "argument struct of one execution",
	"graph.distQueueItem": "one Dijkstra run",
	"graph.distQueue":     "one Dijkstra run",
	"graph.sccAcct":       "one Tarjan run",
}

// sharedRoots are the types whose instances outlive a call and may be shared by goroutines.
var sharedRoots = []string{"Func", "ValueSet", "Value"}

type ownership struct {
	perCall map[string]bool
	shared  map[string]bool
	derived []string // per-call by the structural rule (not in the reviewed table)
	escaped []string // listed per-call types with an instance that outlives its creating call
}

func (c *Ctx) ownership() *ownership {
	if v, ok := c.memo["ownership"]; ok {
		return v.(*ownership)
	}
	p := c.P
	o := &ownership{perCall: map[string]bool{}, shared: map[string]bool{}}
	for k := range perCallTypes {
		// a listed per-call type stays per-call only while no instance is captured by a function value that outlives
		// its creator (a prepared builder kept inside a generated function is shared by all its calls)
		if !c.typeEscapes(k) {
			o.perCall[k] = true
		} else {
			o.escaped = append(o.escaped, k)
		}
	}
	if k, err := p.VertexKinds(); err == nil {
		for _, n := range k.All {
			o.perCall[n] = true
		}
	}
	// shared = closure of the roots over field types (named structs of the target packages)
	var visit func(t types.Type)
	visit = func(t types.Type) {
		s, n := core.StructOf(t)
		if s == nil || n == nil {
			switch u := t.(type) {
			case *types.Slice:
				visit(u.Elem())
			case *types.Map:
				visit(u.Key())
				visit(u.Elem())
			case *types.Array:
				visit(u.Elem())
			}
			return
		}
		if n.Obj().Pkg() == nil || !(n.Obj().Pkg().Path() == core.ArgPath || n.Obj().Pkg().Path() == core.GraphPath) {
			return
		}
		name := core.TypeStr(n)
		if o.shared[name] {
			return
		}
		o.shared[name] = true
		for i := 0; i < s.NumFields(); i++ {
			visit(s.Field(i).Type())
		}
	}
	for _, r := range sharedRoots {
		if m, ok := p.Arg.Members[r].(*ssa.Type); ok {
			visit(m.Type())
		}
	}
	// structural extension: an unexported named type of the target packages that is not reachable from the shared
	// roots cannot be reached through them; its instances live in locals of one activation (globals and captured
	// variables are covered by SHARED-G / SHARED-C). New local helper types (work lists, walk states) are per-call.
	for _, pkg := range []*ssa.Package{p.Arg, p.Graph} {
		for _, m := range pkg.Members {
			t, ok := m.(*ssa.Type)
			if !ok || t.Object().Exported() {
				continue
			}
			name := core.TypeStr(t.Type())
			if !o.shared[name] && !o.perCall[name] && !c.typeEscapes(name) {
				o.perCall[name] = true
				o.derived = append(o.derived, name)
			}
		}
	}
	sort.Strings(o.derived)
	if c.memo == nil {
		c.memo = map[string]interface{}{}
	}
	c.memo["ownership"] = o
	return o
}

// typeEscapes: an object of the named type is captured by a function value that outlives its creator (a closure or
// bound method handed to code outside the module, returned or stored), or is stored into a field of another object —
// its instances are then reachable from later calls and cannot be treated as per-call memory.
func (c *Ctx) typeEscapes(name string) bool {
	p := c.P
	isT := func(v ssa.Value) bool { return core.NamedOf(v.Type()) == name }
	esc := false
	for _, f := range p.Funcs {
		core.Instrs(f, func(in ssa.Instruction) {
			switch x := in.(type) {
			case *ssa.MakeClosure:
				captures := false
				for _, b := range x.Bindings {
					if isT(b) {
						captures = true
					}
					// captured by reference: the binding is the address of a local holding the object
					if al, ok := b.(*ssa.Alloc); ok {
						if pt, ok := al.Type().(*types.Pointer); ok && core.NamedOf(pt.Elem()) == name {
							captures = true
						}
					}
				}
				if !captures {
					return
				}
				fn, _ := x.Fn.(*ssa.Function)
				if fn != nil && fn.Synthetic == "" && fn.Parent() != nil && !c.escapingClosure(fn) {
					return // a local helper closure
				}
				// bound method value or escaping literal: does the function value leave this activation?
				for _, u := range core.Users(x) {
					if !c.localUse(u, x) {
						// returned by a private step whose every caller merely hands the function value on to a local use
						// (`d.cb(v, d.descend(w))`)
						if ret, isRet := u.(*ssa.Return); isRet && c.returnedToLocalUses(ret) {
							continue
						}
						esc = true
					}
				}
			case *ssa.Store:
				if isT(x.Val) {
					if fr, ok := core.AsFieldAddr(x.Addr); ok && fr.Owner != name {
						if !p.FreshIn(x.Addr) || c.ownershipSharedName(fr.Owner) {
							esc = true
						}
					}
				}
			}
		})
	}
	return esc
}

// ownershipSharedName: name is one of the shared roots' closure (computed without the derived per-call set).
func (c *Ctx) ownershipSharedName(name string) bool {
	for _, r := range sharedRoots {
		if r == name {
			return true
		}
	}
	return false
}

type write struct {
	fn     *ssa.Function
	in     ssa.Instruction
	kind   string    // store | mapupdate | delete | append
	target ssa.Value // address (store) or container (map/slice)
	val    ssa.Value
	desc   string
}

func enumerateWrites(f *ssa.Function) []write {
	var out []write
	core.Instrs(f, func(in ssa.Instruction) {
		switch x := in.(type) {
		case *ssa.Store:
			out = append(out, write{fn: f, in: in, kind: "store", target: x.Addr, val: x.Val})
		case *ssa.MapUpdate:
			out = append(out, write{fn: f, in: in, kind: "mapupdate", target: x.Map, val: x.Value})
		case ssa.CallInstruction:
			switch core.CalleeName(x.Common()) {
			case "builtin.delete":
				out = append(out, write{fn: f, in: in, kind: "delete", target: x.Common().Args[0]})
			case "builtin.append":
				out = append(out, write{fn: f, in: in, kind: "append", target: x.Common().Args[0]})
			case "builtin.copy":
				out = append(out, write{fn: f, in: in, kind: "copy-into", target: x.Common().Args[0]})
			case "sort.Slice", "sort.SliceStable", "sort.Sort", "sort.Stable", "sort.Strings", "sort.Ints", "math/rand.Shuffle":
				// sorting permutes the elements of the slice it is handed in place
				t := x.Common().Args[0]
				if mi, ok := t.(*ssa.MakeInterface); ok {
					t = mi.X
				}
				out = append(out, write{fn: f, in: in, kind: "sort-in-place", target: t})
			default:
				// the generic library forms that permute, shift or zero the elements of the slice they are handed
				if pk, fn := core.StdCallee(x.Common().StaticCallee()); pk == "slices" && len(x.Common().Args) > 0 {
					switch fn {
					case "Sort", "SortFunc", "SortStableFunc", "Reverse", "Insert", "Delete", "DeleteFunc", "Compact", "CompactFunc", "Replace":
						out = append(out, write{fn: f, in: in, kind: "sort-in-place", target: x.Common().Args[0]})
					}
				}
			}
		}
	})
	return out
}

// ownerOf names the struct type that owns the written memory, the role of the
// root it is reached from, and a stable descriptor.
func ownerOf(w write) (owner, field, rootKind string) {
	v := w.target
	// peel to find the innermost owning struct field
	for i := 0; i < 30; i++ {
		switch x := v.(type) {
		case *ssa.FieldAddr:
			fr, _ := core.AsFieldAddr(x)
			if owner == "" {
				owner, field = fr.Owner, fr.Field
			}
			v = x.X
			continue
		case *ssa.IndexAddr:
			v = x.X
			continue
		case *ssa.Slice:
			v = x.X
			continue
		case *ssa.Lookup:
			v = x.X
			continue
		case *ssa.Extract:
			if l, ok := x.Tuple.(*ssa.Lookup); ok {
				v = l.X
				continue
			}
			if n, ok := x.Tuple.(*ssa.Next); ok {
				if r, ok := n.Iter.(*ssa.Range); ok {
					v = r.X
					continue
				}
			}
		case *ssa.UnOp:
			if x.Op == token.MUL {
				if fa, ok := x.X.(*ssa.FieldAddr); ok {
					v = fa
					continue
				}
				if ia, ok := x.X.(*ssa.IndexAddr); ok {
					v = ia
					continue
				}
				if al, ok := x.X.(*ssa.Alloc); ok {
					if s := core.SingleStore(al); s != nil {
						v = s
						continue
					}
					v = al
				} else {
					v = x.X // free var / global / other pointer
				}
			}
		case *ssa.ChangeType:
			v = x.X
			continue
		case *ssa.MakeInterface:
			v = x.X
			continue
		case *ssa.Phi:
			// take any non-nil edge (all edges are checked for freshness separately)
			for _, e := range x.Edges {
				if !core.IsNilConst(e) && e != ssa.Value(x) {
					v = e
					break
				}
			}
			if v != ssa.Value(x) {
				continue
			}
		}
		break
	}
	switch r := v.(type) {
	case *ssa.Parameter:
		rootKind = "parameter"
		if owner == "" {
			owner = core.NamedOf(r.Type())
		}
	case *ssa.FreeVar:
		rootKind = "captured"
	case *ssa.Global:
		rootKind = "global:" + r.Name()
	case *ssa.Alloc:
		rootKind = "local"
	case *ssa.Call:
		rootKind = "call-result"
	default:
		rootKind = fmt.Sprintf("%T", v)
	}
	return
}

// escapingClosure reports whether function literal fn can outlive or be shared
// beyond the activation that created it: it is returned, stored, or handed to
// code outside the target (reflect.MakeFunc). A literal only passed to an
// in-target function that merely calls it is local.
func (c *Ctx) escapingClosure(fn *ssa.Function) bool {
	if fn.Parent() == nil {
		return false
	}
	p := c.P
	var site ssa.Value
	if mc := p.ClosureSite(fn); mc != nil {
		site = mc
	} else {
		// capture-free literal used as a value
		core.Instrs(fn.Parent(), func(in ssa.Instruction) {
			for _, op := range in.Operands(nil) {
				if *op == ssa.Value(fn) {
					site = fn
				}
			}
		})
		if site == nil {
			return true
		}
		// find its users
		esc := false
		core.Instrs(fn.Parent(), func(in ssa.Instruction) {
			for _, op := range in.Operands(nil) {
				if *op == ssa.Value(fn) && !c.localUse(in, fn) {
					esc = true
				}
			}
		})
		return esc
	}
	for _, u := range core.Users(site) {
		if !c.localUse(u, site) {
			return true
		}
	}
	return false
}

func (c *Ctx) localUse(u ssa.Instruction, v ssa.Value) bool {
	ci, ok := u.(ssa.CallInstruction)
	if !ok {
		return false
	}
	cal := ci.Common().StaticCallee()
	if cal == nil {
		// calling the closure itself is a local use
		if ci.Common().Value == v {
			return true
		}
		// handing it to a callback parameter of the enclosing function (`cb(v, next)`): local when every in-target
		// caller supplies a function literal that does nothing with that argument but call it
		prm := c.spilledParam(ci.Common().Value)
		if prm == nil || ci.Common().IsInvoke() {
			return false
		}
		argIdx := -1
		for i, a := range ci.Common().Args {
			if a == v {
				argIdx = i
			}
		}
		return argIdx >= 0 && c.callbackOnlyCalls(prm, argIdx, 0)
	}
	return c.P.InTarget(cal) || callsBackOnly[core.CalleeName(ci.Common())]
}

// strayLoaderCaller: an in-target caller of the value-set loader other than BuildFunc's generated function, FromResult
// and the loader itself.
func (c *Ctx) strayLoaderCaller(loader *ssa.Function) string {
	for _, s := range c.P.Callers(loader) {
		g := s.Parent()
		o := core.Outer(g)
		switch {
		case o.Name() == "BuildFunc" && g != o:
		case o.Name() == "FromResult" && o.Signature.Recv() != nil:
		case o == loader:
		default:
			return core.FuncName(g) + " at " + c.P.InstrPos(s)
		}
	}
	return ""
}

// callsBackOnly: standard-library functions that call a function argument synchronously and keep no reference to it.
var callsBackOnly = map[string]bool{
	"sort.Slice": true, "sort.SliceStable": true, "sort.SliceIsSorted": true, "sort.Search": true,
	"strings.Map": true, "strings.FieldsFunc": true, "strings.IndexFunc": true, "strings.TrimFunc": true,
	"strings.TrimLeftFunc": true, "strings.TrimRightFunc": true, "(*sync.Once).Do": true,
}

// returnedToLocalUses: ret is the return of a private helper, and at every call site of that helper the returned
// function value is used only in ways localUse accepts.
func (c *Ctx) returnedToLocalUses(ret *ssa.Return) bool {
	h := ret.Parent()
	if h == nil || !c.P.PrivateHelper(h) || len(ret.Results) != 1 {
		return false
	}
	sites := c.P.Callers(h)
	if len(sites) == 0 {
		return false
	}
	for _, s := range sites {
		cv, ok := s.(*ssa.Call)
		if !ok {
			return false
		}
		for _, u := range core.Users(cv) {
			if !c.localUse(u, cv) {
				return false
			}
		}
	}
	return true
}

// spilledParam: v is a parameter, or a read of the variable a parameter was spilled to because a nested function
// literal captures it (directly or from inside that literal).
func (c *Ctx) spilledParam(v ssa.Value) *ssa.Parameter {
	if prm, ok := v.(*ssa.Parameter); ok {
		return prm
	}
	// a field of a small state struct that is set once, at construction, from a parameter (`w := &walker{cb: cb}`)
	if cf := c.P.ConstructedField(v); cf != v {
		if prm, ok := core.Strip(cf).(*ssa.Parameter); ok {
			return prm
		}
	}
	if d := c.P.DerefFree(v); d != nil {
		prm, _ := d.(*ssa.Parameter)
		return prm
	}
	if u, ok := v.(*ssa.UnOp); ok && u.Op == token.MUL {
		if al, ok := u.X.(*ssa.Alloc); ok {
			prm, _ := core.SingleStore(al).(*ssa.Parameter)
			return prm
		}
	}
	return nil
}

// callbackOnlyCalls: the function value arriving in parameter prm does nothing with its argIdx-th argument but call
// it — decided over every in-target call site of prm's function (a parameter that is merely forwarded is followed to
// the forwarding function's own call sites).
func (c *Ctx) callbackOnlyCalls(prm *ssa.Parameter, argIdx, d int) bool {
	f := prm.Parent()
	pi := -1
	for i, q := range f.Params {
		if q == prm {
			pi = i
		}
	}
	sites := c.P.Callers(f)
	if pi < 0 || len(sites) == 0 || c.P.UsedAsValue(f) || d > 3 {
		return false
	}
	n := 0
	for _, s := range sites {
		if pi >= len(s.Common().Args) {
			return false
		}
		var lit *ssa.Function
		switch a := core.Strip(s.Common().Args[pi]).(type) {
		case *ssa.MakeClosure:
			lit, _ = a.Fn.(*ssa.Function)
		case *ssa.Function:
			lit = a
		default:
			q := c.spilledParam(a)
			if q == nil {
				return false
			}
			if q == prm {
				continue // the recursive call hands its own callback on
			}
			if !c.callbackOnlyCalls(q, argIdx, d+1) {
				return false
			}
			n++
			continue
		}
		if lit == nil || argIdx >= len(lit.Params) {
			return false
		}
		for _, ref := range *lit.Params[argIdx].Referrers() {
			rc, isCall := ref.(ssa.CallInstruction)
			if !isCall || rc.Common().Value != ssa.Value(lit.Params[argIdx]) {
				return false
			}
			for _, a := range rc.Common().Args {
				if a == ssa.Value(lit.Params[argIdx]) {
					return false
				}
			}
		}
		n++
	}
	return n > 0
}

func runShared(c *Ctx) {
	p := c.P
	c.runLocks()
	own := c.ownership()
	var pc, sh []string
	for k := range own.perCall {
		pc = append(pc, k)
	}
	for k := range own.shared {
		sh = append(sh, k)
	}
	sort.Strings(pc)
	sort.Strings(sh)
	c.R.Note("SHARED", "per-call owner types: %v", pc)
	c.R.Note("SHARED", "shared owner types (closure of Func, ValueSet, Value over their fields): %v", sh)

	// ---- SHARED-E (type level): no shared type holds a per-call type
	for _, name := range sh {
		var m *ssa.Type
		if strings.HasPrefix(name, "graph.") {
			m, _ = p.Graph.Members[strings.TrimPrefix(name, "graph.")].(*ssa.Type)
		} else {
			m, _ = p.Arg.Members[name].(*ssa.Type)
		}
		if m == nil {
			continue
		}
		s, _ := core.StructOf(m.Type())
		if s == nil {
			continue
		}
		bad := ""
		for i := 0; i < s.NumFields(); i++ {
			t := core.NamedOf(derefAll(s.Field(i).Type()))
			if _, listed := perCallTypes[t]; own.perCall[t] || (listed && name != t) {
				bad = fmt.Sprintf("field %s has per-call type %s", s.Field(i).Name(), t)
			}
		}
		c.R.Add("SHARED-E", "type|"+name, name, p.Pos(m.Pos()), bad == "" && !own.perCall[name],
			"a type whose instances are shared between calls holds no per-call object (builder, call state, graph, vertex)", ternary(bad == "", "no per-call field", bad))
	}

	// … and no package-level variable is (or holds) a per-call object: a "pristine template" of the call state or of a
	// builder that each call copies by value shares the template's maps between all calls
	for _, pkg := range []*ssa.Package{p.Arg, p.Graph} {
		for gname, mem := range pkg.Members {
			g, ok := mem.(*ssa.Global)
			if !ok || strings.HasPrefix(gname, "init$") {
				continue
			}
			var holds func(t types.Type, d int) string
			holds = func(t types.Type, d int) string {
				if d > 3 {
					return ""
				}
				t = derefAll(t)
				n := core.NamedOf(t)
				if _, listed := perCallTypes[n]; own.perCall[n] || listed {
					return n
				}
				if st, _ := core.StructOf(t); st != nil {
					for i := 0; i < st.NumFields(); i++ {
						if h := holds(st.Field(i).Type(), d+1); h != "" {
							return h
						}
					}
				}
				switch u := t.Underlying().(type) {
				case *types.Map:
					if h := holds(u.Elem(), d+1); h != "" {
						return h
					}
					return holds(u.Key(), d+1)
				case *types.Slice:
					return holds(u.Elem(), d+1)
				}
				return ""
			}
			pt, isP := g.Type().(*types.Pointer)
			if !isP {
				continue
			}
			if h := holds(pt.Elem(), 0); h != "" {
				c.R.Add("SHARED-E", "global|"+gname, shortPkg(pkg)+gname, p.Pos(g.Pos()), false,
					"no package-level variable is or holds a per-call object (builder, call state, graph, vertex)", "package variable "+gname+" holds per-call type "+h)
			}
		}
	}

	// ---- per-write classification
	initFns := map[*ssa.Function]bool{}
	for _, pkg := range []*ssa.Package{p.Arg, p.Graph} {
		if f := pkg.Func("init"); f != nil {
			initFns[f] = true
		}
	}
	counts := map[string]int{}
	seenKey := map[string]int{}
	nImmut := 0
	_, onceF, memoF := c.funcFieldsByRole()
	// constructs are named by role where the function has one (or is a private step of a role function), so that
	// renaming or splitting it does not change the identity of an obligation (and of a known finding)
	roleName := map[*ssa.Function]string{}
	for _, r := range []string{"executor", "resolver", "planner", "graphBuilder", "inputBuilder", "funcBuilder", "outputMapper", "structWalker"} {
		if rf := p.MustRole(r); rf != nil {
			for _, g := range p.Region(rf) {
				if g.Parent() == nil {
					if _, taken := roleName[g]; !taken {
						roleName[g] = r
					}
				}
			}
			roleName[rf] = r
		}
	}
	for _, f := range p.Funcs {
		fname := core.FuncName(f)
		if rn, ok := roleName[f]; ok {
			fname = rn
		}
		c.R.Func(core.FuncName(f))
		inEsc := false
		for g := f; g != nil; g = g.Parent() {
			if g.Parent() != nil && c.escapingClosure(g) {
				inEsc = true
			}
		}
		fnCounts := map[string]int{}
		fnBad := 0
		before := len(c.R.Obs)
		writes := enumerateWrites(f)
		for _, w := range writes {
			c.R.Sites++
			owner, field, root := ownerOf(w)
			pos := p.InstrPos(w.in)

			// stores to plain locals are not shared memory
			if al, ok := w.target.(*ssa.Alloc); ok && w.kind == "store" {
				_ = al
				counts["local"]++
				fnCounts["local"]++
				continue
			}
			// captured variable assigned inside a closure
			if fv, ok := w.target.(*ssa.FreeVar); ok && w.kind == "store" {
				key := fmt.Sprintf("%s|captured-variable|%s", fname, fv.Name())
				okk := !inEsc
				c.R.Add("SHARED-C", key, fname, pos, okk,
					"a closure that outlives its creator (option value, generated function body) never assigns its captured variables",
					ternary(okk, "closure is local to one activation", "assignment to captured variable "+fv.Name()+" in an escaping closure (shared by every application/call)"))
				continue
			}
			// globals
			if strings.HasPrefix(root, "global:") {
				okk := initFns[core.Outer(f)] || strings.HasPrefix(f.Name(), "init")
				c.R.Add("SHARED-G", fmt.Sprintf("%s|%s|%s", fname, root, w.kind), fname, pos, okk,
					"package-level variables are written only during package initialisation", ternary(okk, "init", "write to "+root+" outside init"))
				continue
			}
			fresh := p.FreshIn(w.target)
			if w.kind == "append" {
				// append writes into the existing backing array when capacity allows
				if fresh {
					counts["append-fresh"]++
					continue
				}
				if capLimited(w.target) {
					counts["append-cap-limited"]++
					continue
				}
				// the slice value itself may be a local accumulator (phi of nil/append results)
				if localAccumulator(w.target) {
					counts["append-local"]++
					continue
				}
				if own.perCall[owner] {
					counts["append-percall"]++
					continue
				}
				what := owner + "." + field
				if owner == "" {
					what = root
				}
				key := fmt.Sprintf("%s|append|%s", fname, what)
				seenKey[key]++
				if seenKey[key] > 1 {
					key = fmt.Sprintf("%s#%d", key, seenKey[key])
				}
				// appending to a slice that belongs to a shared owner, a captured variable or a parameter
				// may write into memory other calls can see
				okk := false
				why := "append onto a slice owned by " + what + " (may write into its spare capacity, visible to other calls)"
				if root == "parameter" && owner == "" {
					// a slice parameter: every in-target caller must hand in fresh/per-call memory
					okk, why = c.callersPassFresh(f, w.target)
				}
				if owner == "Result" && field == "out" && (core.Outer(f).Name() == "Redefine" || f == p.GeneratedBody() || (p.GeneratedBody() != nil && p.PrivateHelper(f) && p.InRegion(f, p.GeneratedBody()))) {
					// listed exception (one symbol, reason): the outputs come straight from reflect.Value.Call, which
					// allocates exactly len(out) elements; append therefore always reallocates (trusted: reflect)
					okk, why = true, "listed exception: Result.out is the exact-length slice made by reflect.Value.Call; append reallocates"
				}
				if root == "call-result" {
					okk, why = true, "slice returned by a call (reflect.Value.Call and the value-set renderers return exact-length slices)"
				}
				if root == "captured" && !inEsc {
					// a local helper closure growing an accumulator of its enclosing function
					okk, why = c.capturedAccumulator(w.target)
				}
				c.R.Add("SHARED-W", key, fname, pos, okk, "no call appends onto a slice that other calls can reach", why)
				continue
			}
			if fresh {
				counts["fresh"]++
				fnCounts["fresh"]++
				if k, err := p.VertexKinds(); err == nil && k.Label(owner) && (field == "Name" || field == "Type" || field == "Subtype") && w.kind == "store" {
					nImmut++
					c.R.Add("IMMUT", fmt.Sprintf("%s|%s.%s#%d", fname, owner, field, nImmut), fname, pos, true,
						"label fields of a vertex are assigned only in its composite literal", "store into a vertex being constructed here")
				}
				continue
			}
			if own.perCall[owner] {
				// label fields of vertices are immutable after construction
				if k, err := p.VertexKinds(); err == nil && k.Label(owner) && (field == "Name" || field == "Type" || field == "Subtype") {
					c.R.Add("IMMUT", fmt.Sprintf("%s|%s.%s", fname, owner, field), fname, pos, false,
						"label fields of a vertex are assigned only in its composite literal", "assignment to "+owner+"."+field+" of an existing vertex")
				}
				counts["percall"]++
				fnCounts["per-call owner "+owner]++
				continue
			}
			what := owner + "." + field
			if owner == "" {
				what = root + " " + core.TypeStr(w.target.Type())
			}
			// the run-once flag and memo of Func are named by role, wherever they are kept
			if w.kind == "store" {
				if _, ok := c.funcFieldAddr(w.target, memoF); ok && memoF != "" {
					what = "Func.(run-once memo)"
				} else if _, ok := c.funcFieldAddr(w.target, onceF); ok && onceF != "" {
					what = "Func.(run-once flag)"
				}
			}
			key := fmt.Sprintf("%s|%s|%s", fname, w.kind, what)
			seenKey[key]++
			if seenKey[key] > 1 {
				key = fmt.Sprintf("%s#%d", key, seenKey[key])
			}
			switch {
			case own.shared[owner]:
				// listed exception (one symbol): ValueSet.FromSignature loads values into the set by API design
				if fname == "ValueSet.FromSignature" && (owner == "Value" || owner == "ValueSet") {
					// … which holds only for the sets a user hands to BuildFunc or loads through the exported API: inside the
					// library the loader is reached from BuildFunc's generated function and from FromResult, never with a
					// Func's own input/output set (those are shared by every call that uses the Func)
					if stray := c.strayLoaderCaller(f); stray != "" {
						c.R.Add("SHARED-W", key, fname, pos, false, "writes to shared owners only at construction",
							"FromSignature (which stores into the set's values) is also called by "+stray+": a value set of the library's own Funcs would be written by every call")
						continue
					}
					c.R.Add("SHARED-W", key, fname, pos, true, "writes to shared owners only at construction",
						"listed exception: FromSignature fills the caller's own ValueSet (BuildFunc shares its sets with the callback by API design; excluded by the property)")
					continue
				}
				c.R.Add("SHARED-W", key, fname, pos, false,
					"an object shared between calls (Func, ValueSet, Value and what they reach) is written only while it is still private to its constructor",
					fmt.Sprintf("%s to %s through a %s (not fresh in this function)", w.kind, what, root))
			case root == "parameter" || root == "captured":
				// container parameter / captured container: decided by what callers / the creator hand in
				okk, why := false, ""
				if root == "parameter" {
					okk, why = c.callersPassFresh(f, w.target)
				} else {
					okk, why = c.capturedIsLocal(f, w.target, inEsc)
				}
				rule := "SHARED-W"
				if root == "captured" && inEsc {
					rule = "SHARED-C" // a closure that outlives its creator writes into what it captured
				}
				c.R.Add(rule, key, fname, pos, okk, "writes through a container parameter or captured container reach only per-call memory", why)
			case owner == "" && (root == "local" || root == "call-result"):
				// element of a local array/slice value obtained from a call: reflect slices etc.
				okk, why := c.localContainerOK(w)
				if w.kind == "sort-in-place" && (p.FreshIn(w.target) || localAccumulator(w.target)) {
					okk, why = true, "sorts a slice built in this function"
				}
				c.R.Add("SHARED-W", key, fname, pos, okk, "writes through a slice obtained from elsewhere do not modify memory other calls can reach", why)
			case owner == "" && root == "*ssa.MakeMap":
				// an element (inner map, slice) of a map made in this function: local exactly when every element stored into
				// that map was itself made here — an inner container taken over from elsewhere stays the other owner's
				mm := localMapRoot(w.target)
				okk, why := mm != nil, "local map not found"
				if mm != nil {
					n := 0
					for _, ref := range *mm.Referrers() {
						if mu, isMU := ref.(*ssa.MapUpdate); isMU && mu.Map == ssa.Value(mm) {
							n++
							switch mu.Value.Type().Underlying().(type) {
							case *types.Map, *types.Slice, *types.Pointer:
								if !p.FreshIn(mu.Value) {
									okk, why = false, "the local map holds an element taken over from elsewhere ("+core.Path(mu.Value)+" at "+p.InstrPos(mu)+")"
								}
							}
						}
					}
					if okk {
						why = fmt.Sprintf("every element of the local map is made in this function (%d stores)", n)
					}
				}
				c.R.Add("SHARED-W", key, fname, pos, okk, "writes through an element of a local map reach only memory made in this function", why)
			default:
				c.R.Undecided("SHARED-W", key, fname, pos, fmt.Sprintf("cannot classify the owner of this write (%s, owner %q, root %s)", w.kind, owner, root))
			}
		}
		for _, o := range c.R.Obs[before:] {
			if o.Verdict != core.OK && (o.Rule == "SHARED-W" || o.Rule == "SHARED-C" || o.Rule == "IMMUT") {
				fnBad++
			}
		}
		if len(writes) > 0 {
			c.R.Add("SHARED-W", fname+"|all-writes-classified", fname, p.Pos(f.Pos()), true,
				"every store, map update, delete and append of the function is classified by the owner of the written memory",
				fmt.Sprintf("%d writes: %v; %d reported separately", len(writes), fnCounts, fnBad))
		}
		if f.Parent() != nil && c.escapingClosure(f) {
			assigns := 0
			for _, w := range writes {
				if _, ok := w.target.(*ssa.FreeVar); ok && w.kind == "store" {
					assigns++
				}
			}
			c.R.Add("SHARED-C", fname+"|escaping-closure", fname, p.Pos(f.Pos()), assigns == 0,
				"a closure that outlives its creator (option value, generated function body) never assigns its captured variables", fmt.Sprintf("%d assignments to captured variables", assigns))
			// … and never installs a captured map or slice into memory it was handed: the container would be shared by every
			// application of the option (every call, every goroutine), and the per-call writes into that memory would land in it
			adopted := ""
			core.Instrs(f, func(in ssa.Instruction) {
				var val, dst ssa.Value
				switch x := in.(type) {
				case *ssa.MapUpdate:
					val, dst = x.Value, x.Map
				case *ssa.Store:
					val, dst = x.Val, x.Addr
				default:
					return
				}
				if _, local := dst.(*ssa.Alloc); local {
					return
				}
				switch val.Type().Underlying().(type) {
				case *types.Map, *types.Slice:
				default:
					return
				}
				ld, ok := core.Strip(val).(*ssa.UnOp)
				if !ok || ld.Op != token.MUL {
					return
				}
				if _, isFree := ld.X.(*ssa.FreeVar); !isFree {
					return
				}
				if p.FreshIn(dst) {
					return
				}
				adopted = fmt.Sprintf("captured %s %s is installed into %s at %s", core.TypeStr(val.Type()), core.Path(val), core.Path(dst), p.InstrPos(in))
			})
			c.R.Add("SHARED-C", fname+"|no-captured-container-installed", fname, p.Pos(f.Pos()), adopted == "",
				"a closure that outlives its creator never installs a captured map or slice into the per-call memory it is handed (only copies of it or its elements)", ternary(adopted == "", "none", adopted))
		}
	}
	c.R.Note("SHARED", "writes not needing an obligation: %v", counts)

	// ---- SHARED-G: package-level variables are only read outside init (no address-taking calls)
	for _, pkg := range []*ssa.Package{p.Arg, p.Graph} {
		var names []string
		for n, m := range pkg.Members {
			if _, ok := m.(*ssa.Global); ok && !strings.HasPrefix(n, "init$") {
				names = append(names, n)
			}
		}
		sort.Strings(names)
		for _, n := range names {
			g := pkg.Members[n].(*ssa.Global)
			bad := ""
			for _, f := range p.Funcs {
				if initFns[core.Outer(f)] {
					continue
				}
				core.Instrs(f, func(in ssa.Instruction) {
					for _, op := range in.Operands(nil) {
						if *op != ssa.Value(g) {
							continue
						}
						if u, ok := in.(*ssa.UnOp); ok && u.Op == token.MUL {
							continue // plain read
						}
						if onlyRead(in) {
							continue // element/field of a package-level table that is only loaded
						}
						bad = fmt.Sprintf("%s uses the address of %s at %s (mutable package state)", core.FuncName(f), n, p.InstrPos(in))
					}
				})
			}
			mutableType := false
			switch g.Type().(*types.Pointer).Elem().Underlying().(type) {
			case *types.Map, *types.Slice, *types.Struct, *types.Chan:
				mutableType = true
			}
			if strings.Contains(core.TypeStr(g.Type()), "sync.") {
				mutableType = true
			}
			_ = mutableType
			c.R.Add("SHARED-G", "global|"+shortPkg(pkg)+n, "(package "+pkg.Pkg.Name()+")", p.Pos(g.Pos()), bad == "",
				"package-level variables are only read after initialisation", ternary(bad == "", "read-only outside init", bad))
		}
	}

	// ---- SHARED-P: no field of a shared object is handed by address to code outside the module (pools, atomics,
	// caches …): that is mutable state on a shared object even though no store instruction is visible here
	nP := 0
	for _, f := range p.Funcs {
		core.Instrs(f, func(in ssa.Instruction) {
			ci, ok := in.(ssa.CallInstruction)
			if !ok {
				return
			}
			cal := ci.Common().StaticCallee()
			if cal != nil && p.InTarget(cal) {
				return
			}
			for _, a := range core.CallArgs(ci.Common()) {
				fa, ok := a.(*ssa.FieldAddr)
				if !ok {
					continue
				}
				fr, _ := core.AsFieldAddr(fa)
				if !own.shared[fr.Owner] || p.FreshIn(fa) {
					continue
				}
				nm := core.CalleeName(ci.Common())
				if strings.HasPrefix(nm, "(*sync.Mutex).") || strings.HasPrefix(nm, "(*sync.RWMutex).") {
					continue // synchronisation itself is not state
				}
				nP++
				c.R.Add("SHARED-P", fmt.Sprintf("%s|&%s.%s -> %s", core.FuncName(f), fr.Owner, fr.Field, core.ShortCallee(nm)), core.FuncName(f), p.InstrPos(in), false,
					"no field of an object shared between calls is handed by address to external code (pools, atomics, caches are mutable shared state)",
					"address of "+fr.Owner+"."+fr.Field+" passed to "+core.ShortCallee(nm))
			}
		})
	}
	c.R.Add("SHARED-P", "no-shared-field-address-escapes", "(both packages)", "-", nP == 0, "no field of a shared object is handed by address to external code", fmt.Sprintf("%d such call(s)", nP))

	runAlias(c)
	runHash(c)
}

func shortPkg(pkg *ssa.Package) string {
	if pkg.Pkg.Path() == core.GraphPath {
		return "graph."
	}
	return ""
}

func derefAll(t types.Type) types.Type {
	for {
		switch u := t.(type) {
		case *types.Pointer:
			t = u.Elem()
		case *types.Slice:
			t = u.Elem()
		case *types.Array:
			t = u.Elem()
		case *types.Map:
			t = u.Elem()
		default:
			return t
		}
	}
}

// localAccumulator: a slice variable built up in this function from nil / fresh values by append.
func localAccumulator(v ssa.Value) bool {
	seen := map[ssa.Value]bool{}
	var ok func(v ssa.Value) bool
	ok = func(v ssa.Value) bool {
		if seen[v] {
			return true
		}
		seen[v] = true
		switch x := v.(type) {
		case *ssa.Const:
			return x.Value == nil
		case *ssa.MakeSlice:
			return true
		case *ssa.Phi:
			for _, e := range x.Edges {
				if !ok(e) {
					return false
				}
			}
			return true
		case *ssa.Call:
			if core.CalleeName(x.Common()) == "builtin.append" {
				return ok(x.Common().Args[0])
			}
		case *ssa.Slice:
			if al, isAl := x.X.(*ssa.Alloc); isAl {
				_ = al
				return true // slice of a fresh local array (slice literal)
			}
			if capLimited(x) {
				return true // s[:len(s):len(s)]: no spare capacity, the first append onto it moves to an array of its own
			}
			return ok(x.X)
		case *ssa.UnOp:
			if al, isAl := x.X.(*ssa.Alloc); isAl && x.Op == token.MUL {
				for _, ref := range *al.Referrers() {
					if st, isSt := ref.(*ssa.Store); isSt && st.Addr == ssa.Value(al) {
						if !ok(st.Val) {
							return false
						}
					}
				}
				return true
			}
		}
		return false
	}
	return ok(v)
}

// callersPassFresh: the container reached through a parameter of f is, at every
// in-target call site, fresh or per-call memory (one level; recursion through f itself allowed).
func (c *Ctx) callersPassFresh(f *ssa.Function, target ssa.Value) (bool, string) {
	p := c.P
	var prm *ssa.Parameter
	v := target
	for i := 0; i < 20 && prm == nil; i++ {
		switch x := v.(type) {
		case *ssa.Parameter:
			prm = x
		case *ssa.IndexAddr:
			v = x.X
		case *ssa.Slice:
			v = x.X
		case *ssa.FieldAddr:
			v = x.X
		case *ssa.UnOp:
			if al, ok := x.X.(*ssa.Alloc); ok {
				if s := core.SingleStore(al); s != nil {
					v = s
					continue
				}
			}
			v = x.X
		case *ssa.Lookup:
			v = x.X
		case *ssa.Alloc:
			if s := core.SingleStore(x); s != nil {
				v = s
			} else {
				i = 20
			}
		default:
			i = 20
		}
	}
	if prm == nil {
		return false, "parameter not identified"
	}
	idx := -1
	for i, q := range f.Params {
		if q == prm {
			idx = i
		}
	}
	own := c.ownership()
	if own.perCall[core.NamedOf(prm.Type())] {
		return true, "parameter has per-call type " + core.NamedOf(prm.Type())
	}
	sites := p.Callers(f)
	if len(sites) == 0 {
		// methods of sort/heap interfaces on per-call types, or exported API taking caller memory
		if f.Signature.Recv() != nil && own.perCall[core.NamedOf(f.Signature.Recv().Type())] {
			return true, "method of per-call type " + core.NamedOf(f.Signature.Recv().Type())
		}
		return false, "no in-target call site to justify that parameter " + prm.Name() + " is per-call memory"
	}
	for _, s := range sites {
		a := s.Common().Args
		if idx >= len(a) {
			return false, "call site shape"
		}
		arg := a[idx]
		if s.Parent() == f || core.Outer(s.Parent()) == f {
			// recursive hand-down of the same parameter
			if d := p.DerefFree(arg); d != nil {
				arg = d
			}
			ok := true
			for _, src := range core.Sources(arg) {
				if src != ssa.Value(prm) {
					ok = false
				}
			}
			if ok {
				continue
			}
		}
		if !p.FreshIn(arg) {
			// memory that belongs to a per-call object (the call's graph, builder, state) is per-call too
			if o, _, _ := ownerOf(write{target: arg}); own.perCall[o] {
				continue
			}
			return false, fmt.Sprintf("call site %s passes memory that is not fresh there", p.InstrPos(s))
		}
	}
	return true, fmt.Sprintf("all %d in-target call sites pass fresh memory", len(sites))
}

// capturedIsLocal: a container captured by a non-escaping closure, created fresh in the enclosing function.
func (c *Ctx) capturedIsLocal(f *ssa.Function, target ssa.Value, inEsc bool) (bool, string) {
	if inEsc {
		return false, "write through a variable captured by a closure that outlives its creator"
	}
	v := target
	for i := 0; i < 20; i++ {
		switch x := v.(type) {
		case *ssa.UnOp:
			if fv, ok := x.X.(*ssa.FreeVar); ok {
				b := c.P.Binding(fv)
				if al, ok := b.(*ssa.Alloc); ok {
					for _, ref := range *al.Referrers() {
						if st, ok := ref.(*ssa.Store); ok && st.Addr == ssa.Value(al) {
							if !c.P.FreshIn(st.Val) {
								return false, "captured container is not created in the enclosing function"
							}
						}
					}
					return true, "captured container is created in the enclosing function and the closure does not outlive it"
				}
				return false, "captured binding not a local variable"
			}
			v = x.X
		case *ssa.IndexAddr:
			v = x.X
		case *ssa.FieldAddr:
			v = x.X
		case *ssa.Lookup:
			v = x.X
		default:
			return false, "captured container not identified"
		}
	}
	return false, "captured container not identified"
}

// localContainerOK handles stores into elements of slices that are values in
// this function but whose backing was not allocated here.
func (c *Ctx) localContainerOK(w write) (bool, string) {
	return false, fmt.Sprintf("element write into memory obtained from %s", core.Path(w.target))
}

// ---------------------------------------------------------------------------
// ALIAS: Result.out is immutable once returned

func runAlias(c *Ctx) {
	p := c.P
	n := 0
	for _, f := range p.ArgFuncs() {
		core.Instrs(f, func(in ssa.Instruction) {
			st, ok := in.(*ssa.Store)
			if !ok {
				return
			}
			ia, ok := st.Addr.(*ssa.IndexAddr)
			if !ok {
				return
			}
			// the indexed slice is (derived from) a load of a Result's out field
			fr, ok := core.AsFieldLoad(ia.X)
			if !ok || fr.Owner != "Result" || fr.Field != "out" {
				return
			}
			n++
			fresh := p.FreshIn(ia.X)
			c.R.Func(core.FuncName(f))
			c.R.Add("ALIAS", fmt.Sprintf("%s|element store into Result.out#%d", core.FuncName(f), n), core.FuncName(f), p.InstrPos(st), fresh,
				"elements of a Result's output slice are overwritten only on a private copy of the slice (the Result may be memoized or held by the caller)",
				ternary(fresh, "slice was re-created in this function before the store", "writes through the caller's/memoized backing array"))
		})
	}
	// … and no function appends onto a shortened alias of a slice it is still reading (the appends would overwrite the
	// unread elements)
	for _, f := range append(append([]*ssa.Function{}, p.ArgFuncs()...), p.GraphFuncs()...) {
		if lv := loopVarRetained(p, f); lv != "" {
			c.R.Add("ALIAS", core.FuncName(f)+"|loop-variable-retained", core.FuncName(f), p.Pos(f.Pos()), false,
				"no address of (or closure over) a variable that is shared by all iterations of a loop is kept beyond the iteration", lv)
		}
		if hz := sliceReuseHazard(p, f); hz != "" {
			c.R.Add("ALIAS", core.FuncName(f)+"|append-onto-shortened-alias", core.FuncName(f), p.Pos(f.Pos()), false,
				"no function appends onto a shortened re-slice of a slice whose elements it still reads", hz)
		}
	}
	if n == 0 {
		c.R.Add("ALIAS", "no element stores into Result.out", "(package)", "-", true, "no function overwrites elements of a Result's outputs", "none found")
	}
}

// ---------------------------------------------------------------------------
// HASH: vertex identity completeness

func runHash(c *Ctx) {
	p := c.P
	k, err := p.VertexKinds()
	if err != nil {
		c.R.Undecided("HASH", "kinds", "(vertex kinds)", "-", err.Error())
		return
	}
	for _, kind := range []string{k.Value, k.Arg, k.Out} {
		h := p.Method(p.Arg, kind, "Hashcode")
		if h == nil {
			c.R.Add("HASH", kind, kind, "-", false, "label-carrying vertex kinds define their identity", "no Hashcode method")
			continue
		}
		c.R.Func(core.FuncName(h))
		want := []string{"Type", "Subtype"}
		if kind == k.Value {
			want = append(want, "Name")
		}
		// fields whose loads flow into the returned value
		flows := map[string]bool{}
		core.Instrs(h, func(in ssa.Instruction) {
			fa, ok := in.(*ssa.FieldAddr)
			if !ok {
				return
			}
			fr, _ := core.AsFieldAddr(fa)
			if fr.Owner != kind {
				return
			}
			for _, ref := range *fa.Referrers() {
				if ld, ok := ref.(*ssa.UnOp); ok {
					if reachesReturn(ld, h) {
						flows[fr.Field] = true
					}
				}
			}
		})
		var missing []string
		for _, w := range want {
			if !flows[w] {
				missing = append(missing, w)
			}
		}
		// the identity namespace: kinds must not collide — distinct constant prefixes/format strings
		c.R.Add("HASH", kind+"|fields", core.FuncName(h), p.Pos(h.Pos()), len(missing) == 0,
			"the vertex hash code depends on every label field of the kind ("+strings.Join(want, ", ")+")",
			ternary(len(missing) == 0, "all label fields flow into the hash", "not flowing into the hash: "+strings.Join(missing, ", ")))
	}
	// the function vertex: its identity is a value that is at least as fine as the wrapped function's reflect.Type (the
	// Type itself or a pointer), never a rendering of it — Type.String() is not injective (two local struct types with
	// one name, like-named packages), and two converters that print alike would collapse into one vertex
	if h := p.Method(p.Arg, k.Func, "Hashcode"); h != nil {
		c.R.Func(core.FuncName(h))
		bad, n := "", 0
		for _, r := range core.Returns(h) {
			for _, o := range core.ReturnOperand(r, 0) {
				n++
				v := o
				if mi, ok := v.(*ssa.MakeInterface); ok {
					v = mi.X
				}
				switch x := v.(type) {
				case *ssa.Call:
					cn := core.CalleeName(x.Common())
					if x.Common().IsInvoke() {
						cn = x.Common().Method.Name()
					}
					switch {
					case cn == "(reflect.Value).Type":
					case cn == "(reflect.Value).Pointer":
					default:
						bad = "identity is the result of " + cn
					}
				default:
					if _, isPtr := v.Type().Underlying().(*types.Pointer); !isPtr {
						if b, isB := v.Type().Underlying().(*types.Basic); isB && b.Info()&types.IsString != 0 {
							bad = "identity is a string rendering: " + core.Path(v)
						} else if _, isI := v.Type().Underlying().(*types.Interface); !isI {
							bad = "identity is " + core.Path(v)
						}
					}
				}
			}
		}
		c.R.Add("HASH", k.Func+"|identity-not-a-rendering", core.FuncName(h), p.Pos(h.Pos()), bad == "" && n > 0,
			"a function vertex is identified by the wrapped function's reflect.Type (or a pointer), not by a printed form of it", ternary(bad == "", "reflect.Type / pointer identity", bad))
	}
	// distinct kinds use distinct format strings (a Sprintf format, or the constant skeleton of a concatenation)
	fm := map[string]string{}
	for _, kind := range []string{k.Value, k.Arg, k.Out} {
		if h := p.Method(p.Arg, kind, "Hashcode"); h != nil {
			core.Instrs(h, func(in ssa.Instruction) {
				if ci, ok := in.(ssa.CallInstruction); ok && core.CalleeName(ci.Common()) == "fmt.Sprintf" {
					if s, ok := core.ConstString(ci.Common().Args[0]); ok {
						fm[kind] = s
					}
				}
			})
			if _, has := fm[kind]; !has {
				for _, r := range core.Returns(h) {
					for _, o := range core.ReturnOperand(r, 0) {
						v := o
						if mi, ok := v.(*ssa.MakeInterface); ok {
							v = mi.X
						}
						skel := func(x ssa.Value) string {
							sk := ""
							for _, leaf := range flattenConcat(x) {
								if s, ok := core.ConstString(leaf); ok {
									sk += s
								} else {
									sk += "%s"
								}
							}
							return sk
						}
						if lv := flattenConcat(v); len(lv) > 1 {
							fm[kind] = skel(v)
						}
						// strings.Join([]string{a, b, c}, sep): the elements' skeletons separated by the constant separator
						if jc, ok := v.(*ssa.Call); ok && core.CalleeName(jc.Common()) == "strings.Join" {
							if sep, isK := core.ConstString(jc.Common().Args[1]); isK {
								var parts []string
								for _, e := range sliceElems(jc.Common().Args[0], 0, map[ssa.Value]bool{}) {
									parts = append(parts, skel(e))
								}
								if len(parts) > 1 {
									fm[kind] = strings.Join(parts, sep)
								}
							}
						}
					}
				}
			}
			// the type enters the identity as itself or through String() — never through a coarser projection
			// (PkgPath()+Name() are empty for every unnamed type, Kind() merges all types of a kind)
			proj := ""
			core.Instrs(h, func(in ssa.Instruction) {
				cl, ok := in.(*ssa.Call)
				if !ok || !cl.Common().IsInvoke() || core.TypeStr(cl.Common().Value.Type()) != "reflect.Type" {
					return
				}
				if fr, ok := core.AsFieldLoad(cl.Common().Value); ok && fr.Owner == kind && fr.Field == "Type" {
					if m := cl.Common().Method.Name(); m != "String" {
						proj = "reflect.Type." + m + "() at " + p.InstrPos(in)
					}
				}
			})
			c.R.Add("HASH", kind+"|type-as-itself", core.FuncName(h), p.Pos(h.Pos()), proj == "",
				"the type enters the vertex identity as the reflect.Type itself or its String(), not through a coarser projection of it", ternary(proj == "", "String()/the value", "identity uses "+proj))
		}
	}
	distinct := len(fm) == 3 && fm[k.Value] != fm[k.Arg] && fm[k.Arg] != fm[k.Out] && fm[k.Value] != fm[k.Out]
	c.R.Add("HASH", "namespaces", "(Hashcode methods)", "-", distinct, "the three label-carrying kinds hash into distinct namespaces", fmt.Sprintf("%v", fm))
	// the identity strings are read as formats: literal pieces around the rendered labels
	if len(fm) == 3 {
		pieces := func(f string) []string { return strings.Split(hashVerbRe.ReplaceAllString(f, "\x00"), "\x00") }
		isIdent := func(b byte) bool {
			return b == '_' || (b >= '0' && b <= '9') || (b >= 'a' && b <= 'z') || (b >= 'A' && b <= 'Z')
		}
		compat := func(a, b string) bool { return strings.HasPrefix(a, b) || strings.HasPrefix(b, a) }
		// two labels never run into each other: consecutive labels are separated by a literal ("int"+"8" is "int8")
		for _, kind := range []string{k.Value, k.Arg, k.Out} {
			ps := pieces(fm[kind])
			glued := false
			for i := 1; i+1 < len(ps); i++ {
				if ps[i] == "" {
					glued = true
				}
			}
			c.R.Add("HASH", kind+"|labels-separated", kind, "-", !glued && len(ps) >= 3,
				"in a vertex identity two consecutive labels are separated by a literal, so different label tuples cannot render alike", fmt.Sprintf("%q", fm[kind]))
		}
		// a named value whose name is an identifier cannot render like a typed vertex: the typed identities start with a
		// literal that no "name + separator" of the value identity can spell
		why := ""
		vp := pieces(fm[k.Value])
		for _, kind := range []string{k.Arg, k.Out} {
			tp := pieces(fm[kind])
			switch {
			case tp[0] == "":
				why = kind + " identity starts with a label, not with a literal of its own"
			case vp[0] != "":
				if compat(vp[0], tp[0]) {
					why = fmt.Sprintf("%s and %s identities start with compatible literals %q / %q", k.Value, kind, vp[0], tp[0])
				}
			default:
				n := 0
				for n < len(tp[0]) && isIdent(tp[0][n]) {
					n++
				}
				if n == 0 {
					break // no name starts like this literal
				}
				rest, sep := tp[0][n:], ""
				if len(vp) > 1 {
					sep = vp[1]
				}
				if sep == "" || isIdent(sep[0]) || compat(rest, sep) {
					why = fmt.Sprintf("a value named %q renders %q…, which is how a %s identity starts (%q)", tp[0][:n], tp[0][:n]+sep, kind, tp[0])
				}
			}
		}
		if a, o := pieces(fm[k.Arg])[0], pieces(fm[k.Out])[0]; a != "" && o != "" && compat(a, o) && why == "" {
			why = fmt.Sprintf("%s and %s identities start with compatible literals %q / %q", k.Arg, k.Out, a, o)
		}
		c.R.Add("HASH", "namespaces-disjoint", "(Hashcode methods)", "-", why == "",
			"no value vertex with an identifier name can have the identity of a typed vertex, and the two typed kinds start with incompatible literals", ternary(why == "", fmt.Sprintf("%v", fm), why))
	}
}

var hashVerbRe = regexp.MustCompile(`%[+#]?[a-zA-Z]`)

// reachesReturn: value v flows (through calls' arguments, conversions, stores into varargs) into a returned value of f.
func reachesReturn(v ssa.Value, f *ssa.Function) bool {
	seen := map[ssa.Value]bool{}
	var walk func(v ssa.Value) bool
	walk = func(v ssa.Value) bool {
		if seen[v] {
			return false
		}
		seen[v] = true
		refs := v.Referrers()
		if refs == nil {
			return false
		}
		for _, r := range *refs {
			switch x := r.(type) {
			case *ssa.Return:
				return true
			case *ssa.Store:
				// into a varargs array element: follow the array's slice
				if ia, ok := x.Addr.(*ssa.IndexAddr); ok {
					if al, ok := ia.X.(*ssa.Alloc); ok {
						for _, ar := range *al.Referrers() {
							if sl, ok := ar.(*ssa.Slice); ok && walk(sl) {
								return true
							}
						}
					}
				}
			case ssa.Value:
				if walk(x) {
					return true
				}
			}
		}
		return false
	}
	return walk(v)
}

// onlyRead: in is an IndexAddr/FieldAddr/Slice whose results are only loaded (or sliced and loaded).
func onlyRead(in ssa.Instruction) bool {
	v, ok := in.(ssa.Value)
	if !ok {
		return false
	}
	switch in.(type) {
	case *ssa.IndexAddr, *ssa.FieldAddr, *ssa.Slice:
	default:
		return false
	}
	for _, r := range *v.Referrers() {
		switch x := r.(type) {
		case *ssa.UnOp:
			if x.Op != token.MUL {
				return false
			}
		case *ssa.IndexAddr, *ssa.FieldAddr, *ssa.Slice:
			if !onlyRead(x.(ssa.Instruction)) {
				return false
			}
		case *ssa.Convert, *ssa.Lookup, *ssa.Index:
			// string(slice) conversions and indexing read only
		default:
			return false
		}
	}
	return true
}

// capturedAccumulator: the appended-to slice is a variable of the enclosing function that only ever holds
// nil / fresh slices / earlier append results (a local accumulator captured by a non-escaping helper closure).
func (c *Ctx) capturedAccumulator(target ssa.Value) (bool, string) {
	ld, ok := target.(*ssa.UnOp)
	if !ok {
		return false, "captured slice not identified"
	}
	fv, ok := ld.X.(*ssa.FreeVar)
	if !ok {
		return false, "captured slice not identified"
	}
	al, ok := c.P.Binding(fv).(*ssa.Alloc)
	if !ok {
		return false, "captured binding is not a local variable"
	}
	check := func(v ssa.Value) bool {
		if localAccumulator(v) || c.P.FreshIn(v) {
			return true
		}
		// append(<the variable itself>, …) inside the closure
		if cl, ok := v.(*ssa.Call); ok && core.CalleeName(cl.Common()) == "builtin.append" {
			if l2, ok := cl.Common().Args[0].(*ssa.UnOp); ok {
				if f2, ok := l2.X.(*ssa.FreeVar); ok && c.P.Binding(f2) == ssa.Value(al) {
					return true
				}
				if l2.X == ssa.Value(al) {
					return true
				}
			}
		}
		return false
	}
	for _, ref := range *al.Referrers() {
		if st, ok := ref.(*ssa.Store); ok && st.Addr == ssa.Value(al) && !check(st.Val) {
			return false, "the captured slice variable is assigned memory that is not local"
		}
	}
	for _, f := range c.P.Funcs {
		for _, v := range f.FreeVars {
			if c.P.Binding(v) == ssa.Value(al) {
				for _, ref := range *v.Referrers() {
					if st, ok := ref.(*ssa.Store); ok && st.Addr == ssa.Value(v) && !check(st.Val) {
						return false, "the captured slice variable is assigned memory that is not local"
					}
				}
			}
		}
	}
	return true, "local accumulator of the enclosing function, grown by a helper closure that does not outlive it"
}

// localMapRoot peels lookups, element addresses and loads down to the map made in this function that the written
// memory hangs off.
func localMapRoot(v ssa.Value) *ssa.MakeMap {
	for i := 0; i < 20 && v != nil; i++ {
		switch x := v.(type) {
		case *ssa.MakeMap:
			return x
		case *ssa.Lookup:
			v = x.X
		case *ssa.IndexAddr:
			v = x.X
		case *ssa.Slice:
			v = x.X
		case *ssa.Extract:
			if l, ok := x.Tuple.(*ssa.Lookup); ok {
				v = l.X
			} else if n, ok := x.Tuple.(*ssa.Next); ok {
				if r, ok := n.Iter.(*ssa.Range); ok {
					v = r.X
				} else {
					return nil
				}
			} else {
				return nil
			}
		case *ssa.UnOp:
			if al, ok := x.X.(*ssa.Alloc); ok {
				v = core.SingleStore(al)
			} else {
				v = x.X
			}
		case *ssa.ChangeType:
			v = x.X
		default:
			return nil
		}
	}
	return nil
}

// runLocks (SHARED-L): a type that holds a lock by value is never copied. The planner copies Func values, option
// merging copies builders: a sync.Mutex (Once, WaitGroup, RWMutex, Cond, atomic value types) inside such a type is
// copied together with its state — a copy taken while the lock is held is a locked lock nobody unlocks.
func (c *Ctx) runLocks() {
	p := c.P
	isLock := func(t types.Type) bool {
		n, ok := t.(*types.Named)
		if !ok || n.Obj().Pkg() == nil {
			return false
		}
		switch n.Obj().Pkg().Path() {
		case "sync":
			switch n.Obj().Name() {
			case "Mutex", "RWMutex", "Once", "WaitGroup", "Cond", "Map", "Pool":
				return true
			}
		case "sync/atomic":
			return true
		}
		return false
	}
	var holds func(t types.Type, d int) string
	holds = func(t types.Type, d int) string {
		if d > 6 {
			return ""
		}
		if isLock(t) {
			return core.TypeStr(t)
		}
		switch u := t.Underlying().(type) {
		case *types.Struct:
			for i := 0; i < u.NumFields(); i++ {
				if w := holds(u.Field(i).Type(), d+1); w != "" {
					return u.Field(i).Name() + " " + w
				}
			}
		case *types.Array:
			return holds(u.Elem(), d+1)
		}
		return ""
	}
	lockTypes := map[string]string{}
	for _, pkg := range []*ssa.Package{p.Arg, p.Graph} {
		for _, m := range pkg.Members {
			if tn, ok := m.(*ssa.Type); ok {
				if w := holds(tn.Type(), 0); w != "" && !isLock(tn.Type()) {
					lockTypes[core.TypeStr(tn.Type())] = w
				}
			}
		}
	}
	copied := ""
	if len(lockTypes) > 0 {
		for _, f := range append(p.ArgFuncs(), p.GraphFuncs()...) {
			core.Instrs(f, func(in ssa.Instruction) {
				v, ok := in.(ssa.Value)
				if !ok {
					return
				}
				if ld, isLd := in.(*ssa.UnOp); isLd && ld.Op == token.MUL {
					if w, has := lockTypes[core.TypeStr(v.Type())]; has {
						copied = fmt.Sprintf("%s (holds %s) is copied by value in %s at %s", core.TypeStr(v.Type()), w, core.FuncName(f), p.InstrPos(in))
					}
				}
			})
		}
	}
	var names []string
	for n, w := range lockTypes {
		names = append(names, n+" ("+w+")")
	}
	sort.Strings(names)
	c.R.Add("SHARED-L", "no-lock-holding-type-copied", "(package)", "-", copied == "",
		"no type that holds a lock by value is copied (the planner copies Func values; a copied mutex carries its locked state with it)",
		ternary(copied == "", fmt.Sprintf("lock-holding types: %v; none copied", names), copied))
}
