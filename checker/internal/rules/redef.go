package rules

import (
	"fmt"
	"go/token"
	"go/types"
	"strings"

	"argverif/internal/core"

	"golang.org/x/tools/go/ssa"
)

// REDEF (C08). DESIGN §4 REDEF R1–R5.

func init() {
	register(&Engine{
		Name:  "REDEF",
		Doc:   "filter-gated root edges, input-set provenance, exclusion of supplied inputs, output filter, forwarding of the generated function",
		Run:   runRedef,
		Floor: map[string]int{"REDEF-R1": 3, "REDEF-R2": 2, "REDEF-R3": 3, "REDEF-R4": 4, "REDEF-R5": 6, "FILTER": 2},
	})
}

func runRedef(c *Ctx) {
	c.runFilters()
	p := c.P
	kinds, err := p.VertexKinds()
	if err != nil {
		c.R.Undecided("REDEF-R1", "kinds", "(vertex kinds)", "-", err.Error())
		return
	}
	gb := c.role("REDEF-R1", "graphBuilder")
	res := c.role("REDEF-R2", "resolver")
	planner := c.role("REDEF-R3", "planner")
	validator := c.role("REDEF-R4", "outputValidator")
	redefine := c.role("REDEF-R5", "Redefine")
	if gb == nil || res == nil || planner == nil || validator == nil || redefine == nil {
		return
	}

	// ---------------- R1
	var g9 *EdgeRule
	edges := c.edgeRules()
	for i := range edges {
		if edges[i].Class == "G9" {
			g9 = &edges[i]
		}
	}
	if g9 == nil {
		c.R.Add("REDEF-R1", "graphBuilder|redefine-root-edge", "graphBuilder", p.Pos(gb.Pos()), false, "candidate inputs are connected to the root when redefining", "no such edge rule")
	} else {
		// the redefining flag: the argBuilder bool field the planner sets to true
		flagField := ""
		core.Instrs(planner, func(in ssa.Instruction) {
			if st, ok := in.(*ssa.Store); ok {
				if fr, ok := core.AsFieldAddr(st.Addr); ok && fr.Owner == "argBuilder" {
					if k, ok := st.Val.(*ssa.Const); ok && k.Value != nil && k.Value.ExactString() == "true" {
						flagField = fr.Field
					}
				}
			}
		})
		flagged := false
		for _, l := range p.ILits(g9.Inner.Block()) {
			if l.Kind == "bool" && l.Pol {
				if fr, ok := core.AsFieldLoad(l.Of); ok && fr.Owner == "argBuilder" && fr.Field == flagField && flagField != "" {
					flagged = true
				}
			}
		}
		c.R.Add("REDEF-R1", "graphBuilder|only-when-redefining", "graphBuilder", g9.Pos, flagged,
			"candidate-input root edges are added only in redefine mode (the flag the planner sets)", fmt.Sprintf("flag field=%q guarded=%v", flagField, flagged))
		// the filter call and the nil check
		var fcall *ssa.Call
		gfn := g9.Inner.Parent() // the function that adds the edge: the graph builder or a helper extracted from it
		for _, ci := range core.Calls(gfn) {
			cc := ci.Common()
			if !cc.IsInvoke() && cc.StaticCallee() == nil && core.TypeStr(cc.Value.Type()) == "FilterFunc" {
				fcall, _ = ci.(*ssa.Call)
			}
		}
		if fcall == nil {
			c.R.Add("REDEF-R1", "graphBuilder|filter-consulted", "graphBuilder", g9.Pos, false, "the input filter is consulted for candidate inputs", "no call of a FilterFunc where the root edge is added")
		} else {
			allowed := map[[2]*ssa.BasicBlock]bool{}
			// filter(value) true
			for _, u := range *fcall.Referrers() {
				c.allowEdge(u, fcall, true, allowed)
			}
			// filter == nil : comparisons of the filter value (loaded from the builder) with nil
			fv := fcall.Common().Value
			core.Instrs(gfn, func(in ssa.Instruction) {
				b, ok := in.(*ssa.BinOp)
				if !ok || !(b.Op == token.NEQ || b.Op == token.EQL) {
					return
				}
				var other ssa.Value
				if core.IsNilConst(b.X) {
					other = b.Y
				} else if core.IsNilConst(b.Y) {
					other = b.X
				} else {
					return
				}
				if core.Path(other) != core.Path(fv) {
					return
				}
				for _, u := range *b.Referrers() {
					if iff, ok := u.(*ssa.If); ok {
						nilSucc := iff.Block().Succs[1] // NEQ: false branch = nil
						if b.Op == token.EQL {
							nilSucc = iff.Block().Succs[0]
						}
						allowed[[2]*ssa.BasicBlock{iff.Block(), nilSucc}] = true
					}
				}
			})
			// iteration start: the block that loads the candidate vertex
			var start *ssa.BasicBlock
			if ci, ok := g9.C.(ssa.Instruction); ok {
				start = ci.Block()
			}
			if start == nil {
				c.R.Undecided("REDEF-R1", "graphBuilder|filter-gates-root-edge", "graphBuilder", g9.Pos, "cannot locate the iteration start")
			} else {
				leak := core.Reachable(start, g9.Inner.Block(), allowed)
				c.R.Add("REDEF-R1", "graphBuilder|filter-gates-root-edge", "graphBuilder", g9.Pos, !leak && len(allowed) >= 2,
					"every path that connects a candidate input to the root passes `no input filter` or `filter(value) == true` (must-pass edges)",
					ternary(!leak, fmt.Sprintf("edge unreachable once the %d gate edges are cut", len(allowed)), "a path reaches the root edge without passing the filter"))
			}
			// the converse: nothing but the vertex kind and the filter's answer keeps a candidate from the root. From the
			// start of the iteration, with the edge site removed and the two legitimate rejections cut (the filter said no;
			// the vertex is neither a named value nor a typed argument), the iteration cannot be left.
			if start != nil && start.Parent() == gfn {
				var target ssa.Instruction = g9.Inner
				cut := map[[2]*ssa.BasicBlock]bool{}
				for _, u := range *fcall.Referrers() {
					c.allowEdge(u, fcall, false, cut)
				}
				isKindTest := func(b *ssa.BasicBlock) bool {
					if len(b.Instrs) == 0 {
						return false
					}
					iff, ok := b.Instrs[len(b.Instrs)-1].(*ssa.If)
					if !ok {
						return false
					}
					ex, ok := iff.Cond.(*ssa.Extract)
					if !ok || ex.Index != 1 {
						return false
					}
					ta, ok := ex.Tuple.(*ssa.TypeAssert)
					if !ok || !ta.CommaOk || (ta.X != g9.C && core.Path(ta.X) != core.Path(g9.C)) {
						return false
					}
					k := core.NamedOf(ta.AssertedType)
					return k == kinds.Value || k == kinds.Arg
				}
				inBody := func(b *ssa.BasicBlock) bool { return start.Dominates(b) }
				// successors actually possible: a constant condition has one
				succs := func(b *ssa.BasicBlock) []*ssa.BasicBlock {
					if len(b.Instrs) > 0 {
						if iff, ok := b.Instrs[len(b.Instrs)-1].(*ssa.If); ok {
							if k, ok := iff.Cond.(*ssa.Const); ok && k.Value != nil {
								if k.Value.ExactString() == "true" {
									return b.Succs[:1]
								}
								return b.Succs[1:]
							}
						}
					}
					return b.Succs
				}
				for _, b := range gfn.Blocks {
					if !inBody(b) || !isKindTest(b) {
						continue
					}
					// the failing edge of the last kind test: no further kind test can follow it
					fs := b.Succs[1]
					more := false
					seen := map[*ssa.BasicBlock]bool{fs: true}
					work := []*ssa.BasicBlock{fs}
					for len(work) > 0 {
						x := work[len(work)-1]
						work = work[:len(work)-1]
						if !inBody(x) || x == start {
							continue
						}
						if isKindTest(x) {
							more = true
						}
						for _, y := range succs(x) {
							if !seen[y] {
								seen[y] = true
								work = append(work, y)
							}
						}
					}
					if !more {
						cut[[2]*ssa.BasicBlock{b, fs}] = true
					}
				}
				leakAt := ""
				seen := map[*ssa.BasicBlock]bool{start: true}
				work := []*ssa.BasicBlock{start}
				for len(work) > 0 && leakAt == "" {
					b := work[len(work)-1]
					work = work[:len(work)-1]
					if b == target.Block() {
						continue
					}
					for _, y := range succs(b) {
						if cut[[2]*ssa.BasicBlock{b, y}] {
							continue
						}
						if !inBody(y) || y == start {
							leakAt = p.InstrPos(b.Instrs[len(b.Instrs)-1])
							break
						}
						if !seen[y] {
							seen[y] = true
							work = append(work, y)
						}
					}
				}
				if target.Block() != nil && inBody(target.Block()) {
					c.R.Add("REDEF-R1", "graphBuilder|filter-is-sufficient", "graphBuilder", g9.Pos, leakAt == "",
						"in redefine mode every named-value or typed-argument vertex the input filter permits (or every one, without a filter) is connected to the root: no other condition skips a candidate",
						ternary(leakAt == "", "the iteration can only end through the root edge, a filter rejection or the kind dispatch", "a candidate can be skipped at "+leakAt+" without consulting the filter"))
				}
			}
			// the filtered Value describes that very vertex
			descOK := false
			arg := fcall.Common().Args[0]
			srcs := core.Sources(arg)
			if ld, ok := arg.(*ssa.UnOp); ok {
				srcs = append(srcs, ld) // a variable filled field by field in place
			}
			for _, s := range srcs {
				if ld, ok := s.(*ssa.UnOp); ok {
					if al, ok := ld.X.(*ssa.Alloc); ok {
						n, okAll := 0, true
						for _, ref := range *al.Referrers() {
							if fa, ok := ref.(*ssa.FieldAddr); ok {
								fr, _ := core.AsFieldAddr(fa)
								if fr.Field != "Type" && fr.Field != "Name" && fr.Field != "Subtype" {
									continue
								}
								for _, r2 := range *fa.Referrers() {
									if st, ok := r2.(*ssa.Store); ok {
										n++
										src, ok := core.AsFieldLoad(st.Val)
										if !ok || src.Field != fr.Field {
											okAll = false
											continue
										}
										ta := assertOf(src.Base)
										if ta == nil || core.Path(ta.X) != core.Path(g9.C) {
											okAll = false
										}
									}
								}
							}
						}
						if n >= 2 && okAll {
							descOK = true
						}
					}
				}
			}
			c.R.Add("REDEF-R1", "graphBuilder|filter-sees-that-vertex", "graphBuilder", p.InstrPos(fcall), descOK,
				"the Value shown to the filter carries the name/type/subtype of the very vertex that would be connected", fmt.Sprintf("ok=%v", descOK))
		}
	}

	// ---------------- R2: input-set provenance
	n := 0
	p.RegionInstrs(res, func(in ssa.Instruction) {
		mu, ok := in.(*ssa.MapUpdate)
		if !ok {
			return
		}
		fr, ok := core.AsFieldLoad(mu.Map)
		if !ok || fr.Owner != "callState" || !strings.Contains(core.TypeStr(mu.Map.Type()), "graph.Vertex") {
			return
		}
		// an insertion made by a setter of the state (`state.recordInput(v)`) is judged at each of its call sites
		for _, ex := range p.Expand(mu) {
			muValue := ex.Sub(mu.Value)
			n++
			key := fmt.Sprintf("resolver|input-set insertion#%d", n)
			// (a) path head: value is a phi/element of this iteration's EdgeToPath result, index 0 or 1
			isHead := true
			any := false
			for _, s := range p.ISources(muValue) {
				any = true
				ld, ok := s.(*ssa.UnOp)
				if !ok {
					isHead = false
					continue
				}
				ia, ok := ld.X.(*ssa.IndexAddr)
				if !ok {
					isHead = false
					continue
				}
				k, isK := core.ConstInt(ia.Index)
				if !isK || k > 1 || !derivesFromCall(ia.X, core.GEdgeToPath) {
					isHead = false
					continue
				}
				if k == 1 {
					// only when element 0 is the root and the path is longer
					lits := core.Lits(core.Guards(ld.Block()))
					rootFirst, longer := false, false
					for _, l := range lits {
						if l.Kind == "ok" && l.Pol {
							if ta, ok := l.Of.(*ssa.TypeAssert); ok && core.NamedOf(ta.AssertedType) == kinds.Root {
								rootFirst = true
							}
						}
						if l.Kind == "cmp" && l.Op == token.GTR && l.Pol {
							if kk, ok := core.ConstInt(l.Y); ok && kk == 1 {
								longer = true
							}
						}
					}
					if !(rootFirst && longer) {
						isHead = false
					}
				}
			}
			// (b) direct use of a supplied named value
			lits := core.Lits(core.Guards(ex.At.Block()))
			direct := false
			hasValid, hasRoot := false, false
			for _, l := range lits {
				if l.Kind == "call" && l.Callee == core.RVIsValid && l.Pol {
					hasValid = true
				}
				if l.Kind == "cmp" && l.Op == token.EQL && l.Pol {
					for _, v := range []ssa.Value{l.X, l.Y} {
						if prm, ok := v.(*ssa.Parameter); ok {
							if ks := p.KindOf(prm); len(ks) == 1 && ks[0] == kinds.Root {
								hasRoot = true
							}
						}
					}
				}
				// library form: slices.Contains(g.OutEdges(v), root)
				if l.Kind == "call" && l.Pol {
					if cl, ok := l.Of.(*ssa.Call); ok && len(cl.Common().Args) == 2 {
						if pk, fn := core.StdCallee(cl.Common().StaticCallee()); pk == "slices" && fn == "Contains" {
							if prm, ok := core.Strip(cl.Common().Args[1]).(*ssa.Parameter); ok {
								if ks := p.KindOf(prm); len(ks) == 1 && ks[0] == kinds.Root {
									if r, ok := core.Root(cl.Common().Args[0]).(*ssa.Call); ok && core.CalleeName(r.Common()) == core.GOutEdges {
										hasRoot = true
									}
								}
							}
						}
					}
				}
			}
			if hasValid && hasRoot {
				if id, ok := mu.Key.(*ssa.Call); ok && core.CalleeName(id.Common()) == core.GVertexID && id.Common().Args[0] == mu.Value {
					direct = true
				}
			}
			keyOK := false
			if id, ok := mu.Key.(*ssa.Call); ok && core.CalleeName(id.Common()) == core.GVertexID && id.Common().Args[0] == mu.Value {
				keyOK = true
			}
			okk := keyOK && ((any && isHead) || direct)
			c.R.Add("REDEF-R2", key, "resolver", p.InstrPos(ex.At), okk,
				"only the head of a chosen path (the root's successor) or a supplied named value hanging off the root is recorded as a required input — never a value some converter on the chain produces",
				fmt.Sprintf("keyed-by-own-id=%v path-head=%v direct-supplied=%v", keyOK, any && isHead, direct))
		}
	})
	if n == 0 {
		c.R.Add("REDEF-R2", "resolver|input-set insertion", "resolver", p.Pos(res.Pos()), false, "the resolver records which inputs its chosen paths start from", "no insertion into the input set")
	}

	// ---------------- R3: exclusion of supplied inputs
	{
		var gbCall *ssa.Call
		for _, ci := range core.Calls(planner) {
			if ci.Common().StaticCallee() == gb {
				gbCall, _ = ci.(*ssa.Call)
			}
		}
		var stCall *ssa.Call
		for _, ci := range p.RegionCalls(planner, "reflect.StructOf") {
			stCall, _ = ci.(*ssa.Call)
		}
		if gbCall == nil || stCall == nil {
			c.R.Undecided("REDEF-R3", "planner|shape", "planner", p.Pos(planner.Pos()), "planner does not build a struct from the graph builder's results")
		} else {
			// the supplied set: a map filled with VertexID(v) for v ranging over the graph builder's input list
			var supplied ssa.Value
			p.RegionInstrs(planner, func(in ssa.Instruction) {
				if mu, ok := in.(*ssa.MapUpdate); ok {
					// the key is VertexID(v), possibly narrowed to its concrete type first (`id, ok := VertexID(v).(string)`)
					kv := core.Strip(mu.Key)
					if e, isE := kv.(*ssa.Extract); isE {
						if ta, isT := e.Tuple.(*ssa.TypeAssert); isT {
							kv = ta.X
						}
					} else if ta, isT := kv.(*ssa.TypeAssert); isT {
						kv = ta.X
					}
					if id, ok := kv.(*ssa.Call); ok && core.CalleeName(id.Common()) == core.GVertexID {
						root := core.Root(id.Common().Args[0])
						if prm, isPrm := root.(*ssa.Parameter); isPrm {
							root = p.Bind(prm) // the list handed to a private step of the planner
						}
						if r, ok := root.(*ssa.Extract); ok && r.Tuple == ssa.Value(gbCall) {
							supplied = mu.Map
						}
					}
				}
			})
			c.R.Add("REDEF-R3", "planner|supplied-set", "planner", p.Pos(planner.Pos()), supplied != nil, "the planner collects the identities of all supplied input vertices", fmt.Sprintf("found=%v", supplied != nil))
			// the supplied set as seen where the fields are added: the map itself, or what a private step that collects it
			// returns (`inputsProvided := redefineProvided(vertexI)`), possibly handed on to the step that adds the fields
			sameSet := func(v ssa.Value) bool {
				b := p.Bind(v)
				if b == supplied {
					return true
				}
				if cl, ok := core.Strip(b).(*ssa.Call); ok {
					if h := cl.Common().StaticCallee(); h != nil && p.PrivateHelper(h) && h.Signature.Results().Len() == 1 {
						n := 0
						for _, r := range core.Returns(h) {
							for _, sv := range core.Sources(r.Results[0]) {
								n++
								if sv != supplied {
									return false
								}
							}
						}
						return n > 0
					}
				}
				return false
			}
			fieldKinds := map[string]bool{}
			nf := 0
			var aps []*ssa.Call
			for _, li := range c.fieldLists(stCall.Parent(), stCall.Common().Args[0]) {
				for _, ap := range appendSites(li.fn, li.list) {
					dup := false
					for _, x := range aps {
						if x == ap {
							dup = true
						}
					}
					if !dup {
						aps = append(aps, ap)
					}
				}
			}
			for _, ap := range aps {
				lits := core.Lits(core.Guards(ap.Block()))
				inLoop := false
				var loopKey ssa.Value
				for _, l := range lits {
					if l.Kind == "ok" && l.Pol {
						if ta, ok := l.Of.(*ssa.TypeAssert); ok {
							// the required inputs visited through a list of their keys (collected from the input set, e.g. to sort
							// them): `for _, k := range keys { v := state.InputSet[k]; … }`
							if lk, isLk := ta.X.(*ssa.Lookup); isLk {
								if fr, ok := core.AsFieldLoad(p.Bind(lk.X)); ok && fr.Owner == "callState" && c.keyOfInputSet(lk.Index, fr) {
									inLoop = true
									fieldKinds[core.NamedOf(ta.AssertedType)] = true
									loopKey = core.Strip(lk.Index)
								}
							}
							if e, ok := ta.X.(*ssa.Extract); ok {
								if nx, ok := e.Tuple.(*ssa.Next); ok {
									if rg, ok := nx.Iter.(*ssa.Range); ok {
										if fr, ok := core.AsFieldLoad(p.Bind(rg.X)); ok && fr.Owner == "callState" {
											inLoop = true
											fieldKinds[core.NamedOf(ta.AssertedType)] = true
											for _, ref := range *nx.Referrers() {
												if e2, ok := ref.(*ssa.Extract); ok && e2.Index == 1 {
													loopKey = e2
												}
											}
										}
									}
								}
							}
						}
					}
				}
				if !inLoop {
					continue // the marker field
				}
				nf++
				excluded := false
				for _, l := range lits {
					if l.Kind == "ok" && !l.Pol {
						if lk, ok := l.Of.(*ssa.Lookup); ok && supplied != nil && sameSet(lk.X) && (lk.Index == loopKey || core.Strip(lk.Index) == loopKey) {
							excluded = true
						}
					}
				}
				c.R.Add("REDEF-R3", fmt.Sprintf("planner|field#%d-only-if-not-supplied", nf), "planner", p.InstrPos(ap), excluded,
					"a struct field is added only for a required input whose identity is not among the supplied inputs", fmt.Sprintf("ok=%v", excluded))
			}
			// key-space agreement: every kind that can become a field shares its hash namespace with a supplied-input kind
			suppliedKinds := map[string]bool{}
			if ib := p.MustRole("inputBuilder"); ib != nil {
				for _, ci := range p.RegionCalls(ib, core.GAddOverwrite) {
					if st, nn := core.StructOf(core.Strip(ci.Common().Args[1]).Type()); st != nil && nn != nil {
						suppliedKinds[core.TypeStr(nn)] = true
						continue
					}
					// registered through a parameter of a helper / local literal: the kinds its call sites hand in
					for _, kn := range p.KindOf(ci.Common().Args[1]) {
						if kn != "?" {
							suppliedKinds[kn] = true
						}
					}
				}
			}
			for k := range fieldKinds {
				okk := suppliedKinds[k]
				c.R.Add("REDEF-R3", "planner|exclusion-keyspace|"+k, "planner", p.Pos(planner.Pos()), okk,
					"supplied inputs and required inputs are compared in the same identity namespace (otherwise a supplied value can never be recognised and is demanded again)",
					ternary(okk, "supplied inputs are registered as "+k+" too", "required inputs of kind "+k+" are looked up among supplied inputs that are registered as "+strings.Join(setKeys(suppliedKinds), "/")+" (different hash namespace)"))
			}
		}
	}

	// ---------------- R4: output filter
	{
		var fcall *ssa.Call
		for _, ci := range core.Calls(validator) {
			cc := ci.Common()
			if !cc.IsInvoke() && cc.StaticCallee() == nil && core.TypeStr(cc.Value.Type()) == "FilterFunc" {
				fcall, _ = ci.(*ssa.Call)
			}
		}
		if fcall == nil {
			c.R.Add("REDEF-R4", "validator|filter", "outputValidator", p.Pos(validator.Pos()), false, "the output filter is applied to the outputs", "no filter call")
		} else {
			// ranges over the function's own output values
			overOutputs := false
			for _, src := range core.Sources(fcall.Common().Args[0]) {
				if ld, ok := src.(*ssa.UnOp); ok {
					if ia, ok := ld.X.(*ssa.IndexAddr); ok {
						if cl, ok := ia.X.(*ssa.Call); ok && cl.Common().StaticCallee() != nil && cl.Common().StaticCallee().Name() == "Values" {
							// …of the function's own output set
							if oc, ok := cl.Common().Args[0].(*ssa.Call); ok && oc.Common().StaticCallee() != nil && oc.Common().StaticCallee().Name() == "Output" {
								overOutputs = true
							}
							if fr, ok := core.AsFieldLoad(cl.Common().Args[0]); ok && fr.Owner == "Func" && fr.Field == "output" {
								overOutputs = true
							}
							// the set is handed in by the caller: at every call site it is the function's own output set
							if prm, ok := core.Strip(cl.Common().Args[0]).(*ssa.Parameter); ok && prm.Parent() == validator {
								idx := paramIndex(prm)
								sites := p.Callers(validator)
								all := idx >= 0 && len(sites) > 0
								for _, site := range sites {
									if idx >= len(site.Common().Args) {
										all = false
										continue
									}
									a := core.Strip(site.Common().Args[idx])
									isOut := false
									if oc, ok := a.(*ssa.Call); ok && oc.Common().StaticCallee() != nil && oc.Common().StaticCallee().Name() == "Output" && len(oc.Common().Args) == 1 {
										if rp, ok := core.Strip(oc.Common().Args[0]).(*ssa.Parameter); ok && rp.Parent() == site.Parent() && paramIndex(rp) == 0 {
											isOut = true
										}
									}
									if fr, ok := core.AsFieldLoad(a); ok && fr.Owner == "Func" && fr.Field == "output" {
										isOut = true
									}
									if !isOut {
										all = false
									}
								}
								if all {
									overOutputs = true
								}
							}
						}
					}
				}
			}
			// … and the loop has no early exit: from the filter call every way out of the function leads back through the
			// loop header (a `break` or `return` after the first accepted output would leave the rest unexamined)
			early := ""
			for _, src := range core.Sources(fcall.Common().Args[0]) {
				ld, ok := src.(*ssa.UnOp)
				if !ok {
					continue
				}
				ia, ok := ld.X.(*ssa.IndexAddr)
				if !ok {
					continue
				}
				var hdr *ssa.BasicBlock
				switch ix := ia.Index.(type) {
				case *ssa.Phi:
					hdr = ix.Block()
				case *ssa.BinOp:
					if ph, ok := ix.X.(*ssa.Phi); ok {
						hdr = ph.Block()
					}
				}
				if hdr == nil {
					early = "loop over the outputs not recognised"
					continue
				}
				// no output is passed over: from the start of an iteration the next one is reached only through the filter call
				if ld.Block() != fcall.Block() && ld.Block().Parent() == fcall.Parent() && core.ReachableAvoiding(ld.Block(), hdr, map[*ssa.BasicBlock]bool{fcall.Block(): true}) {
					early = "an iteration can end without the output having been shown to the filter (a condition before the filter call at " + p.InstrPos(fcall) + " skips it)"
				}
				for _, r := range core.Returns(validator) {
					if core.ReachableAvoiding(fcall.Block(), r.Block(), map[*ssa.BasicBlock]bool{hdr: true}) {
						early = "the function can be left at " + p.InstrPos(r) + " from inside the loop without examining the remaining outputs"
					}
				}
			}
			c.R.Add("REDEF-R4", "validator|every-output", "outputValidator", p.InstrPos(fcall), overOutputs && early == "", "every declared output is shown to the output filter", fmt.Sprintf("ranges-over-outputs=%v %s", overOutputs, early))
			// a rejected output makes the returned error non-nil
			rejects := false
			for _, r := range core.Returns(validator) {
				for _, s := range core.Sources(r.Results[0]) {
					if mi := core.Strip(s); mi != nil {
						if cl, ok := mi.(*ssa.Call); ok && isErrAccumulator(cl.Common()) {
							for _, l := range core.Lits(core.Guards(cl.Block())) {
								if l.Kind == "call" && !l.Pol && l.Of == ssa.Value(fcall) {
									rejects = true
								}
							}
						}
					}
				}
			}
			c.R.Add("REDEF-R4", "validator|rejection-is-error", "outputValidator", p.InstrPos(fcall), rejects, "an output the filter rejects makes the validator return a non-nil error", fmt.Sprintf("ok=%v", rejects))
		}
		// Redefine: validator before planner, its error returned
		var vc, pc *ssa.Call
		for _, ci := range core.Calls(redefine) {
			switch ci.Common().StaticCallee() {
			case validator:
				vc, _ = ci.(*ssa.Call)
			case planner:
				pc, _ = ci.(*ssa.Call)
			}
		}
		okOrder := vc != nil && pc != nil && nilCheckLit(core.Lits(core.Guards(pc.Block())), vc, true)
		c.R.Add("REDEF-R4", "Redefine|outputs-validated-first", "Redefine", posOf(p, redefine), okOrder, "Redefine plans inputs only after the outputs passed the output filter", fmt.Sprintf("ok=%v", okOrder))
		// … and no successful return bypasses that validation (a fast path in front of it would hand out a function whose
		// outputs the filter rejects)
		bypass := ""
		if vc != nil {
			verr := errOf(vc)
			if verr == nil {
				verr = vc
			}
			for _, r := range core.Returns(redefine) {
				if len(r.Results) == 0 {
					continue
				}
				ev := r.Results[len(r.Results)-1]
				lits := core.Lits(core.Guards(r.Block()))
				if !core.IsNilConst(ev) && nilCheckLit(lits, ev, false) {
					continue // an error return
				}
				if !nilCheckLit(lits, verr, true) {
					bypass = p.InstrPos(r)
				}
			}
		}
		c.R.Add("REDEF-R4", "Redefine|no-return-bypasses-validation", "Redefine", posOf(p, redefine), vc != nil && bypass == "",
			"every return of Redefine that may succeed lies behind the nil-error branch of the output validation",
			ternary(bypass == "", "all successful returns validated", "return at "+bypass+" is reachable without the output validation"))
	}

	// ---------------- R5: the generated function forwards to the original
	{
		body := p.GeneratedBody()
		call := p.MustRole("Call")
		if body == nil || call == nil {
			c.R.Undecided("REDEF-R5", "Redefine|body", "Redefine", posOf(p, redefine), "generated function body not found")
			return
		}
		c.R.Func(core.FuncName(body))
		// capturedIs: v (inside the generated body) is the captured copy of Redefine's parameter i — directly, or through
		// the parameters of the private helper that builds the body
		capturedIs := func(v ssa.Value, i int) bool {
			want := ssa.Value(redefine.Params[i])
			if d := p.DerefFree(v); d != nil && p.Bind(core.Strip(d)) == want {
				return true
			}
			if fv, ok := v.(*ssa.FreeVar); ok {
				if b := p.Binding(fv); b != nil && p.Bind(core.Strip(b)) == want {
					return true
				}
			}
			// the generated function is a method of a small struct built by Redefine: a field set once, at construction
			if cf := p.ConstructedField(v); cf != v && cf == want {
				return true
			}
			return false
		}
		var cc *ssa.Call
		for _, ci := range core.Calls(body) {
			if ci.Common().StaticCallee() == call {
				cc, _ = ci.(*ssa.Call)
			}
		}
		if cc == nil {
			c.R.Add("REDEF-R5", "generated|calls-original", core.FuncName(body), p.Pos(body.Pos()), false, "the generated function calls the original function", "no Call")
			return
		}
		recvOK := capturedIs(cc.Common().Args[0], 0)
		c.R.Add("REDEF-R5", "generated|calls-original", core.FuncName(body), p.InstrPos(cc), recvOK, "the generated function calls Call on the original function", fmt.Sprintf("ok=%v", recvOK))
		// arguments: a private copy of the original options followed by one Named/Typed per declared input
		args := cc.Common().Args[1]
		hasOpts, hasNamed, hasTyped, private := false, false, false, false
		var walk func(v ssa.Value, d int)
		seen := map[ssa.Value]bool{}
		bindings := map[*ssa.Parameter]ssa.Value{} // parameters of list-building helpers → arguments of the call being expanded
		walk = func(v ssa.Value, d int) {
			if v == nil || seen[v] || d > 14 {
				return
			}
			seen[v] = true
			switch x := v.(type) {
			case *ssa.Parameter:
				if a, ok := bindings[x]; ok {
					walk(a, d+1)
				}
			case *ssa.Slice:
				// opts[:len(opts):len(opts)]: the captured options with no spare capacity — whatever is appended onto this
				// lands in an array of the invocation's own
				if capLimited(x) {
					src := x.X
					for i := 0; i < 3; i++ {
						if prm, ok := src.(*ssa.Parameter); ok {
							if b, ok := bindings[prm]; ok {
								src = b
								continue
							}
						}
						break
					}
					if capturedIs(src, 1) {
						hasOpts, private = true, true
					}
				}
				walk(x.X, d+1)
			case *ssa.Extract:
				// `args, err := c.args(v)`: the list result of a private helper with several results
				if cl, ok := x.Tuple.(*ssa.Call); ok {
					if h := cl.Common().StaticCallee(); h != nil && p.PrivateHelper(h) && x.Index < h.Signature.Results().Len() && core.TypeStr(h.Signature.Results().At(x.Index).Type()) == "[]Arg" {
						for i, prm := range h.Params {
							if i < len(cl.Common().Args) {
								bindings[prm] = cl.Common().Args[i]
							}
						}
						for _, r := range core.Returns(h) {
							for _, o := range core.ReturnOperand(r, x.Index) {
								walk(o, d+1)
							}
						}
					}
				}
			case *ssa.Phi:
				for _, e := range x.Edges {
					walk(e, d+1)
				}
			case *ssa.Call:
				// a private helper that builds (part of) the argument list: its returned lists, parameters bound to this call
				if h := x.Common().StaticCallee(); h != nil && p.PrivateHelper(h) && h.Signature.Results().Len() == 1 && core.TypeStr(h.Signature.Results().At(0).Type()) == "[]Arg" {
					for i, prm := range h.Params {
						if i < len(x.Common().Args) {
							bindings[prm] = x.Common().Args[i]
						}
					}
					for _, r := range core.Returns(h) {
						walk(r.Results[0], d+1)
					}
					return
				}
				// slices.Clone(opts) / slices.Concat(opts, …): a private copy of the captured options
				if pk, fn := core.StdCallee(x.Common().StaticCallee()); pk == "slices" && (fn == "Grow" || fn == "Clip") && len(x.Common().Args) >= 1 {
					walk(x.Common().Args[0], d+1) // the same list, with room to grow
					return
				}
				if pk, fn := core.StdCallee(x.Common().StaticCallee()); pk == "slices" && (fn == "Clone" || fn == "Concat") {
					as := x.Common().Args
					if fn == "Concat" && len(as) == 1 {
						as = sliceElems(as[0], 0, map[ssa.Value]bool{})
					}
					for _, a := range as {
						src := a
						for i := 0; i < 3; i++ {
							if prm, ok := src.(*ssa.Parameter); ok {
								if b, ok := bindings[prm]; ok {
									src = b
									continue
								}
							}
							break
						}
						if capturedIs(src, 1) {
							hasOpts, private = true, true
						} else {
							walk(src, d+1)
						}
					}
					return
				}
				if core.CalleeName(x.Common()) == "builtin.append" {
					// append(opts[:len(opts):len(opts)], …): the captured options with their capacity clipped — the append
					// cannot write into the captured array, its result is a list of this invocation's own
					if sl, ok := core.Strip(x.Common().Args[0]).(*ssa.Slice); ok && capLimited(sl) {
						src := sl.X
						for i := 0; i < 3; i++ {
							if prm, ok := src.(*ssa.Parameter); ok {
								if b, ok := bindings[prm]; ok {
									src = b
									continue
								}
							}
							break
						}
						if capturedIs(src, 1) {
							hasOpts, private = true, true
						}
					}
					walk(x.Common().Args[0], d+1)
					// append(nil-or-fresh, opts...) : a private copy of the captured options
					if len(x.Common().Args) == 2 {
						src := x.Common().Args[1]
						for i := 0; i < 3; i++ {
							if prm, ok := src.(*ssa.Parameter); ok {
								if a, ok := bindings[prm]; ok {
									src = a
									continue
								}
							}
							break
						}
						walk(src, d+1)
						isOpts := capturedIs(src, 1)
						if isOpts && (core.IsNilConst(x.Common().Args[0]) || p.FreshIn(x.Common().Args[0])) {
							hasOpts, private = true, true
						}
					}
					for _, e := range appendedValues(x) {
						if cl, ok := e.(*ssa.Call); ok && cl.Common().StaticCallee() != nil {
							switch cl.Common().StaticCallee().Name() {
							case "Named":
								hasNamed = true
							case "Typed":
								hasTyped = true
							}
						}
					}
				}
			case *ssa.MakeSlice:
				private = true
				core.Instrs(x.Parent(), func(in ssa.Instruction) {
					if cl, ok := in.(*ssa.Call); ok && core.CalleeName(cl.Common()) == "builtin.copy" && cl.Common().Args[0] == ssa.Value(x) {
						src := cl.Common().Args[1]
						for i := 0; i < 3; i++ {
							// the copy is made inside a list-building step: its parameter is the list handed to the step
							if prm, ok := src.(*ssa.Parameter); ok {
								if a, ok := bindings[prm]; ok {
									src = a
									continue
								}
							}
							break
						}
						if capturedIs(src, 1) {
							hasOpts = true
						}
					}
				})
			}
		}
		walk(args, 0)
		c.R.Add("REDEF-R5", "generated|forwards-options-and-inputs", core.FuncName(body), p.InstrPos(cc), hasOpts && hasNamed && hasTyped,
			"the original options plus one Named/Typed argument per declared input are handed to Call", fmt.Sprintf("original-options=%v named-inputs=%v typed-inputs=%v", hasOpts, hasNamed, hasTyped))
		c.R.Add("REDEF-R5", "generated|private-argument-slice", core.FuncName(body), p.InstrPos(cc), private && hasOpts,
			"each invocation assembles its arguments in a slice of its own (the captured option slice is only copied from)", fmt.Sprintf("fresh-slice=%v", private))
		// declared inputs are read from the function's own argument struct by field index
		fromArg := false
		p.RegionInstrs(body, func(in ssa.Instruction) {
			if cl, ok := in.(*ssa.Call); ok && core.CalleeName(cl.Common()) == "(reflect.Value).Field" {
				if fr, ok := core.AsFieldLoad(cl.Common().Args[1]); ok && fr.Field == "index" {
					if ld, ok := p.Bind(cl.Common().Args[0]).(*ssa.UnOp); ok {
						if ia, ok := ld.X.(*ssa.IndexAddr); ok {
							// the generated function's own argument list: its []reflect.Value parameter
							for _, bp := range body.Params {
								if core.TypeStr(bp.Type()) == "[]reflect.Value" && ia.X == ssa.Value(bp) {
									fromArg = true
								}
							}
						}
					}
				}
			}
		})
		c.R.Add("REDEF-R5", "generated|inputs-from-own-arguments", core.FuncName(body), p.Pos(body.Pos()), fromArg, "declared inputs are taken from the generated function's own argument struct, by recorded field index", fmt.Sprintf("ok=%v", fromArg))
		// the declared result types of the generated function are the original function's own result types, in order,
		// plus a final error if it had none
		{
			var funcOf *ssa.Call
			for _, ci := range p.RegionCalls(redefine, "reflect.FuncOf") {
				funcOf, _ = ci.(*ssa.Call)
			}
			fnField := p.FuncFnField()
			okT, whyT := false, "no reflect.FuncOf call found"
			if funcOf != nil {
				okT, whyT = true, "result types are Out(i) of the wrapped function's type, plus the error type"
				seenT := map[ssa.Value]bool{}
				nOut := 0
				// parameters of a private step that computes the list, bound to the arguments of the call that reaches it
				envT := map[*ssa.Parameter]ssa.Value{}
				viaEnv := func(vs []ssa.Value) []ssa.Value {
					var out []ssa.Value
					for _, v := range vs {
						if pr, isP := v.(*ssa.Parameter); isP {
							if a, bound := envT[pr]; bound {
								out = append(out, core.Sources(a)...)
								continue
							}
						}
						out = append(out, v)
					}
					return out
				}
				stepResult := func(cl *ssa.Call, idx int, d int, wt func(ssa.Value, int)) bool {
					h := cl.Common().StaticCallee()
					if h == nil || !p.InTarget(h) || h.Blocks == nil || cl.Common().IsInvoke() {
						return false
					}
					args := cl.Common().Args
					for i, pr := range h.Params {
						if i < len(args) {
							envT[pr] = args[i]
						}
					}
					for _, r := range core.Returns(h) {
						if idx < len(r.Results) {
							wt(r.Results[idx], d+1)
						}
					}
					return true
				}
				var wt func(v ssa.Value, d int)
				wt = func(v ssa.Value, d int) {
					if v == nil || seenT[v] || d > 12 || !okT {
						return
					}
					seenT[v] = true
					switch x := v.(type) {
					case *ssa.Phi:
						for _, e := range x.Edges {
							wt(e, d+1)
						}
					case *ssa.Slice:
						wt(x.X, d+1)
					case *ssa.Extract:
						if cl, isC := x.Tuple.(*ssa.Call); isC && stepResult(cl, x.Index, d, wt) {
							return
						}
						okT, whyT = false, "result types come from "+core.Path(v)
					case *ssa.UnOp:
						if cf := p.ConstructedField(x); cf != ssa.Value(x) {
							wt(cf, d+1) // a field of the generated function's state struct, set once by its constructor
							return
						}
						srcs := core.Sources(x)
						if len(srcs) == 1 && srcs[0] == ssa.Value(x) {
							okT, whyT = false, "result types come from "+core.Path(v)
							return
						}
						for _, sv := range srcs {
							wt(sv, d+1)
						}
					case *ssa.MakeSlice:
						// every element stored is Out(i) of f.fn.Type()
						core.Instrs(x.Parent(), func(in ssa.Instruction) {
							st, ok := in.(*ssa.Store)
							if !ok {
								return
							}
							ia, ok := st.Addr.(*ssa.IndexAddr)
							if !ok {
								return
							}
							isX := ia.X == ssa.Value(x)
							for _, sv := range core.Sources(ia.X) {
								if sv == ssa.Value(x) {
									isX = true
								}
							}
							if !isX {
								return
							}
							cl, ok := st.Val.(*ssa.Call)
							if !ok || core.CalleeName(cl.Common()) != "(reflect.Type).Out" {
								okT, whyT = false, "a result type is taken from "+core.Path(st.Val)
								return
							}
							recv := core.CallArgs(cl.Common())[0]
							for _, rs := range viaEnv(core.Sources(recv)) {
								tc, ok := rs.(*ssa.Call)
								if !ok || core.CalleeName(tc.Common()) != "(reflect.Value).Type" {
									okT, whyT = false, "result types are read from "+core.Path(rs)+", not from the wrapped function's type"
									continue
								}
								if fr, ok := core.AsFieldLoad(core.CallArgs(tc.Common())[0]); !ok || fr.Owner != "Func" || fr.Field != fnField {
									okT, whyT = false, "result types are read from "+core.Path(rs)+", not from the wrapped function's type"
								}
							}
							nOut++
						})
					case *ssa.Call:
						if core.CalleeName(x.Common()) == "builtin.append" {
							wt(x.Common().Args[0], d+1)
							for _, e := range appendedValues(x) {
								if ld, ok := e.(*ssa.UnOp); ok && p.IsErrTypeGlobal(ld) {
									continue
								}
								// the list built by appending Out(i) of the wrapped function's own type for a counter i
								if cl, ok := e.(*ssa.Call); ok && core.CalleeName(cl.Common()) == "(reflect.Type).Out" {
									as := core.CallArgs(cl.Common())
									own := len(as) == 2
									if own {
										for _, rs := range viaEnv(core.Sources(as[0])) {
											tc, ok := rs.(*ssa.Call)
											if !ok || core.CalleeName(tc.Common()) != "(reflect.Value).Type" {
												own = false
												continue
											}
											if fr, ok := core.AsFieldLoad(core.CallArgs(tc.Common())[0]); !ok || fr.Owner != "Func" || fr.Field != fnField {
												own = false
											}
										}
										if ph, isPhi := as[1].(*ssa.Phi); !isPhi || !isCounter(ph) {
											own = false
										}
									}
									if own {
										nOut++
										continue
									}
								}
								okT, whyT = false, "a result type other than the error type is appended: "+core.Path(e)
							}
							return
						}
						if x.Common().Signature().Results().Len() == 1 && stepResult(x, 0, d, wt) {
							return
						}
						okT, whyT = false, "result types come from "+core.ShortCallee(core.CalleeName(x.Common()))+", not from the wrapped function's own type"
					default:
						okT, whyT = false, "result types come from "+core.Path(v)
					}
				}
				for _, sv := range p.ISources(funcOf.Common().Args[1]) {
					wt(sv, 0)
				}
				if okT && nOut == 0 {
					okT, whyT = false, "no result type taken from the wrapped function"
				}
			}
			c.R.Add("REDEF-R5", "generated|declares-original-result-types", "Redefine", posOf(p, redefine), okT,
				"the redefined function declares exactly the result types of the original function (its own reflect type, position by position), plus a final error if it had none", whyT)
		}
		// results: error path puts the error last, success path returns the original outputs (plus a nil error if it had none)
		errPath, okPath := false, false
		for _, r := range core.Returns(body) {
			for _, s := range p.ISources(r.Results[0]) {
				switch x := s.(type) {
				case *ssa.MakeSlice:
					// retval: last element = ValueOf(err)
					core.Instrs(x.Parent(), func(in ssa.Instruction) {
						if st, ok := in.(*ssa.Store); ok {
							if ia, ok := st.Addr.(*ssa.IndexAddr); ok && ia.X == ssa.Value(x) {
								if _, ok := c.boxedErr(st.Val); ok {
									if b, ok := ia.Index.(*ssa.BinOp); ok && b.Op == token.SUB {
										errPath = true
									}
								}
							}
						}
					})
				case *ssa.Call:
					if core.CalleeName(x.Common()) == "builtin.append" {
						if fr, ok := core.AsFieldLoad(x.Common().Args[0]); ok && fr.Owner == "Result" && fr.Field == "out" {
							okPath = true
						}
					}
					// helper form: zeroValuesWithError(types, err) returning a fresh slice whose last element is ValueOf(err)
					if h := x.Common().StaticCallee(); h != nil && p.InTarget(h) && h.Blocks != nil {
						for _, hr := range core.Returns(h) {
							for _, hs := range core.Sources(hr.Results[0]) {
								if mk, ok := hs.(*ssa.MakeSlice); ok {
									core.Instrs(h, func(in ssa.Instruction) {
										if st, ok := in.(*ssa.Store); ok {
											if ia, ok := st.Addr.(*ssa.IndexAddr); ok && ia.X == ssa.Value(mk) {
												if cl, ok := st.Val.(*ssa.Call); ok && core.CalleeName(cl.Common()) == "reflect.ValueOf" {
													if _, isParam := core.Strip(cl.Common().Args[0]).(*ssa.Parameter); isParam {
														if b, ok := ia.Index.(*ssa.BinOp); ok && b.Op == token.SUB {
															errPath = true
														}
													}
												}
											}
										}
									})
								}
							}
						}
					}
				default:
					if fr, ok := core.AsFieldLoad(s); ok && fr.Owner == "Result" && fr.Field == "out" {
						okPath = true
					}
				}
			}
		}
		// the error-path result list is complete: every slot is filled with a zero value (a loop of reflect.Zero over all
		// positions, or a copy from a list built that way) BEFORE the error is written into the last slot — an unfilled
		// slot is an invalid reflect.Value (reflect.MakeFunc panics), a fill after the error store erases the error
		{
			nErr, complete, why := 0, true, ""
			for _, g := range p.Region(body) {
				core.Instrs(g, func(in ssa.Instruction) {
					st, ok := in.(*ssa.Store)
					if !ok {
						return
					}
					ia, ok := st.Addr.(*ssa.IndexAddr)
					if !ok {
						return
					}
					mk, ok := ia.X.(*ssa.MakeSlice)
					if !ok || core.TypeStr(mk.Type()) != "[]reflect.Value" {
						return
					}
					if _, ok := c.boxedErr(st.Val); !ok {
						return
					}
					if b, ok := ia.Index.(*ssa.BinOp); !ok || b.Op != token.SUB {
						return
					}
					nErr++
					filled, late := false, false
					core.Instrs(g, func(in2 ssa.Instruction) {
						isFill := false
						switch x := in2.(type) {
						case *ssa.Store:
							if ia2, ok := x.Addr.(*ssa.IndexAddr); ok && ia2.X == ssa.Value(mk) && x != st {
								if c.zeroErr(x.Val) {
									switch ix := ia2.Index.(type) {
									case *ssa.Phi:
										isFill = isCounter(ix)
									case *ssa.BinOp:
										if ph, ok := ix.X.(*ssa.Phi); ok {
											isFill = isCounter(ph)
										}
									}
								}
							}
						case *ssa.Call:
							if core.CalleeName(x.Common()) == "builtin.copy" && x.Common().Args[0] == ssa.Value(mk) {
								isFill = true
							}
						}
						if isFill {
							filled = true
							if core.CanFollow(st, in2) {
								late = true
							}
						}
					})
					if !filled {
						complete, why = false, "no zero-fill of every slot of the error-path result list at "+p.InstrPos(st)
					} else if late {
						complete, why = false, "a zero-fill of the result list can run after the error was stored at "+p.InstrPos(st)
					}
				})
			}
			if nErr == 0 {
				complete, why = false, "no error-path result list found"
			}
			c.R.Add("REDEF-R5", "generated|error-result-complete", core.FuncName(body), p.Pos(body.Pos()), complete,
				"on the error path every result slot holds a zero value and the error is written last", ternary(complete, "filled, then the error stored", why))
		}
		// the final error type is appended exactly when it is missing: the append is reached over two ways, "the function
		// has no results" and "its last result is not the error type" — not under their negations, not under both at once
		p.RegionInstrs(redefine, func(in ssa.Instruction) {
			ap, ok := in.(*ssa.Call)
			if !ok || core.CalleeName(ap.Common()) != "builtin.append" || core.TypeStr(ap.Type()) != "[]reflect.Type" {
				return
			}
			isErrAppend := false
			for _, e := range appendedValues(ap) {
				if ld, ok := e.(*ssa.UnOp); ok && p.IsErrTypeGlobal(ld) {
					isErrAppend = true
				}
			}
			if !isErrAppend {
				return
			}
			isLenZero := func(l core.Lit) (bool, bool) { // (is such a test, holds positively)
				if l.Kind != "cmp" || l.Op != token.EQL {
					return false, false
				}
				for _, pr := range [][2]ssa.Value{{l.X, l.Y}, {l.Y, l.X}} {
					if cl, ok := pr[0].(*ssa.Call); ok && core.CalleeName(cl.Common()) == "builtin.len" {
						if k, ok := core.ConstInt(pr[1]); ok && k == 0 {
							return true, l.Pol
						}
					}
				}
				return false, false
			}
			isErrCmp := func(l core.Lit) (bool, bool) {
				if l.Kind != "cmp" || l.Op != token.EQL {
					return false, false
				}
				for _, v := range []ssa.Value{l.X, l.Y} {
					if ld, ok := core.Strip(v).(*ssa.UnOp); ok && p.IsErrTypeGlobal(ld) {
						return true, l.Pol
					}
				}
				return false, false
			}
			blk := ap.Block()
			bad, decided := "", false
			if len(blk.Preds) == 2 {
				nEmpty, nNotErr := 0, 0
				for _, pr := range blk.Preds {
					iff, isIf := pr.Instrs[len(pr.Instrs)-1].(*ssa.If)
					if !isIf {
						return
					}
					l := core.LitOf(iff.Cond, pr.Succs[0] == blk)
					if is, pol := isLenZero(l); is {
						decided = true
						if pol {
							nEmpty++
						} else {
							bad = "appended when the function HAS results, whatever the last one is"
						}
					} else if is, pol := isErrCmp(l); is {
						decided = true
						if !pol {
							nNotErr++
						} else {
							bad = "appended when the last result IS the error type"
						}
					}
				}
				if decided && bad == "" && (nEmpty != 1 || nNotErr != 1) {
					bad = "the two ways into the append are not \"no results\" and \"last result is not the error type\""
				}
			} else if len(blk.Preds) == 1 {
				hasLen, hasErr := false, false
				for _, l := range core.Lits(core.Guards(blk)) {
					if is, pol := isLenZero(l); is && pol {
						hasLen = true
					}
					if is, _ := isErrCmp(l); is {
						hasErr = true
					}
				}
				if hasLen && hasErr {
					decided, bad = true, "appended only when the function has no results AND the comparison with the error type holds (a function with results never gets its error)"
				}
			}
			if decided {
				c.R.Add("REDEF-R5", "generated|error-type-appended-iff-missing", "Redefine", p.InstrPos(ap), bad == "",
					"the final error type is appended exactly when the original has no results or its last result is not the error type", ternary(bad == "", "no results, or last result not the error type", bad))
			}
		})
		// the error-path result list is as long as the declared result list: the list whose length sizes it is the very
		// list handed to reflect.FuncOf — the same variable, or a field of the generated function's state that holds every
		// alternative of that list (a state struct filled before the final error type is appended declares one result
		// more than the error path returns)
		{
			var funcOf *ssa.Call
			for _, ci := range p.RegionCalls(redefine, "reflect.FuncOf") {
				funcOf, _ = ci.(*ssa.Call)
			}
			if funcOf != nil {
				declared := map[ssa.Value]bool{}
				for _, sv := range p.ISources(funcOf.Common().Args[1]) {
					declared[core.Strip(sv)] = true
				}
				for _, g := range p.Region(body) {
					core.Instrs(g, func(in ssa.Instruction) {
						mk, ok := in.(*ssa.MakeSlice)
						if !ok || core.TypeStr(mk.Type()) != "[]reflect.Value" {
							return
						}
						// only the list that receives the boxed error
						isErrList := false
						core.Instrs(g, func(in2 ssa.Instruction) {
							if st, ok := in2.(*ssa.Store); ok {
								if ia, ok := st.Addr.(*ssa.IndexAddr); ok && ia.X == ssa.Value(mk) {
									if _, ok := c.boxedErr(st.Val); ok {
										isErrList = true
									}
								}
							}
						})
						ln, ok := core.Strip(mk.Len).(*ssa.Call)
						if !isErrList || !ok || core.CalleeName(ln.Common()) != "builtin.len" {
							return
						}
						x := p.Bind(core.Strip(ln.Common().Args[0]))
						if core.TypeStr(x.Type()) != "[]reflect.Type" {
							return
						}
						have := map[ssa.Value]bool{}
						if fr, isField := core.AsFieldLoad(x); isField && fr.Owner != "" && fr.Owner != "Func" {
							// declared from the same field of the state struct
							if dfr, isF := core.AsFieldLoad(core.Strip(funcOf.Common().Args[1])); isF && dfr.Owner == fr.Owner && dfr.Field == fr.Field {
								c.R.Add("REDEF-R5", "generated|error-result-sized-by-declared-types", core.FuncName(g), p.InstrPos(mk), true,
									"the error-path result list is sized by the very list of result types the generated function was declared with", "same field of the generated function's state")
								return
							}
							for _, rf := range p.Region(redefine) {
								core.Instrs(rf, func(in3 ssa.Instruction) {
									if st, ok := in3.(*ssa.Store); ok {
										if sf, ok := core.AsFieldAddr(st.Addr); ok && sf.Owner == fr.Owner && sf.Field == fr.Field {
											for _, sv := range p.ISources(st.Val) {
												have[core.Strip(sv)] = true
											}
										}
									}
								})
							}
						} else {
							var vals []ssa.Value
							switch y := x.(type) {
							case *ssa.UnOp:
								if fv, isFree := y.X.(*ssa.FreeVar); isFree && y.Op == token.MUL {
									if a, isAlloc := p.Binding(fv).(*ssa.Alloc); isAlloc {
										for _, ref := range *a.Referrers() {
											if st, isSt := ref.(*ssa.Store); isSt && st.Addr == ssa.Value(a) {
												vals = append(vals, st.Val)
											}
										}
									}
								}
							case *ssa.FreeVar:
								vals = append(vals, p.Binding(y))
							}
							if len(vals) == 0 {
								vals = append(vals, x)
							}
							for _, v0 := range vals {
								if v0 == nil {
									continue
								}
								for _, sv := range p.ISources(v0) {
									have[core.Strip(sv)] = true
								}
							}
						}
						if len(have) == 0 {
							return
						}
						missing := ""
						for dv := range declared {
							if !have[dv] {
								missing = core.Path(dv)
							}
						}
						c.R.Add("REDEF-R5", "generated|error-result-sized-by-declared-types", core.FuncName(g), p.InstrPos(mk), missing == "",
							"the error-path result list is sized by the very list of result types the generated function was declared with",
							ternary(missing == "", "same list", "the declared list can be "+missing+", which never reaches "+core.Path(x)))
					})
				}
			}
		}
		c.R.Add("REDEF-R5", "generated|returns-original-results", core.FuncName(body), p.Pos(body.Pos()), errPath && okPath,
			"the generated function returns the original function's outputs, or zero values with the error in final position", fmt.Sprintf("error-path=%v success-path=%v", errPath, okPath))
	}
	_ = types.Typ
}

func setKeys(m map[string]bool) []string {
	var out []string
	for k := range m {
		out = append(out, k)
	}
	return out
}

// allowEdge records the CFG edge taken when call result v (possibly negated) is `want`.
func (c *Ctx) allowEdge(u ssa.Instruction, v ssa.Value, want bool, allowed map[[2]*ssa.BasicBlock]bool) {
	switch x := u.(type) {
	case *ssa.If:
		s := x.Block().Succs[0]
		if !want {
			s = x.Block().Succs[1]
		}
		allowed[[2]*ssa.BasicBlock{x.Block(), s}] = true
	case *ssa.UnOp:
		if x.Op == token.NOT {
			for _, u2 := range *x.Referrers() {
				c.allowEdge(u2, x, !want, allowed)
			}
		}
	}
}

func derivesFromCall(v ssa.Value, callee string) bool {
	for i := 0; i < 12; i++ {
		switch x := v.(type) {
		case *ssa.Parameter:
			// the path handed to a private step
			if core.Active == nil {
				return false
			}
			b := core.Active.Bind(x)
			if b == ssa.Value(x) {
				return false
			}
			v = b
			continue
		case *ssa.Call:
			if core.CalleeName(x.Common()) == callee {
				return true
			}
			// a private step that returns exactly what the callee produced (`return g.EdgeToPath(…)`)
			if h := x.Common().StaticCallee(); h != nil && core.Active != nil && core.Active.PrivateHelper(h) && h.Signature.Results().Len() == 1 {
				rets := core.Returns(h)
				for _, r := range rets {
					if len(r.Results) != 1 || !derivesFromCall(r.Results[0], callee) {
						return false
					}
				}
				return len(rets) > 0
			}
			return false
		case *ssa.UnOp:
			switch a := x.X.(type) {
			case *ssa.IndexAddr:
				// element of a slice of paths: find what is stored into that slice
				if mk, ok := a.X.(*ssa.MakeSlice); ok {
					found := false
					for _, ref := range *mk.Referrers() {
						if ia, ok := ref.(*ssa.IndexAddr); ok {
							for _, r2 := range *ia.Referrers() {
								if st, ok := r2.(*ssa.Store); ok {
									if derivesFromCall(st.Val, callee) {
										found = true
									}
								}
							}
						}
					}
					return found
				}
				v = a.X
			case *ssa.Alloc:
				if s := core.SingleStore(a); s != nil {
					v = s
				} else {
					return false
				}
			default:
				return false
			}
		case *ssa.Phi:
			for _, e := range x.Edges {
				if derivesFromCall(e, callee) {
					return true
				}
			}
			return false
		default:
			return false
		}
	}
	return false
}

// keyOfInputSet: k is an element of a slice every element of which was taken from the keys of a range over the same
// field of the resolution state (possibly narrowed by a type assertion).
func (c *Ctx) keyOfInputSet(k ssa.Value, field core.FieldRef) bool {
	p := c.P
	ld, ok := core.Strip(k).(*ssa.UnOp)
	if !ok {
		return false
	}
	ia, ok := ld.X.(*ssa.IndexAddr)
	if !ok {
		return false
	}
	okAll, n := true, 0
	var fromKeys func(v ssa.Value, d int) bool
	fromKeys = func(v ssa.Value, d int) bool {
		if v == nil || d > 6 {
			return false
		}
		switch x := core.Strip(v).(type) {
		case *ssa.Extract:
			if ta, ok := x.Tuple.(*ssa.TypeAssert); ok {
				return fromKeys(ta.X, d+1)
			}
			if nx, ok := x.Tuple.(*ssa.Next); ok && x.Index == 1 {
				if rg, ok := nx.Iter.(*ssa.Range); ok {
					if fr, ok := core.AsFieldLoad(p.Bind(rg.X)); ok && fr.Owner == field.Owner && fr.Field == field.Field {
						return true
					}
				}
			}
		case *ssa.TypeAssert:
			return fromKeys(x.X, d+1)
		}
		return false
	}
	f := ld.Parent()
	for _, ap := range appendSites(f, ia.X) {
		for _, e := range appendedValues(ap) {
			n++
			if !fromKeys(e, 0) {
				okAll = false
			}
		}
	}
	return okAll && n > 0
}
