package rules

import (
	"fmt"
	"go/token"
	"sort"
	"strings"

	"argverif/internal/core"

	"golang.org/x/tools/go/ssa"
)

// BUILD / VSET (C15): built functions and value-set accessors. Structural clauses only;
// value equality through reflect is not decided.

func init() {
	register(&Engine{
		Name:  "BUILD",
		Doc:   "BuildFunc adapter plumbing; ValueSet accessors and loaders",
		Run:   runBuild,
		Floor: map[string]int{"BUILD": 6, "VSET": 10},
	})
}

func isCallTo(v ssa.Value, name string) (*ssa.Call, bool) {
	cl, ok := v.(*ssa.Call)
	if !ok {
		return nil, false
	}
	if cal := cl.Common().StaticCallee(); cal != nil && cal.Name() == name {
		return cl, true
	}
	if core.CalleeName(cl.Common()) == name {
		return cl, true
	}
	return nil, false
}

func runBuild(c *Ctx) {
	c.runKind()
	c.runValueListOrder()
	p := c.P
	bf := c.role("BUILD", "BuildFunc")
	nf := c.role("BUILD", "NewFunc")
	if bf == nil || nf == nil {
		return
	}
	c.R.Func("BuildFunc")
	// the (possibly defaulted) sets: phi(param, fresh) or heap vars
	isSet := func(v ssa.Value, prm *ssa.Parameter) bool {
		srcs := core.Sources(v)
		if ld, ok := v.(*ssa.UnOp); ok {
			if fv, ok := ld.X.(*ssa.FreeVar); ok {
				srcs = nil
				if al, ok := p.Binding(fv).(*ssa.Alloc); ok {
					for _, ref := range *al.Referrers() {
						if st, ok := ref.(*ssa.Store); ok && st.Addr == ssa.Value(al) {
							srcs = append(srcs, core.Sources(st.Val)...)
						}
					}
				}
				if len(srcs) == 0 {
					return false
				}
			}
		}
		for _, s := range srcs {
			if s == ssa.Value(prm) {
				continue
			}
			if _, isAlloc := s.(*ssa.Alloc); isAlloc && core.NamedOf(s.Type()) == "ValueSet" {
				continue
			}
			return false
		}
		return true
	}
	inP, outP, cbP, optsP := bf.Params[0], bf.Params[1], bf.Params[2], bf.Params[3]

	var funcOf, makeFunc, newFunc *ssa.Call
	for _, ci := range core.Calls(bf) {
		switch core.CalleeName(ci.Common()) {
		case "reflect.FuncOf":
			funcOf, _ = ci.(*ssa.Call)
		case "reflect.MakeFunc":
			makeFunc, _ = ci.(*ssa.Call)
		}
		if ci.Common().StaticCallee() == nf {
			newFunc, _ = ci.(*ssa.Call)
		}
	}
	if funcOf == nil || makeFunc == nil || newFunc == nil {
		c.R.Undecided("BUILD", "BuildFunc|shape", "BuildFunc", p.Pos(bf.Pos()), "BuildFunc does not use FuncOf/MakeFunc/NewFunc")
		return
	}
	// B2 signature
	inSig, outSig := false, false
	if cl, ok := isCallTo(funcOf.Common().Args[0], "Signature"); ok && isSet(cl.Common().Args[0], inP) {
		inSig = true
	}
	if ap, ok := funcOf.Common().Args[1].(*ssa.Call); ok && core.CalleeName(ap.Common()) == "builtin.append" {
		if cl, ok := isCallTo(ap.Common().Args[0], "Signature"); ok && isSet(cl.Common().Args[0], outP) {
			for _, e := range appendedValues(ap) {
				if ld, ok := e.(*ssa.UnOp); ok {
					if g, ok := ld.X.(*ssa.Global); ok && g == p.ErrTypeGlobal() {
						outSig = true
					}
				}
			}
		}
	}
	// the same list assembled at its final size: make(len(sig)+1); copy(list, sig); list[len(sig)] = errType
	if mk, ok := funcOf.Common().Args[1].(*ssa.MakeSlice); ok && !outSig {
		var sig *ssa.Call
		lenOfSig := func(v ssa.Value) bool {
			cl, ok := v.(*ssa.Call)
			return ok && sig != nil && core.CalleeName(cl.Common()) == "builtin.len" && cl.Common().Args[0] == ssa.Value(sig)
		}
		copied, errLast, other := false, false, false
		for _, ref := range *mk.Referrers() {
			switch x := ref.(type) {
			case *ssa.Call:
				if core.CalleeName(x.Common()) == "builtin.copy" && x.Common().Args[0] == ssa.Value(mk) {
					if cl, ok := isCallTo(x.Common().Args[1], "Signature"); ok && isSet(cl.Common().Args[0], outP) {
						sig, copied = cl, true
					}
				}
			}
		}
		for _, ref := range *mk.Referrers() {
			switch x := ref.(type) {
			case *ssa.IndexAddr:
				for _, r2 := range *x.Referrers() {
					st, ok := r2.(*ssa.Store)
					if !ok {
						continue
					}
					ld, isLd := st.Val.(*ssa.UnOp)
					if isLd && lenOfSig(x.Index) {
						if g, ok := ld.X.(*ssa.Global); ok && g == p.ErrTypeGlobal() {
							errLast = true
							continue
						}
					}
					other = true
				}
			case *ssa.Call:
				if x != funcOf && !(core.CalleeName(x.Common()) == "builtin.copy" && x.Common().Args[0] == ssa.Value(mk)) {
					other = true
				}
			case *ssa.Slice:
				other = true
			}
		}
		sized := false
		if b, ok := mk.Len.(*ssa.BinOp); ok && b.Op == token.ADD {
			if k, isK := core.ConstInt(b.Y); isK && k == 1 && lenOfSig(b.X) {
				sized = true
			}
		}
		if copied && errLast && sized && !other {
			outSig = true
		}
	}
	c.R.Add("BUILD", "BuildFunc|signature", "BuildFunc", p.InstrPos(funcOf), inSig && outSig,
		"the built function takes the input set's rendered signature and returns the output set's rendered signature followed by an error", fmt.Sprintf("inputs=%v outputs+error=%v", inSig, outSig))
	// B4 wrapping
	wrapOK := false
	if cl, ok := newFunc.Common().Args[0].(*ssa.Call); ok && core.CalleeName(cl.Common()) == "(reflect.Value).Interface" && cl.Common().Args[0] == ssa.Value(makeFunc) {
		wrapOK = newFunc.Common().Args[1] == ssa.Value(optsP) && makeFunc.Common().Args[0] == ssa.Value(funcOf)
	}
	c.R.Add("BUILD", "BuildFunc|wrapped-with-caller-options", "BuildFunc", p.InstrPos(newFunc), wrapOK, "the generated function is wrapped by NewFunc with exactly the caller's options", fmt.Sprintf("ok=%v", wrapOK))
	// closure
	mc, _ := makeFunc.Common().Args[1].(*ssa.MakeClosure)
	if mc == nil {
		c.R.Undecided("BUILD", "BuildFunc|body", "BuildFunc", p.InstrPos(makeFunc), "generated function body is not a closure literal")
		return
	}
	body := mc.Fn.(*ssa.Function)
	c.R.Func(core.FuncName(body))
	var load, cb *ssa.Call
	for _, ci := range core.Calls(body) {
		if cal := ci.Common().StaticCallee(); cal != nil && cal.Name() == "FromSignature" {
			load, _ = ci.(*ssa.Call)
		}
		cc := ci.Common()
		if !cc.IsInvoke() && cc.StaticCallee() == nil {
			if d := p.DerefFree(cc.Value); d != nil && d == ssa.Value(cbP) {
				cb, _ = ci.(*ssa.Call)
			} else if fv, ok := cc.Value.(*ssa.FreeVar); ok && p.Binding(fv) == ssa.Value(cbP) {
				cb, _ = ci.(*ssa.Call)
			}
		}
	}
	loadOK := load != nil && isSet(load.Common().Args[0], inP) && load.Common().Args[1] == ssa.Value(body.Params[0])
	c.R.Add("BUILD", "body|loads-injected-values", core.FuncName(body), p.Pos(body.Pos()), loadOK, "the generated function loads exactly its own arguments into the input set", fmt.Sprintf("ok=%v", loadOK))
	cbOK := cb != nil && len(cb.Common().Args) == 2 && isSet(cb.Common().Args[0], inP) && isSet(cb.Common().Args[1], outP) && load != nil && core.InstrDominates(load, cb)
	c.R.Add("BUILD", "body|callback-gets-both-sets", core.FuncName(body), p.Pos(body.Pos()), cbOK, "the callback is called, after loading, with the input set and the output set", fmt.Sprintf("ok=%v", cbOK))
	// returns
	errRet, okRet, singleExit := false, false, false
	for _, r := range core.Returns(body) {
		ap, ok := r.Results[0].(*ssa.Call)
		if !ok || core.CalleeName(ap.Common()) != "builtin.append" {
			continue
		}
		sv, ok := isCallTo(ap.Common().Args[0], "SignatureValues")
		if !ok || !isSet(sv.Common().Args[0], outP) {
			continue
		}
		lits := core.Lits(core.Guards(r.Block()))
		for _, e := range appendedValues(ap) {
			// one exit whose final value was chosen before (`errVal := Zero(errType); if err != nil { errVal = ValueOf(err) }`):
			// each alternative is judged under the guard of the edge it arrives on
			if ph, isPhi := e.(*ssa.Phi); isPhi && len(core.Returns(body)) == 1 {
				for i, pe := range ph.Edges {
					pcl, isC := pe.(*ssa.Call)
					if !isC {
						continue
					}
					pred := ph.Block().Preds[i]
					elits := core.Lits(append(core.Guards(pred), edgeGuard(pred, ph.Block())...))
					switch core.CalleeName(pcl.Common()) {
					case "reflect.ValueOf":
						if cb != nil && core.Strip(pcl.Common().Args[0]) == ssa.Value(cb) && nilCheckLit(elits, cb, false) {
							errRet = true
						}
					case "reflect.Zero":
						// the default, kept on the way where the callback's error is nil
						okRet = true
					}
				}
				if errRet && okRet {
					singleExit = true
				}
				continue
			}
			cl, ok := e.(*ssa.Call)
			if !ok {
				continue
			}
			// one exit, the callback's error boxed by the error boxer (ValueOf for a non-nil error, the zero error value
			// for nil): both ways out in one
			if cb != nil && len(cl.Common().Args) == 1 && c.errBoxer(cl.Common().StaticCallee()) && core.Strip(cl.Common().Args[0]) == ssa.Value(cb) && len(core.Returns(body)) == 1 {
				errRet, okRet, singleExit = true, true, true
				continue
			}
			switch core.CalleeName(cl.Common()) {
			case "reflect.ValueOf":
				if cb != nil && core.Strip(cl.Common().Args[0]) == ssa.Value(cb) && nilCheckLit(lits, cb, false) {
					errRet = true
				}
			case "reflect.Zero":
				if cb != nil && nilCheckLit(lits, cb, true) {
					okRet = true
				}
			}
		}
	}
	c.R.Add("BUILD", "body|callback-error-is-final-result", core.FuncName(body), p.Pos(body.Pos()), errRet, "when the callback fails the generated function returns the rendered outputs followed by that very error", fmt.Sprintf("ok=%v", errRet))
	c.R.Add("BUILD", "body|success-returns-outputs-and-nil", core.FuncName(body), p.Pos(body.Pos()), okRet, "when the callback succeeds the generated function returns the rendered outputs followed by a nil error", fmt.Sprintf("ok=%v", okRet))
	// between loading the arguments and rendering the outputs the generated function itself touches neither set: the
	// only writers are the loader (FromSignature) and the caller's callback
	{
		wr := ""
		p.RegionInstrs(body, func(in ssa.Instruction) {
			switch x := in.(type) {
			case *ssa.Store:
				if _, isLocal := x.Addr.(*ssa.Alloc); isLocal || p.FreshIn(x.Addr) {
					return
				}
				if fr, ok := core.AsFieldAddr(x.Addr); ok && (fr.Owner == "Value" || fr.Owner == "valueInternal" || fr.Owner == "ValueSet") {
					wr = "store to " + fr.Owner + "." + fr.Field + " at " + p.InstrPos(x)
				}
			case *ssa.MapUpdate:
				if fr, ok := core.AsFieldLoad(x.Map); ok && fr.Owner == "ValueSet" && !p.FreshIn(x.Map) {
					wr = "update of ValueSet." + fr.Field + " at " + p.InstrPos(x)
				}
			}
		})
		c.R.Add("BUILD", "body|sets-written-only-by-loader-and-callback", core.FuncName(body), p.Pos(body.Pos()), wr == "",
			"the generated function does not itself modify the input or output set (input and output may be one set: a reset of the outputs would wipe the loaded arguments)", ternary(wr == "", "no direct write", wr))
	}
	c.R.Add("BUILD", "body|only-these-exits", core.FuncName(body), p.Pos(body.Pos()), len(core.Returns(body)) == 2 || (singleExit && len(core.Returns(body)) == 1), "the generated function has exactly the success and the failure exit", fmt.Sprintf("returns=%d", len(core.Returns(body))))

	// ---------------- VSET
	vs := func(name string) *ssa.Function { return p.Method(p.Arg, "ValueSet", name) }
	if m := vs("Named"); m != nil {
		ok := false
		for _, r := range core.Returns(m) {
			if lk, isLk := r.Results[0].(*ssa.Lookup); isLk && lk.Index == ssa.Value(m.Params[1]) {
				if fr, isF := core.AsFieldLoad(lk.X); isF && fr.Owner == "ValueSet" && strings.Contains(core.TypeStr(lk.X.Type()), "map[string]") {
					ok = true
				}
			}
		}
		c.R.Func(core.FuncName(m))
		c.R.Add("VSET", "Named|by-name-index", core.FuncName(m), p.Pos(m.Pos()), ok && len(core.Returns(m)) == 1, "Named(n) is the by-name index entry for n", fmt.Sprintf("ok=%v", ok))
	}
	if m := vs("Typed"); m != nil {
		ok := false
		for _, r := range core.Returns(m) {
			if lk, isLk := r.Results[0].(*ssa.Lookup); isLk && lk.Index == ssa.Value(m.Params[1]) {
				if fr, isF := core.AsFieldLoad(lk.X); isF && fr.Owner == "ValueSet" && strings.Contains(core.TypeStr(lk.X.Type()), "map[reflect.Type]") {
					ok = true
				}
			}
		}
		c.R.Func(core.FuncName(m))
		c.R.Add("VSET", "Typed|by-type-index", core.FuncName(m), p.Pos(m.Pos()), ok && len(core.Returns(m)) == 1, "Typed(t) is the by-type index entry for t", fmt.Sprintf("ok=%v", ok))
	}
	if m := vs("TypedSubtype"); m != nil {
		c.R.Func(core.FuncName(m))
		good, bad := 0, ""
		for _, r := range core.Returns(m) {
			v := r.Results[0]
			if core.IsNilConst(v) {
				continue
			}
			// element of the ordered list, guarded by both equalities
			fromList := false
			if ld, ok := v.(*ssa.UnOp); ok {
				if ia, ok := ld.X.(*ssa.IndexAddr); ok {
					if fr, ok := core.AsFieldLoad(ia.X); ok && fr.Owner == "ValueSet" && fr.Field == "values" {
						fromList = true
					}
				}
			}
			tEq, sEq := false, false
			for _, l := range core.Lits(core.Guards(r.Block())) {
				if l.Kind == "cmp" && l.Op == token.EQL && l.Pol {
					for _, pair := range [][2]ssa.Value{{l.X, l.Y}, {l.Y, l.X}} {
						if fr, ok := core.AsFieldLoad(pair[0]); ok && core.Strip(fr.Base) == core.Strip(v) {
							if fr.Field == "Type" && pair[1] == ssa.Value(m.Params[1]) {
								tEq = true
							}
							if fr.Field == "Subtype" && pair[1] == ssa.Value(m.Params[2]) {
								sEq = true
							}
						}
					}
				}
			}
			if fromList && tEq && sEq {
				good++
			} else {
				bad = fmt.Sprintf("a return yields %s (from-ordered-list=%v type-eq=%v subtype-eq=%v)", core.Path(v), fromList, tEq, sEq)
			}
		}
		// the nil return is reached only after the whole list was scanned: no nil return inside the loop
		earlyNil := false
		for _, r := range core.Returns(m) {
			if core.IsNilConst(r.Results[0]) {
				for _, l := range core.Lits(core.Guards(r.Block())) {
					if l.Kind == "cmp" && l.Op == token.LSS && l.Pol {
						earlyNil = true // still inside the counted loop
					}
				}
			}
		}
		c.R.Add("VSET", "TypedSubtype|exact-scan", core.FuncName(m), p.Pos(m.Pos()), good >= 1 && bad == "" && !earlyNil,
			"TypedSubtype(t, st) returns an element of the ordered value list whose type and subtype both equal the arguments, and nil only after the whole list was scanned",
			ternary(bad == "" && !earlyNil, fmt.Sprintf("%d matching return(s)", good), bad+ternary(earlyNil, " nil returned before the scan is complete", "")))
	}
	if m := vs("Values"); m != nil {
		c.R.Func(core.FuncName(m))
		ok := false
		core.Instrs(m, func(in ssa.Instruction) {
			st, isSt := in.(*ssa.Store)
			if !isSt {
				return
			}
			ia, isIA := st.Addr.(*ssa.IndexAddr)
			if !isIA {
				return
			}
			mk, isMk := ia.X.(*ssa.MakeSlice)
			if !isMk {
				return
			}
			// result[i] = *values[i], len(result) == len(values)
			if ld, isLd := st.Val.(*ssa.UnOp); isLd {
				if ld2, isLd2 := ld.X.(*ssa.UnOp); isLd2 {
					if ia2, isIA2 := ld2.X.(*ssa.IndexAddr); isIA2 && ia2.Index == ia.Index {
						if fr, isF := core.AsFieldLoad(ia2.X); isF && fr.Owner == "ValueSet" && fr.Field == "values" {
							if cl, isC := mk.Len.(*ssa.Call); isC && core.CalleeName(cl.Common()) == "builtin.len" && core.Path(cl.Common().Args[0]) == core.Path(ia2.X) {
								ok = true
							}
						}
					}
				}
			}
		})
		c.R.Add("VSET", "Values|ordered-copy", core.FuncName(m), p.Pos(m.Pos()), ok, "Values() copies every element of the ordered list, position by position", fmt.Sprintf("ok=%v", ok))
	}
	if m := vs("FromSignature"); m != nil {
		c.R.Func(core.FuncName(m))
		// non-lifted: values[i].Value = structVal.Field(values[i].index)
		ok := false
		core.Instrs(m, func(in ssa.Instruction) {
			st, isSt := in.(*ssa.Store)
			if !isSt {
				return
			}
			fr, isF := core.AsFieldAddr(st.Addr)
			if !isF || fr.Owner != "Value" || fr.Field != "Value" {
				return
			}
			cl, isC := st.Val.(*ssa.Call)
			if !isC || core.CalleeName(cl.Common()) != "(reflect.Value).Field" {
				return
			}
			ifr, isI := core.AsFieldLoad(cl.Common().Args[1])
			if !isI || ifr.Field != "index" {
				return
			}
			e := ifr.Base
			if fa, ok2 := e.(*ssa.FieldAddr); ok2 {
				e = fa.X
			}
			// same element: both are loads of values[i] with the same index
			if core.Path(e) == core.Path(fr.Base) {
				ok = true
			}
		})
		c.R.Add("VSET", "FromSignature|each-value-from-its-own-field", core.FuncName(m), p.Pos(m.Pos()), ok, "loading a rendered signature stores into each value the struct field at that value's own index", fmt.Sprintf("ok=%v", ok))
		// the struct is read the way SignatureValues renders it: the element handed in (or the struct this function
		// builds itself), never a dereference of it — SignatureValues renders the struct by value whatever pointer
		// depth the original signature had, so an Elem() here panics on every built function over such a set
		{
			deref := ""
			p.RegionInstrs(m, func(in ssa.Instruction) {
				cl, isC := in.(*ssa.Call)
				if !isC || core.CalleeName(cl.Common()) != "(reflect.Value).Field" {
					return
				}
				var walk func(v ssa.Value, d int)
				seen := map[ssa.Value]bool{}
				walk = func(v ssa.Value, d int) {
					if v == nil || d > 6 || seen[v] {
						return
					}
					seen[v] = true
					switch x := v.(type) {
					case *ssa.Phi:
						for _, e := range x.Edges {
							walk(e, d+1)
						}
					case *ssa.Call:
						if core.CalleeName(x.Common()) == "(reflect.Value).Elem" || core.CalleeName(x.Common()) == "reflect.Indirect" {
							if nc, ok := core.Strip(x.Common().Args[0]).(*ssa.Call); ok && core.CalleeName(nc.Common()) == "reflect.New" {
								return // the struct the function builds itself
							}
							deref = "the struct is dereferenced at " + p.InstrPos(x) + " before its fields are read"
						}
					}
				}
				walk(cl.Common().Args[0], 0)
			})
			c.R.Add("VSET", "FromSignature|struct-read-as-rendered", core.FuncName(m), p.Pos(m.Pos()), deref == "",
				"the loader reads the fields of the struct it is handed exactly as the renderer (SignatureValues) produced it: by value, without dereferencing", ternary(deref == "", "no dereference", deref))
		}
	}
	if m := vs("SignatureValues"); m != nil {
		c.R.Func(core.FuncName(m))
		ok := false
		// the rendered value is valueOrZero(e): called directly, or through the strategy parameter of a private packing
		// helper to which this method hands (*Value).valueOrZero
		isValueOrZero := func(vcl *ssa.Call) bool {
			if cal := vcl.Common().StaticCallee(); cal != nil {
				return c.isValueOrZeroFunc(cal)
			}
			hp, isP := vcl.Common().Value.(*ssa.Parameter)
			if !isP || !p.PrivateHelper(hp.Parent()) {
				return false
			}
			h := hp.Parent()
			found := false
			for _, site := range core.Calls(m) {
				if site.Common().StaticCallee() != h {
					continue
				}
				for j, q := range h.Params {
					if q != hp || j >= len(site.Common().Args) {
						continue
					}
					var fn *ssa.Function
					switch x := site.Common().Args[j].(type) {
					case *ssa.Function:
						fn = x
					case *ssa.MakeClosure:
						fn, _ = x.Fn.(*ssa.Function)
					}
					if fn == nil {
						return false
					}
					root := fn
					if fn.Synthetic != "" {
						for _, ci := range core.Calls(fn) {
							if cal := ci.Common().StaticCallee(); cal != nil {
								root = cal
							}
						}
					}
					if !c.isValueOrZeroFunc(root) {
						return false
					}
					found = true
				}
			}
			return found
		}
		// rendered(v, at): the element whose value-or-zero v is — through the accessor, or inline (the value under a
		// validity test, the zero of the element's own type otherwise)
		rendered := func(v ssa.Value, at *ssa.BasicBlock) ssa.Value {
			v = core.Strip(v)
			if vcl, isV := v.(*ssa.Call); isV {
				if isValueOrZero(vcl) && len(vcl.Common().Args) > 0 {
					return vcl.Common().Args[0]
				}
				if core.CalleeName(vcl.Common()) == "reflect.Zero" {
					if fr, ok := core.AsFieldLoad(vcl.Common().Args[0]); ok && fr.Field == "Type" && fr.Owner == "Value" {
						return elemOf(fr.Base)
					}
				}
				return nil
			}
			if fr, ok := core.AsFieldLoad(v); ok && fr.Field == "Value" && fr.Owner == "Value" {
				for _, l := range core.Lits(core.Guards(at)) {
					if l.Kind == "call" && l.Callee == core.RVIsValid && l.Pol && len(l.Args) == 1 {
						if g, ok := core.AsFieldLoad(l.Args[0]); ok && g.Field == "Value" && core.Path(g.Base) == core.Path(fr.Base) {
							return elemOf(fr.Base)
						}
					}
				}
				return nil
			}
			if ph, ok := v.(*ssa.Phi); ok && len(ph.Edges) == 2 {
				var es []ssa.Value
				for i, e := range ph.Edges {
					es = append(es, nil)
					if cl, ok := core.Strip(e).(*ssa.Call); ok && core.CalleeName(cl.Common()) == "reflect.Zero" {
						if fr, ok := core.AsFieldLoad(cl.Common().Args[0]); ok && fr.Field == "Type" && fr.Owner == "Value" {
							es[i] = elemOf(fr.Base)
						}
					} else if fr, ok := core.AsFieldLoad(e); ok && fr.Field == "Value" && fr.Owner == "Value" {
						// the edge that carries the value comes from the valid side
						pred := ph.Block().Preds[i]
						lits := core.Lits(core.Guards(pred))
						if len(pred.Instrs) > 0 {
							if iff, ok := pred.Instrs[len(pred.Instrs)-1].(*ssa.If); ok && pred.Succs[0] == ph.Block() {
								lits = append(lits, core.LitOf(iff.Cond, true))
							}
						}
						for _, l := range lits {
							if l.Kind == "call" && l.Callee == core.RVIsValid && l.Pol && len(l.Args) == 1 {
								if g, ok := core.AsFieldLoad(l.Args[0]); ok && g.Field == "Value" && core.Path(g.Base) == core.Path(fr.Base) {
									es[i] = elemOf(fr.Base)
								}
							}
						}
					}
				}
				if es[0] != nil && es[1] != nil && core.Path(es[0]) == core.Path(es[1]) {
					return es[0]
				}
			}
			return nil
		}
		for _, ci := range p.RegionCalls(m, "(reflect.Value).Set") {
			a := ci.Common().Args
			fcl, isF := a[0].(*ssa.Call)
			if e0 := rendered(a[1], ci.Block()); isF && e0 != nil && core.CalleeName(fcl.Common()) == "(reflect.Value).Field" {
				if ifr, isI := core.AsFieldLoad(fcl.Common().Args[1]); isI && ifr.Field == "index" {
					if elemOf(ifr.Base) == e0 || core.Path(elemOf(ifr.Base)) == core.Path(e0) {
						ok = true
					}
				}
			}
		}
		c.R.Add("VSET", "SignatureValues|each-field-from-its-own-value", core.FuncName(m), p.Pos(m.Pos()), ok, "rendering sets each struct field from the value with that index (its value, or zero when unset)", fmt.Sprintf("ok=%v", ok))
		// the struct form is rendered BY VALUE: what is returned is the Elem() of the struct this function makes, never
		// its address — the loader (FromSignature) reads fields straight off what it is handed, and BuildFunc types its
		// function by Signature(), which must then be the struct type itself (checked on Signature below)
		{
			wrapped := ""
			p.RegionInstrs(m, func(in ssa.Instruction) {
				if cl, isC := in.(*ssa.Call); isC && (core.CalleeName(cl.Common()) == "(reflect.Value).Addr" || core.CalleeName(cl.Common()) == "reflect.PtrTo" || core.CalleeName(cl.Common()) == "reflect.PointerTo") {
					wrapped = core.ShortCallee(core.CalleeName(cl.Common())) + " at " + p.InstrPos(in)
				}
			})
			if sg := vs("Signature"); sg != nil {
				p.RegionInstrs(sg, func(in ssa.Instruction) {
					if cl, isC := in.(*ssa.Call); isC && (core.CalleeName(cl.Common()) == "reflect.PtrTo" || core.CalleeName(cl.Common()) == "reflect.PointerTo") {
						wrapped = core.ShortCallee(core.CalleeName(cl.Common())) + " at " + p.InstrPos(in)
					}
				})
			}
			c.R.Add("VSET", "SignatureValues|struct-rendered-by-value", core.FuncName(m), p.Pos(m.Pos()), wrapped == "",
				"the struct form of a value set is rendered by value, as the loader reads it (no pointer is put around the struct or its type)", ternary(wrapped == "", "by value", "wrapped by "+wrapped))
		}
		// the positional (lifted) form: every element written into the rendered list is the value-or-zero of the set's
		// value whose own index addresses the slot (an unset value renders as the zero of its type, never as an invalid
		// reflect.Value, which reflect.MakeFunc / Call refuse)
		nSlots, badSlot := 0, ""
		p.RegionInstrs(m, func(in ssa.Instruction) {
			st, isS := in.(*ssa.Store)
			if !isS {
				return
			}
			ia, isI := st.Addr.(*ssa.IndexAddr)
			if !isI || core.TypeStr(ia.X.Type()) != "[]reflect.Value" {
				return
			}
			nSlots++
			e0 := rendered(st.Val, st.Block())
			if e0 == nil {
				badSlot = "slot at " + p.InstrPos(in) + " receives " + core.Path(st.Val) + ", not the value-or-zero of a value"
				return
			}
			if ifr, isF := core.AsFieldLoad(ia.Index); isF && ifr.Field == "index" {
				if e := elemOf(ifr.Base); e != e0 && core.Path(e) != core.Path(e0) {
					badSlot = "slot at " + p.InstrPos(in) + " is addressed by the index of another value"
				}
			}
		})
		if nSlots > 0 {
			c.R.Add("VSET", "SignatureValues|positional-slots-hold-value-or-zero", core.FuncName(m), p.Pos(m.Pos()), badSlot == "",
				"the positional rendering fills each slot with the value at that index, or the zero of its type when unset (never an invalid reflect.Value)", ternary(badSlot == "", fmt.Sprintf("%d slot store(s)", nSlots), badSlot))
		}
	}
	for _, m := range c.valueOrZeroCandidates() {
		c.R.Func(core.FuncName(m))
		zeroOwn, valRet := false, false
		for _, r := range core.Returns(m) {
			if cl, ok := r.Results[0].(*ssa.Call); ok && core.CalleeName(cl.Common()) == "reflect.Zero" {
				if fr, ok := core.AsFieldLoad(cl.Common().Args[0]); ok && fr.Field == "Type" && core.Strip(fr.Base) == ssa.Value(m.Params[0]) {
					for _, l := range core.Lits(core.Guards(r.Block())) {
						if l.Kind == "call" && l.Callee == core.RVIsValid && !l.Pol {
							zeroOwn = true
						}
					}
				}
			}
			if fr, ok := core.AsFieldLoad(r.Results[0]); ok && fr.Field == "Value" && core.Strip(fr.Base) == ssa.Value(m.Params[0]) {
				valRet = true
			}
		}
		c.R.Add("VSET", "value-or-zero|"+core.FuncName(m), core.FuncName(m), p.Pos(m.Pos()), zeroOwn && valRet, "an unset value renders as the zero of its own type, a set value as itself", fmt.Sprintf("zero-of-own-type-when-invalid=%v value-otherwise=%v", zeroOwn, valRet))
	}
	// NewValueSet: field types are the values' types; names per kind
	if m := p.Func(p.Arg, "NewValueSet"); m != nil {
		c.R.Func("NewValueSet")
		var st *ssa.Call
		for _, ci := range core.Calls(m, "reflect.StructOf") {
			st, _ = ci.(*ssa.Call)
		}
		okT := st != nil
		okTag := true
		nlit := 0
		if st != nil {
			for _, ap := range appendSites(m, st.Common().Args[0]) {
				for _, sl := range c.appendedStructFieldLits(ap) {
					lit := sl.fields
					if _, isConst := core.ConstString(lit["Name"]); isConst {
						continue // marker
					}
					nlit++
					fr, ok := core.AsFieldLoad(lit["Type"])
					if !ok || fr.Owner != "Value" || fr.Field != "Type" {
						okT = false
					}
					// … and carries the generated tag (the only carrier of the value's subtype and of "type only")
					if lit["Tag"] == nil {
						okTag = false
					}
				}
			}
		}
		c.R.Add("VSET", "NewValueSet|field-types", "NewValueSet", p.Pos(m.Pos()), okT && nlit >= 1, "each listed value becomes a struct field of exactly that value's type", fmt.Sprintf("ok=%v literals=%d", okT, nlit))
		c.R.Add("VSET", "NewValueSet|field-tags", "NewValueSet", p.Pos(m.Pos()), okTag && nlit >= 1, "each listed value's struct field carries the generated tag (which alone conveys its subtype and type-only flag to the struct walker)", fmt.Sprintf("ok=%v literals=%d", okTag, nlit))
	}
	// Signature / SignatureValues: the rendered type list and the rendered value list are empty under the same test on
	// the set — a built function's type is made from the first and its results from the second (siblings must agree)
	{
		emptyTests := func(m *ssa.Function) (map[string]bool, int) {
			out := map[string]bool{}
			n := 0
			for _, r := range core.Returns(m) {
				if len(r.Results) != 1 || !core.IsNilConst(r.Results[0]) {
					continue
				}
				n++
				lits := p.ILits(r.Block())
				// a return reached through `a || b`: the tests on each incoming edge
				for _, pb := range r.Block().Preds {
					if len(r.Block().Preds) < 2 || len(pb.Instrs) == 0 {
						break
					}
					if br, isIf := pb.Instrs[len(pb.Instrs)-1].(*ssa.If); isIf {
						lits = append(lits, core.LitOf(br.Cond, pb.Succs[0] == r.Block()))
						lits = append(lits, p.ILits(pb)...)
					}
				}
				// a test made through a boolean helper of the set (`vs.empty()`) counts as that helper
				for _, l := range lits {
					if l.Kind == "call" && strings.HasPrefix(l.Callee, "("+core.ArgPath) || l.Kind == "call" && strings.HasPrefix(l.Callee, "(*"+core.ArgPath) {
						if h := p.Method(p.Arg, "ValueSet", l.Callee[strings.LastIndex(l.Callee, ".")+1:]); h != nil && len(h.Blocks) > 1 {
							out[ternary(l.Pol, "", "!")+"ValueSet."+h.Name()+"()"] = true
						}
					}
					if l.Kind == "bool" {
						if cl, ok := l.Of.(*ssa.Call); ok && cl.Common().StaticCallee() != nil && p.InTarget(cl.Common().StaticCallee()) {
							if _, getter := core.AsFieldLoad(cl); !getter {
								out[c.litShape(l)] = true
							}
						}
					}
				}
				for _, l := range p.ExpandLitsKeep(lits) {
					if l.Kind != "cmp" {
						continue
					}
					if _, isPrm := core.Strip(l.X).(*ssa.Parameter); isPrm {
						continue // the nil receiver
					}
					if _, isPrm := core.Strip(l.Y).(*ssa.Parameter); isPrm {
						continue
					}
					out[c.litShape(l)] = true
				}
			}
			return out, n
		}
		sig := p.Method(p.Arg, "ValueSet", "Signature")
		sv := p.Method(p.Arg, "ValueSet", "SignatureValues")
		if sig == nil || sv == nil {
			c.R.Undecided("VSET", "Signature|siblings", "ValueSet.Signature", "-", "Signature / SignatureValues not found")
		} else {
			a, na := emptyTests(sig)
			b, nb := emptyTests(sv)
			var as, bs []string
			for k := range a {
				as = append(as, k)
			}
			for k := range b {
				bs = append(bs, k)
			}
			sort.Strings(as)
			sort.Strings(bs)
			same := na > 0 && nb > 0 && strings.Join(as, " & ") == strings.Join(bs, " & ")
			// FromSignature, which receives a list matching Signature(), loads nothing under that same test (it must
			// not look at the first element of an empty list)
			if fs := p.Method(p.Arg, "ValueSet", "FromSignature"); fs != nil {
				ft, _ := emptyTests(fs)
				covered := len(a) > 0
				for k := range a {
					if !ft[k] {
						covered = false
					}
				}
				c.R.Add("VSET", "FromSignature|loads-nothing-when-Signature-is-empty", "ValueSet.FromSignature", p.Pos(fs.Pos()), covered,
					"loading a signature returns without touching the list under the test that makes Signature() empty",
					fmt.Sprintf("Signature empty when {%s}; FromSignature returns early under that test: %v", strings.Join(as, " & "), covered))
			}
			// the loader only reads the list it is given (the outputs of a Result, possibly a memoized one): it never
			// stores into it or appends onto it
			if fs := p.Method(p.Arg, "ValueSet", "FromSignature"); fs != nil && len(fs.Params) > 1 {
				list := fs.Params[1]
				wr := ""
				rootIsList := func(v ssa.Value) bool {
					for i := 0; i < 6; i++ {
						switch x := core.Strip(v).(type) {
						case *ssa.Slice:
							v = x.X
							continue
						case *ssa.Phi:
							for _, e := range x.Edges {
								if core.Strip(e) == ssa.Value(list) {
									return true
								}
							}
							return false
						case *ssa.Parameter:
							return x == list
						}
						return false
					}
					return false
				}
				p.RegionInstrs(fs, func(in ssa.Instruction) {
					switch x := in.(type) {
					case *ssa.Store:
						if ia, ok := x.Addr.(*ssa.IndexAddr); ok && rootIsList(ia.X) {
							wr = "store into the given list at " + p.InstrPos(in)
						}
					case *ssa.Call:
						n := core.CalleeName(x.Common())
						if (n == "builtin.append" || n == "builtin.copy") && rootIsList(x.Common().Args[0]) {
							wr = n + " onto the given list at " + p.InstrPos(in)
						}
					}
				})
				c.R.Add("VSET", "FromSignature|given-list-read-only", "ValueSet.FromSignature", p.Pos(fs.Pos()), wr == "",
					"loading a signature never writes into the list it is handed (the outputs of a Result that the caller, or a run-once memo, still holds)", ternary(wr == "", "read only", wr))
			}
			c.R.Add("VSET", "Signature|empty-under-the-same-test-as-SignatureValues", "ValueSet.Signature", p.Pos(sig.Pos()), same,
				"the rendered type list (Signature) and the rendered value list (SignatureValues) are empty under the same test on the set",
				fmt.Sprintf("Signature empty when {%s}; SignatureValues empty when {%s}", strings.Join(as, " & "), strings.Join(bs, " & ")))
		}
	}
}

// elemOf strips the field-address step between a *Value and one of its (embedded) fields.
func elemOf(b ssa.Value) ssa.Value {
	if fa, ok := b.(*ssa.FieldAddr); ok {
		return fa.X
	}
	return b
}

// valueOrZeroCandidates: functions of shape func(*Value) reflect.Value that call reflect.Zero — the accessor that
// renders an unset value as the zero of its type (found by shape, whatever it is called).
func (c *Ctx) valueOrZeroCandidates() []*ssa.Function {
	var out []*ssa.Function
	for _, f := range c.P.ArgFuncs() {
		if f.Parent() != nil || len(f.Params) != 1 || f.Signature.Results().Len() != 1 {
			continue
		}
		if core.TypeStr(f.Params[0].Type()) != "*Value" || core.TypeStr(f.Signature.Results().At(0).Type()) != "reflect.Value" {
			continue
		}
		if len(core.Calls(f, "reflect.Zero")) > 0 {
			out = append(out, f)
		}
	}
	return out
}

// isValueOrZeroFunc: every return is the zero of the parameter's own type or the parameter's own value.
func (c *Ctx) isValueOrZeroFunc(f *ssa.Function) bool {
	found := false
	for _, g := range c.valueOrZeroCandidates() {
		if g == f {
			found = true
		}
	}
	if !found {
		return false
	}
	for _, r := range core.Returns(f) {
		okr := false
		if cl, ok := r.Results[0].(*ssa.Call); ok && core.CalleeName(cl.Common()) == "reflect.Zero" {
			if fr, ok := core.AsFieldLoad(cl.Common().Args[0]); ok && fr.Field == "Type" && core.Strip(fr.Base) == ssa.Value(f.Params[0]) {
				okr = true
			}
		}
		if fr, ok := core.AsFieldLoad(r.Results[0]); ok && fr.Field == "Value" && core.Strip(fr.Base) == ssa.Value(f.Params[0]) {
			okr = true
		}
		if !okr {
			return false
		}
	}
	return true
}
