package rules

import (
	"fmt"
	"go/token"
	"go/types"
	"sort"
	"strings"

	"argverif/internal/core"

	"golang.org/x/tools/go/ssa"
)

// EXEC (C09) and ONCE (C11). DESIGN §4.

func init() {
	register(&Engine{
		Name:  "EXEC",
		Doc:   "who may run user code; the planning run is zeroed; run-once memoization",
		Run:   runExec,
		Floor: map[string]int{"EXEC-X1": 5, "EXEC-X2": 4, "EXEC-X3": 2, "EXEC-X4": 1, "EXEC-X5": 2, "EXEC-X6": 1, "EXEC-X7": 1, "EXEC-X8": 3, "ONCE-O1": 2, "ONCE-O2": 2, "ONCE-O4": 5, "ONCE-O5": 1, "ONCE-O6": 1},
	})
}

// funcFieldsByRole: names of Func's fields: fn (reflect.Value), once (bool), memo (*Result or Result).
// A field that is a struct of the target package held by value is looked through (one level): a memo kept as
// `memo struct{enabled bool; result *Result}` gives once = "memo.enabled", memo = "memo.result".
func (c *Ctx) funcFieldsByRole() (fn, once, memo string) {
	m, ok := c.P.Arg.Members["Func"].(*ssa.Type)
	if !ok {
		return
	}
	c.innerField = map[string][2]string{}
	var walk func(s *types.Struct, prefix, owner string, depth int)
	walk = func(s *types.Struct, prefix, owner string, depth int) {
		for i := 0; i < s.NumFields(); i++ {
			f := s.Field(i)
			name := prefix + core.CanonFieldName(s, i)
			if prefix != "" {
				c.innerField[name] = [2]string{owner, core.CanonFieldName(s, i)}
			}
			switch {
			case core.TypeStr(f.Type()) == "reflect.Value":
				if prefix == "" {
					fn = name
				}
			case types.Identical(f.Type(), types.Typ[types.Bool]):
				if once != "" {
					once = "?"
				} else {
					once = name
				}
			case core.NamedOf(f.Type()) == "Result":
				memo = name
			default:
				if in, n := core.StructOf(f.Type()); in != nil && n != nil && depth == 0 {
					if _, isPtr := f.Type().Underlying().(*types.Pointer); !isPtr && n.Obj().Pkg() == c.P.Arg.Pkg {
						walk(in, name+".", n.Obj().Name(), depth+1)
					}
				}
			}
		}
	}
	s, _ := core.StructOf(m.Type())
	walk(s, "", "Func", 0)
	return
}

// funcFieldAddr: v is the address of Func's field id (a possibly nested name from funcFieldsByRole); returns the
// Func it belongs to. When the enclosing Func cannot be determined (an unbound method of the nested struct), the
// field still matches and base is the nested struct.
func (c *Ctx) funcFieldAddr(v ssa.Value, id string) (base ssa.Value, ok bool) {
	fr, ok := c.P.FlatFieldAddr(v)
	if !ok {
		return nil, false
	}
	if fr.Owner == "Func" && fr.Field == id {
		return fr.Base, true
	}
	if in, nested := c.innerField[id]; nested && fr.Owner == in[0] && fr.Field == in[1] {
		return fr.Base, true
	}
	return nil, false
}

func (c *Ctx) funcFieldLoad(v ssa.Value, id string) (base ssa.Value, ok bool) {
	fr, ok := c.P.FlatFieldLoad(v)
	if !ok {
		return nil, false
	}
	if fr.Owner == "Func" && fr.Field == id {
		return fr.Base, true
	}
	if in, nested := c.innerField[id]; nested && fr.Owner == in[0] && fr.Field == in[1] {
		return fr.Base, true
	}
	return nil, false
}

// listed callback classes: dynamic calls of function-typed values that are part of the API contract.
var callbackClasses = map[string]string{
	"Arg":              "option application (optionApplier)",
	"ConverterGenFunc": "converter generator, runs while the graph is built (documented)",
	"FilterFunc":       "redefine filters",
	"graph.DFSFunc":    "graph traversal callback (in-module closures only)",
	"func() error":     "the `next` continuation of the DFS callback",
	"func(in *ValueSet, out *ValueSet) error": "BuildFunc callback, runs inside the generated function (which only the executor calls)",
	"func(int) reflect.Type":                  "positional type getter handed to the lifter by NewFunc (reflect.Type.In/Out)",
}

// resolvedFuncParam: v is a function-typed parameter of a private helper and every call site passes a statically known
// in-module function (literal, closure, method expression or bound method); returns those functions.
func (c *Ctx) resolvedFuncParam(v ssa.Value) []*ssa.Function {
	p := c.P
	prm, ok := v.(*ssa.Parameter)
	if !ok || !p.PrivateHelper(prm.Parent()) {
		return nil
	}
	idx := -1
	for i, q := range prm.Parent().Params {
		if q == prm {
			idx = i
		}
	}
	var out []*ssa.Function
	for _, site := range p.Callers(prm.Parent()) {
		if idx < 0 || idx >= len(site.Common().Args) {
			return nil
		}
		var fn *ssa.Function
		switch x := site.Common().Args[idx].(type) {
		case *ssa.Function:
			fn = x
		case *ssa.MakeClosure:
			fn, _ = x.Fn.(*ssa.Function)
		}
		if fn == nil {
			return nil
		}
		// synthetic thunks/bound-method wrappers of module methods count as the method itself
		root := fn
		if fn.Synthetic != "" {
			for _, ci := range core.Calls(fn) {
				if cal := ci.Common().StaticCallee(); cal != nil {
					root = cal
				}
			}
		}
		if !p.InTarget(root) {
			return nil
		}
		out = append(out, root)
	}
	return out
}

func runExec(c *Ctx) {
	p := c.P
	exec := c.role("EXEC-X1", "executor")
	planner := c.role("EXEC-X2", "planner")
	res := c.role("EXEC-X2", "resolver")
	zero := c.role("EXEC-X3", "zeroBody")
	gb := c.role("EXEC-X2", "graphBuilder")
	if exec == nil || planner == nil || res == nil || zero == nil || gb == nil {
		return
	}
	fnField, onceField, memoField := c.funcFieldsByRole()
	kinds, kerr := p.VertexKinds()
	if kerr != nil {
		c.R.Undecided("EXEC-X2", "kinds", "(vertex kinds)", "-", kerr.Error())
		return
	}

	// ---- X1: reflective calls only in the executor; dynamic calls only of listed callback classes
	for _, f := range p.ArgFuncs() {
		for _, ci := range core.Calls(f) {
			cc := ci.Common()
			nm := core.CalleeName(cc)
			if nm == core.RVCall || nm == "(reflect.Value).CallSlice" {
				c.R.Func(core.FuncName(f))
				inExecutor := f == exec || (p.PrivateHelper(f) && p.InRegion(f, exec) && c.onlyReachedFrom(f, exec))
				c.R.Add("EXEC-X1", core.FuncName(f)+"|reflect.Value.Call", core.FuncName(f), p.InstrPos(ci), inExecutor,
					"wrapped user functions are invoked (reflect.Value.Call) only by the executor", ternary(inExecutor, "in the executor", "reflective call outside the executor"))
				continue
			}
			if cc.IsInvoke() || cc.StaticCallee() != nil {
				continue
			}
			if _, isB := cc.Value.(*ssa.Builtin); isB {
				continue
			}
			if _, isMC := cc.Value.(*ssa.MakeClosure); isMC {
				continue
			}
			t := core.TypeStr(cc.Value.Type())
			cls, ok := callbackClasses[t]
			if !ok {
				// a function-valued parameter of a private helper: resolved when every call site hands in a function
				// literal or method of this module (an internal strategy parameter, not a user callback)
				if fns := c.resolvedFuncParam(cc.Value); len(fns) > 0 {
					ok = true
					var names []string
					for _, fn := range fns {
						names = append(names, core.FuncName(fn))
					}
					sort.Strings(names)
					cls = "internal strategy parameter, resolved to " + strings.Join(names, ", ")
				}
			}
			c.R.Func(core.FuncName(f))
			c.R.Add("EXEC-X1", core.FuncName(f)+"|dynamic call of "+t, core.FuncName(f), p.InstrPos(ci), ok,
				"dynamic calls of function values are limited to the listed callback classes (none of them is a wrapped target or converter)",
				ternary(ok, "listed: "+cls, "unlisted function type called dynamically"))
		}
	}
	// generated-function escape hatch: Func.Func() hands the raw function out (read-only accessor) — nothing else reads fn for calling
	for _, f := range p.ArgFuncs() {
		core.Instrs(f, func(in ssa.Instruction) {
			if cl, ok := in.(*ssa.Call); ok && core.CalleeName(cl.Common()) == "(reflect.Value).Interface" {
				if fr, ok := core.AsFieldLoad(cl.Common().Args[0]); ok && fr.Owner == "Func" && fr.Field == fnField {
					exported := f.Object() != nil && f.Object().Exported() && f.Parent() == nil
					c.R.Add("EXEC-X1", core.FuncName(f)+"|raw function handed out", core.FuncName(f), p.InstrPos(in), exported && len(p.Callers(f)) == 0,
						"the raw wrapped function leaves the library only through the exported accessor, which the library itself never calls", fmt.Sprintf("exported=%v in-module callers=%d", exported, len(p.Callers(f))))
				}
			}
		})
	}

	// ---- X2: the planning run is zeroed
	var resCalls []ssa.CallInstruction
	for _, ci := range core.Calls(planner) {
		if ci.Common().StaticCallee() == res {
			resCalls = append(resCalls, ci)
		}
	}
	resCall := c.oneSite("EXEC-X2", "planner", "resolver call", resCalls)
	var gbCall *ssa.Call
	for _, ci := range core.Calls(planner) {
		if ci.Common().StaticCallee() == gb {
			gbCall, _ = ci.(*ssa.Call)
		}
	}
	if resCall == nil || gbCall == nil {
		c.R.Undecided("EXEC-X2", "planner|calls", "planner", p.Pos(planner.Pos()), "planner does not call both the graph builder and the resolver")
		return
	}
	// the graph handed to the resolver is the one the graph builder returned
	graphArg := func(ci ssa.CallInstruction) ssa.Value {
		for _, a := range ci.Common().Args {
			if core.NamedOf(a.Type()) == "graph.Graph" {
				return a
			}
		}
		return nil
	}
	gArg := graphArg(resCall)
	sameGraph := false
	if al, ok := gArg.(*ssa.Alloc); ok {
		for _, ref := range *al.Referrers() {
			if st, ok := ref.(*ssa.Store); ok && st.Addr == ssa.Value(al) {
				if e, ok := st.Val.(*ssa.Extract); ok && e.Tuple == ssa.Value(gbCall) {
					sameGraph = true
				}
			}
		}
	}
	c.R.Add("EXEC-X2", "planner|same-graph", "planner", p.InstrPos(resCall), sameGraph,
		"the planning resolver runs on the graph the graph builder returned", fmt.Sprintf("ok=%v", sameGraph))

	// the zeroing store: funcVertex.Func = &copy
	var zstore *ssa.Store
	// lifted to the planner: the instruction itself, or the one call of the private helper it lives in
	anchor1 := func(in ssa.Instruction) ssa.Instruction {
		if in == nil {
			return nil
		}
		as, _ := p.Anchors(in, planner)
		if len(as) == 1 {
			return as[0]
		}
		return nil
	}
	p.RegionInstrs(planner, func(in ssa.Instruction) {
		if st, ok := in.(*ssa.Store); ok {
			if fr, ok := core.AsFieldAddr(st.Addr); ok && fr.Owner == kinds.Func && core.TypeStr(st.Val.Type()) == "*Func" {
				zstore = st
			}
		}
	})
	if zstore == nil {
		c.R.Add("EXEC-X2", "planner|replace-func", "planner", p.Pos(planner.Pos()), false,
			"before the planning resolver runs, every function vertex of the graph gets a fresh copy of its Func whose body is the zero-producing stand-in",
			"no store replacing a function vertex's Func found in the planner")
	} else {
		cp, isAlloc := zstore.Val.(*ssa.Alloc)
		if !isAlloc {
			// `v.Func = v.Func.standIn()`: the fresh copy is made by a private helper of the Func being replaced
			var allocs []*ssa.Alloc
			other := false
			for _, sv := range p.ISources(zstore.Val) {
				if al, ok := sv.(*ssa.Alloc); ok {
					allocs = append(allocs, al)
				} else {
					other = true
				}
			}
			if len(allocs) == 1 && !other {
				cp, isAlloc = allocs[0], true
			}
		}
		copyOK, bodyOK := false, false
		if isAlloc {
			// *copy = *v.Func
			for _, ref := range *cp.Referrers() {
				if st, ok := ref.(*ssa.Store); ok && st.Addr == ssa.Value(cp) {
					if ld, ok := st.Val.(*ssa.UnOp); ok {
						if fr, ok := core.AsFieldLoad(p.Bind(ld.X)); ok && fr.Owner == kinds.Func {
							copyOK = true
						}
					}
				}
				if fa, ok := ref.(*ssa.FieldAddr); ok {
					if fr, _ := core.AsFieldAddr(fa); fr.Field == fnField {
						for _, r2 := range *fa.Referrers() {
							if st, ok := r2.(*ssa.Store); ok {
								if cl, ok := st.Val.(*ssa.Call); ok && cl.Common().StaticCallee() == zero {
									bodyOK = true
								}
							}
						}
					}
				}
			}
		}
		c.R.Add("EXEC-X2", "planner|replace-func", "planner", p.InstrPos(zstore), isAlloc && copyOK && bodyOK,
			"before the planning resolver runs, every function vertex of the graph gets a fresh copy of its Func whose body is the zero-producing stand-in",
			fmt.Sprintf("fresh-copy=%v copied-from-vertex=%v body-replaced-by-zero-stand-in=%v", isAlloc, copyOK, bodyOK))
		// unconditional for every func vertex of that graph: guards = only the type assertion; iterates Vertices(graph)
		lits := p.ILits(zstore.Block())
		onlyAssert, overVertices := true, false
		for _, l := range lits {
			switch {
			case l.Kind == "ok" && l.Pol:
				if ta, ok := l.Of.(*ssa.TypeAssert); ok && core.NamedOf(ta.AssertedType) == kinds.Func {
					// element of Vertices(g)
					if r, ok := core.Root(ta.X).(*ssa.Call); ok && core.CalleeName(r.Common()) == core.GVertices && p.Bind(r.Common().Args[0]) == gArg {
						overVertices = true
					}
					continue
				}
				onlyAssert = false
			case l.Kind == "cmp" && l.Op == token.LSS:
				// loop bound
			case l.Kind == "cmp" && l.Op == token.EQL && l.Pol && (core.IsNilConst(l.X) || core.IsNilConst(l.Y)):
				// dominating err == nil checks
			default:
				onlyAssert = false
			}
		}
		c.R.Add("EXEC-X2", "planner|every-func-vertex", "planner", p.InstrPos(zstore), onlyAssert && overVertices,
			"the replacement is unconditional for every function vertex of the planning graph (a loop over all its vertices, filtered only by the vertex kind)",
			fmt.Sprintf("only-kind-filter=%v ranges-over-all-vertices=%v", onlyAssert, overVertices), core.LitStrings(lits)...)
		// the loop precedes the resolver call on every path: its Vertices() call dominates, and no path from the
		// graph builder call to the resolver call avoids the loop header
		var vcall ssa.Instruction
		for _, ci := range p.RegionCalls(planner, core.GVertices) {
			if p.Bind(ci.Common().Args[0]) == gArg && ci.Parent() == zstore.Parent() && core.InstrDominates(ci, zstore) {
				vcall = ci
			}
		}
		zAnchor := anchor1(zstore)
		// the resolver call cannot be followed by (another round of) the zeroing
		again := true
		if zAnchor != nil {
			if zAnchor.Block() == resCall.Block() {
				again = false
				for _, sb := range resCall.Block().Succs {
					if core.Reachable(sb, resCall.Block(), nil) {
						again = true
					}
				}
				again = again || core.InstrIndex(zAnchor) > core.InstrIndex(resCall)
			} else {
				again = core.Reachable(resCall.Block(), zAnchor.Block(), nil)
			}
		}
		dom := vcall != nil && zAnchor != nil && p.IDominates(vcall, resCall, planner) && !again
		c.R.Add("EXEC-X2", "planner|zeroing-before-resolve", "planner", p.InstrPos(resCall), dom,
			"the zeroing loop runs to completion before the planning resolver is called", fmt.Sprintf("ok=%v", dom))
		// nothing adds function vertices between the loop and the resolver call
		added := false
		vAnchor := anchor1(vcall)
		for _, ci := range p.RegionCalls(planner) {
			n := core.CalleeName(ci.Common())
			if n != core.GAdd && n != core.GAddOverwrite {
				continue
			}
			a := anchor1(ci)
			if a == nil || vAnchor == nil {
				added = true
				continue
			}
			if a == vAnchor {
				// inside the same helper as the loop
				if ci.Parent() == vcall.Parent() && core.CanFollow(vcall, ci) {
					added = true
				}
				continue
			}
			if core.CanFollow(vAnchor, a) && core.CanFollow(a, resCall) {
				added = true
			}
		}
		c.R.Add("EXEC-X2", "planner|no-late-vertices", "planner", p.InstrPos(resCall), !added, "no vertex is added to the planning graph after the zeroing loop", fmt.Sprintf("late-adds=%v", added))
	}

	// ---- X3: the zero-producing body runs no user code
	bad := ""
	for _, fn := range core.WithNested(zero) {
		c.R.Func(core.FuncName(fn))
		for _, ci := range core.Calls(fn) {
			cc := ci.Common()
			nm := core.CalleeName(cc)
			if nm == core.RVCall || nm == "(reflect.Value).CallSlice" {
				bad = "reflective call at " + p.InstrPos(ci)
			}
			if !cc.IsInvoke() && cc.StaticCallee() == nil {
				if _, isB := cc.Value.(*ssa.Builtin); !isB {
					bad = "dynamic call at " + p.InstrPos(ci)
				}
			}
			if cal := cc.StaticCallee(); cal == exec || cal == res {
				bad = "calls the executor/resolver at " + p.InstrPos(ci)
			}
		}
	}
	c.R.Add("EXEC-X3", "zeroBody|no-user-code", "zeroBody", p.Pos(zero.Pos()), bad == "", "the zero-producing stand-in calls no user function", ternary(bad == "", "no reflective or dynamic call", bad))

	// the stand-in is installed with the wrapped function's own type (reflect.MakeFunc(f.fn.Type(), …)), so what it
	// returns must be rendered by the packer of the call family — the one that re-wraps struct pointers to the
	// declared depth — not by the built-function renderer, which ignores pointer depth
	{
		var packers []*ssa.Function
		for _, g := range p.ArgFuncs() {
			if g.Parent() != nil || g.Signature.Results().Len() != 1 || core.TypeStr(g.Signature.Results().At(0).Type()) != "[]reflect.Value" {
				continue
			}
			if len(p.RegionCalls(g, "(reflect.Value).Addr")) > 0 {
				packers = append(packers, g)
			}
		}
		okP, why := false, "no result renderer that re-wraps struct pointers found"
		if len(packers) > 0 {
			why = "the stand-in's results do not come from the pointer-depth-aware renderer " + core.FuncName(packers[0])
			var rets []*ssa.Return
			for _, g := range core.WithNested(zero) {
				if g.Signature.Results().Len() == 1 && core.TypeStr(g.Signature.Results().At(0).Type()) == "[]reflect.Value" {
					rets = append(rets, core.Returns(g)...)
				}
			}
			for _, r := range rets {
				for _, v := range r.Results {
					for _, sv := range p.ISources(v) {
						if cl, ok := sv.(*ssa.Call); ok {
							for _, pk := range packers {
								if cl.Common().StaticCallee() == pk {
									okP, why = true, "results rendered by "+core.FuncName(pk)
								}
							}
						}
					}
					// appended onto the renderer's result (the trailing nil error)
					for _, sv := range core.Sources(v) {
						if ap, ok := sv.(*ssa.Call); ok && core.CalleeName(ap.Common()) == "builtin.append" {
							for _, s2 := range p.ISources(ap.Common().Args[0]) {
								if cl, ok := s2.(*ssa.Call); ok {
									for _, pk := range packers {
										if cl.Common().StaticCallee() == pk {
											okP, why = true, "results rendered by "+core.FuncName(pk)+" (plus the trailing error)"
										}
									}
								}
							}
						}
					}
				}
			}
		}
		c.R.Add("EXEC-X3", "zeroBody|results-match-declared-type", "zeroBody", p.Pos(zero.Pos()), okP,
			"the stand-in, which is installed with the wrapped function's own type, renders its results with the packer that restores the declared pointer depth of a struct result", why)
	}

	// ---- X4: Func.fn is stored only on fresh objects (constructor literal, the planner's copy)
	n := 0
	for _, f := range p.ArgFuncs() {
		core.Instrs(f, func(in ssa.Instruction) {
			if st, ok := in.(*ssa.Store); ok {
				if fr, ok := core.AsFieldAddr(st.Addr); ok && fr.Owner == "Func" && fr.Field == fnField {
					n++
					fresh := p.FreshIn(st.Addr)
					c.R.Add("EXEC-X4", fmt.Sprintf("%s|store Func.%s#%d", core.FuncName(f), fnField, n), core.FuncName(f), p.InstrPos(st), fresh,
						"the wrapped function of a Func is assigned only while the Func is private to the assigning function", fmt.Sprintf("fresh=%v", fresh))
				}
			}
		})
	}

	// ---- X6: what the executor writes through its receiver are direct fields of the receiver struct, so that on
	// the planner's by-value copy of a Func these writes cannot reach the original function
	{
		nw := 0
		badW := ""
		for _, w := range enumerateWrites(exec) {
			if _, isLocal := w.target.(*ssa.Alloc); isLocal {
				continue
			}
			_, _, root := ownerOf(w)
			if root != "parameter" {
				continue
			}
			// does the written address hang off the receiver?
			v := w.target
			direct := false
			viaLoad := false
			for i := 0; i < 20; i++ {
				switch x := v.(type) {
				case *ssa.FieldAddr:
					if x.X == ssa.Value(exec.Params[0]) {
						direct = !viaLoad
						i = 20
					}
					v = x.X
				case *ssa.IndexAddr:
					v = x.X
				case *ssa.UnOp:
					viaLoad = true
					v = x.X
				default:
					i = 20
				}
			}
			if core.Root(w.target) != ssa.Value(exec.Params[0]) && !rootIsParam(w.target, exec.Params[0]) {
				continue
			}
			nw++
			if !direct {
				badW = fmt.Sprintf("%s at %s writes through a pointer/slice/map held by the receiver", w.kind, p.InstrPos(w.in))
			}
		}
		// one level down: a callee that receives a pointer held by the receiver must not write through it
		for _, ci := range core.Calls(exec) {
			cal := ci.Common().StaticCallee()
			if cal == nil || !p.InTarget(cal) || cal.Blocks == nil {
				continue
			}
			for ai, a := range ci.Common().Args {
				fr, ok := core.AsFieldLoad(a)
				if !ok || core.Strip(fr.Base) != ssa.Value(exec.Params[0]) {
					continue
				}
				if _, isPtr := a.Type().Underlying().(*types.Pointer); !isPtr || ai >= len(cal.Params) {
					continue
				}
				for _, w := range enumerateWrites(cal) {
					if _, isLocal := w.target.(*ssa.Alloc); isLocal {
						continue
					}
					if rootIsParam(w.target, cal.Params[ai]) && !p.FreshIn(w.target) {
						nw++
						badW = fmt.Sprintf("%s writes through Func.%s (a pointer the by-value copy shares with the original) at %s", core.FuncName(cal), fr.Field, p.InstrPos(w.in))
					}
				}
			}
		}
		c.R.Add("EXEC-X6", "executor|receiver-writes-are-direct-fields", "executor", p.Pos(exec.Pos()), badW == "",
			"whatever the executor stores on its receiver goes into a direct field of the Func struct (the planner runs it on a by-value copy, so the original is untouched)",
			ternary(badW == "", fmt.Sprintf("%d receiver write(s), all direct fields", nw), badW))
	}

	// ---- X7: the Result handed to the output mapper is the one the executor just returned for that vertex
	// (run-once memoization lives inside the executor; there is no per-call cache of converter results)
	if om := c.P.MustRole("outputMapper"); om != nil {
		for _, ci := range p.RegionCalls(res) {
			if ci.Common().StaticCallee() != om {
				continue
			}
			okk := false
			for _, a := range ci.Common().Args {
				if core.NamedOf(a.Type()) != "Result" {
					continue
				}
				srcs := core.Sources(a)
				okk = len(srcs) > 0
				for _, sv := range srcs {
					cl, isC := sv.(*ssa.Call)
					if !isC || cl.Common().StaticCallee() != exec {
						okk = false
					}
				}
			}
			c.R.Add("EXEC-X7", "resolver|outputs-from-this-execution", "resolver", p.InstrPos(ci), okk,
				"the outputs mapped onto the graph after a converter step are exactly the Result the executor returned for that step (no per-call result cache)", fmt.Sprintf("ok=%v", okk))
		}
	}
	// ---- X8: who may call: the executor is called only by Call and the resolver; the resolver only by Call, the
	// planner and itself; Call only by the conversion helper and generated function bodies (closures handed to MakeFunc)
	{
		callRole := p.MustRole("Call")
		cm := p.MustRole("convertMulti")
		allowedExec := map[*ssa.Function]bool{callRole: true, res: true}
		allowedRes := map[*ssa.Function]bool{callRole: true, res: true, planner: true}
		check := func(target *ssa.Function, allowed map[*ssa.Function]bool, what string, viaClosure bool) {
			bad := ""
			n := 0
			for _, site := range p.Callers(target) {
				n++
				caller := site.Parent()
				if allowed[caller] {
					continue
				}
				// a private helper (step) of a designated caller
				inStep := false
				for a := range allowed {
					if a != nil && p.PrivateHelper(core.Outer(caller)) && p.InRegion(caller, a) {
						inStep = true
					}
				}
				if inStep {
					continue
				}
				if viaClosure && caller.Parent() != nil && c.escapingClosure(caller) {
					continue // body of a generated function (runs when the generated function is called, not now)
				}
				if viaClosure && caller == p.GeneratedBody() {
					continue // the generated function's body written as a method
				}
				bad = core.FuncName(caller) + " at " + p.InstrPos(site)
			}
			c.R.Add("EXEC-X8", "who-may-call|"+what, what, p.Pos(target.Pos()), bad == "",
				"only the designated callers invoke "+what, ternary(bad == "", fmt.Sprintf("%d call site(s), all designated", n), "also called by "+bad))
		}
		check(exec, allowedExec, "the executor", false)
		check(res, allowedRes, "the resolver", false)
		if callRole != nil {
			check(callRole, map[*ssa.Function]bool{cm: true}, "Call", true)
		}
	}

	// ---- X5: resolver flag plumbing
	flagOf := func(ci ssa.CallInstruction) string {
		for _, a := range ci.Common().Args {
			if k, ok := a.(*ssa.Const); ok && k.Value != nil && types.Identical(k.Type(), types.Typ[types.Bool]) {
				return k.Value.ExactString()
			}
		}
		return "?"
	}
	c.R.Add("EXEC-X5", "planner|redefine=true", "planner", p.InstrPos(resCall), flagOf(resCall) == "true", "the planner runs the resolver in planning mode", flagOf(resCall))
	if call := p.MustRole("Call"); call != nil {
		for _, ci := range core.Calls(call) {
			if ci.Common().StaticCallee() == res {
				c.R.Add("EXEC-X5", "Call|redefine=false", "Call", p.InstrPos(ci), flagOf(ci) == "false", "Call runs the resolver in execution mode", flagOf(ci))
			}
		}
	}
	// recursion keeps the mode
	for _, ci := range core.Calls(res) {
		if ci.Common().StaticCallee() == res {
			keeps := false
			for _, a := range ci.Common().Args {
				if prm, ok := a.(*ssa.Parameter); ok && types.Identical(prm.Type(), types.Typ[types.Bool]) {
					keeps = true
				}
			}
			c.R.Add("EXEC-X5", "resolver|recursion-keeps-mode", "resolver", p.InstrPos(ci), keeps, "nested resolution keeps the caller's mode flag", fmt.Sprintf("ok=%v", keeps))
		}
	}

	runOnce(c, exec, fnField, onceField, memoField)
}

func runOnce(c *Ctx, exec *ssa.Function, fnField, onceField, memoField string) {
	p := c.P
	if onceField == "" || onceField == "?" || memoField == "" {
		c.R.Undecided("ONCE-O1", "fields", "Func", "-", fmt.Sprintf("run-once flag/memo fields of Func not identified (flag=%q memo=%q)", onceField, memoField))
		return
	}
	// the executor together with its private steps (memo accessors, input-struct builder, invoke step …)
	rv := c.oneSite("ONCE-O1", "executor", "reflect.Value.Call", p.RegionCalls(exec, core.RVCall))
	if rv == nil {
		return
	}
	anchor1 := func(in ssa.Instruction) ssa.Instruction {
		as, _ := p.Anchors(in, exec)
		if len(as) == 1 {
			return as[0]
		}
		return nil
	}
	ofExecRecv := func(base ssa.Value) bool { return p.Bind(core.Strip(base)) == ssa.Value(exec.Params[0]) }
	isOnceLoad := func(v ssa.Value) bool {
		b, ok := c.funcFieldLoad(v, onceField)
		return ok && ofExecRecv(b)
	}
	isMemoLoad := func(v ssa.Value) bool {
		b, ok := c.funcFieldLoad(v, memoField)
		return ok && ofExecRecv(b)
	}
	isMemoDeref := func(v ssa.Value) bool {
		ld, ok := v.(*ssa.UnOp)
		if !ok || ld.Op != token.MUL {
			return false
		}
		if isMemoLoad(ld.X) || isMemoLoad(v) {
			return true
		}
		// `cached := f.memoized(); … return *cached`: the pointer comes from an accessor whose non-nil results are the memo
		if _, isCall := ld.X.(*ssa.Call); isCall {
			n := 0
			for _, sv := range p.ISources(ld.X) {
				if core.IsNilConst(sv) {
					continue
				}
				if !isMemoLoad(sv) {
					return false
				}
				n++
			}
			return n > 0
		}
		return false
	}
	memoAccessor := func(v ssa.Value) bool {
		if _, isCall := v.(*ssa.Call); !isCall {
			return false
		}
		n := 0
		for _, sv := range p.ISources(v) {
			if core.IsNilConst(sv) {
				continue
			}
			if !isMemoLoad(sv) {
				return false
			}
			n++
		}
		return n > 0
	}
	// O1: a return of the memo, guarded exactly by (once, memo present), decided before the call
	var cachedRet *ssa.Return
	o1, why := false, "no return of the memoized Result found"
	for _, r := range core.Returns(exec) {
		if len(r.Results) != 1 {
			continue
		}
		// returns *f.memo (pointer memo) or f.memo (value memo), possibly through an accessor `memo() (Result, bool)`
		isMemo := false
		for _, sv := range p.ISources(r.Results[0]) {
			if isMemoDeref(sv) {
				isMemo = true
			}
		}
		if !isMemo {
			continue
		}
		cachedRet = r
		lits := p.ExpandLits(core.Lits(core.Guards(r.Block())))
		onceG, memoG := false, false
		extra := ""
		for _, l := range lits {
			switch {
			case l.Kind == "bool" && l.Pol && isOnceLoad(l.Of):
				onceG = true
			case l.Kind == "cmp" && l.Op == token.EQL && !l.Pol && ((isMemoLoad(l.X) && core.IsNilConst(l.Y)) || (isMemoLoad(l.Y) && core.IsNilConst(l.X))):
				memoG = true
			case l.Kind == "cmp" && l.Op == token.EQL && !l.Pol && core.IsNilConst(l.Y) && memoAccessor(l.X):
				// `cached != nil` on the result of an accessor whose non-nil results are the memo pointer: what it implies
				// (flag set, memo present) has been added by the expansion
				memoG = true
			default:
				extra = l.String()
			}
		}
		o1 = onceG && memoG && extra == ""
		why = fmt.Sprintf("guards: once-flag=%v memo-pointer-non-nil=%v other=%q", onceG, memoG, extra)
	}
	c.R.Add("ONCE-O1", "executor|cached-return", "executor", p.Pos(exec.Pos()), o1,
		"when the run-once flag is set and a memo exists, the executor returns the memoized Result — decided by the presence of the memo itself, not by its contents", why)
	// the call cannot be reached when both hold: the cached-return block's branch dominates the call
	dom := false
	rvA := anchor1(rv)
	if cachedRet != nil && rvA != nil {
		// the If that leads to the cached return
		b := cachedRet.Block()
		gs := core.Guards(b)
		dom = len(gs) > 0
		for _, g := range gs {
			// every test of the conjunction is either evaluated on all paths to the call, or only after an
			// earlier test of the conjunction already held
			top := g.At.Block()
			if !top.Dominates(rvA.Block()) {
				chained := false
				for _, g2 := range gs {
					if g2.At != g.At && g2.At.Block().Dominates(top) && g2.At.Block().Dominates(rvA.Block()) {
						chained = true
					}
				}
				if !chained {
					dom = false
				}
			}
		}
		// and the call is not reachable from the cached-return block
		dom = dom && !core.Reachable(b, rvA.Block(), nil)
	}
	c.R.Add("ONCE-O1", "executor|check-before-call", "executor", p.InstrPos(rv), dom,
		"the memo check is evaluated on every path before the wrapped function is called", fmt.Sprintf("ok=%v", dom))

	// O2: under once, the memo store happens on every path from the call to the return, and stores the returned Result
	var mstore *ssa.Store
	p.RegionInstrs(exec, func(in ssa.Instruction) {
		if st, ok := in.(*ssa.Store); ok {
			if b, ok := c.funcFieldAddr(st.Addr, memoField); ok && ofExecRecv(b) {
				mstore = st
			}
		}
	})
	if mstore == nil {
		c.R.Add("ONCE-O2", "executor|memo-store", "executor", p.Pos(exec.Pos()), false, "under the run-once flag the Result of the first execution is memoized", "no store to the memo field in the executor")
		return
	}
	lits := p.ExpandLits(p.ILits(mstore.Block()))
	onlyOnce := len(lits) > 0
	hasOnce := false
	var rvLits []core.Lit
	if rvA != nil {
		rvLits = p.ExpandLits(p.ILits(rv.Block()))
	}
	for _, l := range lits {
		if l.Kind == "bool" && l.Pol && isOnceLoad(l.Of) {
			hasOnce = true
			continue
		}
		// guards inherited from before the call (buildErr == nil, not cached) are fine if they also guard the call
		inherited := false
		for _, l2 := range rvLits {
			if l2.String() == l.String() {
				inherited = true
			}
		}
		// `r.buildErr == nil` on the Result about to be memoised: true for every Result of an execution (RESULTLIT:
		// a Result literal sets exactly one of outputs / resolution error)
		if l.Kind == "cmp" && l.Op == token.EQL && l.Pol && (core.IsNilConst(l.X) || core.IsNilConst(l.Y)) {
			v := l.X
			if core.IsNilConst(v) {
				v = l.Y
			}
			if fr, ok := core.AsFieldLoad(v); ok && fr.Owner == "Result" && fr.Field == "buildErr" {
				inherited = true
			}
		}
		if !inherited {
			onlyOnce = false
		}
	}
	after := false
	if stA := anchor1(mstore); stA != nil && rvA != nil {
		if stA == rvA {
			after = rv.Parent() == mstore.Parent() && core.InstrDominates(rv, mstore)
		} else {
			after = core.InstrDominates(rvA, stA)
		}
	}
	c.R.Add("ONCE-O2", "executor|memo-store", "executor", p.InstrPos(mstore), onlyOnce && hasOnce && after,
		"after the wrapped function ran, the Result is memoized whenever the run-once flag is set (no other condition)",
		fmt.Sprintf("after-call=%v guarded-by-flag=%v no-extra-condition=%v", after, hasOnce, onlyOnce), core.LitStrings(lits)...)
	// what is stored is (the address of) the Result that is returned
	same := false
	isStored := func(v ssa.Value) bool {
		if v == mstore.Val {
			return true
		}
		if ld, ok := v.(*ssa.UnOp); ok && ld.Op == token.MUL && ld.X == mstore.Val {
			return true
		}
		// the helper's Result parameter whose spill is what gets stored
		if al, ok := mstore.Val.(*ssa.Alloc); ok {
			if sv := core.SingleStore(al); sv != nil && (sv == v || sameLocalLoad(sv, v) || (p.Bind(sv) != sv && (p.Bind(sv) == v || sameLocalLoad(p.Bind(sv), v)))) {
				return true // (`cached := result; memo = &cached; return result`: an unmodified copy of the returned Result)
			}
		}
		return false
	}
	// the function holding the store hands the stored Result back
	helperReturnsStored := false
	for _, hr := range core.Returns(mstore.Parent()) {
		for _, v := range hr.Results {
			if isStored(v) {
				helperReturnsStored = true
			}
			for _, sv := range core.Sources(v) {
				if isStored(sv) {
					helperReturnsStored = true
				}
			}
		}
	}
	for _, r := range core.Returns(exec) {
		if rvA == nil || !(core.InstrDominates(rvA, r) || rvA == ssa.Instruction(r)) {
			continue
		}
		for _, v := range r.Results {
			if isStored(v) {
				same = true
			}
			for _, sv := range p.ISources(v) {
				if isStored(sv) {
					same = true
				}
			}
			// `return f.remember(result)`: the step that memoises returns what it memoised
			for _, sv := range core.Sources(v) {
				if cl, ok := sv.(*ssa.Call); ok && cl.Common().StaticCallee() == mstore.Parent() && mstore.Parent() != exec && helperReturnsStored {
					same = true
				}
			}
		}
	}
	// the memo is a Result of its own whose only content is a copy (slices.Clone / append(nil, …)) of the very slice the
	// reflective call returned — the same values, in a backing array no caller can write through
	if al, ok := mstore.Val.(*ssa.Alloc); ok && !same && core.NamedOf(al.Type()) == "Result" {
		onlyOut, copied := true, false
		for _, ref := range *al.Referrers() {
			fa, isFA := ref.(*ssa.FieldAddr)
			if !isFA {
				continue
			}
			fr, _ := core.AsFieldAddr(fa)
			for _, r2 := range *fa.Referrers() {
				st, isSt := r2.(*ssa.Store)
				if !isSt || st.Addr != ssa.Value(fa) {
					continue
				}
				if fr.Field != "out" {
					onlyOut = false
					continue
				}
				var src ssa.Value
				if cl, isC := st.Val.(*ssa.Call); isC {
					if pk, fn := core.StdCallee(cl.Common().StaticCallee()); pk == "slices" && fn == "Clone" && len(cl.Common().Args) == 1 {
						src = cl.Common().Args[0]
					}
					if core.CalleeName(cl.Common()) == "builtin.append" && len(cl.Common().Args) == 2 && core.IsNilConst(cl.Common().Args[0]) {
						src = cl.Common().Args[1]
					}
				}
				if src != nil {
					if rvv, isV := rv.(ssa.Value); isV && (core.Strip(src) == rvv || p.Bind(core.Strip(src)) == rvv) {
						copied = true
					}
				}
			}
		}
		if onlyOut && copied {
			same = true
		}
	}
	c.R.Add("ONCE-O2", "executor|memo-is-returned-result", "executor", p.InstrPos(mstore), same,
		"the memoized Result is the very Result returned by the first execution", fmt.Sprintf("ok=%v", same))

	// O4: plumbing FuncOnce -> builder flag -> Func flag
	fo := p.Func(p.Arg, "FuncOnce")
	nf := p.Func(p.Arg, "NewFunc")
	flagField := ""
	if fo != nil {
		for _, fn := range core.WithNested(fo) {
			core.Instrs(fn, func(in ssa.Instruction) {
				if st, ok := in.(*ssa.Store); ok {
					if fr, ok := core.AsFieldAddr(st.Addr); ok && fr.Owner == "argBuilder" {
						if k, ok := st.Val.(*ssa.Const); ok && k.Value != nil && k.Value.ExactString() == "true" {
							flagField = fr.Field
						}
					}
				}
			})
		}
	}
	c.R.Add("ONCE-O4", "FuncOnce|sets-builder-flag", "FuncOnce", posOf(p, fo), flagField != "", "the FuncOnce option sets the builder's run-once flag", "flag field: "+flagField)
	// run-once is the caller's decision: the library never applies the option itself. A redefined or rebuilt wrapper
	// made run-once by the library memoizes what the wrapper returns (upstream failures included), not what the
	// function's own single execution produced.
	if fo != nil {
		applied := ""
		for _, g := range p.ArgFuncs() {
			core.Instrs(g, func(in ssa.Instruction) {
				if ci, ok := in.(ssa.CallInstruction); ok && ci.Common().StaticCallee() == fo {
					applied = core.FuncName(g) + " at " + p.InstrPos(in)
				}
			})
		}
		if applied == "" && p.UsedAsValue(fo) {
			applied = "FuncOnce is used as a value"
		}
		c.R.Add("ONCE-O4", "FuncOnce|only-the-caller-applies-it", "FuncOnce", posOf(p, fo), applied == "",
			"the library never applies FuncOnce on its own (a function is run-once only because the option was supplied where it was created)", ternary(applied == "", "no in-module use", "applied by "+applied))
	}
	copied := false
	if nf != nil && flagField != "" {
		core.Instrs(nf, func(in ssa.Instruction) {
			if st, ok := in.(*ssa.Store); ok {
				if _, ok := c.funcFieldAddr(st.Addr, onceField); ok {
					if src, ok := core.AsFieldLoad(st.Val); ok && src.Owner == "argBuilder" && src.Field == flagField {
						copied = true
					}
					// through an accessor of the builder every return of which hands back that flag at that position
					if ex, ok := st.Val.(*ssa.Extract); ok {
						if hc, ok := ex.Tuple.(*ssa.Call); ok {
							if h := hc.Common().StaticCallee(); h != nil && p.PrivateHelper(h) {
								all := len(core.Returns(h)) > 0
								for _, hr := range core.Returns(h) {
									if ex.Index >= len(hr.Results) {
										all = false
										continue
									}
									if src, ok := core.AsFieldLoad(hr.Results[ex.Index]); !ok || src.Owner != "argBuilder" || src.Field != flagField {
										all = false
									}
								}
								if all {
									copied = true
								}
							}
						}
					}
					if hc, ok := st.Val.(*ssa.Call); ok {
						if h := hc.Common().StaticCallee(); h != nil && p.PrivateHelper(h) && h.Signature.Results().Len() == 1 {
							all := len(core.Returns(h)) > 0
							for _, hr := range core.Returns(h) {
								if src, ok := core.AsFieldLoad(hr.Results[0]); !ok || src.Owner != "argBuilder" || src.Field != flagField {
									all = false
								}
							}
							if all {
								copied = true
							}
						}
					}
				}
			}
		})
	}
	c.R.Add("ONCE-O4", "NewFunc|copies-flag", "NewFunc", posOf(p, nf), copied, "NewFunc copies the builder's run-once flag into the Func", fmt.Sprintf("ok=%v", copied))
	// every other constructor (a package-level function returning *Func or []*Func that takes options) hands its
	// options on to NewFunc: an option that is accepted and dropped makes FuncOnce a no-op for that creation route
	if nf != nil {
		for _, g := range p.ArgFuncs() {
			if g == nf || g.Parent() != nil || g.Signature.Recv() != nil || g.Object() == nil || !g.Object().Exported() || !g.Signature.Variadic() {
				continue
			}
			res := g.Signature.Results()
			if res.Len() != 2 || !isErrorType(res.At(1).Type()) {
				continue
			}
			rt := core.TypeStr(res.At(0).Type())
			if rt != "*Func" && rt != "[]*Func" {
				continue
			}
			optsP := g.Params[len(g.Params)-1]
			if core.TypeStr(optsP.Type()) != "[]Arg" {
				continue
			}
			nCalls, fwd := 0, true
			for _, ci := range p.RegionCalls(g) {
				if ci.Common().StaticCallee() != nf {
					continue
				}
				nCalls++
				a := ci.Common().Args
				ok := false
				for _, sv := range p.ISources(a[len(a)-1]) {
					if sv == ssa.Value(optsP) {
						ok = true
					}
				}
				if !ok {
					fwd = false
				}
			}
			if nCalls == 0 {
				continue
			}
			c.R.Add("ONCE-O4", core.FuncName(g)+"|forwards-options", core.FuncName(g), p.Pos(g.Pos()), fwd,
				"a constructor that accepts options hands them on to NewFunc (so FuncOnce, FuncName and default arguments take effect on every creation route)", fmt.Sprintf("ok=%v", fwd))
		}
	}
	// the executor and its private steps (memo accessors that only it reaches)
	inExec := func(f *ssa.Function) bool {
		return f == exec || (p.PrivateHelper(core.Outer(f)) && p.InRegion(f, exec) && c.onlyReachedFrom(core.Outer(f), exec))
	}
	// the flag and memo are written nowhere else (flag: only the constructor literal)
	stray := ""
	for _, f := range p.ArgFuncs() {
		core.Instrs(f, func(in ssa.Instruction) {
			if st, ok := in.(*ssa.Store); ok {
				if _, ok := c.funcFieldAddr(st.Addr, onceField); ok && !p.FreshIn(st.Addr) {
					stray = core.FuncName(f) + " at " + p.InstrPos(in)
				}
				if _, ok := c.funcFieldAddr(st.Addr, memoField); ok && !inExec(f) && !p.FreshIn(st.Addr) {
					stray = core.FuncName(f) + " at " + p.InstrPos(in)
				}
			}
		})
	}
	c.R.Add("ONCE-O4", "flag-and-memo|single-writer", "(package)", "-", stray == "", "the run-once flag is set only at construction and the memo only by the executor", ternary(stray == "", "no other writer", "also written by "+stray))
	// O5: the memo is consulted nowhere but in the executor (a shortcut elsewhere would bypass resolution)
	reader := ""
	for _, f := range p.ArgFuncs() {
		if inExec(f) {
			continue
		}
		core.Instrs(f, func(in ssa.Instruction) {
			if fa, ok := in.(*ssa.FieldAddr); ok {
				if _, ok := c.funcFieldAddr(fa, memoField); ok {
					for _, ref := range *fa.Referrers() {
						if _, isLoad := ref.(*ssa.UnOp); isLoad {
							reader = core.FuncName(f) + " at " + p.InstrPos(in)
						}
					}
				}
			}
		})
	}
	// O6: a Func is never copied by value outside the planner's stand-in step: a copy made before the first execution
	// has a memo of its own, so the original and the copy would each run the body once
	{
		n := 0
		planner := p.MustRole("planner")
		for _, f := range p.ArgFuncs() {
			core.Instrs(f, func(in ssa.Instruction) {
				ld, ok := in.(*ssa.UnOp)
				if !ok || ld.Op != token.MUL || core.NamedOf(ld.Type()) != "Func" {
					return
				}
				if _, isStruct := ld.Type().Underlying().(*types.Struct); !isStruct {
					return
				}
				n++
				inPlanner := planner != nil && p.InRegion(core.Outer(f), planner)
				c.R.Add("ONCE-O6", fmt.Sprintf("%s|func-copied-by-value#%d", ternary(inPlanner, "planner", core.FuncName(f)), n), core.FuncName(f), p.InstrPos(in), inPlanner,
					"a Func is copied by value only by the planner's stand-in step (a copy carries its own run-once flag and memo: uses through the copy and through the original would each execute the body)",
					ternary(inPlanner, "the planner's stand-in copy (its memo handling is EXEC-X4/X6's business)", "by-value copy of a Func"))
			})
		}
	}
	// … and no function takes, returns or captures a Func by value (a value receiver copies the Func at every call of
	// the method: what the method builds on — a generated function calling f.Call — then runs on a private snapshot
	// with a memo of its own)
	{
		isFuncVal := func(t types.Type) bool {
			if core.NamedOf(t) != "Func" {
				return false
			}
			_, isStruct := t.Underlying().(*types.Struct)
			return isStruct
		}
		byVal := ""
		for _, f := range p.ArgFuncs() {
			if f.Synthetic != "" {
				continue
			}
			for _, prm := range f.Params {
				if isFuncVal(prm.Type()) {
					byVal = core.FuncName(f) + " takes " + prm.Name() + " by value"
				}
			}
			rs := f.Signature.Results()
			for i := 0; i < rs.Len(); i++ {
				if isFuncVal(rs.At(i).Type()) {
					byVal = core.FuncName(f) + " returns a Func by value"
				}
			}
		}
		c.R.Add("ONCE-O6", "no-func-by-value-in-signatures", "(package)", "-", byVal == "",
			"no function or method takes or returns a Func by value (receivers included)", ternary(byVal == "", "pointers only", byVal))
	}
	c.R.Add("ONCE-O5", "memo|read-only-by-executor", "(package)", "-", reader == "", "the run-once memo is read only by the executor", ternary(reader == "", "no other reader", "also read by "+reader))
	_ = strings.Join
}

// sameLocalLoad: a and b are two loads of the same local variable with no assignment to it (or to a part of it)
// that can happen after the first of them: they read the same value.
func sameLocalLoad(a, b ssa.Value) bool {
	la, ok1 := a.(*ssa.UnOp)
	lb, ok2 := b.(*ssa.UnOp)
	if !ok1 || !ok2 || la.Op != token.MUL || lb.Op != token.MUL || la.X != lb.X {
		return false
	}
	al, ok := la.X.(*ssa.Alloc)
	if !ok {
		return false
	}
	first := ssa.Instruction(la)
	if core.InstrDominates(lb, la) {
		first = lb
	}
	ok = true
	var visit func(addr ssa.Value, d int)
	visit = func(addr ssa.Value, d int) {
		for _, ref := range *addr.Referrers() {
			switch x := ref.(type) {
			case *ssa.Store:
				if x.Addr == addr && core.CanFollow(first, x) {
					ok = false
				}
				if x.Val == addr {
					ok = false // address escapes
				}
			case *ssa.FieldAddr:
				if d < 3 {
					visit(x, d+1)
				}
			case *ssa.IndexAddr:
				if d < 3 {
					visit(x, d+1)
				}
			case *ssa.UnOp:
			case *ssa.DebugRef:
			default:
				ok = false // handed to a call or otherwise escaping
			}
		}
	}
	visit(al, 0)
	return ok
}

// onlyReachedFrom: every static call of helper h comes from top or from another private helper that is itself only
// reached from top (so h runs only as a step of top).
func (c *Ctx) onlyReachedFrom(h, top *ssa.Function) bool {
	seen := map[*ssa.Function]bool{}
	var ok func(g *ssa.Function, d int) bool
	ok = func(g *ssa.Function, d int) bool {
		if g == top {
			return true
		}
		if seen[g] || d > 4 || !c.P.PrivateHelper(g) {
			return false
		}
		seen[g] = true
		sites := c.P.Callers(g)
		if len(sites) == 0 {
			return false
		}
		for _, s := range sites {
			if !ok(core.Outer(s.Parent()), d+1) {
				return false
			}
		}
		return true
	}
	return ok(h, 0)
}

func posOf(p *core.Prog, f *ssa.Function) string {
	if f == nil {
		return "-"
	}
	return p.Pos(f.Pos())
}

func rootIsParam(v ssa.Value, prm *ssa.Parameter) bool {
	for i := 0; i < 30; i++ {
		switch x := v.(type) {
		case *ssa.FieldAddr:
			v = x.X
		case *ssa.IndexAddr:
			v = x.X
		case *ssa.UnOp:
			v = x.X
		case *ssa.Lookup:
			v = x.X
		case *ssa.Slice:
			v = x.X
		default:
			return v == ssa.Value(prm)
		}
	}
	return false
}
