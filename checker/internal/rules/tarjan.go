package rules

import (
	"fmt"
	"go/token"
	"go/types"

	"argverif/internal/core"

	"golang.org/x/tools/go/ssa"
)

// TARJAN / TOPO — structural necessary conditions of the strongly-connected
// components routine and of the DAG relaxation (C20). They decide the
// bookkeeping shape, NOT that the partition is exact or that the relaxation
// agrees with Dijkstra on every DAG.

func init() {
	register(&Engine{
		Name:  "TARJAN",
		Doc:   "low-link bookkeeping of the SCC routine; relaxation shape of TopoShortestPath",
		Run:   runTarjan,
		Floor: map[string]int{"TARJAN": 8, "TOPO": 5},
	})
}

// isMinFunc: f(a, b int) int returning the smaller argument on every path.
func isMinFunc(p *core.Prog, f *ssa.Function) bool {
	if f == nil || !p.InTarget(f) || len(f.Params) != 2 || f.Signature.Results().Len() != 1 {
		return false
	}
	n := 0
	for _, r := range core.Returns(f) {
		v := r.Results[0]
		lits := core.Lits(core.Guards(r.Block()))
		// return a under a<=b / a<b ; return b otherwise
		okk := false
		for _, l := range lits {
			if l.Kind != "cmp" {
				continue
			}
			a, b := f.Params[0], f.Params[1]
			var lo ssa.Value
			switch {
			case l.X == ssa.Value(a) && l.Y == ssa.Value(b) && (l.Op == token.LEQ || l.Op == token.LSS):
				lo = a
				if !l.Pol {
					lo = b
				}
			case l.X == ssa.Value(a) && l.Y == ssa.Value(b) && (l.Op == token.GEQ || l.Op == token.GTR):
				lo = b
				if !l.Pol {
					lo = a
				}
			case l.X == ssa.Value(b) && l.Y == ssa.Value(a) && (l.Op == token.LEQ || l.Op == token.LSS):
				lo = b
				if !l.Pol {
					lo = a
				}
			case l.X == ssa.Value(b) && l.Y == ssa.Value(a) && (l.Op == token.GEQ || l.Op == token.GTR):
				lo = a
				if !l.Pol {
					lo = b
				}
			}
			if lo != nil && v == lo {
				okk = true
			}
		}
		if !okk {
			return false
		}
		n++
	}
	return n == 2
}

func isMinCall(p *core.Prog, v ssa.Value) (*ssa.Call, bool) {
	cl, ok := v.(*ssa.Call)
	if !ok {
		return nil, false
	}
	if core.CalleeName(cl.Common()) == "builtin.min" && len(cl.Common().Args) == 2 {
		return cl, true
	}
	if isMinFunc(p, cl.Common().StaticCallee()) {
		return cl, true
	}
	return nil, false
}

func runTarjan(c *Ctx) {
	p := c.P
	sc := p.Method(p.Graph, "Graph", "StronglyConnected")
	if sc == nil {
		c.R.Undecided("TARJAN", "StronglyConnected", "Graph.StronglyConnected", "-", "exported method not found")
		return
	}
	// the recursive worker: the in-package function StronglyConnected calls that calls itself
	var w *ssa.Function
	var entry ssa.CallInstruction
	for _, ci := range core.Calls(sc) {
		if cal := ci.Common().StaticCallee(); cal != nil && p.InTarget(cal) {
			for _, c2 := range core.Calls(cal) {
				if c2.Common().StaticCallee() == cal {
					w, entry = cal, ci
				}
				// the recursion may run through a step helper that calls back
				if h := c2.Common().StaticCallee(); h != nil && h != cal && p.InTarget(h) {
					for _, c3 := range core.Calls(h) {
						if c3.Common().StaticCallee() == cal {
							w, entry = cal, ci
						}
					}
				}
			}
		}
	}
	if w == nil {
		c.R.Undecided("TARJAN", "worker", core.FuncName(sc), p.Pos(sc.Pos()), "no recursive worker found (different algorithm: undecidable by this rule)")
		return
	}
	wn := core.FuncName(w)
	c.R.Func(core.FuncName(sc), wn)
	// parameters: accounting struct pointer, graph, vertex
	var acctP, vP *ssa.Parameter
	for _, prm := range w.Params {
		if s, n := core.StructOf(prm.Type()); s != nil && n != nil && core.NamedOf(prm.Type()) != "graph.Graph" {
			acctP = prm
		}
		if _, ok := prm.Type().Underlying().(*types.Interface); ok {
			vP = prm
		}
	}
	if acctP == nil || vP == nil {
		c.R.Undecided("TARJAN", "params", wn, p.Pos(w.Pos()), "worker parameters not recognised")
		return
	}
	// index map: the map[Vertex]int field of the accounting struct
	isIndexMap := func(v ssa.Value) bool {
		fr, ok := core.AsFieldLoad(v)
		if !ok || core.Strip(fr.Base) != ssa.Value(acctP) {
			// inside methods of the accounting struct the base is the receiver
			if ok {
				if mt, isM := v.Type().Underlying().(*types.Map); isM {
					_, isInt := mt.Elem().Underlying().(*types.Basic)
					return isInt
				}
			}
			return false
		}
		mt, isM := v.Type().Underlying().(*types.Map)
		if !isM {
			return false
		}
		b, isB := mt.Elem().Underlying().(*types.Basic)
		return isB && b.Kind() == types.Int
	}

	// T1: first action = visit(v): assigns a fresh index (stores into the index map, increments the counter, pushes)
	var visitCall *ssa.Call
	for _, in := range w.Blocks[0].Instrs {
		if cl, ok := in.(*ssa.Call); ok {
			if cal := cl.Common().StaticCallee(); cal != nil && p.InTarget(cal) && len(cl.Common().Args) == 2 && cl.Common().Args[0] == ssa.Value(acctP) && cl.Common().Args[1] == ssa.Value(vP) {
				visitCall = cl
				break
			}
		}
	}
	t1 := false
	var idxV ssa.Value
	if visitCall != nil {
		vis := visitCall.Common().StaticCallee()
		c.R.Func(core.FuncName(vis))
		stored, inc, pushed := false, false, false
		core.Instrs(vis, func(in ssa.Instruction) {
			switch x := in.(type) {
			case *ssa.MapUpdate:
				if x.Key == ssa.Value(vis.Params[1]) {
					if _, ok := x.Map.Type().Underlying().(*types.Map); ok {
						stored = true
						// the counter may be the index map's own size: the stored index is len(indexMap)+1, read before the
						// store (1-based, so that 0 stays "not visited"; a vertex is visited once, so the size grows by one)
						if b, ok := x.Value.(*ssa.BinOp); ok && b.Op == token.ADD {
							if k, isK := core.ConstInt(b.Y); isK && k == 1 {
								if lc, ok := b.X.(*ssa.Call); ok && core.CalleeName(lc.Common()) == "builtin.len" && core.Path(lc.Common().Args[0]) == core.Path(x.Map) {
									inc = true
								}
							}
						}
					}
				}
			case *ssa.Store:
				if b, ok := x.Val.(*ssa.BinOp); ok && b.Op == token.ADD {
					if k, ok := core.ConstInt(b.Y); ok && k == 1 {
						inc = true
					}
				}
			case ssa.CallInstruction:
				if core.CalleeName(x.Common()) == "builtin.append" {
					pushed = true
				}
				if cal := x.Common().StaticCallee(); cal != nil && p.InTarget(cal) {
					core.Instrs(cal, func(in2 ssa.Instruction) {
						if c2, ok := in2.(ssa.CallInstruction); ok && core.CalleeName(c2.Common()) == "builtin.append" {
							pushed = true
						}
					})
				}
			}
		})
		t1 = stored && inc && pushed
		idxV = visitCall
	}
	c.R.Add("TARJAN", "worker|visit-assigns-index-and-pushes", wn, p.Pos(w.Pos()), t1,
		"on entry the vertex gets the next index (recorded in the index map, counter incremented) and is pushed on the stack", fmt.Sprintf("ok=%v", t1))
	if idxV == nil {
		return
	}

	// the running low-link: the phi seeded with the vertex's own index
	var low *ssa.Phi
	core.Instrs(w, func(in ssa.Instruction) {
		if ph, ok := in.(*ssa.Phi); ok {
			for _, e := range ph.Edges {
				if e == idxV {
					low = ph
				}
			}
		}
	})
	if low == nil {
		c.R.Add("TARJAN", "worker|low-link", wn, p.Pos(w.Pos()), false, "the worker keeps a running low-link seeded with the vertex's own index", "no such variable")
		return
	}
	// T2a: unvisited successor: low = min(low, recurse(successor)), guarded by index[succ] == 0
	// T2b: visited successor on the stack: low = min(low, index[succ]), guarded by inStack(succ)
	recOK, stackOK := false, false
	var succ ssa.Value
	// fold sites: `low = min(low, X)` in the worker itself, or `low = step(…, low)` where the private step helper
	// returns its low parameter unchanged or min(low parameter, X); values of the helper are read through the binding
	// of its parameters at the call site
	type foldSite struct {
		mc   *ssa.Call
		bind func(ssa.Value) ssa.Value
	}
	var folds []foldSite
	ident := func(v ssa.Value) ssa.Value { return v }
	stepOK := true
	for _, e := range low.Edges {
		if e == idxV {
			continue // the seed: the vertex's own index
		}
		if mc, ok := isMinCall(p, e); ok {
			folds = append(folds, foldSite{mc, ident})
			continue
		}
		cl, ok := e.(*ssa.Call)
		if !ok {
			continue
		}
		h := cl.Common().StaticCallee()
		if h == nil || h == w || !p.InTarget(h) || len(h.Blocks) == 0 || len(h.Params) != len(cl.Common().Args) {
			continue
		}
		c.R.Func(core.FuncName(h))
		bind := func(v ssa.Value) ssa.Value {
			if prm, ok := core.Strip(v).(*ssa.Parameter); ok && prm.Parent() == h {
				for i, q := range h.Params {
					if q == prm {
						return cl.Common().Args[i]
					}
				}
			}
			return v
		}
		for _, r := range core.Returns(h) {
			if len(r.Results) != 1 {
				stepOK = false
				continue
			}
			for _, src := range core.Sources(r.Results[0]) {
				if bind(src) == ssa.Value(low) {
					continue // unchanged low-link
				}
				if mc, ok := isMinCall(p, src); ok {
					folds = append(folds, foldSite{mc, bind})
					continue
				}
				stepOK = false // the step helper returns something that is not a fold of the low-link
			}
		}
	}
	for _, fs := range folds {
		mc, bind := fs.mc, fs.bind
		a, b := mc.Common().Args[0], mc.Common().Args[1]
		other := b
		if bind(a) != ssa.Value(low) {
			if bind(b) != ssa.Value(low) {
				continue
			}
			other = a
		}
		lits := core.Lits(core.Guards(mc.Block()))
		if rc, ok := other.(*ssa.Call); ok && rc.Common().StaticCallee() == w {
			s := rc.Common().Args[len(rc.Common().Args)-1]
			for _, l := range lits {
				if l.Kind == "cmp" && l.Op == token.EQL && l.Pol {
					if lk, ok := l.X.(*ssa.Lookup); ok && isIndexMap(lk.X) && lk.Index == s {
						if k, ok := core.ConstInt(l.Y); ok && k == 0 {
							recOK = true
							succ = bind(s)
						}
					}
				}
			}
		}
		if lk, ok := other.(*ssa.Lookup); ok && isIndexMap(lk.X) {
			for _, l := range lits {
				if l.Kind == "call" && l.Pol {
					if cl, ok := l.Of.(*ssa.Call); ok && cl.Common().StaticCallee() != nil && p.InTarget(cl.Common().StaticCallee()) {
						args := cl.Common().Args
						if len(args) == 2 && bind(args[0]) == ssa.Value(acctP) && args[1] == lk.Index {
							// and not unvisited
							for _, l2 := range lits {
								if l2.Kind == "cmp" && l2.Op == token.EQL && !l2.Pol {
									if lk2, ok := l2.X.(*ssa.Lookup); ok && lk2 == lk {
										stackOK = true
									}
								}
							}
						}
					}
				}
			}
		}
	}
	recOK, stackOK = recOK && stepOK, stackOK && stepOK
	c.R.Add("TARJAN", "worker|unvisited-successor-recursion-folds-low-link", wn, p.Pos(w.Pos()), recOK,
		"for an unvisited successor (index 0) the worker recurses and folds the returned low-link into its own with min", fmt.Sprintf("ok=%v", recOK))
	c.R.Add("TARJAN", "worker|on-stack-successor-folds-index", wn, p.Pos(w.Pos()), stackOK,
		"for a visited successor that is still on the stack the worker folds that successor's index into its low-link with min", fmt.Sprintf("ok=%v", stackOK))
	// successors are the out-edges of v
	succOK := false
	if succ != nil {
		if r, ok := core.Root(succ).(*ssa.Call); ok && core.CalleeName(r.Common()) == core.GOutEdges && r.Common().Args[1] == ssa.Value(vP) {
			succOK = true
		}
	}
	c.R.Add("TARJAN", "worker|iterates-out-edges", wn, p.Pos(w.Pos()), succOK, "the successors examined are exactly the out-edges of the vertex", fmt.Sprintf("ok=%v", succOK))
	// T3: root test index == low, then pop until v and record the component
	rootOK, popOK, recorded := false, false, false
	// (the pop-until loop may live in a private step of the worker that is handed the root: `acct.popComponent(v)`)
	p.RegionInstrs(w, func(in ssa.Instruction) {
		if b, ok := in.(*ssa.BinOp); ok && b.Op == token.EQL {
			if (b.X == idxV && b.Y == ssa.Value(low)) || (b.Y == idxV && b.X == ssa.Value(low)) {
				rootOK = true
			}
			// pop() == v
			for _, pair := range [][2]ssa.Value{{b.X, b.Y}, {b.Y, b.X}} {
				if cl, ok := pair[0].(*ssa.Call); ok && p.Bind(core.Strip(pair[1])) == ssa.Value(vP) && cl.Common().StaticCallee() != nil && p.InTarget(cl.Common().StaticCallee()) && len(cl.Common().Args) == 1 && p.Bind(core.Strip(cl.Common().Args[0])) == ssa.Value(acctP) {
					popOK = true
				}
			}
		}
		if st, ok := in.(*ssa.Store); ok {
			if fr, ok := core.AsFieldAddr(st.Addr); ok && core.Strip(fr.Base) == ssa.Value(acctP) {
				if cl, ok := st.Val.(*ssa.Call); ok && core.CalleeName(cl.Common()) == "builtin.append" {
					recorded = true
				}
			}
		}
	})
	c.R.Add("TARJAN", "worker|root-test", wn, p.Pos(w.Pos()), rootOK, "a vertex is a component root exactly when its index equals its low-link", fmt.Sprintf("ok=%v", rootOK))
	c.R.Add("TARJAN", "worker|pop-until-self", wn, p.Pos(w.Pos()), popOK && recorded, "a root pops the stack until it pops itself and records the popped vertices as one component", fmt.Sprintf("pop-until-v=%v recorded=%v", popOK, recorded))
	// the stack helpers the worker relies on do what their use assumes: the membership test answers true exactly under
	// an equality between a stack element and the vertex asked about; the pop takes the last element and shortens the
	// stack by one, answering nil only for an empty stack. (Inlined forms are judged by T2b/T3 themselves.)
	seenH := map[*ssa.Function]bool{}
	for _, ci := range p.RegionCalls(w) {
		h := ci.Common().StaticCallee()
		if h == nil || !p.InTarget(h) || len(h.Blocks) == 0 || seenH[h] || h == w || len(ci.Common().Args) == 0 || p.Bind(core.Strip(ci.Common().Args[0])) != ssa.Value(acctP) {
			continue
		}
		seenH[h] = true
		res := h.Signature.Results()
		if res.Len() != 1 {
			continue
		}
		isBool := false
		if b, ok := res.At(0).Type().Underlying().(*types.Basic); ok && b.Kind() == types.Bool {
			isBool = true
		}
		switch {
		case isBool && len(h.Params) == 2:
			nT, nF, bad, constOnly := 0, 0, "", true
			for _, r := range core.Returns(h) {
				k, isK := core.ConstBool(r.Results[0])
				if !isK {
					constOnly = false
					continue
				}
				eq := false
				for _, l := range core.Lits(core.Guards(r.Block())) {
					if l.Kind == "cmp" && l.Op == token.EQL && l.Pol && (core.Strip(l.X) == ssa.Value(h.Params[1]) || core.Strip(l.Y) == ssa.Value(h.Params[1])) {
						eq = true
					}
				}
				if k {
					nT++
					if !eq {
						bad = "answers true without an element being equal to the vertex"
					}
				} else {
					nF++
					if eq {
						bad = "answers false although an element equals the vertex"
					}
				}
			}
			if constOnly && nT+nF > 0 {
				c.R.Func(core.FuncName(h))
				c.R.Add("TARJAN", "stack|membership-is-equality|"+h.Name(), core.FuncName(h), p.Pos(h.Pos()), bad == "" && nT > 0 && nF > 0,
					"the on-stack test answers true exactly when a stack element equals the vertex", ternary(bad == "" && nT > 0 && nF > 0, "true under ==, false otherwise", ternary(bad != "", bad, "one answer is never given")))
			}
		case !isBool && len(h.Params) == 1:
			lenMinus1 := func(v ssa.Value) bool {
				b, ok := core.Strip(v).(*ssa.BinOp)
				if !ok || b.Op != token.SUB {
					return false
				}
				k, isK := core.ConstInt(b.Y)
				cl, isLen := core.Strip(b.X).(*ssa.Call)
				return isK && k == 1 && isLen && core.CalleeName(cl.Common()) == "builtin.len"
			}
			shrinks, top, bad := false, false, ""
			core.Instrs(h, func(in ssa.Instruction) {
				if st, ok := in.(*ssa.Store); ok {
					if sl, ok := st.Val.(*ssa.Slice); ok && sl.Low == nil && sl.High != nil {
						if lenMinus1(sl.High) {
							shrinks = true
						} else {
							bad = "the stack is cut at " + core.Path(sl.High) + ", not at its length minus one"
						}
					}
				}
			})
			for _, r := range core.Returns(h) {
				emptyG := false
				for _, l := range core.Lits(core.Guards(r.Block())) {
					if l.Kind == "cmp" && l.Op == token.EQL && l.Pol {
						for _, pr := range [][2]ssa.Value{{l.X, l.Y}, {l.Y, l.X}} {
							if cl, ok := core.Strip(pr[0]).(*ssa.Call); ok && core.CalleeName(cl.Common()) == "builtin.len" {
								if k, ok := core.ConstInt(pr[1]); ok && k == 0 {
									emptyG = true
								}
							}
						}
					}
				}
				if core.IsNilConst(r.Results[0]) {
					if !emptyG {
						bad = "answers nil for a stack that is not known to be empty"
					}
					continue
				}
				if emptyG {
					bad = "takes an element from a stack known to be empty"
				}
				for _, sv := range core.Sources(r.Results[0]) {
					if ld, ok := core.Strip(sv).(*ssa.UnOp); ok {
						if ia, ok := ld.X.(*ssa.IndexAddr); ok {
							if lenMinus1(ia.Index) {
								top = true
							} else {
								bad = "takes the element at " + core.Path(ia.Index) + ", not the last one"
							}
						}
					}
				}
			}
			if shrinks || top {
				c.R.Func(core.FuncName(h))
				c.R.Add("TARJAN", "stack|pop-takes-the-top|"+h.Name(), core.FuncName(h), p.Pos(h.Pos()), bad == "" && shrinks && top,
					"the pop answers the last element and shortens the stack by exactly one (nil only for an empty stack)", ternary(bad == "" && shrinks && top, "last element, length minus one", ternary(bad != "", bad, fmt.Sprintf("shrinks=%v takes-top=%v", shrinks, top))))
			}
		}
	}
	// T4: returns the low-link
	retOK := true
	for _, r := range core.Returns(w) {
		if r.Results[0] != ssa.Value(low) {
			retOK = false
		}
	}
	c.R.Add("TARJAN", "worker|returns-low-link", wn, p.Pos(w.Pos()), retOK, "the worker returns its low-link", fmt.Sprintf("ok=%v", retOK))
	// T5: the driver starts the worker for every vertex that is still unvisited, and returns the recorded components
	drvOK := false
	other := ""
	for _, l := range core.Lits(core.Guards(entry.Block())) {
		isUnvisited := false
		if l.Kind == "cmp" && l.Op == token.EQL && l.Pol {
			if lk, ok := l.X.(*ssa.Lookup); ok {
				if k, ok := core.ConstInt(l.Y); ok && k == 0 && lk.Index == entry.Common().Args[len(entry.Common().Args)-1] {
					if r, ok := core.Root(lk.Index).(*ssa.Call); ok && core.CalleeName(r.Common()) == core.GVertices {
						drvOK = true
						isUnvisited = true
					}
				}
			}
		}
		// nothing else selects the start vertices (a component need not be reachable from a vertex without predecessors)
		if !isUnvisited && !core.IsLoopBound(l) {
			other = l.String()
		}
	}
	c.R.Add("TARJAN", "driver|every-unvisited-vertex", core.FuncName(sc), p.InstrPos(entry), drvOK && other == "", "the driver runs the worker from every vertex of the graph that has no index yet — and from no narrower choice of start vertices",
		ternary(other == "", fmt.Sprintf("ok=%v", drvOK), "the start is also conditional on "+other))
	// Cycles(): keeps exactly the components with more than one vertex (documented: self-loops are not reported)
	if cy := p.Method(p.Graph, "Graph", "Cycles"); cy != nil {
		c.R.Func(core.FuncName(cy))
		okc := false
		core.Instrs(cy, func(in ssa.Instruction) {
			if cl, ok := in.(*ssa.Call); ok && core.CalleeName(cl.Common()) == "builtin.append" {
				for _, l := range core.Lits(core.Guards(cl.Block())) {
					if core.LitImpliesGreater(l, 1) {
						okc = true
					}
				}
			}
		})
		c.R.Add("TARJAN", "Cycles|multi-vertex-components", core.FuncName(cy), p.Pos(cy.Pos()), okc, "Cycles reports exactly the components with more than one vertex", fmt.Sprintf("ok=%v", okc))
	}

	runTopo(c)
}

func runTopo(c *Ctx) {
	p := c.P
	gf, err := c.graphFieldRoles()
	if err != nil {
		c.R.Undecided("TOPO", "fields", "graph.Graph", "-", err.Error())
		return
	}
	tp := p.Method(p.Graph, "Graph", "TopoShortestPath")
	if tp == nil {
		c.R.Undecided("TOPO", "TopoShortestPath", "Graph.TopoShortestPath", "-", "exported method not found")
		return
	}
	name := core.FuncName(tp)
	c.R.Func(name)
	rets := core.Returns(tp)
	if len(rets) == 0 || len(rets[0].Results) != 2 {
		c.R.Undecided("TOPO", "results", name, p.Pos(tp.Pos()), "unexpected result shape")
		return
	}
	// the routine and its private helpers (relaxation step, accounting struct methods), read with one binding of the
	// helpers' parameters to the caller's values
	regionEnv := map[*ssa.Parameter]ssa.Value{}
	for _, g := range p.Region(tp) {
		if g == tp || g.Parent() != nil {
			continue
		}
		c.R.Func(core.FuncName(g))
		if sites := p.Callers(g); len(sites) == 1 {
			for i, prm := range g.Params {
				if i < len(sites[0].Common().Args) {
					regionEnv[prm] = sites[0].Common().Args[i]
				}
			}
		}
	}
	savedEnv := core.PathEnv
	core.PathEnv = regionEnv
	defer func() { core.PathEnv = savedEnv }()
	up := func(v ssa.Value) ssa.Value {
		for i := 0; i < 6; i++ {
			prm, ok := v.(*ssa.Parameter)
			if !ok {
				break
			}
			a, ok := regionEnv[prm]
			if !ok {
				break
			}
			v = a
		}
		return v
	}
	dist, edge := rets[0].Results[0], rets[0].Results[1]
	distPath, edgePath := core.Path(dist), core.Path(edge)
	isDist := func(v ssa.Value) bool { return v == dist || core.Path(v) == distPath }
	isEdge := func(v ssa.Value) bool { return v == edge || core.Path(v) == edgePath }
	fresh := func(v ssa.Value) bool {
		if _, ok := v.(*ssa.MakeMap); ok {
			return true
		}
		return p.FreshIn(v)
	}
	c.R.Add("TOPO", "fresh-result-maps", name, p.Pos(tp.Pos()), fresh(dist) && fresh(edge) && distPath != edgePath, "distances and predecessors are collected in fresh maps (absence = infinity)", fmt.Sprintf("ok=%v", fresh(dist) && fresh(edge)))
	// updates
	var du, eu *ssa.MapUpdate
	p.RegionInstrs(tp, func(in ssa.Instruction) {
		if mu, ok := in.(*ssa.MapUpdate); ok {
			if isDist(mu.Map) {
				du = mu
			}
			if isEdge(mu.Map) {
				eu = mu
			}
		}
	})
	if du == nil || eu == nil {
		c.R.Add("TOPO", "relaxation", name, p.Pos(tp.Pos()), false, "the routine relaxes edges into both result maps", "missing update")
		return
	}
	paired := du.Block() == eu.Block() && du.Key == eu.Key
	c.R.Add("TOPO", "distance-and-predecessor-paired", name, p.InstrPos(du), paired, "distance and predecessor of a vertex are always updated together", fmt.Sprintf("ok=%v", paired))
	// value = dist[hash(u)] + weight, weight/neighbour from out-adjacency of u, u ranging over L in order
	sumOK, uOK, orderOK := false, false, false
	var u ssa.Value
	if b, ok := up(du.Value).(*ssa.BinOp); ok && b.Op == token.ADD {
		for _, pair := range [][2]ssa.Value{{b.X, b.Y}, {b.Y, b.X}} {
			lk, ok := pair[0].(*ssa.Lookup)
			if !ok || !isDist(lk.X) {
				continue
			}
			n, ok := extractNext(up(pair[1]))
			if !ok || !sameNext(up(du.Key), n, 1) {
				continue
			}
			if rg, ok := n.Iter.(*ssa.Range); ok {
				src := c.classifyMap(gf, rg.X)
				if src.level == "inner" && src.field == "out" && src.keyV != nil && core.Path(src.keyV) == core.Path(lk.Index) {
					sumOK = true
					if hc, ok := p.IsHashcodeCall(lk.Index); ok {
						u = up(core.Strip(hc.Common().Args[0]))
					}
				}
			}
		}
	}
	if u != nil {
		uOK = up(core.Strip(eu.Value)) == u || core.Path(eu.Value) == core.Path(u)
		if ld, ok := u.(*ssa.UnOp); ok {
			if ia, ok := ld.X.(*ssa.IndexAddr); ok && ia.X == ssa.Value(tp.Params[1]) {
				if bb, ok := ia.Index.(*ssa.BinOp); ok && bb.Op == token.ADD {
					if k, ok := core.ConstInt(bb.Y); ok && k == 1 {
						orderOK = true
					}
				}
			}
		}
	}
	c.R.Add("TOPO", "candidate-is-dist-u-plus-weight", name, p.InstrPos(du), sumOK, "the candidate distance of a neighbour is dist[u] plus the weight of the out-edge u→neighbour", fmt.Sprintf("ok=%v", sumOK))
	c.R.Add("TOPO", "predecessor-is-u", name, p.InstrPos(eu), uOK, "the recorded predecessor is the vertex whose out-edge was relaxed", fmt.Sprintf("ok=%v", uOK))
	c.R.Add("TOPO", "processes-order-front-to-back", name, p.Pos(tp.Pos()), orderOK, "vertices are processed in the given topological order, front to back", fmt.Sprintf("ok=%v", orderOK))
	// guard: absent or greater — every path to the update passes `not ok(dist[v])` or `dist[v] > candidate`
	allowed := map[[2]*ssa.BasicBlock]bool{}
	keyPath, candPath := core.Path(du.Key), core.Path(du.Value)
	// absentOrBetter: the literal (with its polarity) states "no entry for key in dist" or "the entry is greater than
	// cand"; values are compared by access path under the current parameter binding
	absentOrBetter := func(l core.Lit) bool {
		isOld := func(v ssa.Value) bool {
			switch x := v.(type) {
			case *ssa.Lookup:
				return isDist(x.X) && core.Path(x.Index) == keyPath
			case *ssa.Extract:
				if lk, ok := x.Tuple.(*ssa.Lookup); ok {
					return isDist(lk.X) && core.Path(lk.Index) == keyPath && x.Index == 0
				}
			}
			return false
		}
		isCand := func(v ssa.Value) bool { return v == du.Value || core.Path(v) == candPath }
		switch l.Kind {
		case "ok":
			lk, ok := l.Of.(*ssa.Lookup)
			return ok && isDist(lk.X) && core.Path(lk.Index) == keyPath && !l.Pol
		case "cmp":
			op := l.Op
			if !l.Pol {
				switch op {
				case token.GTR:
					op = token.LEQ
				case token.LSS:
					op = token.GEQ
				case token.GEQ:
					op = token.LSS
				case token.LEQ:
					op = token.GTR
				default:
					return false
				}
			}
			if isOld(l.X) && isCand(l.Y) && (op == token.GTR || op == token.GEQ) {
				return true
			}
			if isOld(l.Y) && isCand(l.X) && (op == token.LSS || op == token.LEQ) {
				return true
			}
		}
		return false
	}
	holds := func(cond ssa.Value, pol bool) bool {
		l := core.LitOf(cond, pol)
		if absentOrBetter(l) {
			return true
		}
		// a predicate helper (`absentOrGreater(dist, key, cand)`, `acct.reached(key)`): read its body with its parameters
		// bound to this call's arguments
		if l.Kind == "call" {
			cl, _ := l.Of.(*ssa.Call)
			if cl == nil {
				return false
			}
			h := cl.Common().StaticCallee()
			if h == nil || !p.InTarget(h) || len(h.Blocks) == 0 || len(h.Params) != len(cl.Common().Args) {
				return false
			}
			env := map[*ssa.Parameter]ssa.Value{}
			for k, v := range core.PathEnv {
				env[k] = v
			}
			for i, prm := range h.Params {
				env[prm] = cl.Common().Args[i]
			}
			saved := core.PathEnv
			core.PathEnv = env
			ok := core.HelperImplies(h, l.Pol, absentOrBetter)
			core.PathEnv = saved
			return ok
		}
		return false
	}
	core.Instrs(du.Parent(), func(in ssa.Instruction) {
		iff, ok := in.(*ssa.If)
		if !ok || len(iff.Block().Succs) != 2 {
			return
		}
		if holds(iff.Cond, true) {
			allowed[[2]*ssa.BasicBlock{iff.Block(), iff.Block().Succs[0]}] = true
		}
		if holds(iff.Cond, false) {
			allowed[[2]*ssa.BasicBlock{iff.Block(), iff.Block().Succs[1]}] = true
		}
	})
	start := du.Parent().Blocks[0]
	if ki, ok := du.Key.(ssa.Instruction); ok {
		start = ki.Block()
	}
	gated := start != nil && len(allowed) >= 1 && !core.Reachable(start, du.Block(), allowed)
	c.R.Add("TOPO", "update-only-if-absent-or-better", name, p.InstrPos(du), gated,
		"a neighbour's entry is overwritten only when it has none yet or the candidate is smaller (must-pass edges)", fmt.Sprintf("gates=%d ok=%v", len(allowed), gated))
}
