package rules

import (
	"fmt"
	"go/token"
	"go/types"
	"strings"

	"argverif/internal/core"

	"golang.org/x/tools/go/ssa"
)

// ERRFLOW — error discipline (C02, C04, C10, C16). DESIGN §4 ERRFLOW E1–E5.

func init() {
	register(&Engine{
		Name: "ERRFLOW",
		Doc:  "Result typestate, no in-module error dropped, target dominated by nil branches, error identity taint, last-resort guard",
		Run:  runErrflow,
		Floor: map[string]int{
			"ERRFLOW-E1": 3, "ERRFLOW-E2": 8, "ERRFLOW-E3": 3, "ERRFLOW-E4": 5, "ERRFLOW-E5": 3, "ERRFLOW-E6": 2,
		},
	})
}

func isErrorType(t types.Type) bool {
	return types.Identical(t, types.Universe.Lookup("error").Type())
}

// nilCheckLit reports whether lits contain "v == nil" with the given polarity.
func nilCheckLit(lits []core.Lit, v ssa.Value, pol bool) bool {
	for _, l := range lits {
		if l.Kind == "cmp" && l.Op == token.EQL && l.Pol == pol {
			if (sameVal(l.X, v) && core.IsNilConst(l.Y)) || (sameVal(l.Y, v) && core.IsNilConst(l.X)) {
				return true
			}
		}
	}
	return false
}

// sameVal: identical SSA value, or a load of the same single-assignment local.
func sameVal(a, b ssa.Value) bool {
	if a == b {
		return true
	}
	for _, s := range core.Sources(a) {
		if s == b {
			return len(core.Sources(a)) == 1
		}
	}
	return false
}

func runErrflow(c *Ctx) {
	c.runResultCtor()
	c.runAccumulators()
	p := c.P
	exec := c.role("ERRFLOW-E5", "executor")
	res := c.role("ERRFLOW-E1", "resolver")
	call := c.role("ERRFLOW-E3", "Call")
	if exec == nil || res == nil || call == nil {
		return
	}
	errMethod := p.Method(p.Arg, "Result", "Err")
	if errMethod == nil {
		c.R.Undecided("ERRFLOW-E1", "Err", "Result.Err", "-", "exported method (*Result).Err not found")
		return
	}
	returnsResult := func(f *ssa.Function) bool {
		r := f.Signature.Results()
		return r.Len() == 1 && core.NamedOf(r.At(0).Type()) == "Result"
	}

	// ---------------- E1: Result typestate
	// A Result is *consumed* where its outputs are read. Every consumption must be dominated by Err()==nil on that
	// Result — in the function that reads, or, when the Result was handed to an in-module function, at the hand-over
	// (checked before the call) or inside the callee (checked before it reads).
	type resUse struct {
		in     ssa.Instruction
		kind   string // "out" | "handon"
		callee *ssa.Function
		arg    int
	}
	argIndex := func(ci ssa.CallInstruction, v ssa.Value) int {
		for i, a := range ci.Common().Args {
			if a == v {
				return i
			}
		}
		return -1
	}
	usesOfVal := func(v ssa.Value) []resUse {
		var out []resUse
		for _, use := range core.Users(v) {
			switch w := use.(type) {
			case ssa.CallInstruction:
				cal := w.Common().StaticCallee()
				if cal == errMethod {
					continue
				}
				idx := -1
				for i, a := range w.Common().Args {
					for _, sv := range core.Sources(a) {
						if sv == v {
							idx = i
						}
					}
					if a == v {
						idx = i
					}
				}
				out = append(out, resUse{w, "handon", cal, idx})
			case *ssa.Field:
				if fieldName2(w) == "out" {
					out = append(out, resUse{w, "out", nil, -1})
				}
			}
		}
		return out
	}
	usesOfLoc := func(al *ssa.Alloc) []resUse {
		var out []resUse
		for _, ref := range *al.Referrers() {
			switch u := ref.(type) {
			case *ssa.FieldAddr:
				if fr, _ := core.AsFieldAddr(u); fr.Field == "out" {
					out = append(out, resUse{u, "out", nil, -1})
				}
			case *ssa.UnOp:
				out = append(out, usesOfVal(u)...)
			case ssa.CallInstruction:
				// the address itself handed on (pointer receiver methods other than Err)
				if cal := u.Common().StaticCallee(); cal != nil && cal != errMethod && p.InTarget(cal) {
					out = append(out, resUse{u, "handon", cal, argIndex(u, al)})
				}
			}
		}
		return out
	}
	checkedAt := func(al *ssa.Alloc, b *ssa.BasicBlock) bool {
		lits := core.Lits(core.Guards(b))
		for _, ref := range *al.Referrers() {
			if cl, ok := ref.(*ssa.Call); ok && cl.Common().StaticCallee() == errMethod {
				if nilCheckLit(lits, cl, true) {
					return true
				}
			}
		}
		return false
	}
	// calleeGuards: g is error-faithful for its Result parameter idx — it returns an error, a nil error is returned
	// only where the Result is known to carry none (its own Err()==nil check, or the nil error of a nested faithful
	// callee the Result was handed to), and it changes no state (stores outside fresh locals, executions) before that
	// is known. Merely reading the outputs is free: the caller discards them when it sees the error (rule E2).
	var calleeGuards func(g *ssa.Function, idx int, d int) bool
	calleeGuards = func(g *ssa.Function, idx int, d int) bool {
		if g == nil || !p.InTarget(g) || len(g.Blocks) == 0 || idx < 0 || idx >= len(g.Params) || d > 3 {
			return false
		}
		prm := g.Params[idx]
		if core.NamedOf(prm.Type()) != "Result" {
			return false
		}
		res := g.Signature.Results()
		if res.Len() == 0 || !isErrorType(res.At(res.Len()-1).Type()) {
			return false
		}
		var spill *ssa.Alloc
		for _, ref := range *prm.Referrers() {
			if st, ok := ref.(*ssa.Store); ok && st.Val == ssa.Value(prm) {
				if al, ok := st.Addr.(*ssa.Alloc); ok {
					spill = al
				}
			}
		}
		isOwnErr := func(v ssa.Value) bool {
			cl, ok := v.(*ssa.Call)
			return ok && cl.Common().StaticCallee() == errMethod && spill != nil && len(cl.Common().Args) > 0 && cl.Common().Args[0] == ssa.Value(spill)
		}
		// error result of a nested faithful callee that received this Result
		isNestedErr := func(v ssa.Value) bool {
			var cl *ssa.Call
			switch x := v.(type) {
			case *ssa.Call:
				cl = x
			case *ssa.Extract:
				cl, _ = x.Tuple.(*ssa.Call)
			}
			if cl == nil || !isErrorType(v.Type()) {
				return false
			}
			h := cl.Common().StaticCallee()
			for j, a := range cl.Common().Args {
				for _, sv := range core.Sources(a) {
					if sv == ssa.Value(prm) {
						return calleeGuards(h, j, d+1)
					}
					if ld, ok := sv.(*ssa.UnOp); ok && spill != nil && ld.X == ssa.Value(spill) {
						return calleeGuards(h, j, d+1)
					}
				}
			}
			return false
		}
		known := func(b *ssa.BasicBlock) bool {
			for _, l := range core.Lits(core.Guards(b)) {
				if l.Kind == "cmp" && l.Op == token.EQL && l.Pol && (core.IsNilConst(l.X) || core.IsNilConst(l.Y)) {
					v := l.X
					if core.IsNilConst(v) {
						v = l.Y
					}
					if isOwnErr(v) || isNestedErr(v) {
						return true
					}
				}
			}
			return false
		}
		for _, r := range core.Returns(g) {
			for _, e := range core.ReturnOperand(r, len(r.Results)-1) {
				for _, sv := range core.Sources(e) {
					switch {
					case isOwnErr(sv) || isNestedErr(sv):
					case nilCheckLit(core.Lits(core.Guards(r.Block())), sv, false):
					case func() bool {
						// a field of the Result itself (`return …, r.buildErr` under `r.buildErr != nil`): the same
						// location, re-read
						if _, isF := core.AsFieldLoad(sv); !isF {
							return false
						}
						for _, l := range core.Lits(core.Guards(r.Block())) {
							if l.Kind == "cmp" && l.Op == token.EQL && !l.Pol {
								if (core.IsNilConst(l.Y) && core.Path(l.X) == core.Path(sv)) || (core.IsNilConst(l.X) && core.Path(l.Y) == core.Path(sv)) {
									return true
								}
							}
						}
						return false
					}():
					case core.IsNilConst(sv):
						if !known(r.Block()) {
							return false
						}
					default:
						return false
					}
				}
			}
		}
		ok := true
		for _, fn := range core.WithNested(g) {
			core.Instrs(fn, func(in ssa.Instruction) {
				switch x := in.(type) {
				case *ssa.Store:
					if _, isLocal := x.Addr.(*ssa.Alloc); isLocal || p.FreshIn(x.Addr) {
						return
					}
					if !known(x.Block()) {
						ok = false
					}
				case *ssa.MapUpdate:
					if p.FreshIn(x.Map) {
						return
					}
					if !known(x.Block()) {
						ok = false
					}
				case ssa.CallInstruction:
					if x.Common().StaticCallee() == exec && !known(x.Block()) {
						ok = false
					}
				}
			})
		}
		return ok
	}
	// calleeChecks: g is a private step that applies the same discipline to its Result parameter idx — every read of
	// the outputs and every further hand-on inside it is dominated by its own Err()==nil test on that parameter (or goes
	// to a callee that is itself faithful or checking).
	var calleeChecks func(g *ssa.Function, idx int, d int) bool
	calleeChecks = func(g *ssa.Function, idx int, d int) bool {
		if g == nil || d > 3 || idx < 0 || idx >= len(g.Params) || len(g.Blocks) == 0 || !p.PrivateHelper(g) {
			return false
		}
		prm := g.Params[idx]
		if core.NamedOf(prm.Type()) != "Result" {
			return false
		}
		if _, isPtr := prm.Type().(*types.Pointer); isPtr {
			return false
		}
		var spill *ssa.Alloc
		for _, ref := range *prm.Referrers() {
			if st, ok := ref.(*ssa.Store); ok && st.Val == ssa.Value(prm) {
				al, ok := st.Addr.(*ssa.Alloc)
				if !ok {
					return false // the Result is stored away
				}
				spill = al
			}
		}
		uses := usesOfVal(prm)
		if spill != nil {
			uses = append(uses, usesOfLoc(spill)...)
		}
		for _, u := range uses {
			if spill != nil && checkedAt(spill, u.in.Block()) {
				continue
			}
			if u.kind == "handon" && (calleeGuards(u.callee, u.arg, 0) || calleeChecks(u.callee, u.arg, d+1)) {
				continue
			}
			return false
		}
		return true
	}
	judge := func(f *ssa.Function, origin string, al *ssa.Alloc, uses []resUse) {
		n := 0
		for _, u := range uses {
			n++
			local := al != nil && checkedAt(al, u.in.Block())
			switch u.kind {
			case "out":
				c.R.Add("ERRFLOW-E1", fmt.Sprintf("%s|result of %s|read .out#%d", core.FuncName(f), origin, n), core.FuncName(f), p.InstrPos(u.in), local,
					"outputs of a Result are read only where Err()==nil on that Result dominates", ternary(local, "dominated by Err()==nil", "no dominating Err()==nil check"))
			case "handon":
				nm := "(dynamic)"
				if u.callee != nil {
					nm = core.FuncName(u.callee)
				}
				inside := !local && (calleeGuards(u.callee, u.arg, 0) || calleeChecks(u.callee, u.arg, 0))
				c.R.Add("ERRFLOW-E1", fmt.Sprintf("%s|result of %s|passed to %s", core.FuncName(f), origin, nm), core.FuncName(f), p.InstrPos(u.in), local || inside,
					"a Result is handed on (output mapper, adapters, value-set loaders) only where Err()==nil on it dominates, or to a function that faithfully reports the Result's error and changes no state before it is known to be nil",
					ternary(local, "dominated by Err()==nil", ternary(inside, "the callee is error-faithful (returns the Result's error; no store or execution before it is known to be nil) or a private step that tests Err()==nil itself before every use", "no dominating Err()==nil check, and the callee is not error-faithful for this Result")))
			}
		}
	}
	for _, f := range p.ArgFuncs() {
		core.Instrs(f, func(in ssa.Instruction) {
			switch x := in.(type) {
			case *ssa.Alloc:
				if core.NamedOf(x.Type()) != "Result" {
					return
				}
				// a Result variable that receives the result of a call returning Result
				fromCall := false
				var origin string
				for _, ref := range *x.Referrers() {
					if st, ok := ref.(*ssa.Store); ok && st.Addr == x {
						if cl, ok := st.Val.(*ssa.Call); ok {
							if cal := cl.Common().StaticCallee(); cal != nil && p.InTarget(cal) && returnsResult(cal) {
								fromCall = true
								origin = core.FuncName(cal)
							}
						}
					}
				}
				if !fromCall {
					return
				}
				judge(f, origin, x, usesOfLoc(x))
				c.R.Func(core.FuncName(f))
			case *ssa.Call:
				// a Result used straight from the call (never stored in a variable, so never checked here)
				cal := x.Common().StaticCallee()
				if cal == nil || !p.InTarget(cal) || !returnsResult(cal) {
					return
				}
				if cal != exec && cal != call {
					return // adapters re-shape a Result their caller is responsible for; executions produce new ones
				}
				stored := false
				for _, ref := range *x.Referrers() {
					if st, ok := ref.(*ssa.Store); ok && st.Val == ssa.Value(x) {
						if _, isAl := st.Addr.(*ssa.Alloc); isAl {
							stored = true
						}
					}
				}
				if stored {
					return
				}
				if uses := usesOfVal(x); len(uses) > 0 {
					judge(f, core.FuncName(cal), nil, uses)
					c.R.Func(core.FuncName(f))
				}
			}
		})
	}
	// exported FromResult-like functions: a Result parameter's .out is read only after Err()==nil
	for _, f := range p.ArgFuncs() {
		if f.Object() == nil || !f.Object().Exported() || f.Parent() != nil {
			continue
		}
		for _, prm := range f.Params {
			if core.NamedOf(prm.Type()) != "Result" {
				continue
			}
			if _, isPtr := prm.Type().(*types.Pointer); isPtr {
				continue // methods of Result itself
			}
			// find spills
			for _, ref := range *prm.Referrers() {
				st, ok := ref.(*ssa.Store)
				if !ok {
					continue
				}
				al, ok := st.Addr.(*ssa.Alloc)
				if !ok {
					continue
				}
				var errCalls []*ssa.Call
				for _, r2 := range *al.Referrers() {
					if cl, ok := r2.(*ssa.Call); ok && cl.Common().StaticCallee() == errMethod {
						errCalls = append(errCalls, cl)
					}
				}
				for _, r2 := range *al.Referrers() {
					if fa, ok := r2.(*ssa.FieldAddr); ok {
						if fr, _ := core.AsFieldAddr(fa); fr.Field == "out" {
							ok2 := false
							lits := core.Lits(core.Guards(fa.Block()))
							for _, e := range errCalls {
								if nilCheckLit(lits, e, true) {
									ok2 = true
								}
							}
							c.R.Add("ERRFLOW-E1", core.FuncName(f)+"|Result parameter|read .out", core.FuncName(f), p.InstrPos(fa), ok2,
								"an exported function reads the outputs of a caller-supplied Result only after Err()==nil", ternary(ok2, "dominated by Err()==nil", "no dominating Err()==nil check"))
						}
					}
				}
			}
		}
	}

	// ---------------- E2: no in-module error dropped
	chainExec := map[*ssa.Function]bool{exec: true, res: true}
	for _, f := range p.ArgFuncs() {
		for _, ci := range core.Calls(f) {
			cc := ci.Common()
			sig, _ := cc.Value.Type().Underlying().(*types.Signature)
			if cc.IsInvoke() {
				continue // interface methods (logger, reflect.Type) return no library errors
			}
			cal := cc.StaticCallee()
			inModule := cal != nil && p.InTarget(cal)
			dynamic := cal == nil
			if _, isB := cc.Value.(*ssa.Builtin); isB {
				continue
			}
			if !inModule && !dynamic {
				continue
			}
			if sig == nil {
				continue
			}
			idx := -1
			for i := 0; i < sig.Results().Len(); i++ {
				if isErrorType(sig.Results().At(i).Type()) {
					idx = i
				}
			}
			if idx < 0 {
				continue
			}
			// an error *constructor* (its only result is an error it always builds afresh) reports nothing about an
			// operation: its value is an error to be returned or accumulated, not a status to be checked
			if cal != nil && sig.Results().Len() == 1 && errorConstructor(cal) {
				continue
			}
			cv, isVal := ci.(*ssa.Call)
			nm := "(dynamic " + core.TypeStr(cc.Value.Type()) + ")"
			if cal != nil {
				nm = core.FuncName(cal)
			}
			key := core.FuncName(f) + "|error of " + nm
			if !isVal {
				c.R.Add("ERRFLOW-E2", key, core.FuncName(f), p.InstrPos(ci), false, "error result of an in-module call is checked", "call is deferred or spawned: result discarded")
				continue
			}
			var ev ssa.Value = cv
			if sig.Results().Len() > 1 {
				ev = nil
				for _, ref := range *cv.Referrers() {
					if e, ok := ref.(*ssa.Extract); ok && e.Index == idx {
						ev = e
					}
				}
			}
			if ev == nil {
				// listed exception: the pruning DFS, whose callback provably returns only nil or next()
				if core.CalleeName(cc) == core.GDFS && c.dfsCallbackBenign(cv) {
					c.R.Add("ERRFLOW-E2", key, core.FuncName(f), p.InstrPos(ci), true, "error result may be dropped only where it is provably nil", "DFS callback returns only nil or next(): traversal error is always nil")
					continue
				}
				c.R.Add("ERRFLOW-E2", key, core.FuncName(f), p.InstrPos(ci), false, "error result of an in-module call is checked", "error result is discarded")
				continue
			}
			// accepted: compared with nil in a branch whose non-nil side cannot reach user-code execution;
			// returned; accumulated (phi into a returned/checked error) ; stored into Result.buildErr
			status, detail := c.errorHandled(ev, f, chainExec)
			if !status && core.CalleeName(cc) == core.GDFS && len(*cv.Referrers()) == 0 && c.dfsCallbackBenign(cv) {
				// listed exception (one symbol): the pruning DFS, whose callback provably returns only nil or next()
				status, detail = true, "dropped, but provably nil: the DFS callback returns only nil or next()"
			}
			// the other results of the call are looked at only on the nil side of the error check (a `v == nil` test that
			// runs before `err != nil` swallows the error whenever v is nil)
			if status && sig.Results().Len() > 1 {
				if early := c.coResultUsedBeforeCheck(cv, ev, idx); early != "" {
					status, detail = false, early
				}
			}
			c.R.Add("ERRFLOW-E2", key, core.FuncName(f), p.InstrPos(ci), status, "error result of an in-module or callback call is checked before anything executes user code, returned, or accumulated", detail)
		}
	}

	// ---------------- E3: the target's execution in Call is dominated by the nil branches
	{
		// every call of the executor made by Call (or one of its private steps): a second, unguarded site — a fast path
		// around resolution — is as much an execution of the target as the main one
		var execCalls []ssa.CallInstruction
		for _, ci := range p.RegionCalls(call) {
			if ci.Common().StaticCallee() == exec {
				execCalls = append(execCalls, ci)
			}
		}
		if len(execCalls) == 0 {
			c.R.Undecided("ERRFLOW-E3", "Call|executor", "Call", p.Pos(call.Pos()), "Call does not call the executor directly")
		}
		for i, execCall := range execCalls {
			sfx := ""
			if i > 0 {
				sfx = fmt.Sprintf("#%d", i+1)
			}
			// literals known where the executor is called, including what a nil error of a private step helper
			// (`log, argMap, err := f.resolve(...)`) implies inside that helper
			lits := p.ExpandLitsKeep(p.ILits(execCall.Block()))
			for _, role := range []string{"defaultsMerger", "graphBuilder", "resolver"} {
				rf := c.role("ERRFLOW-E3", role)
				if rf == nil {
					continue
				}
				ok := false
				for _, ci := range p.RegionCalls(call) {
					if ci.Common().StaticCallee() != rf {
						continue
					}
					cv := ci.(*ssa.Call)
					for _, ref := range *cv.Referrers() {
						if e, isE := ref.(*ssa.Extract); isE && isErrorType(e.Type()) && nilCheckLit(lits, e, true) {
							ok = true
						}
					}
				}
				c.R.Add("ERRFLOW-E3", "Call|"+role+sfx, "Call", p.InstrPos(execCall), ok,
					"the target executes only on the nil-error branch of "+role, ternary(ok, "dominated by err==nil", "not dominated by err==nil of "+role))
			}
			// the argument map handed to the executor is the resolver's result
			ok := false
			for _, a := range execCall.Common().Args {
				if _, isMap := a.Type().Underlying().(*types.Map); !isMap {
					continue
				}
				srcs := p.ISources(a)
				ok = len(srcs) > 0
				for _, sv := range srcs {
					if core.IsNilConst(sv) {
						continue // the error returns of a step helper (never reach the executor: nil branch above)
					}
					e, isE := sv.(*ssa.Extract)
					if !isE {
						ok = false
						continue
					}
					if cl, isC := e.Tuple.(*ssa.Call); !isC || cl.Common().StaticCallee() != res {
						ok = false
					}
				}
			}
			c.R.Add("ERRFLOW-E3", "Call|argmap-from-resolver"+sfx, "Call", p.InstrPos(execCall), ok, "the target is executed with the argument map its resolver call returned", fmt.Sprintf("ok=%v", ok))
		}
		// in the resolver: a converter executes with the map of its own nested resolver call, after its nil branch
		for _, ci := range core.Calls(res) {
			if ci.Common().StaticCallee() != exec {
				continue
			}
			lits := core.Lits(core.Guards(ci.Block()))
			ok, okMap := false, false
			for _, a := range ci.Common().Args {
				if e, isE := a.(*ssa.Extract); isE {
					if cl, isC := e.Tuple.(*ssa.Call); isC && cl.Common().StaticCallee() == res {
						okMap = true
						for _, ref := range *cl.Referrers() {
							if e2, isE2 := ref.(*ssa.Extract); isE2 && isErrorType(e2.Type()) && nilCheckLit(lits, e2, true) {
								ok = true
							}
						}
						// the function executed is the one whose vertex was resolved
						recvOK := false
						if fr, isF := core.AsFieldLoad(ci.Common().Args[0]); isF {
							for _, ra := range cl.Common().Args {
								if core.Path(ra) == core.Path(fr.Base) {
									recvOK = true
								}
							}
						}
						c.R.Add("ERRFLOW-E3", "resolver|executes-resolved-vertex", "resolver", p.InstrPos(ci), recvOK,
							"the converter executed is the function of the vertex whose arguments were just resolved", fmt.Sprintf("ok=%v", recvOK))
					}
				}
			}
			c.R.Add("ERRFLOW-E3", "resolver|converter-after-nil-branch", "resolver", p.InstrPos(ci), ok && okMap,
				"a converter executes only with the argument map of its own resolver call, on that call's nil-error branch", fmt.Sprintf("own-map=%v nil-branch=%v", okMap, ok))
		}
	}

	// ---------------- E6: Call returns nothing but an error Result (on a non-nil error branch) or the executor's Result
	{
		n6 := 0
		for _, r := range core.Returns(call) {
			n6++
			v := r.Results[0]
			okk, why := false, "returns "+core.Path(v)
			lits := core.Lits(core.Guards(r.Block()))
			for _, src := range core.Sources(v) {
				cl, isC := src.(*ssa.Call)
				if !isC {
					continue
				}
				cal := cl.Common().StaticCallee()
				switch {
				case cal == exec:
					okk, why = true, "the executor's Result"
				case cal != nil && p.InTarget(cal) && returnsResult(cal) && len(cl.Common().Args) == 1 && isErrorType(cl.Common().Args[0].Type()):
					if nilCheckLit(lits, cl.Common().Args[0], false) {
						okk, why = true, "error Result on a non-nil error branch"
					} else {
						why = "error Result not guarded by err != nil"
					}
				case cal != nil && p.PrivateHelper(cal) && returnsResult(cal):
					// a private step that does nothing but wrap its error parameter into an error Result
					// (`func (f *Func) callError(err error) Result { return resultError(err) }`)
					var errArg ssa.Value
					var errPrm *ssa.Parameter
					nErr := 0
					for i, a := range cl.Common().Args {
						if isErrorType(a.Type()) && i < len(cal.Params) {
							errArg, errPrm = a, cal.Params[i]
							nErr++
						}
					}
					wraps := nErr == 1 && len(cal.Blocks) == 1
					if wraps {
						for _, hr := range core.Returns(cal) {
							ic, isC := hr.Results[0].(*ssa.Call)
							if !isC || len(ic.Common().Args) != 1 || ic.Common().Args[0] != ssa.Value(errPrm) {
								wraps = false
								continue
							}
							ih := ic.Common().StaticCallee()
							if ih == nil || !p.InTarget(ih) || !returnsResult(ih) || ih.Signature.Params().Len() != 1 {
								wraps = false
							}
						}
					}
					if wraps {
						if nilCheckLit(lits, errArg, false) {
							okk, why = true, "error Result (through a wrapping step) on a non-nil error branch"
						} else {
							why = "error Result not guarded by err != nil"
						}
					}
				}
			}
			// an inlined error literal Result{buildErr: err}
			if !okk {
				if ld, isLd := v.(*ssa.UnOp); isLd {
					if al, isAl := ld.X.(*ssa.Alloc); isAl && !wholeStored(al) {
						for _, ref := range *al.Referrers() {
							if fa, isFA := ref.(*ssa.FieldAddr); isFA {
								if fr, _ := core.AsFieldAddr(fa); fr.Field == "buildErr" {
									for _, r2 := range *fa.Referrers() {
										if st, isSt := r2.(*ssa.Store); isSt && nilCheckLit(lits, st.Val, false) {
											okk, why = true, "error Result literal on a non-nil error branch"
										}
									}
								}
							}
						}
					}
				}
			}
			c.R.Add("ERRFLOW-E6", fmt.Sprintf("Call|return#%d", n6), "Call", p.InstrPos(r), okk,
				"Call returns either an error Result on a branch where that error is non-nil, or exactly what the executor returned after resolution succeeded (no shortcut past resolution)", why)
		}
	}

	// ---------------- E4: identity of errors on the chain
	c.runTaint(errMethod, exec, res)

	// ---------------- E5: last-resort guard in the executor
	{
		rv := c.oneSite("ERRFLOW-E5", "executor", "reflect.Value.Call", p.RegionCalls(exec, core.RVCall))
		if rv == nil {
			c.R.Undecided("ERRFLOW-E5", "executor|call", "executor", p.Pos(exec.Pos()), "no reflect.Value.Call in the executor")
			return
		}
		// what is known where the function is called — including, when the argument struct is built by a private step
		// that returns an error, what that step's nil error implies inside it
		lits := p.ExpandLitsKeep(p.ILits(rv.Block()))
		var guardVal ssa.Value
		for _, l := range lits {
			if l.Kind == "cmp" && l.Op == token.EQL && l.Pol {
				var cand ssa.Value
				if core.IsNilConst(l.Y) && isErrorType(l.X.Type()) {
					cand = l.X
				} else if core.IsNilConst(l.X) && isErrorType(l.Y.Type()) {
					cand = l.Y
				}
				if cand == nil {
					continue
				}
				// prefer the accumulated error itself (a phi over the argument loop) to a step's forwarded result
				if _, isPhi := cand.(*ssa.Phi); isPhi || guardVal == nil {
					guardVal = cand
				}
			}
		}
		// `structVal, err := f.inputStruct(argMap)` where the step returns its accumulated error as is: that error
		for i := 0; i < 3 && guardVal != nil; i++ {
			if _, isPhi := guardVal.(*ssa.Phi); isPhi {
				break
			}
			var cl *ssa.Call
			idx := 0
			switch x := guardVal.(type) {
			case *ssa.Call:
				cl = x
			case *ssa.Extract:
				cl, _ = x.Tuple.(*ssa.Call)
				idx = x.Index
			}
			if cl == nil {
				break
			}
			h := cl.Common().StaticCallee()
			if !p.PrivateHelper(h) {
				break
			}
			rets := core.Returns(h)
			if len(rets) != 1 || idx >= len(rets[0].Results) {
				break
			}
			guardVal = rets[0].Results[idx]
		}
		c.R.Add("ERRFLOW-E5", "executor|call-behind-buildErr-nil", "executor", p.InstrPos(rv), guardVal != nil,
			"the wrapped function is called only where the accumulated argument error is nil", ternary(guardVal != nil, "dominated by buildErr==nil", "no dominating nil check of an accumulated error"))
		// the argMap-miss branch always makes that error non-nil
		missOK, lookupFound := false, false
		var argMap *ssa.Parameter
		for _, prm := range exec.Params {
			if _, isMap := prm.Type().Underlying().(*types.Map); isMap {
				argMap = prm
			}
		}
		p.RegionInstrs(exec, func(in ssa.Instruction) {
			lk, ok := in.(*ssa.Lookup)
			if !ok || !lk.CommaOk || (lk.X != ssa.Value(argMap) && p.Bind(lk.X) != ssa.Value(argMap)) {
				return
			}
			lookupFound = true
			// find the If on its ok
			for _, ref := range *lk.Referrers() {
				e, ok := ref.(*ssa.Extract)
				if !ok || e.Index != 1 {
					continue
				}
				for _, r2 := range *e.Referrers() {
					iff, ok := r2.(*ssa.If)
					if !ok {
						continue
					}
					miss := iff.Block().Succs[1]
					// every edge leaving the miss region into a phi of guardVal carries a fresh non-nil error
					if ph, ok := guardVal.(*ssa.Phi); ok {
						for i, pred := range ph.Block().Preds {
							if pred == miss || (miss.Dominates(pred) && !iff.Block().Succs[0].Dominates(pred)) {
								ev := ph.Edges[i]
								if ev != ssa.Value(ph) && !core.IsNilConst(ev) {
									if _, isCall := core.Strip(ev).(*ssa.Call); isCall {
										missOK = true
									}
								} else {
									missOK = false
								}
							}
						}
					}
				}
			}
		})
		c.R.Add("ERRFLOW-E5", "executor|missing-argument-sets-error", "executor", p.Pos(exec.Pos()), lookupFound && missOK,
			"a parameter without an entry in the argument map always makes the accumulated error non-nil (so the function is never called with a missing argument)",
			fmt.Sprintf("lookup-with-ok=%v miss-branch-sets-error=%v", lookupFound, missOK))
		// every declared input is looked up: the loop ranges over the full value list of the input set
		fullRange := false
		p.RegionInstrs(exec, func(in ssa.Instruction) {
			if ia, ok := in.(*ssa.IndexAddr); ok {
				if fr, ok := core.AsFieldLoad(ia.X); ok && fr.Owner == "ValueSet" && fr.Field == "values" {
					if b, ok := core.AsFieldLoad(fr.Base); ok && b.Owner == "Func" && b.Field == "input" {
						fullRange = true
					}
				}
			}
		})
		c.R.Add("ERRFLOW-E5", "executor|all-inputs-checked", "executor", p.Pos(exec.Pos()), fullRange,
			"the executor looks up every declared input (it ranges over the ordered value list of the function's input set)", fmt.Sprintf("ok=%v", fullRange))
	}
}

func fieldName2(f *ssa.Field) string {
	s, _ := core.StructOf(f.X.Type())
	if s == nil {
		return ""
	}
	return core.CanonFieldName(s, f.Field)
}

// dfsCallbackBenign: the callback literal passed to DFS returns only nil or the result of calling its `next` parameter.
func (c *Ctx) dfsCallbackBenign(call *ssa.Call) bool {
	for _, a := range call.Common().Args {
		var fn *ssa.Function
		switch x := core.Strip(a).(type) {
		case *ssa.MakeClosure:
			fn = x.Fn.(*ssa.Function)
		case *ssa.Function:
			fn = x
		}
		if fn == nil {
			continue
		}
		ok := true
		for _, r := range core.Returns(fn) {
			for _, rv := range r.Results {
				if core.IsNilConst(rv) {
					continue
				}
				if cl, isC := rv.(*ssa.Call); isC && len(fn.Params) == 2 && cl.Common().Value == ssa.Value(fn.Params[1]) {
					continue
				}
				ok = false
			}
		}
		return ok
	}
	return false
}

// errorHandled decides whether error value ev is handled acceptably in f.
func (c *Ctx) errorHandled(ev ssa.Value, f *ssa.Function, chainExec map[*ssa.Function]bool) (bool, string) {
	p := c.P
	handled := false
	detail := "error value has no checking use"
	for _, u := range core.Users(ev) {
		switch x := u.(type) {
		case *ssa.Return:
			handled, detail = true, "returned to the caller"
		case *ssa.BinOp:
			if (x.Op == token.NEQ || x.Op == token.EQL) && (core.IsNilConst(x.X) || core.IsNilConst(x.Y)) {
				// the branch
				for _, r := range *x.Referrers() {
					iff, ok := r.(*ssa.If)
					if !ok {
						continue
					}
					nonNil := iff.Block().Succs[0]
					if x.Op == token.EQL {
						nonNil = iff.Block().Succs[1]
					}
					// the non-nil side must not reach execution of user code in this function
					bad := ""
					for _, b := range f.Blocks {
						for _, in := range b.Instrs {
							ci, ok := in.(ssa.CallInstruction)
							if !ok {
								continue
							}
							cal := ci.Common().StaticCallee()
							if core.CalleeName(ci.Common()) == core.RVCall || (cal != nil && chainExec[cal]) {
								// reachable from nonNil without passing back through the check block?
								if core.ReachableAvoiding(nonNil, b, map[*ssa.BasicBlock]bool{iff.Block(): true}) && !nilBranchDominates(iff, x, b) {
									bad = "non-nil branch can reach execution of user code at " + p.InstrPos(in)
								}
							}
						}
					}
					if bad == "" {
						handled, detail = true, "compared with nil; the non-nil branch executes no user code"
					} else {
						return false, bad
					}
				}
			}
		case ssa.CallInstruction:
			n := core.CalleeName(x.Common())
			if isErrAccumulator(x.Common()) {
				handled, detail = true, "accumulated with multierror.Append / errors.Join"
			}
			if cal := x.Common().StaticCallee(); cal != nil && p.InTarget(cal) && cal.Signature.Results().Len() == 1 && core.NamedOf(cal.Signature.Results().At(0).Type()) == "Result" {
				handled, detail = true, "converted into an error Result"
			}
			if n == "reflect.ValueOf" || c.errBoxer(x.Common().StaticCallee()) {
				handled, detail = true, "boxed as the error return value of a generated function"
			}
		case *ssa.Store:
			if fr, ok := core.AsFieldAddr(x.Addr); ok && fr.Field == "buildErr" {
				handled, detail = true, "stored into Result.buildErr"
			}
		case *ssa.Panic:
			handled, detail = true, "raised as panic (audited by rule PANIC)"
		}
	}
	if !handled && flowsToAccumulator(ev) {
		handled, detail = true, "collected into a list of errors that is joined (errors.Join / multierror.Append)"
	}
	return handled, detail
}

// nilBranchDominates: block b is dominated by the nil side of the check (so it is not on the non-nil side).
func nilBranchDominates(iff *ssa.If, cmp *ssa.BinOp, b *ssa.BasicBlock) bool {
	nilSide := iff.Block().Succs[1]
	if cmp.Op == token.EQL {
		nilSide = iff.Block().Succs[0]
	}
	return nilSide.Dominates(b) && len(nilSide.Preds) == 1
}

// runTaint implements E4: error values on the chain may only be returned,
// stored into Result.buildErr, passed to a chain function, boxed by
// reflect.ValueOf, or compared with nil.
func (c *Ctx) runTaint(errMethod, exec, res *ssa.Function) {
	p := c.P
	chain := map[*ssa.Function]string{res: "resolver"}
	if f := p.MustRole("convertMulti"); f != nil {
		chain[f] = "convertMulti"
	}
	if f := p.MustRole("Convert"); f != nil {
		chain[f] = "Convert"
	}
	if f := p.Method(p.Arg, "ValueSet", "FromResult"); f != nil {
		chain[f] = "FromResult"
	}
	// resultError-like: in-module functions returning Result whose parameter flows into buildErr
	isResultCtor := func(f *ssa.Function) bool {
		return f != nil && p.InTarget(f) && f.Signature.Results().Len() == 1 && core.NamedOf(f.Signature.Results().At(0).Type()) == "Result" && f.Signature.Params().Len() == 1 && isErrorType(f.Signature.Params().At(0).Type())
	}
	n := 0
	for _, f := range p.ArgFuncs() {
		var sources []ssa.Value
		var srcName []string
		core.Instrs(f, func(in ssa.Instruction) {
			cl, ok := in.(*ssa.Call)
			if !ok {
				return
			}
			cal := cl.Common().StaticCallee()
			if cal == errMethod {
				sources = append(sources, cl)
				srcName = append(srcName, "Result.Err()")
				return
			}
			if nm, ok := chain[cal]; ok {
				for _, ref := range *cl.Referrers() {
					if e, ok := ref.(*ssa.Extract); ok && isErrorType(e.Type()) {
						sources = append(sources, e)
						srcName = append(srcName, "error of "+nm)
					}
				}
				if cal.Signature.Results().Len() == 1 && isErrorType(cal.Signature.Results().At(0).Type()) {
					sources = append(sources, cl)
					srcName = append(srcName, "error of "+nm)
				}
			}
		})
		for i, s := range sources {
			bad := ""
			var uses []ssa.Instruction
			var collect func(v ssa.Value, depth int)
			collect = func(v ssa.Value, depth int) {
				for _, u := range core.Users(v) {
					// one or two levels into in-target helpers that merely receive the error as a parameter
					if ci, ok := u.(ssa.CallInstruction); ok && depth < 2 {
						cal := ci.Common().StaticCallee()
						if cal != nil && p.InTarget(cal) && cal.Blocks != nil && !isResultCtor(cal) && chain[cal] == "" {
							followed := false
							for ai, a := range ci.Common().Args {
								if ai < len(cal.Params) && flowsFrom(a, v) {
									collect(cal.Params[ai], depth+1)
									followed = true
								}
							}
							if followed {
								continue
							}
						}
					}
					uses = append(uses, u)
				}
			}
			collect(s, 0)
			for _, u := range uses {
				switch x := u.(type) {
				case *ssa.Return, *ssa.If:
				case *ssa.BinOp:
					if !(core.IsNilConst(x.X) || core.IsNilConst(x.Y)) {
						bad = "compared with a non-nil value at " + p.InstrPos(x)
					}
				case *ssa.Store:
					if fr, ok := core.AsFieldAddr(x.Addr); ok {
						if fr.Field != "buildErr" {
							bad = "stored into field " + fr.Field + " at " + p.InstrPos(x)
						}
					} else if ia, ok := x.Addr.(*ssa.IndexAddr); ok {
						// varargs of a logger call: logging does not alter what is returned
						if !onlyLogged(ia.X) {
							bad = "stored into a slice element at " + p.InstrPos(x)
						}
					}
				case ssa.CallInstruction:
					cal := x.Common().StaticCallee()
					nm := core.CalleeName(x.Common())
					switch {
					case isResultCtor(cal):
					case nm == "reflect.ValueOf":
					case cal != nil && chain[cal] != "":
					case x.Common().IsInvoke() && strings.HasSuffix(nm, ".Trace"):
						// logging does not alter the value that is returned
					default:
						bad = "passed to " + core.ShortCallee(nm) + " at " + p.InstrPos(x) + " (wrapping or transforming an error on the chain breaks identity)"
					}
				case *ssa.TypeAssert:
					bad = "type-asserted at " + p.InstrPos(x)
				}
			}
			n++
			c.R.Add("ERRFLOW-E4", fmt.Sprintf("%s|%s#%d", core.FuncName(f), srcName[i], i+1), core.FuncName(f), p.InstrPos(s.(ssa.Instruction)), bad == "",
				"an error obtained from a converter/target result or from resolution is only returned, stored as the Result's error, boxed unchanged, or compared with nil",
				ternary(bad == "", "identity-preserving uses only", bad))
		}
	}
	// Result.Err returns buildErr or the final output's interface value, nothing derived
	ok := true
	why := ""
	// the returns of Err, and of a private accessor it hands the final output's error back through (`return r.outErr()`)
	var errRets []*ssa.Return
	{
		seenFn := map[*ssa.Function]bool{}
		var collect func(g *ssa.Function, d int)
		collect = func(g *ssa.Function, d int) {
			if g == nil || seenFn[g] || d > 2 {
				return
			}
			seenFn[g] = true
			for _, r := range core.Returns(g) {
				fwd := false
				if len(r.Results) == 1 {
					if cl, isC := r.Results[0].(*ssa.Call); isC {
						if h := cl.Common().StaticCallee(); h != nil && p.PrivateHelper(h) && h.Signature.Results().Len() == 1 {
							collect(h, d+1)
							fwd = true
						}
					}
				}
				if !fwd {
					errRets = append(errRets, r)
				}
			}
		}
		collect(errMethod, 0)
	}
	for _, r := range errRets {
		var rvs []ssa.Value
		for _, rv0 := range r.Results {
			if _, isPhi := rv0.(*ssa.Phi); isPhi {
				rvs = append(rvs, core.Sources(rv0)...) // `var e error; if … { e = … }; return e`
			} else {
				rvs = append(rvs, rv0)
			}
		}
		for _, rv := range rvs {
			switch x := rv.(type) {
			case *ssa.Const:
			case *ssa.UnOp:
				if fr, isF := core.AsFieldLoad(x); !isF || fr.Field != "buildErr" {
					ok, why = false, "returns "+core.Path(x)
				}
			case *ssa.TypeAssert:
				cl, isC := x.X.(*ssa.Call)
				if !isC || core.CalleeName(cl.Common()) != "(reflect.Value).Interface" {
					ok, why = false, "returns an assertion of "+core.Path(x.X)
				}
			case *ssa.Extract:
				// `if err, ok := final.Interface().(error); ok { return err }`: the checked form of the same assertion
				good := false
				if ta, isT := x.Tuple.(*ssa.TypeAssert); isT && x.Index == 0 && core.TypeStr(ta.AssertedType) == "error" {
					if cl, isC := ta.X.(*ssa.Call); isC && core.CalleeName(cl.Common()) == "(reflect.Value).Interface" {
						good = true
					}
				}
				if !good {
					ok, why = false, "returns a derived value "+core.Path(rv)
				}
			default:
				ok, why = false, "returns a derived value "+core.Path(rv)
			}
		}
	}
	c.R.Add("ERRFLOW-E4", "Result.Err|returns", "Result.Err", p.Pos(errMethod.Pos()), ok,
		"Result.Err returns the stored resolution error or the final output's own interface value, nothing derived", ternary(ok, "ok", why))
}

// onlyLogged: the array behind v is used solely as the variadic argument of
// hclog.Logger methods (Trace/Debug/Info/Warn/Error).
func onlyLogged(v ssa.Value) bool {
	al, ok := v.(*ssa.Alloc)
	if !ok {
		return false
	}
	logged := false
	for _, ref := range *al.Referrers() {
		switch x := ref.(type) {
		case *ssa.IndexAddr:
		case *ssa.Slice:
			for _, r2 := range *x.Referrers() {
				ci, ok := r2.(ssa.CallInstruction)
				if !ok || !ci.Common().IsInvoke() || !strings.Contains(core.CalleeName(ci.Common()), "go-hclog.Logger") {
					return false
				}
				logged = true
			}
		default:
			return false
		}
	}
	return logged
}

// flowsFrom: value a is v or a transparent derivative of v.
func flowsFrom(a, v ssa.Value) bool {
	if a == v {
		return true
	}
	for _, s := range core.Sources(a) {
		if s == v {
			return true
		}
	}
	return core.Strip(a) == v
}

// errorConstructor: every return of f yields an error built on the spot (fmt.Errorf / errors.New / a composite
// literal of an error type).
func errorConstructor(f *ssa.Function) bool {
	rets := core.Returns(f)
	if len(f.Blocks) == 0 || len(rets) == 0 {
		return false
	}
	for _, r := range rets {
		if len(r.Results) != 1 {
			return false
		}
		ok := false
		switch v := core.Strip(r.Results[0]).(type) {
		case *ssa.Call:
			n := core.CalleeName(v.Common())
			ok = n == "fmt.Errorf" || n == "errors.New"
		case *ssa.Alloc:
			ok = true
		}
		if !ok {
			return false
		}
	}
	return true
}

// coResultUsedBeforeCheck: for a call returning (values…, error) whose error is compared with nil, reports a use of
// one of the other results that is not on the nil side of such a comparison (and is not the joint return of the whole
// tuple). Empty when every use of the co-results follows the check.
func (c *Ctx) coResultUsedBeforeCheck(call *ssa.Call, ev ssa.Value, errIdx int) string {
	type check struct {
		iff *ssa.If
		cmp *ssa.BinOp
	}
	var checks []check
	for _, u := range core.Users(ev) {
		if b, ok := u.(*ssa.BinOp); ok && (b.Op == token.NEQ || b.Op == token.EQL) && (core.IsNilConst(b.X) || core.IsNilConst(b.Y)) {
			for _, r := range *b.Referrers() {
				if iff, ok := r.(*ssa.If); ok {
					checks = append(checks, check{iff, b})
				}
			}
		}
	}
	if len(checks) == 0 {
		return "" // the error is returned / accumulated as a whole: nothing is branched on
	}
	for _, ref := range *call.Referrers() {
		e, ok := ref.(*ssa.Extract)
		if !ok || e.Index == errIdx {
			continue
		}
		for _, u := range core.Users(e) {
			if _, isRet := u.(*ssa.Return); isRet {
				continue
			}
			if _, isDbg := u.(*ssa.DebugRef); isDbg {
				continue
			}
			// keeping the value (a store into a variable or element, a phi) decides nothing; what counts is looking at
			// it: a comparison, a dereference, handing it to a call
			switch u.(type) {
			case *ssa.Store, *ssa.Phi, *ssa.MakeInterface, *ssa.ChangeType:
				continue
			}
			okU := false
			for _, ck := range checks {
				if nilBranchDominates(ck.iff, ck.cmp, u.Block()) {
					okU = true
				}
			}
			if !okU {
				return "result #" + fmt.Sprint(e.Index) + " of the call is used at " + c.P.InstrPos(u) + " before (or regardless of) the nil check of its error"
			}
		}
	}
	return ""
}

// isErrAccumulator: a call that collects errors into one error value that is non-nil as soon as one of them is
// (go-multierror's Append, the standard library's errors.Join).
func isErrAccumulator(cc *ssa.CallCommon) bool {
	if strings.HasSuffix(core.CalleeName(cc), "go-multierror.Append") {
		return true
	}
	pk, fn := core.StdCallee(cc.StaticCallee())
	return pk == "errors" && fn == "Join"
}

// flowsToAccumulator: the error value reaches an accumulator call — directly, through the variadic argument array, or
// through a list of errors that is appended to and later joined.
func flowsToAccumulator(ev ssa.Value) bool {
	seen := map[ssa.Value]bool{}
	work := []ssa.Value{ev}
	for steps := 0; len(work) > 0 && steps < 200; steps++ {
		v := work[len(work)-1]
		work = work[:len(work)-1]
		if v == nil || seen[v] {
			continue
		}
		seen[v] = true
		refs := v.Referrers()
		if refs == nil {
			continue
		}
		for _, u := range *refs {
			switch x := u.(type) {
			case ssa.CallInstruction:
				if isErrAccumulator(x.Common()) {
					return true
				}
				if cl, ok := u.(*ssa.Call); ok && core.CalleeName(cl.Common()) == "builtin.append" {
					work = append(work, cl)
				}
			case *ssa.Store:
				if x.Val == v {
					if ia, ok := x.Addr.(*ssa.IndexAddr); ok {
						work = append(work, ia.X) // the variadic array (or a list element)
					} else if al, ok := x.Addr.(*ssa.Alloc); ok {
						work = append(work, al)
					}
				}
			case *ssa.Slice:
				work = append(work, x)
			case *ssa.Phi:
				work = append(work, x)
			case *ssa.MakeInterface:
				work = append(work, x)
			case *ssa.ChangeInterface:
				work = append(work, x)
			case *ssa.UnOp:
				if x.Op == token.MUL {
					work = append(work, x)
				}
			}
		}
	}
	return false
}
