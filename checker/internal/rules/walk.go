package rules

import (
	"fmt"
	"go/token"
	"go/types"
	"sort"
	"strings"

	"argverif/internal/core"

	"golang.org/x/tools/go/ssa"
)

// WALK / ORDER / OUTMAP / ARGPOP / SIBLING / FAB — value routing (C01). DESIGN §4.

func init() {
	register(&Engine{
		Name:  "WALK",
		Doc:   "every store to a vertex value is one of the known routing forms; no stale snapshot; output mapping and argument population by own label; sibling constructors agree; no fabricated values outside planning mode",
		Run:   runWalk,
		Floor: map[string]int{"WALK": 5, "ORDER": 1, "OUTMAP": 3, "ARGPOP": 2, "SIBLING": 2, "FAB": 2, "BIND": 2},
	})
}

func runWalk(c *Ctx) {
	p := c.P
	kinds, err := p.VertexKinds()
	if err != nil {
		c.R.Undecided("WALK", "kinds", "(vertex kinds)", "-", err.Error())
		return
	}
	res := c.role("WALK", "resolver")
	om := c.role("OUTMAP", "outputMapper")
	exec := c.role("ARGPOP", "executor")
	fb := c.role("SIBLING", "funcBuilder")
	if res == nil || om == nil || exec == nil || fb == nil {
		return
	}
	var redefineP *ssa.Parameter
	for _, prm := range res.Params {
		if types.Identical(prm.Type(), types.Typ[types.Bool]) {
			redefineP = prm
		}
	}
	guardedByRedefine := func(b *ssa.BasicBlock) bool {
		for _, l := range p.ILits(b) {
			if l.Kind == "bool" && l.Pol && (l.Of == ssa.Value(redefineP) || p.Bind(l.Of) == ssa.Value(redefineP)) {
				return true
			}
		}
		return false
	}

	// the resolver's walk may be spread over private helpers (per-kind arm methods, walk steps)
	inRes := func(f *ssa.Function) bool { return core.Outer(f) == res || p.InRegion(f, res) }

	// ---------------- WALK: classify every store to <vertex>.Value outside composite literals
	n := 0
	type snap struct {
		st   ssa.Instruction // callState.Value = X.Value (or the call of the setter that does it)
		base ssa.Value
	}
	var snaps []snap
	var vstores []*ssa.Store
	inheritPairs := map[string]bool{} // "consumer kind<-provider kind" of the walk's inheritance statements
	for _, f := range p.ArgFuncs() {
		core.Instrs(f, func(in ssa.Instruction) {
			st, ok := in.(*ssa.Store)
			if !ok {
				return
			}
			fr, ok := core.AsFieldAddr(st.Addr)
			if !ok || fr.Field != "Value" {
				return
			}
			if fr.Owner == "callState" && inRes(f) {
				// a setter of the state (`state.setLast(v.Value)`) is judged at each of its call sites
				for _, ex := range p.Expand(st) {
					val := ex.Sub(st.Val)
					if src, ok := core.AsFieldLoad(val); ok && src.Field == "Value" && kinds.Label(src.Owner) {
						snaps = append(snaps, snap{ex.At, src.Base})
						n++
						c.R.Add("WALK", fmt.Sprintf("resolver|last-seen-value from %s#%d", src.Owner, n), "resolver", p.InstrPos(ex.At), src.Owner == kinds.Value || src.Owner == kinds.Out,
							"the walk's last-seen value is taken from the named-value or typed-output vertex just visited", "from "+src.Owner)
					} else {
						n++
						c.R.Add("WALK", fmt.Sprintf("resolver|last-seen-value#%d", n), "resolver", p.InstrPos(ex.At), false, "the walk's last-seen value is taken from the vertex just visited", "assigned "+core.Path(val))
					}
				}
				return
			}
			if !kinds.Label(fr.Owner) || p.FreshIn(st.Addr) {
				return
			}
			n++
			vstores = append(vstores, st)
			name := core.FuncName(f)
			c.R.Func(name)
			key := fmt.Sprintf("%s|%s.Value#%d", name, fr.Owner, n)
			lits := core.Lits(core.Guards(st.Block()))
			switch {
			case inRes(f):
				// (1) typedArg.Value = state.Value, guarded by validity and assignability
				if src, ok := core.AsFieldLoad(st.Val); ok && src.Owner == "callState" && src.Field == "Value" && fr.Owner == kinds.Arg {
					valid, assignable := false, false
					for _, l := range lits {
						if l.Kind == "call" && l.Pol && l.Callee == core.RVIsValid {
							if a, ok := core.AsFieldLoad(l.Args[0]); ok && a.Owner == "callState" {
								valid = true
							}
						}
						if l.Kind == "call" && l.Pol && l.Callee == "(reflect.Type).AssignableTo" {
							// receiver: state.Value.Type(); argument: this vertex's Type
							if tf, ok := core.AsFieldLoad(l.Args[1]); ok && tf.Field == "Type" && core.Path(tf.Base) == core.Path(fr.Base) {
								if cl, ok := l.Args[0].(*ssa.Call); ok && core.CalleeName(cl.Common()) == "(reflect.Value).Type" {
									if a, ok := core.AsFieldLoad(cl.Common().Args[0]); ok && a.Owner == "callState" {
										assignable = true
									}
								}
							}
						}
					}
					c.R.Add("WALK", key+"|typed-arg-takes-last-seen", name, p.InstrPos(st), valid && assignable,
						"a typed argument takes the last seen value only if that value is valid and assignable to the argument's own type", fmt.Sprintf("valid=%v assignable-to-own-type=%v", valid, assignable))
					return
				}
				// (2) v.Value = prev.Value with prev = path[i-1] asserted as typed output, i > 0
				// … or, for a named vertex, as the named vertex before it (a name without subtype linked to its subtyped namesake)
				if src, ok := core.AsFieldLoad(st.Val); ok && src.Field == "Value" && ((src.Owner == kinds.Out && (fr.Owner == kinds.Value || fr.Owner == kinds.Out)) || (src.Owner == kinds.Value && fr.Owner == kinds.Value)) {
					prevOK, posIdx := false, false
					// one-level helper form: r, ok := prev(path, idx) with ok guarding the store
					if e, ok := src.Base.(*ssa.Extract); ok && e.Index == 0 {
						if hc, ok := e.Tuple.(*ssa.Call); ok && c.isPrevTypedOutputHelper(hc.Common().StaticCallee(), kinds.Out) && len(hc.Common().Args) == 2 {
							if cur := assertOf(p.Bind(fr.Base)); cur != nil {
								if cld, ok := cur.X.(*ssa.UnOp); ok {
									if cia, ok := cld.X.(*ssa.IndexAddr); ok && p.Bind(cia.X) == p.Bind(hc.Common().Args[0]) && p.Bind(cia.Index) == p.Bind(hc.Common().Args[1]) {
										for _, l := range lits {
											if l.Kind == "bool" && l.Pol {
												if e2, ok := l.Of.(*ssa.Extract); ok && e2.Tuple == ssa.Value(hc) && e2.Index == 1 {
													prevOK, posIdx = true, true
												}
											}
										}
									}
								}
							}
						}
					}
					if ta := assertOf(src.Base); ta != nil {
						if ld, ok := ta.X.(*ssa.UnOp); ok {
							if ia, ok := ld.X.(*ssa.IndexAddr); ok {
								if b, ok := ia.Index.(*ssa.BinOp); ok && b.Op == token.SUB {
									if k, ok := core.ConstInt(b.Y); ok && k == 1 {
										// same path and index as the current vertex
										if cur := assertOf(p.Bind(fr.Base)); cur != nil {
											if cld, ok := cur.X.(*ssa.UnOp); ok {
												if cia, ok := cld.X.(*ssa.IndexAddr); ok && p.Bind(cia.X) == p.Bind(ia.X) && p.Bind(cia.Index) == p.Bind(b.X) {
													prevOK = true
												}
											}
										}
										for _, l := range lits {
											if l.Kind == "cmp" && l.Op == token.GTR && l.Pol && l.X == b.X {
												if k0, ok := core.ConstInt(l.Y); ok && k0 == 0 {
													posIdx = true
												}
											}
										}
									}
								}
							}
						}
					}
					if prevOK && posIdx {
						inheritPairs[fr.Owner+"<-"+src.Owner] = true
					}
					c.R.Add("WALK", key+"|inherits-from-preceding-typed-output", name, p.InstrPos(st), prevOK && posIdx,
						"a vertex inherits a value only from the typed-output (or, for a named vertex, named) vertex immediately before it on the same path", fmt.Sprintf("predecessor-on-same-path=%v index>0=%v", prevOK, posIdx))
					return
				}
				// (3) planning mode: zero value of the vertex's own type
				if cl, ok := st.Val.(*ssa.Call); ok && core.CalleeName(cl.Common()) == "reflect.Zero" {
					ownType := false
					if tf, ok := core.AsFieldLoad(cl.Common().Args[0]); ok && tf.Field == "Type" && core.Path(tf.Base) == core.Path(fr.Base) {
						ownType = true
					}
					c.R.Add("FAB", key+"|zero-only-when-planning", name, p.InstrPos(st), guardedByRedefine(st.Block()) && ownType,
						"a zero value is planted on a vertex only in planning (redefine) mode, and it is the zero of the vertex's own type", fmt.Sprintf("guarded-by-redefine=%v own-type=%v", guardedByRedefine(st.Block()), ownType))
					return
				}
				c.R.Add("WALK", key+"|unknown-routing", name, p.InstrPos(st), false, "every assignment of a vertex value in the resolver is one of the reviewed routing forms", "assigned "+core.Path(st.Val))
			case f == om:
				// handled by OUTMAP below
			default:
				c.R.Add("WALK", key+"|outside-resolver", name, p.InstrPos(st), false, "vertex values are assigned only by the resolver's walk and the output mapper", "assigned in "+name)
			}
		})
	}

	// ---------------- BIND: a requirement that already carries a value is bound to it when it is classified — its vertex
	// is shared by every path of the call, so reading the value after converters ran (or after nested resolution
	// walked other paths) may yield what a sibling left there
	{
		type eff struct {
			in   ssa.Instruction
			what string
		}
		var effects []eff
		p.RegionInstrs(res, func(in ssa.Instruction) {
			switch x := in.(type) {
			case ssa.CallInstruction:
				if cal := x.Common().StaticCallee(); cal == exec {
					effects = append(effects, eff{in, "a converter execution"})
				} else if cal == res {
					effects = append(effects, eff{in, "nested resolution"})
				}
			case *ssa.Store:
				if fr, ok := core.AsFieldAddr(x.Addr); ok && fr.Field == "Value" && kinds.Label(fr.Owner) && !p.FreshIn(x.Addr) {
					effects = append(effects, eff{in, "a vertex value assignment"})
				}
			}
		})
		nb, nk, ne := 0, 0, 0
		p.RegionInstrs(res, func(in ssa.Instruction) {
			mu, ok := in.(*ssa.MapUpdate)
			if !ok || core.TypeStr(mu.Map.Type()) != "map[interface{}]reflect.Value" {
				return
			}
			fr, ok := core.AsFieldLoad(mu.Value)
			if !ok || fr.Field != "Value" || !kinds.Label(fr.Owner) {
				// any other entry (the value a walked path ended in): every value that can arrive here was read from
				// the Value field of a vertex — never from a side table of the call state, a cache or a computation
				bad := ""
				var judgeVal func(v ssa.Value, d int)
				judgeVal = func(v ssa.Value, d int) {
					for _, sv := range p.ISources(v) {
						if sf, ok := core.AsFieldLoad(sv); ok && sf.Field == "Value" && kinds.Label(sf.Owner) {
							continue
						}
						if al, ok := sv.(*ssa.Alloc); ok && core.TypeStr(al.Type()) == "*reflect.Value" {
							continue // the zero value a variable starts with
						}
						if k, ok := sv.(*ssa.Const); ok && k.Value == nil {
							continue
						}
						// copied from another argument map (its entries are judged where they are written)
						if ex, ok := sv.(*ssa.Extract); ok && ex.Index == 2 {
							if nx, ok := ex.Tuple.(*ssa.Next); ok {
								if rg, ok := nx.Iter.(*ssa.Range); ok && core.TypeStr(rg.X.Type()) == "map[interface{}]reflect.Value" {
									continue
								}
							}
						}
						// an element of a local list of final values: whatever was stored into that list
						if ld, ok := sv.(*ssa.UnOp); ok && ld.Op == token.MUL && d < 3 {
							if ia, ok := ld.X.(*ssa.IndexAddr); ok {
								resolved, foreign := false, false
								for _, lst := range p.ISources(ia.X) {
									if k, ok := lst.(*ssa.Const); ok && k.Value == nil {
										continue // a nil list has no elements
									}
									mk, ok := lst.(*ssa.MakeSlice)
									if !ok {
										foreign = true
										break
									}
									resolved = true
									for _, ref := range *mk.Referrers() {
										if ia2, ok := ref.(*ssa.IndexAddr); ok {
											for _, r2 := range *ia2.Referrers() {
												if st, ok := r2.(*ssa.Store); ok && st.Addr == ssa.Value(ia2) {
													judgeVal(st.Val, d+1)
												}
											}
										}
									}
								}
								if resolved && !foreign {
									continue
								}
							}
						}
						bad = core.Path(sv)
					}
				}
				judgeVal(mu.Value, 0)
				ne++
				c.R.Add("BIND", fmt.Sprintf("resolver|entry-is-a-vertex-value#%d", ne), "resolver", p.InstrPos(mu), bad == "",
					"every argument-map entry is the Value of a vertex (the requirement's own, or the one a walked path ended in) — never a value looked up in a side table of the call state, a cache or a computed value",
					ternary(bad == "", "all sources are vertex values", "may hold "+bad))
				return
			}
			ta := assertOf(fr.Base)
			id, isID := mu.Key.(*ssa.Call)
			if ta == nil || !isID || core.CalleeName(id.Common()) != core.GVertexID || id.Common().Args[0] != ta.X {
				// the entry is filled from the value of some vertex, but not of the vertex its key names
				nk++
				c.R.Add("BIND", fmt.Sprintf("resolver|entry-read-from-its-own-vertex#%d", nk), "resolver", p.InstrPos(mu), false,
					"an argument-map entry that is filled from a vertex value is filled from the vertex its key identifies (a requirement is never bound to the value of a different vertex)",
					"key "+core.Path(mu.Key)+" but value read from "+core.Path(fr.Base))
				return
			}
			load, _ := mu.Value.(ssa.Instruction)
			if load == nil {
				return
			}
			nb++
			late := ""
			la, _ := p.Anchors(load, res)
			for _, e := range effects {
				if e.in.Parent() == load.Parent() {
					if core.CanFollow(e.in, load) {
						late = e.what + " at " + p.InstrPos(e.in)
					}
					continue
				}
				ea, _ := p.Anchors(e.in, res)
				for _, a := range ea {
					for _, b := range la {
						if a != b && core.CanFollow(a, b) {
							late = e.what + " at " + p.InstrPos(e.in)
						}
					}
				}
			}
			c.R.Add("BIND", fmt.Sprintf("resolver|requirement-bound-when-classified#%d", nb), "resolver", p.InstrPos(mu), late == "",
				"the value of a requirement that needs no path is taken from its vertex before any converter runs or any other path is walked in this resolution (vertices are shared and are overwritten by later walks)",
				ternary(late == "", "read before every execution, nested resolution and vertex assignment of this resolution", "the vertex value is read after "+late))
		})
		if nb == 0 {
			c.R.Add("BIND", "resolver|requirement-bound-when-classified", "resolver", p.Pos(res.Pos()), false, "requirements that already carry a value are bound directly", "no direct binding found")
		}
	}

	// ---------------- the builder's edge classes and the walk's cases agree: for every class of edge that lets a named or
	// typed-output vertex depend on a named or typed-output vertex, the walk hands the provider's value to the consumer
	// (otherwise a path through such an edge loses the value at that hop: the vertex after it stays unset)
	{
		need := map[string]string{}
		for _, e := range c.edgeRules() {
			if len(e.CK) != 1 || len(e.PK) != 1 {
				continue
			}
			ck, pk := e.CK[0], e.PK[0]
			if (ck == kinds.Value || ck == kinds.Out) && (pk == kinds.Value || pk == kinds.Out) {
				need[ck+"<-"+pk] = e.Class
			}
		}
		var keys []string
		for k := range need {
			keys = append(keys, k)
		}
		sort.Strings(keys)
		for _, k := range keys {
			c.R.Add("WALK", "edge-class-has-a-walk-case|"+k, "resolver", p.Pos(res.Pos()), inheritPairs[k],
				"every edge class between value-carrying vertices (class "+need[k]+": "+k+") has a statement in the walk that hands the provider's value to the consumer", ternary(inheritPairs[k], "handed on", "no inheritance statement for this pair of kinds: a path through such an edge loses the value"))
		}
	}

	// ---------------- ORDER: no stale snapshot
	for i, s := range snaps {
		stale := ""
		for _, vs := range vstores {
			fr, _ := core.AsFieldAddr(vs.Addr)
			if core.Path(fr.Base) != core.Path(s.base) || vs.Parent() != s.st.Parent() {
				continue
			}
			// can the store to the same vertex's Value execute after the snapshot within the iteration?
			var iterStart *ssa.BasicBlock
			if bi, ok := s.base.(ssa.Instruction); ok {
				iterStart = bi.Block()
			}
			if afterWithin(s.st, vs, iterStart) {
				stale = "the vertex's value is assigned at " + p.InstrPos(vs) + " after it was recorded as last seen"
			}
		}
		c.R.Add("ORDER", fmt.Sprintf("resolver|snapshot#%d", i+1), "resolver", p.InstrPos(s.st), stale == "",
			"a vertex's value is recorded as `last seen` only after the walk has finished updating that vertex in this step", ternary(stale == "", "no later update in the same step", stale))
	}

	// ---------------- WALK: a routing assignment never depends on what the vertex held before. Vertices are shared
	// by all the paths of a call (and a typed argument by every converter of that type), so the value a path routes in
	// must replace the one an earlier path left behind.
	{
		nr := 0
		for _, vs := range vstores {
			f := vs.Parent()
			if !inRes(f) {
				continue
			}
			if src, isRoute := core.AsFieldLoad(vs.Val); !isRoute || src.Field != "Value" {
				continue // not a routing assignment (e.g. the planner's zero stand-in for an input, decided by FAB)
			}
			fr, _ := core.AsFieldAddr(vs.Addr)
			dest := core.Path(p.Bind(fr.Base))
			old := ""
			var reads func(v ssa.Value, d int) bool
			reads = func(v ssa.Value, d int) bool {
				if v == nil || d > 4 {
					return false
				}
				if lf, ok := core.AsFieldLoad(v); ok && lf.Field == "Value" && lf.Owner == fr.Owner {
					if core.Path(p.Bind(lf.Base)) == dest || core.Path(lf.Base) == core.Path(fr.Base) {
						return true
					}
				}
				switch x := v.(type) {
				case *ssa.Call:
					for _, a := range core.CallArgs(x.Common()) {
						if reads(a, d+1) {
							return true
						}
					}
				case *ssa.UnOp:
					return reads(x.X, d+1)
				case *ssa.BinOp:
					return reads(x.X, d+1) || reads(x.Y, d+1)
				}
				return false
			}
			for _, l := range p.ILits(vs.Block()) {
				for _, v := range append([]ssa.Value{l.X, l.Y, l.Of}, l.Args...) {
					if reads(v, 0) {
						old = l.String()
					}
				}
			}
			nr++
			c.R.Add("WALK", fmt.Sprintf("%s|%s.Value|not-conditional-on-old-value#%d", core.FuncName(f), fr.Owner, nr), core.FuncName(f), p.InstrPos(vs), old == "",
				"whether the walk routes a value into a vertex does not depend on the value an earlier path left in that vertex", ternary(old == "", "no guard reads the old value", "guarded by "+old))
		}
	}

	// ---------------- OUTMAP
	{
		var structVal ssa.Value
		nOut := 0
		core.Instrs(om, func(in ssa.Instruction) {
			st, ok := in.(*ssa.Store)
			if !ok {
				return
			}
			fr, ok := core.AsFieldAddr(st.Addr)
			if !ok || fr.Field != "Value" || !kinds.Label(fr.Owner) {
				return
			}
			nOut++
			okk, why := false, "value is not a field of the result struct"
			if cl, ok := st.Val.(*ssa.Call); ok && core.CalleeName(cl.Common()) == "(reflect.Value).Field" {
				structVal = cl.Common().Args[0]
				idx := cl.Common().Args[1]
				if ifr, ok := core.AsFieldLoad(idx); ok && ifr.Field == "index" {
					b := ifr.Base
					if fa, ok := b.(*ssa.FieldAddr); ok {
						b = fa.X
					}
					if lk, ok := b.(*ssa.Lookup); ok {
						mfr, isM := core.AsFieldLoad(lk.X)
						kfr, isK := core.AsFieldLoad(lk.Index)
						want := map[string]string{kinds.Value: "Name", kinds.Out: "Type"}[fr.Owner]
						if isM && isK && mfr.Owner == "ValueSet" && kfr.Field == want && core.Path(kfr.Base) == core.Path(fr.Base) {
							// the set is this function's own output set
							if sfr, ok := core.AsFieldLoad(mfr.Base); ok && sfr.Owner == "Func" && sfr.Field == "output" {
								okk, why = true, "looked up in the function's output set by the vertex's own "+want
							} else {
								why = "lookup is not in the function's own output set"
							}
						} else {
							why = "lookup key is not the vertex's own " + want
						}
					}
				}
			}
			c.R.Add("OUTMAP", fmt.Sprintf("outputMapper|%s#%d", fr.Owner, nOut), "outputMapper", p.InstrPos(st), okk,
				"after a converter ran, each of its output vertices receives the result field registered under that vertex's own name (named) or type (type-only)", why)
		})
		// the struct the fields are read from is the adapted result of the Result parameter
		fromResult := false
		if structVal != nil {
			for _, s := range p.ISources(structVal) {
				// values derived by Elem()/pointer unwrapping of an output element
				for i := 0; i < 4; i++ {
					cl, ok := s.(*ssa.Call)
					if !ok || core.CalleeName(cl.Common()) != "(reflect.Value).Elem" {
						break
					}
					srcs := core.Sources(cl.Common().Args[0])
					if len(srcs) == 0 {
						break
					}
					s = srcs[0]
					for _, alt := range srcs {
						if _, isLd := alt.(*ssa.UnOp); isLd {
							s = alt
						}
					}
				}
				if ld, ok := s.(*ssa.UnOp); ok {
					if ia, ok := ld.X.(*ssa.IndexAddr); ok {
						if fr, ok := core.AsFieldLoad(ia.X); ok && fr.Owner == "Result" && fr.Field == "out" {
							fromResult = true
						}
					}
				}
			}
		}
		c.R.Add("OUTMAP", "outputMapper|reads-the-given-result", "outputMapper", p.Pos(om.Pos()), fromResult, "the fields are read from the Result that was handed in (adapted to struct form)", fmt.Sprintf("ok=%v", fromResult))
		// the output vertices exist exactly for the entries of those lookup maps (func builder ranges over the same maps)
		for _, e := range c.edgeRules() {
			if e.Class != "F4" && e.Class != "F5" {
				continue
			}
			wantMap := map[string]string{"F4": "namedValues", "F5": "typedValues"}[e.Class]
			okk := false
			// the constructed consumer's label comes from ranging over f.output.<wantMap>
			for _, fld := range []string{"Name", "Type"} {
				pth := e.CF[fld]
				if strings.Contains(pth, "."+wantMap+")") && strings.Contains(pth, ".output.") {
					okk = true
				}
			}
			c.R.Add("OUTMAP", "funcBuilder|output-vertices-from-"+wantMap, "funcBuilder", e.Pos, okk,
				"output vertices are created by ranging over the very lookup table the output mapper reads (one vertex per table entry, so every output vertex has its own result field)",
				fmt.Sprintf("label paths: Name=%s Type=%s", e.CF["Name"], e.CF["Type"]))
		}
	}

	// ---------------- ARGPOP
	{
		var argMap *ssa.Parameter
		for _, prm := range exec.Params {
			if _, ok := prm.Type().Underlying().(*types.Map); ok {
				argMap = prm
			}
		}
		var set *ssa.Call
		for _, ci := range p.RegionCalls(exec, "(reflect.Value).Set") {
			set, _ = ci.(*ssa.Call)
		}
		if set == nil || argMap == nil {
			c.R.Undecided("ARGPOP", "executor|set", "executor", p.Pos(exec.Pos()), "no reflect.Value.Set into the argument struct found")
		} else {
			// Set(field(val.index), argMap[VertexID(val.vertex())])
			var valA, valB ssa.Value
			if fcl, ok := set.Common().Args[0].(*ssa.Call); ok {
				a := fcl.Common().Args
				if fr, ok := core.AsFieldLoad(a[len(a)-1]); ok && fr.Field == "index" {
					valA = fr.Base
					if fa, ok := valA.(*ssa.FieldAddr); ok {
						valA = fa.X
					}
				}
			}
			keyOK := false
			if e, ok := set.Common().Args[1].(*ssa.Extract); ok {
				if lk, ok := e.Tuple.(*ssa.Lookup); ok && (lk.X == ssa.Value(argMap) || p.Bind(lk.X) == ssa.Value(argMap)) {
					if id, ok := lk.Index.(*ssa.Call); ok && core.CalleeName(id.Common()) == core.GVertexID {
						if vc, ok := id.Common().Args[0].(*ssa.Call); ok && vc.Common().StaticCallee() != nil && vc.Common().StaticCallee() == valueVertexMethod(p) {
							valB = vc.Common().Args[0]
							keyOK = true
						}
					}
				}
			}
			c.R.Add("ARGPOP", "executor|same-value-for-field-and-key", "executor", p.InstrPos(set), keyOK && valA != nil && valA == valB,
				"the struct field that is filled and the argument-map key that fills it are derived from the same declared input", fmt.Sprintf("key-is-id-of-input-vertex=%v same-input=%v", keyOK, valA != nil && valA == valB))
			present := false
			for _, l := range core.Lits(core.Guards(set.Block())) {
				if l.Kind == "ok" && l.Pol {
					if lk, ok := l.Of.(*ssa.Lookup); ok && (lk.X == ssa.Value(argMap) || p.Bind(lk.X) == ssa.Value(argMap)) {
						present = true
					}
				}
			}
			c.R.Add("ARGPOP", "executor|only-present-arguments", "executor", p.InstrPos(set), present, "a field is set only from an entry that is present in the argument map", fmt.Sprintf("ok=%v", present))
		}
	}

	// ---------------- SIBLING: Value.vertex() and the func builder's input loop agree
	{
		vm := valueVertexMethod(p)
		if vm == nil {
			c.R.Undecided("SIBLING", "Value.vertex", "Value.vertex", "-", "method not found")
		} else {
			a := vertexLiterals(c, vm)
			b := map[string]string{}
			// if the builder (or one of its private steps) delegates to vertex(), the obligation is trivially discharged
			// for every kind it does not also build itself
			delegates := false
			for _, g := range p.Region(fb) {
				for k, v := range vertexLiterals(c, g) {
					if g != vm {
						b[k] = v
					}
				}
				for _, ci := range core.Calls(g) {
					if ci.Common().StaticCallee() == vm {
						delegates = true
					}
				}
			}
			for _, k := range []string{kinds.Value, kinds.Arg} {
				la, lb := a[k], b[k]
				okk := (delegates && lb == "") || (la != "" && la == lb)
				c.R.Add("SIBLING", "input-vertex|"+k, "funcBuilder / Value.vertex", p.Pos(vm.Pos()), okk,
					"the vertex under which the resolver stores an argument (func builder) and the vertex under which the executor looks it up (Value.vertex) are built with the same label mapping",
					ternary(delegates, "func builder delegates to Value.vertex", fmt.Sprintf("Value.vertex: {%s}  func builder: {%s}", la, lb)))
			}
		}
	}

	// ---------------- FAB: fabricated reflect values reaching injection sinks
	for _, f := range []*ssa.Function{res, exec} {
		core.Instrs(f, func(in ssa.Instruction) {
			cl, ok := in.(*ssa.Call)
			if !ok {
				return
			}
			nm := core.CalleeName(cl.Common())
			if nm != "reflect.Zero" && nm != "reflect.New" && nm != "reflect.ValueOf" && nm != "reflect.MakeFunc" {
				return
			}
			sink := ""
			for _, u := range core.Users(cl) {
				switch x := u.(type) {
				case *ssa.Store:
					if fr, ok := core.AsFieldAddr(x.Addr); ok && fr.Field == "Value" {
						sink = "vertex value at " + p.InstrPos(x)
					}
				case *ssa.MapUpdate:
					if x.Value == ssa.Value(cl) {
						sink = "argument map at " + p.InstrPos(x)
					}
				case ssa.CallInstruction:
					if core.CalleeName(x.Common()) == "(reflect.Value).Set" && len(x.Common().Args) > 1 && x.Common().Args[1] == ssa.Value(cl) {
						sink = "reflect.Value.Set at " + p.InstrPos(x)
					}
				}
			}
			if sink == "" {
				return
			}
			g := f == res && guardedByRedefine(cl.Block())
			c.R.Add("FAB", fmt.Sprintf("%s|%s reaches %s", core.FuncName(f), core.ShortCallee(nm), strings.Fields(sink)[0]), core.FuncName(f), p.InstrPos(cl), g,
				"a value manufactured by reflect reaches a vertex, the argument map or an argument field only in planning mode", ternary(g, "guarded by the planning flag", "reaches "+sink+" outside planning mode"))
		})
	}
	// the value-or-zero accessor (an unset value read as the zero of its type) serves the renderers of a signature only:
	// anything else that reads values through it — the Value handed to a converter generator, a vertex value — would
	// present "nobody supplied this" as a supplied zero
	for _, vz := range c.valueOrZeroCandidates() {
		if !c.isValueOrZeroFunc(vz) {
			continue
		}
		sv := p.Method(p.Arg, "ValueSet", "SignatureValues")
		stray := ""
		for _, site := range p.Callers(vz) {
			f := core.Outer(site.Parent())
			if sv != nil && (f == sv || p.InRegion(f, sv)) {
				continue
			}
			stray = core.FuncName(site.Parent()) + " at " + p.InstrPos(site)
		}
		// handed out as a function value (a rendering strategy) only to steps of the renderer
		for _, g := range p.ArgFuncs() {
			core.Instrs(g, func(in ssa.Instruction) {
				for _, op := range in.Operands(nil) {
					if *op != ssa.Value(vz) {
						continue
					}
					if ci, ok := in.(ssa.CallInstruction); ok && ci.Common().StaticCallee() == vz {
						continue
					}
					f := core.Outer(g)
					if sv != nil && (f == sv || p.InRegion(f, sv)) {
						continue
					}
					stray = core.FuncName(g) + " at " + p.InstrPos(in) + " (as a function value)"
				}
			})
		}
		c.R.Add("FAB", core.FuncName(vz)+"|only-the-renderer-reads-unset-as-zero", core.FuncName(vz), p.Pos(vz.Pos()), stray == "",
			"an unset value is turned into the zero of its type only while rendering a signature (SignatureValues and its steps)", ternary(stray == "", "called by the renderer only", "also used by "+stray))
	}
}

// afterWithin: instruction b can execute after a before control returns to block `start` (the iteration start).
func afterWithin(a, b ssa.Instruction, start *ssa.BasicBlock) bool {
	if a.Block() == b.Block() {
		return core.InstrIndex(a) < core.InstrIndex(b)
	}
	avoid := map[*ssa.BasicBlock]bool{}
	if start != nil {
		avoid[start] = true
	}
	for _, s := range a.Block().Succs {
		if s == start {
			continue
		}
		if s == b.Block() || core.ReachableAvoiding(s, b.Block(), avoid) {
			return true
		}
	}
	return false
}

// vertexLiterals: kind -> "Field<-Value.Field, …" for vertex composite literals in f whose fields are copied from a Value.
func vertexLiterals(c *Ctx, f *ssa.Function) map[string]string {
	out := map[string]string{}
	core.Instrs(f, func(in ssa.Instruction) {
		al, ok := in.(*ssa.Alloc)
		if !ok {
			return
		}
		kind := core.NamedOf(al.Type())
		var parts []string
		fromValue := false
		allFromValue := true
		for _, ref := range *al.Referrers() {
			fa, ok := ref.(*ssa.FieldAddr)
			if !ok {
				continue
			}
			fr, _ := core.AsFieldAddr(fa)
			for _, r2 := range *fa.Referrers() {
				if st, ok := r2.(*ssa.Store); ok {
					if src, ok := core.AsFieldLoad(st.Val); ok && src.Owner == "Value" {
						fromValue = true
						parts = append(parts, fr.Field+"<-Value."+src.Field)
					} else {
						allFromValue = false
						parts = append(parts, fr.Field+"<-"+core.Path(st.Val))
					}
				}
			}
		}
		if fromValue && allFromValue {
			sort.Strings(parts)
			out[kind] = strings.Join(parts, ", ")
		}
	})
	return out
}

// isPrevTypedOutputHelper: h(path []Vertex, idx int) (*typedOut, bool) whose every return with a possibly-true
// second result yields path[idx-1] asserted to the typed-output kind, reached only when idx > 0.
func (c *Ctx) isPrevTypedOutputHelper(h *ssa.Function, outKind string) bool {
	if h == nil || !c.P.InTarget(h) || len(h.Params) != 2 || h.Signature.Results().Len() != 2 {
		return false
	}
	seenAssert := false
	for _, r := range core.Returns(h) {
		if k, ok := r.Results[1].(*ssa.Const); ok && k.Value != nil && k.Value.ExactString() == "false" {
			continue
		}
		e1, ok1 := r.Results[1].(*ssa.Extract)
		e0, ok0 := r.Results[0].(*ssa.Extract)
		if !ok0 || !ok1 || e0.Tuple != e1.Tuple {
			return false
		}
		ta, ok := e0.Tuple.(*ssa.TypeAssert)
		if !ok || core.NamedOf(ta.AssertedType) != outKind {
			return false
		}
		ld, ok := ta.X.(*ssa.UnOp)
		if !ok {
			return false
		}
		ia, ok := ld.X.(*ssa.IndexAddr)
		if !ok || ia.X != ssa.Value(h.Params[0]) {
			return false
		}
		b, ok := ia.Index.(*ssa.BinOp)
		if !ok || b.Op != token.SUB || b.X != ssa.Value(h.Params[1]) {
			return false
		}
		if k, ok := core.ConstInt(b.Y); !ok || k != 1 {
			return false
		}
		// idx > 0 on this path
		pos := false
		for _, l := range core.Lits(core.Guards(r.Block())) {
			if l.Kind == "cmp" && l.X == ssa.Value(h.Params[1]) {
				if k, ok := core.ConstInt(l.Y); ok && k == 0 && ((l.Op == token.GTR && l.Pol) || (l.Op == token.LEQ && !l.Pol)) {
					pos = true
				}
			}
		}
		if !pos {
			return false
		}
		seenAssert = true
	}
	return seenAssert
}

// valueVertexMethod: the method of *Value that returns the graph vertex of that value (func (*Value) graph.Vertex,
// found by shape, whatever it is called).
func valueVertexMethod(p *core.Prog) *ssa.Function {
	for _, f := range p.ArgFuncs() {
		if f.Parent() != nil || f.Signature.Recv() == nil || len(f.Params) != 1 || core.TypeStr(f.Params[0].Type()) != "*Value" {
			continue
		}
		if rs := f.Signature.Results(); rs.Len() == 1 && strings.HasSuffix(core.TypeStr(rs.At(0).Type()), "graph.Vertex") {
			return f
		}
	}
	return nil
}
