package rules

import (
	"fmt"
	"go/token"
	"go/types"
	"sort"
	"strings"

	"argverif/internal/core"

	"golang.org/x/tools/go/ssa"
)

// PRIO — abstract cost model and path-selection plumbing (C03, C07, C05). DESIGN §4 PRIO, §9.4.

func init() {
	register(&Engine{
		Name:  "PRIO",
		Doc:   "weight order, discount loop, path selection pairing, direct-use rule, abstract cost bounds, input registration",
		Run:   runPrio,
		Floor: map[string]int{"PRIO-W": 4, "PRIO-D": 5, "PRIO-P": 4, "PRIO-N": 3, "PRIO-T": 1, "INPUT": 8, "INPUT-C": 2, "INPUT-V": 2},
	})
}

type absEdge struct {
	from, to string
	w        int64
	class    string
}

func runPrio(c *Ctx) {
	p := c.P
	kinds, err := p.VertexKinds()
	if err != nil {
		c.R.Undecided("PRIO-W", "kinds", "(vertex kinds)", "-", err.Error())
		return
	}
	edges := c.edgeRules()
	byClass := map[string][]EdgeRule{}
	for _, e := range edges {
		byClass[e.Class] = append(byClass[e.Class], e)
	}
	weightOf := func(classes ...string) (int64, bool, string) {
		var w int64
		set := false
		for _, cl := range classes {
			for _, e := range byClass[cl] {
				if !e.WeightOK {
					return 0, false, cl + " weight not constant at " + e.Pos
				}
				if set && e.Weight != w {
					return 0, false, fmt.Sprintf("%s has weight %d, others %d", cl, e.Weight, w)
				}
				w, set = e.Weight, true
			}
		}
		if !set {
			return 0, false, "no edge of classes " + strings.Join(classes, ",")
		}
		return w, true, ""
	}
	wMatch, ok1, why1 := weightOf("R1")
	wNormal, ok2, why2 := weightOf("F1", "F2", "F4", "A", "G9")
	wTyped, ok3, why3 := weightOf("F3", "F5", "G1", "G2", "G3", "G4", "G5", "G6")
	wOther, ok4, why4 := weightOf("G7", "G8")
	allOK := ok1 && ok2 && ok3 && ok4
	c.R.Note("PRIO", "weights: match=%d normal=%d typed=%d otherSubtype=%d", wMatch, wNormal, wTyped, wOther)
	c.R.Add("PRIO-W", "classes-have-uniform-constant-weights", "(edge table)", "-", allOK,
		"each weight class of the edge table (name-matching discount, normal, typed, other-subtype) is one compile-time constant",
		ternary(allOK, fmt.Sprintf("match=%d normal=%d typed=%d other=%d", wMatch, wNormal, wTyped, wOther), strings.Join([]string{why1, why2, why3, why4}, " ")))
	if !allOK {
		return
	}
	c.R.Add("PRIO-W", "order", "(edge table)", "-", wMatch < 0 && 0 < wNormal && wNormal < wTyped && wTyped < wOther,
		"matching-name discount < 0 < normal < typed < other-subtype", fmt.Sprintf("%d < 0 < %d < %d < %d", wMatch, wNormal, wTyped, wOther))
	// the discount never outweighs the cheapest edge: every discounted edge leads into a named vertex and is followed, on
	// any cycle, by at least one undiscounted edge out of it, so a cycle of name-matching conversions has non-negative
	// length only if |discount| <= normal (a negative cycle sends the inner search back through the converter being
	// reached: a derivable parameter is reported as unsatisfied)
	c.R.Add("PRIO-W", "discount-no-negative-cycle", "(edge table)", "-", wMatch+wNormal >= 0,
		"the matching-name discount does not outweigh the cheapest edge (discount + normal >= 0), so cycles of name-matching conversions cannot have negative length", fmt.Sprintf("%d + %d >= 0", wMatch, wNormal))
	// C07 clause 1: a same-named feeder beats any other-named feeder of the same type-only converter input
	c.R.Add("PRIO-W", "same-name-feeder-cheaper", "(edge table)", "-", wMatch < wTyped,
		"feeding a type-only converter input from the same-named value (discounted edge) is strictly cheaper than from any other named value (typed edge)", fmt.Sprintf("%d < %d", wMatch, wTyped))
	// C07 clause 2: the name-taking converter route is cheaper than the type-only converter route
	min := func(a, b int64) int64 {
		if a < b {
			return a
		}
		return b
	}
	named := wNormal /*F4*/ + min(wNormal, wMatch) /*F2 discounted*/ + wNormal                               /*A*/
	typed := wTyped /*G1*/ + wTyped /*F5*/ + wTyped /*F3*/ + min(wTyped, wMatch) /*G2 discounted*/ + wNormal /*A*/
	c.R.Add("PRIO-W", "name-taking-converter-cheaper", "(edge table)", "-", named < typed,
		"producing a named parameter through a converter that takes the name (F4,F2,A) is strictly cheaper than through a type-only converter (G1,F5,F3,G2,A)", fmt.Sprintf("%d < %d", named, typed))

	res := c.role("PRIO-D", "resolver")
	if res == nil {
		return
	}

	// ---------------- PRIO-D: the discount loop
	var r1 *EdgeRule
	for i := range edges {
		if edges[i].Class == "R1" {
			if r1 != nil {
				c.R.Undecided("PRIO-D", "resolver|one-discount-site", "resolver", edges[i].Pos, "more than one re-weighting site")
			}
			r1 = &edges[i]
		}
	}
	if r1 == nil {
		c.R.Add("PRIO-D", "resolver|discount-site", "resolver", p.Pos(res.Pos()), false, "the resolver discounts in-edges of same-named value vertices", "no re-weighting site found")
		return
	}
	c.R.Add("PRIO-D", "resolver|discount-site", "resolver", r1.Pos, core.Outer(r1.Fn) == res || p.InRegion(r1.Fn, res), "the only re-weighting of existing edges happens in the resolver", "in "+core.FuncName(r1.Fn))
	cg := r1.G
	cpCall, isCopy := cg.(*ssa.Call)
	var gParam *ssa.Parameter
	for _, prm := range res.Params {
		if core.NamedOf(prm.Type()) == "graph.Graph" {
			gParam = prm
		}
	}
	onCopy := isCopy && core.CalleeName(cpCall.Common()) == core.GCopy && p.Bind(cpCall.Common().Args[0]) == ssa.Value(gParam)
	c.R.Add("PRIO-D", "resolver|discount-on-private-copy", "resolver", r1.Pos, onCopy,
		"re-weighting is applied to a Copy() of the call's graph, never to the graph shared by all parameters", fmt.Sprintf("ok=%v", onCopy))
	// src ranges over InEdges(copy, raw)
	srcOK := false
	if r, ok := core.Root(r1.C).(*ssa.Call); ok && core.CalleeName(r.Common()) == core.GInEdges && (r.Common().Args[0] == cg || p.Bind(core.Strip(r.Common().Args[0])) == cg) {
		srcOK = true
	}
	c.R.Add("PRIO-D", "resolver|all-in-edges-of-copy", "resolver", r1.Pos, srcOK, "every in-edge of the matching vertex is re-weighted, enumerated on the same copy", fmt.Sprintf("ok=%v", srcOK))
	// guard: raw is a value vertex with Name == current.Name, current a value vertex
	var current ssa.Value
	var pref *prefName
	nameGuard, kindGuard, curIsValue := false, false, false
	rawPath := core.Path(r1.P)
	// the edge's own guards plus, when the discount loop lives in a private helper, the guards of its call site; values
	// handed in as helper parameters (the current parameter's name) read as the caller's
	r1Lits := r1.Lits
	if r1.Inner != nil {
		r1Lits = p.ILits(r1.Inner.Block())
	}
	for _, l := range r1Lits {
		if l.Kind == "cmp" && l.Op == token.EQL && l.Pol {
			fx, okx := core.AsFieldLoad(p.Bind(l.X))
			fy, oky := core.AsFieldLoad(p.Bind(l.Y))
			// the name in effect: the parameter's own name when it is a named value, else the preference inherited from the
			// enclosing named requirement through the resolver's call state
			for _, side := range [][2]ssa.Value{{l.X, l.Y}, {l.Y, l.X}} {
				fr, okr := core.AsFieldLoad(p.Bind(side[0]))
				if !okr || fr.Field != "Name" || fr.Owner != kinds.Value {
					continue
				}
				if ta := assertOf(fr.Base); ta == nil || core.Path(ta.X) != rawPath {
					continue
				}
				if _, direct := core.AsFieldLoad(p.Bind(side[1])); direct {
					continue
				}
				if pn := decodePrefName(p, res, kinds, p.Bind(side[1])); pn != nil && pn.cur != nil {
					pref = pn
					nameGuard = true
					current = pn.cur
				}
			}
			if okx && oky && fx.Field == "Name" && fy.Field == "Name" && fx.Owner == kinds.Value && fy.Owner == kinds.Value {
				for _, pair := range [][2]core.FieldRef{{fx, fy}, {fy, fx}} {
					if ta := assertOf(pair[0].Base); ta != nil && core.Path(ta.X) == rawPath {
						nameGuard = true
						cb := pair[1].Base
						if prm, isPrm := core.Strip(cb).(*ssa.Parameter); isPrm {
							cb = p.Bind(prm) // the already-asserted current parameter handed to the discounting step
						}
						if tb := assertOf(cb); tb != nil {
							current = tb.X
						}
					}
				}
			}
		}
		if l.Kind == "ok" && l.Pol {
			if ta, ok := l.Of.(*ssa.TypeAssert); ok && core.NamedOf(ta.AssertedType) == kinds.Value {
				if core.Path(ta.X) == rawPath {
					kindGuard = true
				} else if current == nil || ta.X == current {
					curIsValue = true
				}
			}
		}
	}
	// the asserted operand may itself be the parameter of the private step that makes the copy: name it by what the
	// resolver hands in (the element of the per-parameter iteration)
	curAsserted := current
	if prm, isPrm := current.(*ssa.Parameter); isPrm {
		if b := p.Bind(prm); b != ssa.Value(prm) {
			current = b
		}
	}
	if current != nil {
		curIsValue = false
		for _, l := range r1Lits {
			if l.Kind == "ok" && l.Pol {
				if ta, ok := l.Of.(*ssa.TypeAssert); ok && ta.X == curAsserted && core.NamedOf(ta.AssertedType) == kinds.Value {
					curIsValue = true
				}
			}
		}
		for _, l := range r1Lits {
			if l.Kind == "ok" && l.Pol {
				if ta, ok := l.Of.(*ssa.TypeAssert); ok && ta.X == current && core.NamedOf(ta.AssertedType) == kinds.Value {
					curIsValue = true
				}
			}
		}
	}
	c.R.Add("PRIO-D", "resolver|only-same-named-value-vertices", "resolver", r1.Pos, nameGuard && kindGuard,
		"only in-edges of value vertices whose name equals the current parameter's name are discounted", fmt.Sprintf("kind-guard=%v name-equality=%v", kindGuard, nameGuard), core.LitStrings(r1.Lits)...)
	// every same-named value vertex is discounted: besides the kind test and the name equality, no condition on the way
	// looks at the candidate vertex (a further test on its subtype, type or value leaves a same-named input undiscounted
	// and tied with the other inputs of its type)
	{
		extra := ""
		var readsRaw func(v ssa.Value, d int) string
		readsRaw = func(v ssa.Value, d int) string {
			if v == nil || d > 4 {
				return ""
			}
			if lf, ok := core.AsFieldLoad(p.Bind(v)); ok {
				if ta := assertOf(lf.Base); ta != nil && core.Path(ta.X) == rawPath {
					return lf.Field
				}
			}
			switch x := v.(type) {
			case *ssa.Call:
				for _, a := range core.CallArgs(x.Common()) {
					if s := readsRaw(a, d+1); s != "" {
						return s
					}
				}
			case *ssa.UnOp:
				return readsRaw(x.X, d+1)
			case *ssa.BinOp:
				if s := readsRaw(x.X, d+1); s != "" {
					return s
				}
				return readsRaw(x.Y, d+1)
			}
			return ""
		}
		for _, l := range r1Lits {
			if l.Kind == "ok" {
				continue
			}
			isName := false
			if l.Kind == "cmp" && l.Op == token.EQL && l.Pol {
				fx, okx := core.AsFieldLoad(p.Bind(l.X))
				fy, oky := core.AsFieldLoad(p.Bind(l.Y))
				isName = okx && oky && fx.Field == "Name" && fy.Field == "Name"
				if !isName && pref != nil && (p.Bind(l.X) == pref.v || p.Bind(l.Y) == pref.v) {
					isName = (okx && fx.Field == "Name") || (oky && fy.Field == "Name")
				}
			}
			if isName {
				continue
			}
			for _, v := range append([]ssa.Value{l.X, l.Y, l.Of}, l.Args...) {
				if fld := readsRaw(v, 0); fld != "" {
					extra = l.String() + " (reads the candidate's " + fld + ")"
				}
			}
		}
		c.R.Add("PRIO-D", "resolver|every-same-named-vertex-discounted", "resolver", r1.Pos, extra == "",
			"the discount applies to every value vertex with the parameter's name: no further condition on the candidate vertex", ternary(extra == "", "kind test and name equality only", "also guarded by "+extra))
	}
	// every in-edge of such a vertex is discounted: the loop over its in-edges has no condition of its own and no early
	// exit (skipping or stopping at some sources leaves ties between same-typed inputs)
	{
		blk := r1.Inner.Block()
		var hdr *ssa.BasicBlock
		for d := blk.Idom(); d != nil; d = d.Idom() {
			if core.ReachableAvoiding(blk, d, nil) {
				hdr = d
				break
			}
		}
		allEdges, whyAll := hdr != nil, "in-edge loop not recognised"
		if hdr != nil {
			whyAll = "every in-edge"
			for _, g := range core.Guards(blk) {
				if g.At.Block() != hdr && hdr.Dominates(g.At.Block()) {
					l := core.LitOf(g.Cond, g.Pol)
					if !core.IsLoopBound(l) {
						allEdges, whyAll = false, "a condition inside the in-edge loop selects which edges are discounted: "+l.String()
					}
				}
			}
			// the loop is left only through its header
			var body, exit *ssa.BasicBlock
			for _, sc := range hdr.Succs {
				if sc == blk || core.ReachableAvoiding(sc, blk, map[*ssa.BasicBlock]bool{hdr: true}) {
					body = sc
				} else {
					exit = sc
				}
			}
			if body != nil && exit != nil && core.ReachableAvoiding(body, exit, map[*ssa.BasicBlock]bool{hdr: true}) {
				allEdges, whyAll = false, "the in-edge loop can be left early (break) before every in-edge was discounted"
			}
		}
		c.R.Add("PRIO-D", "resolver|every-in-edge-discounted", "resolver", r1.Pos, allEdges,
			"all in-edges of a same-named value vertex receive the discount (no per-edge condition, no early exit)", whyAll)
	}
	if pref != nil {
		// the name in effect is the parameter's own name or the inherited preference and nothing else; the own name always
		// wins (a nested NAMED requirement must not see its caller's preference)
		c.R.Add("PRIO-D", "resolver|only-for-named-parameters", "resolver", r1.Pos, pref.bad == "",
			"discounting happens only under a name preference: the parameter's own name when it is a named value, otherwise the preference inherited from the enclosing named requirement (a type-only parameter outside any named requirement sees the undiscounted, non-negative weights)", ternary(pref.bad == "", fmt.Sprintf("own name (always, when the parameter is a named value) or the call state's preferred name; %d arm(s)", pref.arms), pref.bad))
	} else {
		c.R.Add("PRIO-D", "resolver|only-for-named-parameters", "resolver", r1.Pos, curIsValue,
			"discounting happens only while resolving a named parameter (type-only parameters see the undiscounted, non-negative weights)", fmt.Sprintf("ok=%v", curIsValue))
	}
	// one fresh copy per parameter: the Copy is made in the iteration that selects the current parameter
	perParam := false
	if onCopy && current != nil {
		cur := current
		if prm, isPrm := cur.(*ssa.Parameter); isPrm {
			cur = p.Bind(prm) // the discounting step is a private helper that is handed the current parameter
		}
		if ci, ok := cur.(ssa.Instruction); ok {
			// the copy (or the one call of the helper that makes it) lies inside the iteration that selects the parameter
			as, _ := p.Anchors(cpCall, ci.Parent())
			if len(as) == 1 {
				perParam = core.InstrDominates(ci, as[0]) && core.Reachable(as[0].Block(), ci.Block(), nil)
			}
		}
	}
	c.R.Add("PRIO-D", "resolver|fresh-copy-per-parameter", "resolver", r1.Pos, perParam,
		"each parameter gets its own copy (made inside the per-parameter iteration), so one parameter's discounts never leak into the next", fmt.Sprintf("ok=%v", perParam))

	// ---------------- PRIO-P: path selection pairing
	djs := p.RegionCalls(res, core.GDijkstra)
	e2p := p.RegionCalls(res, core.GEdgeToPath)
	if len(djs) != 1 || len(e2p) != 1 {
		c.R.Undecided("PRIO-P", "resolver|search", "resolver", p.Pos(res.Pos()), fmt.Sprintf("expected one Dijkstra and one EdgeToPath call, found %d/%d", len(djs), len(e2p)))
	} else {
		dj, ep := djs[0].(*ssa.Call), e2p[0].(*ssa.Call)
		rev, isRev := dj.Common().Args[0].(*ssa.Call)
		var searched ssa.Value
		if isRev && core.CalleeName(rev.Common()) == core.GReverse {
			searched = rev.Common().Args[0]
		}
		c.R.Add("PRIO-P", "resolver|dijkstra-on-reverse", "resolver", p.InstrPos(dj), searched != nil, "shortest paths are searched on the reversed graph (from providers towards the requirement)", fmt.Sprintf("ok=%v", searched != nil))
		var rootP *ssa.Parameter
		for _, prm := range res.Params {
			if types.Identical(prm.Type().Underlying(), types.NewInterfaceType(nil, nil)) {
				// first interface-typed parameter after the graph is the root
				if rootP == nil && prm != res.Params[0] {
					ks := p.KindOf(prm)
					if len(ks) == 1 && ks[0] == kinds.Root {
						rootP = prm
					}
				}
			}
		}
		fromRoot := rootP != nil && p.Bind(dj.Common().Args[1]) == ssa.Value(rootP)
		c.R.Add("PRIO-P", "resolver|from-root", "resolver", p.InstrPos(dj), fromRoot, "the search starts at the input root", fmt.Sprintf("ok=%v", fromRoot))
		sameG := searched != nil && ep.Common().Args[0] == searched
		c.R.Add("PRIO-P", "resolver|path-read-from-searched-graph", "resolver", p.InstrPos(ep), sameG, "the path is reconstructed on the very graph value that was searched", fmt.Sprintf("ok=%v", sameG))
		// the in-progress set restricts the search itself: it is consulted (looked up or ranged over) at a point that
		// dominates the search of a requirement, so that a requirement whose cheapest path runs through a converter that
		// is being reached falls back to another path. Consulted only after the path was chosen, it can only reject —
		// a derivable parameter is then reported as unsatisfied (premise (a) of C05: cycles of one-input converters)
		{
			nUse, before := 0, false
			p.RegionInstrs(res, func(in ssa.Instruction) {
				var m ssa.Value
				switch x := in.(type) {
				case *ssa.Lookup:
					m = x.X
				case *ssa.Range:
					m = x.X
				default:
					return
				}
				fr, ok := core.AsFieldLoad(m)
				if !ok || fr.Owner != "callState" || core.TypeStr(m.Type()) != "map[interface{}]struct{}" {
					return
				}
				nUse++
				if in.Parent() == dj.Parent() && in.Block().Dominates(dj.Block()) && in.Block() != dj.Block() {
					before = true
				}
				if in.Parent() == dj.Parent() && in.Block() == dj.Block() && core.InstrDominates(in, dj) {
					before = true
				}
			})
			if nUse > 0 {
				c.R.Add("TERM-W4", "resolver|in-progress-set-restricts-the-search", "resolver", p.InstrPos(dj), before,
					"the set of converters being reached is consulted before a requirement's path is searched (the search avoids them), not only to reject the path afterwards", ternary(before, "consulted before the search", "consulted only after the path was chosen: the cheapest path through a converter being reached is rejected and no other path is tried"))
			}
		}
		// the functions on a path resolve their own inputs on the graph that path was searched on: the name preference of
		// the requirement carries over to the nested resolution (on the plain graph same-typed named values tie there and
		// map order picks one)
		if searched != nil {
			nNested, badNested := 0, ""
			for _, ci := range p.RegionCalls(res) {
				if ci.Common().StaticCallee() != res || ci.Parent() == nil {
					continue
				}
				// the graph operand: the argument in the position of the resolver's own graph parameter
				gi := -1
				for i, prm := range res.Params {
					if core.TypeStr(prm.Type()) == core.TypeStr(searched.Type()) && gi < 0 {
						gi = i
					}
				}
				if gi < 0 || gi >= len(ci.Common().Args) {
					continue
				}
				nNested++
				arg := core.Strip(ci.Common().Args[gi])
				// the nested search runs on the call's own graph: a per-requirement discounted copy handed down would be
				// discounted again for a nested requirement that has a name of its own (two preferences at once: the
				// withdrawn first repair of D16, DESIGN §6)
				okG := false
				leaked := ""
				if gParam != nil && unspill(p.Bind(arg)) != ssa.Value(gParam) && unspill(arg) != ssa.Value(gParam) {
					leaked = "the nested resolution at " + p.InstrPos(ci) + " is handed a graph other than the call's own (" + core.Path(arg) + "): discounts made for this requirement's name leak into the nested search, where a requirement with a name of its own is then searched under two preferences"
				}
				// kept per path in a local list: graphs[i] = the searched graph; … reachTarget(graphs[i], …)
				if ld, isLd := arg.(*ssa.UnOp); isLd && !okG {
					if ia, isIA := ld.X.(*ssa.IndexAddr); isIA {
						stored, other := false, false
						core.Instrs(ci.Parent(), func(in ssa.Instruction) {
							if st, isSt := in.(*ssa.Store); isSt {
								if ia2, isIA2 := st.Addr.(*ssa.IndexAddr); isIA2 && ia2.X == ia.X {
									if core.Strip(st.Val) == core.Strip(searched) {
										stored = true
									} else {
										other = true
									}
								}
							}
						})
						_ = stored && !other // handing the searched graph down is no longer accepted (see above)
					}
				}
				// … or the preferred name travels in the call state: the latest store to a string field of the state that
				// dominates the nested call puts there the name in effect of the very requirement whose path is being walked
				// (own name of a named requirement, else the preference this call inherited itself)
				if !okG {
					var last *ssa.Store
					core.Instrs(ci.Parent(), func(in ssa.Instruction) {
						st, isSt := in.(*ssa.Store)
						if !isSt || !core.InstrDominates(st, ci.(ssa.Instruction)) {
							return
						}
						fa, isF := core.AsFieldAddr(st.Addr)
						if !isF {
							return
						}
						if b, isB := st.Val.Type().Underlying().(*types.Basic); !isB || b.Kind() != types.String {
							return
						}
						if prm, isPrm := core.Strip(unspill(p.Bind(unspill(fa.Base)))).(*ssa.Parameter); !isPrm || prm.Parent() != res {
							if prm2, isPrm2 := core.Strip(unspill(fa.Base)).(*ssa.Parameter); !isPrm2 || prm2.Parent() != res {
								return
							}
						}
						if last == nil || core.InstrDominates(last, st) {
							last = st
						}
					})
					if last != nil {
						val, why := last.Val, ""
						// handed down to the step that makes the nested call
						for k := 0; k < 4; k++ {
							if prm, isPrm := core.Strip(val).(*ssa.Parameter); isPrm {
								if b := p.Bind(prm); b != ssa.Value(prm) {
									val = b
									continue
								}
							}
							break
						}
						// kept per requirement in a local list: names[i] = name in effect; … state.Name = names[i]
						if ld, isLd := val.(*ssa.UnOp); isLd && ld.Op == token.MUL {
							if ia, isIA := ld.X.(*ssa.IndexAddr); isIA {
								var stored []ssa.Value
								var storeIdx []ssa.Value
								// the list, followed to where it is made: handed down as a parameter, or returned by the planning step
								bases := map[ssa.Value]bool{}
								var addBase func(b ssa.Value, d int)
								addBase = func(b ssa.Value, d int) {
									if b == nil || d > 4 || bases[b] {
										return
									}
									bases[b] = true
									switch x := b.(type) {
									case *ssa.Parameter:
										if bb := p.Bind(x); bb != ssa.Value(x) {
											addBase(bb, d+1)
										}
									case *ssa.Extract:
										if call, isCall := x.Tuple.(*ssa.Call); isCall {
											if callee := call.Common().StaticCallee(); callee != nil && p.PrivateHelper(callee) {
												core.Instrs(callee, func(in ssa.Instruction) {
													if r, isR := in.(*ssa.Return); isR && x.Index < len(r.Results) {
														addBase(r.Results[x.Index], d+1)
													}
												})
											}
										}
									case *ssa.Phi:
										for _, e := range x.Edges {
											addBase(e, d+1)
										}
									}
								}
								addBase(ia.X, 0)
								for _, rf := range p.Region(res) {
									core.Instrs(rf, func(in ssa.Instruction) {
										if st, isSt := in.(*ssa.Store); isSt {
											if ia2, isIA2 := st.Addr.(*ssa.IndexAddr); isIA2 && bases[ia2.X] {
												stored = append(stored, st.Val)
												storeIdx = append(storeIdx, ia2.Index)
											}
										}
									})
								}
								if len(stored) == 1 {
									val = stored[0]
									// the entry read is the one of the path being walked: written at the index that selects the
									// requirement, read at the index that selects its path
									if pn := decodePrefName(p, res, kinds, val); pn != nil && pn.cur != nil {
										if cl, isCl := pn.cur.(*ssa.UnOp); isCl {
											if cia, isCIA := cl.X.(*ssa.IndexAddr); isCIA && cia.Index != storeIdx[0] {
												why = "the preferred name of a requirement is filed under another requirement's index"
											}
										}
									}
									if w := pathIndexMismatch(ci.Parent(), ep, ia.Index); w != "" {
										why = w
									}
								} else {
									why = fmt.Sprintf("the per-requirement name list is written at %d sites", len(stored))
								}
							}
						}
						if why == "" {
							pn := decodePrefName(p, res, kinds, val)
							switch {
							case pn == nil:
								why = "the name put in the call state at " + p.InstrPos(last) + " is not the name of the requirement being reached (" + core.Path(val) + ")"
							case pn.bad != "":
								why = pn.bad
							default:
								okG = true
							}
						}
						if !okG {
							badNested = "the nested resolution at " + p.InstrPos(ci) + " reads a preferred name from the call state, but " + why
						}
					}
				}
				if leaked != "" {
					okG, badNested = false, leaked
				}
				if !okG && badNested == "" {
					badNested = "the nested resolution at " + p.InstrPos(ci) + " gets neither the graph its path was searched on (it runs on " + core.Path(arg) + ") nor a preferred name in the call state"
				}
			}
			if nNested > 0 {
				c.R.Add("PRIO-I", "resolver|nested-resolution-inherits-name-preference", "resolver", p.InstrPos(ep), badNested == "",
					"a function on a named requirement's path resolves its own type-only inputs under that requirement's name preference (the nested search is handed the discounted graph, or the preferred name)", ternary(badNested == "", fmt.Sprintf("%d nested call(s) inherit the preference", nNested), badNested))
			}
		}
		fromDj := false
		if e, ok := ep.Common().Args[2].(*ssa.Extract); ok && e.Tuple == ssa.Value(dj) && e.Index == 1 {
			fromDj = true
		}
		// the target, followed through the parameter of a private path-search step
		tgt := ep.Common().Args[1]
		if prm, isPrm := core.Strip(tgt).(*ssa.Parameter); isPrm {
			tgt = p.Bind(prm)
		}
		tgtOK := current == nil || ep.Common().Args[1] == current || tgt == current
		c.R.Add("PRIO-P", "resolver|path-of-current-from-this-search", "resolver", p.InstrPos(ep), fromDj && tgtOK, "the path is read from this search's predecessor map, for the parameter being resolved", fmt.Sprintf("edgeTo-from-this-dijkstra=%v target-is-current=%v", fromDj, tgtOK))
		// the searched graph is the call graph or this iteration's copy
		gOK := false
		if searched != nil {
			gOK = true
			for _, s := range p.ISources(searched) {
				if p.Bind(s) != ssa.Value(gParam) && !(isCopy && s == ssa.Value(cpCall)) {
					gOK = false
				}
			}
		}
		c.R.Add("PRIO-P", "resolver|searched-graph-is-call-graph-or-its-copy", "resolver", p.InstrPos(dj), gOK, "the searched graph is the call's graph or this parameter's discounted copy of it", fmt.Sprintf("ok=%v", gOK))
	}

	// ---------------- PRIO-N: exact named input
	c.runDirectUse(res, kinds, wMatch)

	// ---------------- PRIO-T: exact type-only input (no discount applies: weights non-negative)
	{
		abs := c.abstractGraph(edges, kinds, false, 0)
		direct, okd := shortest(abs, "arg", "root", map[string]bool{"func": true})
		toFunc, ok1 := shortest(abs, "arg", "func", nil)
		fromFunc, ok2 := shortest(abs, "func", "root", nil)
		via := toFunc + fromFunc
		good := okd && ok1 && ok2 && via > direct
		c.R.Add("PRIO-T", "typed-exact-input-beats-any-converter", "(abstract cost model)", "-", good,
			"for a type-only parameter the cheapest route through any function vertex costs strictly more than the cheapest route that uses supplied values only",
			fmt.Sprintf("direct=%d (%v) via-function=%d", direct, okd, via))
		nonneg := true
		for _, e := range abs {
			if e.w < 0 {
				nonneg = false
			}
		}
		c.R.Add("PRIO-T", "undiscounted-weights-non-negative", "(abstract cost model)", "-", nonneg, "without the name discount all weights are positive (Dijkstra is exact for type-only parameters)", fmt.Sprintf("ok=%v", nonneg))
	}

	// ---------------- INPUT: supplied values overwrite the coinciding requirement and hang off the root
	c.runInputs(kinds)
}

// prefName is the decoded "name in effect" of a requirement: its own name when it is a named value vertex, otherwise the
// preference carried in the resolver's call state.
type prefName struct {
	v    ssa.Value // the compared value
	cur  ssa.Value // the operand asserted to be a value vertex (the current requirement)
	arms int
	bad  string
}

// prefArm is one way a name can reach the comparison: the leaf value and the guards under which that way is taken
// (guards that hold for every way alike are left out).
type prefArm struct {
	leaf ssa.Value
	lits []core.Lit
}

func edgeLits(p *core.Prog, pred, succ *ssa.BasicBlock) []core.Lit {
	lits := append([]core.Lit{}, p.ILits(pred)...)
	if iff, ok := pred.Instrs[len(pred.Instrs)-1].(*ssa.If); ok && len(pred.Succs) == 2 && pred.Succs[0] != pred.Succs[1] {
		if pred.Succs[0] == succ {
			lits = append(lits, core.LitOf(iff.Cond, true))
		} else if pred.Succs[1] == succ {
			lits = append(lits, core.LitOf(iff.Cond, false))
		}
	}
	return lits
}

func minusLits(a, b []core.Lit) []core.Lit {
	have := map[string]bool{}
	for _, l := range b {
		have[l.String()] = true
	}
	var out []core.Lit
	for _, l := range a {
		if !have[l.String()] {
			out = append(out, l)
		}
	}
	return out
}

// prefArms follows v through merges, parameters of private steps (to the argument handed in) and results of private
// steps (to what they return).
func prefArms(p *core.Prog, pkg *ssa.Package, v ssa.Value, lits []core.Lit, d int, out *[]prefArm) {
	if d > 8 {
		*out = append(*out, prefArm{v, lits})
		return
	}
	results := func(call *ssa.Call, idx int) bool {
		callee := call.Common().StaticCallee()
		if callee == nil || callee.Pkg != pkg || len(callee.Blocks) == 0 || !p.PrivateHelper(callee) {
			return false
		}
		entry := p.ILits(callee.Blocks[0])
		n := 0
		core.Instrs(callee, func(in ssa.Instruction) {
			if r, ok := in.(*ssa.Return); ok && idx < len(r.Results) {
				n++
				prefArms(p, pkg, r.Results[idx], append(append([]core.Lit{}, lits...), minusLits(p.ILits(r.Block()), entry)...), d+1, out)
			}
		})
		return n > 0
	}
	switch x := v.(type) {
	case *ssa.Phi:
		common := p.ILits(x.Block())
		for i, e := range x.Edges {
			prefArms(p, pkg, e, append(append([]core.Lit{}, lits...), minusLits(edgeLits(p, x.Block().Preds[i], x.Block()), common)...), d+1, out)
		}
		return
	case *ssa.Parameter:
		if b := p.Bind(x); b != ssa.Value(x) {
			prefArms(p, pkg, b, lits, d+1, out)
			return
		}
	case *ssa.UnOp:
		// read back from the per-requirement list at the index it was just filed under
		if ia, ok := x.X.(*ssa.IndexAddr); ok && x.Op == token.MUL {
			var vals []ssa.Value
			core.Instrs(x.Parent(), func(in ssa.Instruction) {
				if st, isSt := in.(*ssa.Store); isSt {
					if ia2, isIA2 := st.Addr.(*ssa.IndexAddr); isIA2 && ia2.X == ia.X {
						if ia2.Index == ia.Index && core.InstrDominates(st, x) {
							vals = append(vals, st.Val)
						} else {
							vals = append(vals, nil)
						}
					}
				}
			})
			if len(vals) == 1 && vals[0] != nil {
				prefArms(p, pkg, vals[0], lits, d+1, out)
				return
			}
		}
	case *ssa.Extract:
		if call, ok := x.Tuple.(*ssa.Call); ok && results(call, x.Index) {
			return
		}
	case *ssa.Call:
		if _, isGetter := core.AsFieldLoad(x); !isGetter && results(x, 0) {
			return
		}
	}
	*out = append(*out, prefArm{v, lits})
}

// decodePrefName reads v as a merge of `assert<value vertex>(cur).Name` (taken exactly when the assertion holds) and a
// string field of the call state handed to the resolver. Returns nil when v has no own-name arm at all.
func decodePrefName(p *core.Prog, res *ssa.Function, kinds *core.Kinds, v ssa.Value) *prefName {
	pn := &prefName{v: v}
	bound := func(x ssa.Value) ssa.Value {
		x = unspill(x)
		if prm, ok := core.Strip(x).(*ssa.Parameter); ok {
			return unspill(p.Bind(prm))
		}
		return x
	}
	isState := func(s ssa.Value) bool {
		fr, ok := core.AsFieldLoad(s)
		if !ok {
			return false
		}
		if b, isB := s.Type().Underlying().(*types.Basic); !isB || b.Kind() != types.String {
			return false
		}
		prm, isPrm := core.Strip(bound(fr.Base)).(*ssa.Parameter)
		if !isPrm {
			return false
		}
		_, isPtr := prm.Type().Underlying().(*types.Pointer)
		return isPtr
	}
	own := func(s ssa.Value) *ssa.TypeAssert {
		fr, ok := core.AsFieldLoad(s)
		if !ok || fr.Field != "Name" || fr.Owner != kinds.Value {
			return nil
		}
		return assertOf(fr.Base)
	}
	var arms []prefArm
	prefArms(p, res.Pkg, v, nil, 0, &arms)
	nOwn := 0
	for _, a := range arms {
		pn.arms++
		if ta := own(a.leaf); ta != nil {
			nOwn++
			cur := bound(ta.X)
			if pn.cur != nil && pn.cur != cur {
				pn.bad = "own-name arms of different operands"
			}
			pn.cur = cur
			continue
		}
		if isState(a.leaf) {
			continue
		}
		pn.bad = "the compared name may also come from " + core.Path(a.leaf)
	}
	if nOwn == 0 {
		return nil
	}
	if pn.bad != "" || len(arms) == 1 {
		return pn
	}
	// the own name always wins: its arm is conditional on the value-vertex test alone, and every inherited arm is taken
	// only when that test failed
	isTest := func(l core.Lit, pol bool) bool {
		if l.Kind != "ok" || l.Pol != pol {
			return false
		}
		ta, ok := l.Of.(*ssa.TypeAssert)
		return ok && bound(ta.X) == pn.cur && core.NamedOf(ta.AssertedType) == kinds.Value
	}
	for _, a := range arms {
		if own(a.leaf) != nil {
			for _, l := range a.lits {
				if core.IsLoopBound(l) || isTest(l, true) {
					continue
				}
				if l.Kind == "cmp" && (isConstStr(l.X) || isConstStr(l.Y)) {
					// a test of this very name, or of the merged name in effect, against a constant does not choose between the arms
					self := false
					for _, o := range []ssa.Value{l.X, l.Y} {
						if o == a.leaf {
							self = true
						}
						if ph, isPhi := o.(*ssa.Phi); isPhi {
							for _, sv := range core.Sources(ph) {
								if sv == a.leaf {
									self = true
								}
							}
						}
					}
					if self {
						continue
					}
				}
				pn.bad = "the parameter's own name is used only when " + l.String() + ": otherwise a named requirement is searched under its caller's preference"
			}
			continue
		}
		failed := false
		for _, l := range a.lits {
			if isTest(l, false) {
				failed = true
			}
		}
		if !failed {
			pn.bad = "the inherited preference can replace the own name of a named requirement (its arm is not confined to the failed value-vertex test)"
		}
	}
	return pn
}

// pathIndexMismatch: the paths found by the search are kept in a local list; the walk reads path j and must read the
// per-requirement name at the same j. Returns "" when the indices agree or the shape is not the list-of-paths one.
func pathIndexMismatch(fn *ssa.Function, ep *ssa.Call, nameIdx ssa.Value) string {
	var paths ssa.Value
	for _, u := range core.Users(ep) {
		if st, ok := u.(*ssa.Store); ok {
			if ia, isIA := st.Addr.(*ssa.IndexAddr); isIA {
				paths = ia.X
			}
		}
	}
	if paths == nil {
		return ""
	}
	found, same := false, false
	core.Instrs(fn, func(in ssa.Instruction) {
		ld, ok := in.(*ssa.UnOp)
		if !ok || ld.Op != token.MUL {
			return
		}
		if ia, isIA := ld.X.(*ssa.IndexAddr); isIA && ia.X == paths {
			found = true
			if ia.Index == nameIdx {
				same = true
			}
		}
	})
	if found && !same {
		return "the name read for the nested call is not the entry of the path being walked (" + core.Path(nameIdx) + " is not the index any path is read at)"
	}
	return ""
}

// unspill reads through a parameter that was moved to a heap cell because a closure captures it.
func unspill(v ssa.Value) ssa.Value {
	if u, ok := v.(*ssa.UnOp); ok && u.Op == token.MUL {
		if a, isA := u.X.(*ssa.Alloc); isA {
			if sv := core.SingleStore(a); sv != nil {
				return sv
			}
		}
	}
	return v
}

func isConstStr(v ssa.Value) bool {
	c, ok := v.(*ssa.Const)
	return ok && c.Value != nil && c.Value.Kind().String() == "String"
}

func assertOf(v ssa.Value) *ssa.TypeAssert {
	switch x := v.(type) {
	case *ssa.TypeAssert:
		return x
	case *ssa.Extract:
		if t, ok := x.Tuple.(*ssa.TypeAssert); ok && x.Index == 0 {
			return t
		}
	}
	return nil
}

// abstractGraph builds the kind-level weighted graph (consumer -> provider) from the extracted table.
func (c *Ctx) abstractGraph(edges []EdgeRule, k *core.Kinds, discount bool, wMatch int64) []absEdge {
	name := func(ks []string) string {
		if len(ks) != 1 {
			return "?"
		}
		switch ks[0] {
		case k.Root:
			return "root"
		case k.Func:
			return "func"
		case k.Value:
			return "value"
		case k.Arg:
			return "arg"
		case k.Out:
			return "out"
		}
		return "?"
	}
	var out []absEdge
	for _, e := range edges {
		if e.Reweight || !e.WeightOK {
			continue
		}
		from, to := name(e.CK), name(e.PK)
		if e.Class == "G9" {
			continue // redefine-only edges
		}
		if from == "?" || to == "?" {
			continue
		}
		w := e.Weight
		if discount && to == "value" && wMatch < w {
			w = wMatch
		}
		out = append(out, absEdge{from, to, w, e.Class})
	}
	return out
}

// shortest: Bellman-Ford distance from a to b avoiding nodes (returns ok=false if unreachable).
func shortest(es []absEdge, a, b string, avoid map[string]bool) (int64, bool) {
	const inf = int64(1) << 40
	dist := map[string]int64{a: 0}
	get := func(n string) int64 {
		if d, ok := dist[n]; ok {
			return d
		}
		return inf
	}
	for i := 0; i < 8; i++ {
		for _, e := range es {
			if avoid[e.from] || avoid[e.to] {
				continue
			}
			if get(e.from) < inf && get(e.from)+e.w < get(e.to) {
				dist[e.to] = get(e.from) + e.w
			}
		}
	}
	d := get(b)
	return d, d < inf
}

// runDirectUse recognises the direct-use rule for supplied named values and
// proves that such a requirement is not path-searched (DESIGN §4 PRIO-N (A)).
func (c *Ctx) runDirectUse(res *ssa.Function, kinds *core.Kinds, wMatch int64) {
	p := c.P
	var rootP *ssa.Parameter
	for _, prm := range res.Params {
		if ks := p.KindOf(prm); len(ks) == 1 && ks[0] == kinds.Root && prm != res.Params[0] {
			rootP = prm
		}
	}
	// candidate: argMap[VertexID(out)] = assert<value>(out).Value
	var hit *ssa.MapUpdate
	var outV ssa.Value
	p.RegionInstrs(res, func(in ssa.Instruction) {
		mu, ok := in.(*ssa.MapUpdate)
		if !ok {
			return
		}
		fr, ok := core.AsFieldLoad(mu.Value)
		if !ok || fr.Owner != kinds.Value || fr.Field != "Value" {
			return
		}
		ta := assertOf(fr.Base)
		if ta == nil {
			return
		}
		id, ok := mu.Key.(*ssa.Call)
		if !ok || core.CalleeName(id.Common()) != core.GVertexID || id.Common().Args[0] != ta.X {
			return
		}
		if _, isMake := p.Bind(mu.Map).(*ssa.MakeMap); !isMake {
			return
		}
		hit, outV = mu, ta.X
	})
	if hit == nil {
		abs := c.abstractGraph(c.edgeRules(), kinds, true, wMatch)
		d, _ := shortest(abs, "value", "root", nil)
		c.R.Add("PRIO-N", "resolver|direct-use-of-supplied-named-value", "resolver", p.Pos(res.Pos()), false,
			"a named requirement that already carries a supplied value (it hangs off the input root) is used as-is; otherwise every detour must cost strictly more than the direct input edge",
			fmt.Sprintf("no direct-use rule found, and with stacked name discounts the abstract lower bound of a detour is %d <= direct edge (witness: G6/F4,F2 with discount, then A)", d))
		return
	}
	lits := core.Lits(core.Guards(hit.Block()))
	valid, hangs := false, false
	for _, l := range lits {
		if l.Kind == "call" && l.Callee == core.RVIsValid && l.Pol {
			if fr, ok := core.AsFieldLoad(l.Args[0]); ok && fr.Field == "Value" {
				if ta := assertOf(fr.Base); ta != nil && ta.X == outV {
					valid = true
				}
			}
		}
		// library form: slices.Contains(g.OutEdges(out), root)
		if l.Kind == "call" && l.Pol && rootP != nil {
			if cl, ok := l.Of.(*ssa.Call); ok && len(cl.Common().Args) == 2 {
				if pk, fn := core.StdCallee(cl.Common().StaticCallee()); pk == "slices" && fn == "Contains" && p.Bind(core.Strip(cl.Common().Args[1])) == ssa.Value(rootP) {
					if r, ok := core.Root(cl.Common().Args[0]).(*ssa.Call); ok && core.CalleeName(r.Common()) == core.GOutEdges && r.Common().Args[1] == outV {
						hangs = true
					}
				}
			}
		}
		if l.Kind == "cmp" && l.Op == token.EQL && l.Pol && rootP != nil {
			for _, pair := range [][2]ssa.Value{{l.X, l.Y}, {l.Y, l.X}} {
				if p.Bind(pair[1]) == ssa.Value(rootP) {
					if r, ok := core.Root(pair[0]).(*ssa.Call); ok && core.CalleeName(r.Common()) == core.GOutEdges && r.Common().Args[1] == outV {
						hangs = true
					}
				}
			}
		}
	}
	c.R.Add("PRIO-N", "resolver|direct-use-of-supplied-named-value", "resolver", p.InstrPos(hit), valid && hangs,
		"a named requirement that carries a valid value and has the input root among its dependencies is bound to that value directly",
		fmt.Sprintf("value-valid-guard=%v root-dependency-guard=%v", valid, hangs), core.LitStrings(lits)...)
	// the requirement iterated is an out-edge of the target being resolved
	reqOK := false
	if r, ok := core.Root(outV).(*ssa.Call); ok && core.CalleeName(r.Common()) == core.GOutEdges {
		reqOK = true
	}
	c.R.Add("PRIO-N", "resolver|applies-to-every-requirement", "resolver", p.InstrPos(hit), reqOK, "the rule is evaluated for each requirement of the function being resolved", fmt.Sprintf("ok=%v", reqOK))
	// not path-searched: the block that queues the requirement for path search is unreachable from the
	// direct-use block within the same iteration (boolean flag evaluation)
	var queue *ssa.Call
	core.Instrs(hit.Parent(), func(in ssa.Instruction) {
		if cl, ok := in.(*ssa.Call); ok && core.CalleeName(cl.Common()) == "builtin.append" {
			for _, e := range appendedValues(cl) {
				if e == core.Strip(outV) || e == outV {
					queue = cl
				}
			}
		}
	})
	if queue == nil {
		c.R.Undecided("PRIO-N", "resolver|not-path-searched", "resolver", p.InstrPos(hit), "cannot find where requirements are queued for path search")
		return
	}
	// iteration header: the block where outV is loaded
	var header *ssa.BasicBlock
	if oi, ok := outV.(ssa.Instruction); ok {
		header = oi.Block()
	}
	reach := flagReach(hit.Block(), queue.Block(), header)
	c.R.Add("PRIO-N", "resolver|not-path-searched", "resolver", p.InstrPos(queue), !reach,
		"a directly bound requirement is never also queued for shortest-path search in the same resolution (so no converter can override it)",
		ternary(!reach, "queue block unreachable within the iteration once the direct binding is made (flag evaluation)", "queue block reachable after the direct binding"))
}

// flagReach explores the CFG from block `from` (just executed), evaluating
// boolean phis and constant branches along the way, and reports whether
// `target` can be reached before control returns to `stop` (the iteration header).
func flagReach(from, target, stop *ssa.BasicBlock) bool {
	type tri int
	const (
		unk tri = iota
		tru
		fls
	)
	type state struct {
		b    *ssa.BasicBlock
		pred *ssa.BasicBlock
		env  string
	}
	enc := func(env map[*ssa.Phi]tri) string {
		var ks []string
		for k, v := range env {
			ks = append(ks, fmt.Sprintf("%p=%d", k, v))
		}
		sort.Strings(ks)
		return strings.Join(ks, ",")
	}
	type item struct {
		b, pred *ssa.BasicBlock
		env     map[*ssa.Phi]tri
	}
	seen := map[state]bool{}
	var work []item
	for _, s := range from.Succs {
		work = append(work, item{s, from, map[*ssa.Phi]tri{}})
	}
	evalV := func(v ssa.Value, env map[*ssa.Phi]tri) tri {
		switch x := v.(type) {
		case *ssa.Const:
			if x.Value != nil && types.Identical(x.Type().Underlying(), types.Typ[types.Bool]) {
				if x.Value.ExactString() == "true" {
					return tru
				}
				return fls
			}
		case *ssa.Phi:
			return env[x]
		}
		return unk
	}
	for len(work) > 0 {
		it := work[len(work)-1]
		work = work[:len(work)-1]
		if it.b == target {
			return true
		}
		if it.b == stop {
			continue
		}
		// evaluate phis
		env := map[*ssa.Phi]tri{}
		for k, v := range it.env {
			env[k] = v
		}
		pi := -1
		for i, pr := range it.b.Preds {
			if pr == it.pred {
				pi = i
			}
		}
		newVals := map[*ssa.Phi]tri{}
		for _, in := range it.b.Instrs {
			ph, ok := in.(*ssa.Phi)
			if !ok {
				break
			}
			if !types.Identical(ph.Type().Underlying(), types.Typ[types.Bool]) || pi < 0 {
				continue
			}
			newVals[ph] = evalV(ph.Edges[pi], it.env)
		}
		for k, v := range newVals {
			env[k] = v
		}
		st := state{it.b, it.pred, enc(env)}
		if seen[st] {
			continue
		}
		seen[st] = true
		// terminator
		if iff, ok := it.b.Instrs[len(it.b.Instrs)-1].(*ssa.If); ok {
			switch evalV(iff.Cond, env) {
			case tru:
				work = append(work, item{it.b.Succs[0], it.b, env})
				continue
			case fls:
				work = append(work, item{it.b.Succs[1], it.b, env})
				continue
			}
		}
		for _, s := range it.b.Succs {
			work = append(work, item{s, it.b, env})
		}
	}
	return false
}

// runInputs checks the input builder's registration of supplied values.
func (c *Ctx) runInputs(kinds *core.Kinds) {
	p := c.P
	ib := c.role("INPUT", "inputBuilder")
	if ib == nil {
		return
	}
	var rootP *ssa.Parameter
	for _, prm := range ib.Params {
		if ks := p.KindOf(prm); len(ks) == 1 && ks[0] == kinds.Root {
			rootP = prm
		}
	}
	var resultAcc ssa.Value
	for _, r := range core.Returns(ib) {
		if len(r.Results) > 0 && !core.IsNilConst(r.Results[0]) {
			resultAcc = r.Results[0]
		}
	}
	// registration instances: an AddOverwrite call together with the vertex literal it registers. When the call sits
	// in a private helper or a local function literal of the input builder, there is one instance per call site of
	// that helper, read with the helper's parameters bound to that site's arguments.
	type reg struct {
		add    ssa.CallInstruction
		lit    *ssa.Alloc
		site   ssa.CallInstruction // the call of the helper (nil when the registration is inline)
		helper *ssa.Function
		bind   func(ssa.Value) ssa.Value
	}
	ident := func(v ssa.Value) ssa.Value { return v }
	var regs []reg
	for _, s := range p.RegionCalls(ib, core.GAddOverwrite) {
		F := s.Parent()
		v := core.Strip(s.Common().Args[1])
		if F == ib || !p.PrivateHelper(F) {
			al, _ := v.(*ssa.Alloc)
			regs = append(regs, reg{s, al, nil, nil, ident})
			continue
		}
		for _, cs := range p.Callers(F) {
			cs := cs
			bind := func(x ssa.Value) ssa.Value {
				for i := 0; i < 3; i++ {
					if prm, ok := core.Strip(x).(*ssa.Parameter); ok && prm.Parent() == F {
						for k, q := range F.Params {
							if q == prm && k < len(cs.Common().Args) {
								x = cs.Common().Args[k]
							}
						}
						continue
					}
					if d := p.DerefFree(x); d != nil && d != x {
						x = d
						continue
					}
					break
				}
				return x
			}
			al, _ := core.Strip(bind(v)).(*ssa.Alloc)
			regs = append(regs, reg{s, al, cs, F, bind})
		}
	}
	isRoot := func(v ssa.Value, bind func(ssa.Value) ssa.Value) bool {
		return rootP != nil && p.Bind(core.Strip(bind(v))) == ssa.Value(rootP)
	}
	for i, rg := range regs {
		s := rg.add
		key := fmt.Sprintf("inputBuilder|input#%d", i+1)
		pos := p.InstrPos(s)
		if rg.site != nil {
			pos = p.InstrPos(rg.site)
		}
		fields := map[string]ssa.Value{}
		kind := ""
		if rg.lit != nil {
			kind = core.NamedOf(rg.lit.Type())
			for _, ref := range *rg.lit.Referrers() {
				if fa, ok := ref.(*ssa.FieldAddr); ok {
					fr, _ := core.AsFieldAddr(fa)
					for _, r2 := range *fa.Referrers() {
						if st, ok := r2.(*ssa.Store); ok {
							fields[fr.Field] = rg.bind(st.Val)
						}
					}
				}
			}
		}
		// the value stored is the map element ranged over; the type is that value's type (named) or the map key (typed)
		valOK := fields["Value"] != nil && isRangeVal(fields["Value"])
		typeOK := false
		if tv := fields["Type"]; tv != nil {
			if cl, ok := tv.(*ssa.Call); ok && core.CalleeName(cl.Common()) == "(reflect.Value).Type" && rg.bind(cl.Common().Args[0]) == fields["Value"] {
				typeOK = true
			}
			if isRangeKey(tv) {
				typeOK = true
			}
		}
		nameOK := kind != kinds.Value || (fields["Name"] != nil && isRangeKey(fields["Name"]))
		c.R.Add("INPUT", key+"|vertex-carries-supplied-value", "inputBuilder", pos, valOK && typeOK && nameOK && (kind == kinds.Value || kind == kinds.Out),
			"each supplied value is registered as a vertex carrying that value, labelled with its own name/type (AddOverwrite: it replaces the coinciding requirement vertex)",
			fmt.Sprintf("kind=%s value=%v type=%v name=%v", kind, valOK, typeOK, nameOK))
		// edge to the root and tracked in the returned list — in the block of the registration, directly, inside the
		// helper that registers, or through a private helper called there with the registered vertex (and the root)
		edgeOK, tracked := false, false
		// the registered vertex as a value: the AddOverwrite result (inside its function) …
		isVertex := func(v ssa.Value, bind func(ssa.Value) ssa.Value) bool {
			v = core.Strip(v)
			if v == s.Value() {
				return true
			}
			// … or, at the helper's call site, the helper's result when it returns that vertex
			if rg.site != nil {
				if sv, ok := rg.site.(ssa.Value); ok && v == sv {
					for _, hr := range core.Returns(rg.helper) {
						for _, o := range hr.Results {
							if core.Strip(o) == s.Value() {
								return true
							}
						}
					}
				}
			}
			return false
		}
		regBlock := s.Block()
		type viaHelper struct {
			h    *ssa.Function
			call ssa.CallInstruction
		}
		var helpers []viaHelper
		scanBlocks := []*ssa.BasicBlock{regBlock}
		if rg.site != nil {
			scanBlocks = append(scanBlocks, rg.site.Block())
		}
		for _, blk := range scanBlocks {
			for _, in := range blk.Instrs {
				if hc, ok := in.(ssa.CallInstruction); ok && hc != rg.site {
					if h := hc.Common().StaticCallee(); p.PrivateHelper(h) {
						for _, a := range hc.Common().Args {
							if isVertex(a, ident) {
								helpers = append(helpers, viaHelper{h, hc})
							}
						}
					}
				}
			}
		}
		argOf := func(vh viaHelper, v ssa.Value) ssa.Value {
			if prm, ok := core.Strip(v).(*ssa.Parameter); ok && prm.Parent() == vh.h {
				for i, q := range vh.h.Params {
					if q == prm && i < len(vh.call.Common().Args) {
						return vh.call.Common().Args[i]
					}
				}
			}
			return nil
		}
		for _, e := range p.RegionCalls(ib, core.GAddEdge, core.GAddEdgeW) {
			if e.Parent() == s.Parent() && isVertex(e.Common().Args[1], ident) && isRoot(e.Common().Args[2], rg.bind) &&
				(e.Block() == regBlock || (rg.helper != nil && postDominatesEntry(rg.helper, e.Block()))) {
				edgeOK = true
			}
			if rg.site != nil && e.Parent() == rg.site.Parent() && e.Block() == rg.site.Block() && isVertex(e.Common().Args[1], ident) && isRoot(e.Common().Args[2], ident) {
				edgeOK = true
			}
			for _, vh := range helpers {
				if e.Parent() == vh.h && postDominatesEntry(vh.h, e.Block()) {
					if a1, a2 := argOf(vh, e.Common().Args[1]), argOf(vh, e.Common().Args[2]); a1 != nil && isVertex(a1, ident) && a2 != nil && isRoot(a2, rg.bind) {
						edgeOK = true
					}
				}
			}
		}
		if resultAcc != nil {
			for _, ap := range appendSites(ib, resultAcc) {
				for _, e := range appendedValues(ap) {
					if ap.Parent() == s.Parent() && isVertex(e, ident) && (ap.Block() == regBlock || (rg.helper != nil && postDominatesEntry(rg.helper, ap.Block()))) {
						tracked = true
					}
					if rg.site != nil && ap.Parent() == rg.site.Parent() && ap.Block() == rg.site.Block() && isVertex(e, ident) {
						tracked = true
					}
					for _, vh := range helpers {
						if ap.Parent() == vh.h && postDominatesEntry(vh.h, ap.Block()) {
							if a := argOf(vh, e); a != nil && isVertex(a, ident) {
								tracked = true
							}
						}
					}
				}
			}
		}
		c.R.Add("INPUT", key+"|hangs-off-root-and-tracked", "inputBuilder", pos, edgeOK && tracked,
			"each registered input gets exactly its edge to the input root and is recorded in the list of supplied inputs", fmt.Sprintf("root-edge=%v tracked=%v", edgeOK, tracked))
	}
	c.runConverterOptions()
	c.runValueOptions()
	// INPUT-C: every supplied converter (and every generated one) is added to the graph, unconditionally
	if fb := c.P.MustRole("funcBuilder"); fb != nil {
		supplied, generated := false, false
		whyS, whyG := "no registration loop over the builder's converter list", "no registration of generated converters"
		for _, ci := range p.RegionCalls(ib) {
			if ci.Common().StaticCallee() != fb {
				continue
			}
			recv := ci.Common().Args[0]
			lits := p.ILits(ci.Block())
			// receiver: element of b.convs
			if ld, ok := recv.(*ssa.UnOp); ok {
				if ia, ok := ld.X.(*ssa.IndexAddr); ok {
					if fr, ok := core.AsFieldLoad(ia.X); ok && fr.Owner == "argBuilder" && strings.Contains(core.TypeStr(ia.X.Type()), "[]*Func") {
						extra := ""
						for _, l := range lits {
							if !core.IsLoopBound(l) {
								extra = l.String()
							}
						}
						supplied = extra == ""
						whyS = ternary(supplied, "every element of the builder's converter list is added", "registration is filtered by "+extra)
					}
				}
			}
			// receiver: result of a generator call
			if e, ok := recv.(*ssa.Extract); ok {
				if gc, ok := e.Tuple.(*ssa.Call); ok && !gc.Common().IsInvoke() && gc.Common().StaticCallee() == nil && core.TypeStr(gc.Common().Value.Type()) == "ConverterGenFunc" {
					extra := ""
					for _, l := range lits {
						switch {
						case core.IsLoopBound(l):
						case l.Kind == "cmp" && l.Op == token.GTR:
						case core.LitImpliesGreater(l, 0):
						case l.Kind == "cmp" && l.Op == token.EQL && (core.IsNilConst(l.X) || core.IsNilConst(l.Y)):
						default:
							extra = l.String()
						}
					}
					generated = extra == ""
					whyG = ternary(generated, "every non-nil generated converter is added", "registration is filtered by "+extra)
				}
			}
			// receiver: an element of the tail `list[len(b.convs):]` of the list that starts as a copy of the supplied
			// converters and grows by every non-nil generated one (generated converters registered in one loop afterwards)
			if ld, ok := recv.(*ssa.UnOp); ok {
				if ia, ok := ld.X.(*ssa.IndexAddr); ok {
					if sl, ok := ia.X.(*ssa.Slice); ok && sl.Low != nil && sl.High == nil {
						isSuppliedLen := func(v ssa.Value) bool {
							cl, ok := v.(*ssa.Call)
							if !ok || core.CalleeName(cl.Common()) != "builtin.len" {
								return false
							}
							fr, ok := core.AsFieldLoad(cl.Common().Args[0])
							return ok && fr.Owner == "argBuilder" && strings.Contains(core.TypeStr(cl.Common().Args[0].Type()), "[]*Func")
						}
						tailOK := isSuppliedLen(sl.Low)
						baseOK, genOK, extra := false, false, ""
						for _, sv := range core.Sources(sl.X) {
							if mk, ok := sv.(*ssa.MakeSlice); ok && isSuppliedLen(mk.Len) {
								baseOK = true
							}
						}
						for _, ap := range appendSites(ci.Parent(), sl.X) {
							for _, e := range appendedValues(ap) {
								ex, ok := e.(*ssa.Extract)
								if !ok {
									extra = "an element that is not a generator's result is appended"
									continue
								}
								gc, ok := ex.Tuple.(*ssa.Call)
								if !ok || gc.Common().IsInvoke() || gc.Common().StaticCallee() != nil || core.TypeStr(gc.Common().Value.Type()) != "ConverterGenFunc" {
									extra = "an element that is not a generator's result is appended"
									continue
								}
								genOK = true
								for _, l := range p.ILits(ap.Block()) {
									switch {
									case core.IsLoopBound(l):
									case l.Kind == "cmp" && l.Op == token.GTR:
									case core.LitImpliesGreater(l, 0):
									case l.Kind == "cmp" && l.Op == token.EQL && (core.IsNilConst(l.X) || core.IsNilConst(l.Y)):
									default:
										extra = l.String()
									}
								}
							}
						}
						for _, l := range lits {
							if !core.IsLoopBound(l) {
								extra = l.String()
							}
						}
						if tailOK && baseOK && genOK {
							generated = extra == ""
							whyG = ternary(generated, "every non-nil generated converter is collected and then added (the tail of the converter list after the supplied ones)", "registration is filtered by "+extra)
						}
					}
				}
			}
			// receiver: an element of the list a private step collected from the generators (`generated, err := b.generate(g)`)
			if ld, ok := recv.(*ssa.UnOp); ok && !generated {
				if ia, ok := ld.X.(*ssa.IndexAddr); ok {
					if ex, ok := ia.X.(*ssa.Extract); ok {
						if hc, ok := ex.Tuple.(*ssa.Call); ok {
							if h := hc.Common().StaticCallee(); h != nil && p.PrivateHelper(h) {
								genOK, extra := false, ""
								for _, hr := range core.Returns(h) {
									if ex.Index >= len(hr.Results) {
										continue
									}
									if k, isK := hr.Results[ex.Index].(*ssa.Const); isK && k.Value == nil {
										continue // the error exits
									}
									for _, ap := range appendSites(h, hr.Results[ex.Index]) {
										for _, e := range appendedValues(ap) {
											ge, ok := e.(*ssa.Extract)
											if !ok {
												extra = "an element that is not a generator's result is collected"
												continue
											}
											gc, ok := ge.Tuple.(*ssa.Call)
											if !ok || gc.Common().IsInvoke() || gc.Common().StaticCallee() != nil || core.TypeStr(gc.Common().Value.Type()) != "ConverterGenFunc" {
												extra = "an element that is not a generator's result is collected"
												continue
											}
											genOK = true
											for _, l := range core.Lits(core.Guards(ap.Block())) {
												switch {
												case core.IsLoopBound(l):
												case l.Kind == "cmp" && l.Op == token.GTR:
												case core.LitImpliesGreater(l, 0):
												case l.Kind == "cmp" && l.Op == token.EQL && (core.IsNilConst(l.X) || core.IsNilConst(l.Y)):
												default:
													extra = l.String()
												}
											}
										}
									}
								}
								for _, l := range lits {
									switch {
									case core.IsLoopBound(l):
									case l.Kind == "cmp" && l.Op == token.GTR:
									case core.LitImpliesGreater(l, 0):
									case l.Kind == "cmp" && l.Op == token.EQL && (core.IsNilConst(l.X) || core.IsNilConst(l.Y)):
									default:
										extra = l.String()
									}
								}
								if genOK {
									generated = extra == ""
									whyG = ternary(generated, "every non-nil generated converter is collected by a private step and then added", "registration is filtered by "+extra)
								}
							}
						}
					}
				}
			}
			// the converter is added with its outputs
			if k, ok := ci.Common().Args[len(ci.Common().Args)-1].(*ssa.Const); ok && k.Value != nil && k.Value.ExactString() != "true" {
				supplied, whyS = false, "converter added without its outputs"
			}
		}
		c.R.Add("INPUT-C", "inputBuilder|every-supplied-converter-registered", "inputBuilder", p.Pos(ib.Pos()), supplied,
			"every supplied converter is added to the resolution graph together with its outputs — none is filtered, merged or de-duplicated away", whyS)
		c.R.Add("INPUT-C", "inputBuilder|every-generated-converter-registered", "inputBuilder", p.Pos(ib.Pos()), generated,
			"every converter a generator returns is added to the resolution graph", whyG)
	}
	// every generator is consulted for every value: the loop around the generator call is left only when the
	// generators are exhausted or with an error (a declining generator must not end the loop for the ones after it)
	for _, g := range p.Region(ib) {
		for _, ci := range core.Calls(g) {
			cc := ci.Common()
			if cc.IsInvoke() || cc.StaticCallee() != nil || core.TypeStr(cc.Value.Type()) != "ConverterGenFunc" {
				continue
			}
			var inner *loopInfo
			for _, lp := range naturalLoops(g) {
				lp := lp
				if lp.body[ci.Block()] && (inner == nil || len(lp.body) < len(inner.body)) {
					inner = &lp
				}
			}
			if inner == nil {
				continue
			}
			w := c.silentLoopExit(inner.header, inner.body)
			c.R.Add("INPUT-C", "generators|every-generator-consulted|"+core.FuncName(g), core.FuncName(g), p.InstrPos(ci), w == "",
				"the loop over the converter generators is left only when they are exhausted or with an error: every generator sees every value", ternary(w == "", "exhaustion or error exits only", w))
		}
	}
	// option closures key the typed maps by the value's own type
	n := 0
	for _, f := range p.ArgFuncs() {
		core.Instrs(f, func(in ssa.Instruction) {
			mu, ok := in.(*ssa.MapUpdate)
			if !ok || core.TypeStr(mu.Key.Type()) != "reflect.Type" {
				return
			}
			var fr core.FieldRef
			var isF bool
			if fr, isF = core.AsFieldLoad(mu.Map); !isF || fr.Owner != "argBuilder" {
				return
			}
			n++
			// stored value (or, for the outer map of typedSub, the inner map that receives it) belongs to the same rv
			okk := false
			if cl, ok := mu.Key.(*ssa.Call); ok && core.CalleeName(cl.Common()) == "(reflect.Value).Type" {
				rv := cl.Common().Args[0]
				if mu.Value == rv {
					okk = true
				}
				if _, isMk := mu.Value.(*ssa.MakeMap); isMk {
					// inner map: some update in this function stores rv under it
					core.Instrs(f, func(in2 ssa.Instruction) {
						if m2, ok := in2.(*ssa.MapUpdate); ok && m2.Value == rv {
							okk = true
						}
					})
				}
			}
			c.R.Func(core.FuncName(f))
			c.R.Add("INPUT", fmt.Sprintf("%s|argBuilder.%s keyed by own type", core.FuncName(f), fr.Field), core.FuncName(f), p.InstrPos(mu), okk,
				"a type-only option value is filed under its own dynamic type", fmt.Sprintf("ok=%v", okk))
		})
	}
}

func isRangeVal(v ssa.Value) bool {
	e, ok := v.(*ssa.Extract)
	if !ok {
		return false
	}
	_, isNext := e.Tuple.(*ssa.Next)
	return isNext && e.Index == 2
}

func isRangeKey(v ssa.Value) bool {
	e, ok := v.(*ssa.Extract)
	if !ok {
		return false
	}
	_, isNext := e.Tuple.(*ssa.Next)
	return isNext && e.Index == 1
}
