package rules

import (
	"fmt"
	"go/token"
	"go/types"
	"sort"
	"strings"

	"argverif/internal/core"

	"golang.org/x/tools/go/ssa"
)

// TERM — termination witnesses (C02, C05, C06, C20). DESIGN §4 TERM, §9.3.

func init() {
	register(&Engine{
		Name:  "TERM",
		Doc:   "visited/in-progress witnesses for recursive SCCs; loop classification with a reviewed table of irregular loops",
		Run:   runTerm,
		Floor: map[string]int{"TERM-W1": 3, "TERM-W2": 3, "TERM-W3": 2, "TERM-L": 20},
	})
}

// reviewedLoops: irregular loops accepted after review, keyed by function + descriptor, with the invariant that bounds them.
var reviewedLoops = map[string]string{
	"Graph.EdgeToPath|walk":      "follows the predecessor map of one Dijkstra run; that map is acyclic because a vertex's predecessor is only set while the vertex is unvisited and from an already visited vertex (rule HEAP-H3 not-visited, checked in this run)",
	"Graph.KahnSort|worklist":    "every iteration removes one vertex from the work list; a vertex is pushed only when its last incoming edge is removed, which happens at most once per vertex on the private copy",
	"stronglyConnected|pop":      "the stack holds the vertex being finished (pushed by visit before any pop), so popping until it appears stops after at most len(stack) steps; pop returns nil only on an empty stack, which v never equals",
	"Graph.Dijkstra|queue-drain": "mechanical: the loop pops one item per iteration and never pushes",
}

type loopInfo struct {
	fn     *ssa.Function
	header *ssa.BasicBlock
	body   map[*ssa.BasicBlock]bool
}

func naturalLoops(f *ssa.Function) []loopInfo {
	var out []loopInfo
	byHeader := map[*ssa.BasicBlock]map[*ssa.BasicBlock]bool{}
	for _, b := range f.Blocks {
		for _, s := range b.Succs {
			if s.Dominates(b) { // back edge b -> s
				body := byHeader[s]
				if body == nil {
					body = map[*ssa.BasicBlock]bool{s: true}
					byHeader[s] = body
				}
				// collect nodes that reach b without passing s
				work := []*ssa.BasicBlock{b}
				for len(work) > 0 {
					x := work[len(work)-1]
					work = work[:len(work)-1]
					if body[x] {
						continue
					}
					body[x] = true
					for _, pr := range x.Preds {
						work = append(work, pr)
					}
				}
			}
		}
	}
	var hs []*ssa.BasicBlock
	for h := range byHeader {
		hs = append(hs, h)
	}
	sort.Slice(hs, func(i, j int) bool { return hs[i].Index < hs[j].Index })
	for _, h := range hs {
		out = append(out, loopInfo{f, h, byHeader[h]})
	}
	return out
}

// classifyLoop returns "" with a kind when the loop is regular, or a descriptor for irregular loops.
func classifyLoop(c *Ctx, l loopInfo) (kind string, regular bool, detail string) {
	h := l.header
	// range over map / string / channel: header contains Next
	for _, in := range h.Instrs {
		if n, ok := in.(*ssa.Next); ok {
			_ = n
			return "range", true, "range over a map"
		}
	}
	iff, _ := h.Instrs[len(h.Instrs)-1].(*ssa.If)
	if iff == nil {
		// condition-less loop (`for { … break }`)
		return "unconditional", false, "loop without a header condition"
	}
	lit := core.LitOf(iff.Cond, true)
	if lit.Kind == "cmp" && (lit.Op == token.LSS || lit.Op == token.LEQ || lit.Op == token.GTR || lit.Op == token.GEQ) {
		// counted: one side is a phi (or phi+1) that moves by a constant each iteration towards the other side, which is loop-invariant
		step := func(v ssa.Value) (ph *ssa.Phi, dir int) {
			switch x := v.(type) {
			case *ssa.Phi:
				if x.Block() == h {
					for _, e := range x.Edges {
						if b, ok := e.(*ssa.BinOp); ok && (b.Op == token.ADD || b.Op == token.SUB) {
							if k, ok := core.ConstInt(b.Y); ok && k > 0 && (b.X == ssa.Value(x) || isPhiPlus(b.X, x)) {
								if b.Op == token.ADD {
									return x, 1
								}
								return x, -1
							}
						}
					}
				}
			case *ssa.BinOp:
				// rotated range-index form: idx+1 < len where idx is the header phi
				if k, ok := core.ConstInt(x.Y); ok && k > 0 && x.Op == token.ADD {
					if ph, ok := x.X.(*ssa.Phi); ok && ph.Block() == h {
						for _, e := range ph.Edges {
							if e == ssa.Value(x) {
								return ph, 1
							}
						}
					}
				}
			}
			return nil, 0
		}
		var invariant func(v ssa.Value) bool
		invariant = func(v ssa.Value) bool {
			switch x := v.(type) {
			case *ssa.Const, *ssa.Parameter:
				return true
			case *ssa.BinOp:
				// arithmetic over invariants (`len(s)/2`)
				if !l.body[x.Block()] {
					return true
				}
				return invariant(x.X) && invariant(x.Y)
			case ssa.Instruction:
				// defined outside the loop, or a pure re-read (len / NumField / field load) of something not stored in the loop
				if !l.body[x.Block()] {
					return true
				}
				if cl, ok := v.(*ssa.Call); ok {
					n := core.CalleeName(cl.Common())
					if n == "builtin.len" || n == "(reflect.Type).NumField" || n == "(reflect.Type).NumOut" {
						return true
					}
				}
				if _, ok := core.AsFieldLoad(v); ok {
					return true
				}
				if cv, ok := v.(*ssa.Convert); ok {
					_ = cv
					return true
				}
			}
			return false
		}
		px, dx := step(lit.X)
		py, dy := step(lit.Y)
		switch {
		case px != nil && dx > 0 && (lit.Op == token.LSS || lit.Op == token.LEQ) && (invariant(lit.Y) || (py != nil && dy < 0)):
			return "counted", true, "counter increases towards a bound"
		case py != nil && dy > 0 && (lit.Op == token.GTR || lit.Op == token.GEQ) && invariant(lit.X):
			return "counted", true, "counter increases towards a bound"
		case px != nil && dx < 0 && (lit.Op == token.GTR || lit.Op == token.GEQ) && invariant(lit.Y):
			return "counted", true, "counter decreases towards a bound"
		}
	}
	// rotated counted loop (`for i := range n` with a body of several blocks): the test sits in the single latch block —
	// `i+1 < n` with i a header phi advanced by that very sum, n not computed in the loop — and leads back to the header
	{
		var latches []*ssa.BasicBlock
		for _, pr := range h.Preds {
			if l.body[pr] {
				latches = append(latches, pr)
			}
		}
		if len(latches) == 1 && len(latches[0].Instrs) > 0 && len(latches[0].Succs) == 2 && latches[0].Succs[0] == h {
			if iff2, ok := latches[0].Instrs[len(latches[0].Instrs)-1].(*ssa.If); ok {
				l2 := core.LitOf(iff2.Cond, true)
				if l2.Kind == "cmp" && l2.Op == token.LSS {
					if sum, ok := l2.X.(*ssa.BinOp); ok && sum.Op == token.ADD {
						if k, isK := core.ConstInt(sum.Y); isK && k > 0 {
							if ph, ok := sum.X.(*ssa.Phi); ok && ph.Block() == h {
								adv := false
								for _, e := range ph.Edges {
									if e == ssa.Value(sum) {
										adv = true
									}
								}
								inv := false
								switch y := l2.Y.(type) {
								case *ssa.Const, *ssa.Parameter:
									inv = true
								case ssa.Instruction:
									inv = !l.body[y.Block()]
									if cl, ok := l2.Y.(*ssa.Call); ok && !inv {
										n := core.CalleeName(cl.Common())
										inv = n == "builtin.len" || n == "(reflect.Type).NumField" || n == "(reflect.Type).NumOut" || n == "(reflect.Type).NumIn"
									}
								}
								if adv && inv {
									return "counted", true, "counter increases towards a bound (test in the latch block)"
								}
							}
						}
					}
				}
			}
		}
	}
	// pointer unwrapping: cond Kind()==Ptr on a header phi whose loop edge is its own Elem()
	if lit.Kind == "cmp" && lit.Op == token.EQL {
		if k, ok := core.ConstInt(lit.Y); ok && k == 22 {
			if cl, ok := lit.X.(*ssa.Call); ok && strings.HasSuffix(core.CalleeName(cl.Common()), ".Kind") {
				if ph, ok := cl.Common().Value.(*ssa.Phi); ok && ph.Block() == h {
					okk := false
					for _, e := range ph.Edges {
						if ec, ok := e.(*ssa.Call); ok && strings.HasSuffix(core.CalleeName(ec.Common()), ".Elem") && ec.Common().Value == ssa.Value(ph) {
							okk = true
						}
					}
					if okk {
						return "pointer-unwrap", true, "structural descent through a finite type: each iteration replaces the type by its element type"
					}
				}
			}
		}
	}
	// queue drain: cond Len()>0 / len(x)>0 (or the exit form Len()==0 / len(x)==0)
	if lit.Kind == "cmp" && (lit.Op == token.GTR || lit.Op == token.EQL) {
		if k, ok := core.ConstInt(lit.Y); ok && k == 0 {
			if cl, ok := lit.X.(*ssa.Call); ok {
				n := core.CalleeName(cl.Common())
				if strings.HasSuffix(n, ".Len") {
					// mechanical: heap.Pop in a block that every iteration passes, no heap.Push in the loop
					pop, push := false, false
					for b := range l.body {
						for _, in := range b.Instrs {
							if ci, ok := in.(ssa.CallInstruction); ok {
								pp, ps := heapEffect(c, ci)
								if pp && (b == h.Succs[0] || b.Dominates(lastBackEdgeSource(l))) {
									pop = true
								}
								if ps {
									push = true
								}
							}
						}
					}
					if pop && !push {
						return "queue-drain", true, "mechanical: pops one item per iteration and never pushes"
					}
					return "queue-drain", false, fmt.Sprintf("queue loop: pop-every-iteration=%v pushes=%v", pop, push)
				}
				if n == "builtin.len" {
					// a priority-queue drain written with len(queue): pops one item per iteration, never pushes
					pop, push := false, false
					for b := range l.body {
						for _, in := range b.Instrs {
							if ci, ok := in.(ssa.CallInstruction); ok {
								switch core.CalleeName(ci.Common()) {
								case heapPop:
									if b == h.Succs[0] || b.Dominates(lastBackEdgeSource(l)) {
										pop = true
									}
								case heapPush:
									push = true
								}
							}
						}
					}
					if pop && !push {
						return "queue-drain", true, "mechanical: pops one item per iteration and never pushes"
					}
					return "worklist", false, "work-list loop (len(S) > 0)"
				}
			}
		}
	}
	if lit.Kind == "cmp" && lit.Op == token.EQL && (core.IsNilConst(lit.X) || core.IsNilConst(lit.Y)) {
		return "walk", false, "pointer/predecessor walk until nil"
	}
	if lit.Kind == "cmp" && lit.Op == token.EQL {
		for _, v := range []ssa.Value{lit.X, lit.Y} {
			if cl, ok := v.(*ssa.Call); ok && cl.Common().StaticCallee() != nil && l.body[cl.Block()] {
				return "unconditional", false, "loop that repeats until a call result equals a given value (pop-until)"
			}
		}
	}
	return "other", false, "loop with condition " + lit.String()
}

func isPhiPlus(v ssa.Value, ph *ssa.Phi) bool { return v == ssa.Value(ph) }

// heapEffect classifies a call inside a loop body: a direct heap.Pop / heap.Push, or a private helper that pops on every
// path (pop) / contains a push anywhere in its region (push).
func heapEffect(c *Ctx, ci ssa.CallInstruction) (pop, push bool) {
	switch core.CalleeName(ci.Common()) {
	case heapPop:
		return true, false
	case heapPush:
		return false, true
	}
	h := ci.Common().StaticCallee()
	if h == nil || !c.P.PrivateHelper(h) {
		return false, false
	}
	for _, g := range c.P.Region(h) {
		for _, hc := range core.Calls(g) {
			switch core.CalleeName(hc.Common()) {
			case heapPop:
				if g == h && postDominatesEntry(h, hc.Block()) {
					pop = true
				}
			case heapPush:
				push = true
			}
		}
	}
	return pop, push
}

func lastBackEdgeSource(l loopInfo) *ssa.BasicBlock {
	var last *ssa.BasicBlock
	for b := range l.body {
		for _, s := range b.Succs {
			if s == l.header {
				last = b
			}
		}
	}
	if last == nil {
		return l.header
	}
	return last
}

func runTerm(c *Ctx) {
	p := c.P
	// ------------- loops
	for _, f := range p.Funcs {
		for _, l := range naturalLoops(f) {
			kind, regular, detail := classifyLoop(c, l)
			name := core.FuncName(f)
			c.R.Func(name)
			pos := "-"
			for _, in := range l.header.Instrs {
				if in.Pos().IsValid() {
					pos = p.Pos(in.Pos())
					break
				}
			}
			if pos == "-" {
				pos = p.Pos(f.Pos()) + "~"
			}
			n := 1
			key := fmt.Sprintf("%s|%s", name, kind)
			for c.seenLoop(key) {
				n++
				key = fmt.Sprintf("%s|%s#%d", name, kind, n)
			}
			if regular {
				c.R.Add("TERM-L", key, name, pos, true, "every loop is a range loop, a counted loop, a structural descent, or a reviewed irregular loop", kind+": "+detail)
				continue
			}
			// a loop moved into a private step is reviewed under the function it is a step of
			owner := name
			for g, i := core.Outer(f), 0; i < 4 && p.PrivateHelper(g); i++ {
				sites := p.Callers(g)
				if len(sites) != 1 {
					break
				}
				g = core.Outer(sites[0].Parent())
				owner = core.FuncName(g)
			}
			tkey := owner + "|" + map[string]string{"walk": "walk", "worklist": "worklist", "unconditional": "pop", "queue-drain": "queue-drain"}[kind]
			if why, ok := reviewedLoops[tkey]; ok && n == 1 && kind != "queue-drain" {
				c.R.Add("TERM-L", key, name, pos, true, "every loop is a range loop, a counted loop, a structural descent, or a reviewed irregular loop", "reviewed: "+why)
				continue
			}
			c.R.Add("TERM-L", key, name, pos, false, "every loop is a range loop, a counted loop, a structural descent, or a reviewed irregular loop",
				"irregular loop not in the reviewed table: "+detail)
		}
	}

	// ------------- recursion
	// call graph over target functions: static calls + closure creation
	succ := map[*ssa.Function][]*ssa.Function{}
	for _, f := range p.Funcs {
		for _, ci := range core.Calls(f) {
			if cal := ci.Common().StaticCallee(); cal != nil && p.InTarget(cal) {
				succ[f] = append(succ[f], cal)
			}
		}
		for _, a := range f.AnonFuncs {
			succ[f] = append(succ[f], a)
		}
	}
	sccs := tarjanFuncs(p.Funcs, succ)
	for _, scc := range sccs {
		rec := len(scc) > 1
		if len(scc) == 1 {
			for _, s := range succ[scc[0]] {
				if s == scc[0] {
					rec = true
				}
			}
		}
		if !rec {
			continue
		}
		c.termSCC(scc)
	}
}

func (c *Ctx) seenLoop(key string) bool {
	if c.memo == nil {
		c.memo = map[string]interface{}{}
	}
	k := "loopkey:" + key
	if _, ok := c.memo[k]; ok {
		return true
	}
	c.memo[k] = true
	return false
}

func tarjanFuncs(nodes []*ssa.Function, succ map[*ssa.Function][]*ssa.Function) [][]*ssa.Function {
	index := map[*ssa.Function]int{}
	low := map[*ssa.Function]int{}
	on := map[*ssa.Function]bool{}
	var stack []*ssa.Function
	var out [][]*ssa.Function
	n := 0
	var visit func(v *ssa.Function)
	visit = func(v *ssa.Function) {
		n++
		index[v], low[v] = n, n
		stack = append(stack, v)
		on[v] = true
		for _, w := range succ[v] {
			if index[w] == 0 {
				visit(w)
				if low[w] < low[v] {
					low[v] = low[w]
				}
			} else if on[w] && index[w] < low[v] {
				low[v] = index[w]
			}
		}
		if low[v] == index[v] {
			var comp []*ssa.Function
			for {
				w := stack[len(stack)-1]
				stack = stack[:len(stack)-1]
				on[w] = false
				comp = append(comp, w)
				if w == v {
					break
				}
			}
			out = append(out, comp)
		}
	}
	for _, v := range nodes {
		if index[v] == 0 {
			visit(v)
		}
	}
	return out
}

// termSCC looks for the visited-set / in-progress-set witness of a recursive SCC. When the cycle runs through
// several named functions (a step extracted into a helper that calls back), each of them is tried as the function
// that carries the witness.
func (c *Ctx) termSCC(scc []*ssa.Function) {
	var named []*ssa.Function
	for _, g := range scc {
		if g.Parent() == nil {
			named = append(named, g)
		}
	}
	sort.Slice(named, func(i, j int) bool { return named[i].Pos() < named[j].Pos() })
	if len(named) == 0 {
		named = []*ssa.Function{scc[0]}
	}
	for _, f := range named {
		if c.termSCCWith(scc, f, true) {
			return
		}
	}
	c.termSCCWith(scc, named[0], false)
}

func (c *Ctx) termSCCWith(scc []*ssa.Function, f *ssa.Function, quiet bool) bool {
	p := c.P
	inSCC := map[*ssa.Function]bool{}
	for _, g := range scc {
		inSCC[g] = true
	}
	name := core.FuncName(f)
	c.R.Func(name)
	// recursive call sites (calls to f from inside the SCC)
	var sites []ssa.CallInstruction
	for _, g := range scc {
		for _, ci := range core.Calls(g) {
			if ci.Common().StaticCallee() == f {
				sites = append(sites, ci)
			}
		}
	}
	// candidate witness maps: map-typed parameters of f and map-typed fields of struct parameters
	type cand struct {
		desc   string
		isM    func(v ssa.Value) bool
		insert []ssa.Instruction
	}
	var cands []cand
	for _, prm := range f.Params {
		prm := prm
		if _, ok := prm.Type().Underlying().(*types.Map); ok {
			cands = append(cands, cand{desc: "parameter " + prm.Name(), isM: func(v ssa.Value) bool { return resolvesToParam(p, v, prm) }})
		}
		if s, _ := core.StructOf(prm.Type()); s != nil {
			for i := 0; i < s.NumFields(); i++ {
				if _, ok := s.Field(i).Type().Underlying().(*types.Map); ok {
					fname := core.CanonFieldName(s, i)
					owner := core.NamedOf(prm.Type())
					cands = append(cands, cand{desc: owner + "." + fname, isM: func(v ssa.Value) bool {
						fr, ok := core.AsFieldLoad(v)
						return ok && fr.Owner == owner && fr.Field == fname
					}})
				}
			}
		}
	}
	// set operations on a candidate: direct (M[k] = …, delete(M, k)) or one level down in a callee outside the SCC
	// whose parameter is the key (markX(k) / unmarkX(k) helpers); keys are rendered in f's terms
	type setOp struct {
		in       ssa.Instruction
		key      string
		deferred bool
	}
	collect := func(isM func(ssa.Value) bool, del bool) []setOp {
		var out []setOp
		core.Instrs(f, func(in ssa.Instruction) {
			if !del {
				if mu, ok := in.(*ssa.MapUpdate); ok && isM(mu.Map) && core.SetInsert(mu) {
					out = append(out, setOp{in, core.Path(mu.Key), false})
					return
				}
			}
			ci, ok := in.(ssa.CallInstruction)
			if !ok {
				return
			}
			_, isDefer := in.(*ssa.Defer)
			if del && core.CalleeName(ci.Common()) == "builtin.delete" && isM(ci.Common().Args[0]) {
				out = append(out, setOp{in, core.Path(ci.Common().Args[1]), isDefer})
				return
			}
			cal := ci.Common().StaticCallee()
			var closure *ssa.MakeClosure
			if mc, isMC := ci.Common().Value.(*ssa.MakeClosure); isMC {
				// `defer func() { delete(M, k) }()`: the literal runs when f returns
				closure = mc
				cal, _ = mc.Fn.(*ssa.Function)
			}
			if cal == nil || !p.InTarget(cal) || inSCC[cal] && closure == nil || len(cal.Blocks) == 0 {
				return
			}
			key, found := "", false
			bind := func(v ssa.Value) string {
				if prm, ok := core.Strip(v).(*ssa.Parameter); ok {
					for i, q := range cal.Params {
						if q == prm && i < len(ci.Common().Args) {
							return core.Path(ci.Common().Args[i])
						}
					}
				}
				if closure != nil {
					if d := p.DerefFree(v); d != nil {
						return core.Path(d)
					}
				}
				return "callee:" + core.Path(v)
			}
			core.Instrs(cal, func(in2 ssa.Instruction) {
				if !del {
					if mu, ok := in2.(*ssa.MapUpdate); ok && isM(mu.Map) && core.SetInsert(mu) {
						key, found = bind(mu.Key), true
					}
					return
				}
				if dc, ok := in2.(ssa.CallInstruction); ok && core.CalleeName(dc.Common()) == "builtin.delete" && isM(dc.Common().Args[0]) {
					if _, nested := in2.(*ssa.Defer); !nested {
						key, found = bind(dc.Common().Args[1]), true
					}
				}
			})
			if found {
				out = append(out, setOp{in, key, isDefer})
			}
		})
		return out
	}
	best := -1
	var report []string
	for i := range cands {
		cd := &cands[i]
		ins := collect(cd.isM, false)
		for _, o := range ins {
			cd.insert = append(cd.insert, o.in)
		}
		if len(cd.insert) == 0 {
			continue
		}
		// W1: an insertion dominates every recursive call site (for closure sites: the closure's creation; for a
		// site in a private helper of the SCC: every call of that helper)
		w1 := true
		for _, s := range sites {
			d := false
			for _, in := range cd.insert {
				if p.IDominates(in, s, f) {
					d = true
				}
			}
			if !d {
				w1 = false
			}
		}
		// W2: each site is guarded (directly or through the unsatisfied-list form) by a lookup on M
		w2 := true
		w2how := ""
		for _, s := range sites {
			anchor := ssa.Instruction(s)
			host := s.Parent()
			if host != f && host.Parent() != nil {
				if mc := p.ClosureSite(host); mc != nil {
					anchor = mc
					host = mc.Parent()
					// the closure is consumed by a call in the same block (callback invocation): guard of that block
				}
			}
			g, how := c.guardedByLookup(host, anchor.Block(), cd.isM)
			if !g {
				w2 = false
			} else {
				w2how = how
			}
		}
		report = append(report, fmt.Sprintf("%s: inserts=%d W1=%v W2=%v", cd.desc, len(cd.insert), w1, w2))
		if w1 && w2 {
			best = i
			c.R.Add("TERM-W1", name+"|"+cd.desc, name, p.InstrPos(cd.insert[0]), true,
				"a recursive function records its argument in a set before it can recurse", "insertion into "+cd.desc+" dominates every recursive call")
			c.R.Add("TERM-W2", name+"|"+cd.desc, name, p.InstrPos(sites[0]), true,
				"every recursive call is guarded by a membership test on that set", w2how)
			// W3: in-progress discipline when the set is also released
			dels := collect(cd.isM, true)
			var plain, deferred []ssa.Instruction
			var pk, dk []string
			for _, o := range dels {
				if o.deferred {
					deferred, dk = append(deferred, o.in), append(dk, o.key)
				} else {
					plain, pk = append(plain, o.in), append(pk, o.key)
				}
			}
			c.termRelease(f, name, cd.desc, ins[0].in, ins[0].key, plain, pk, deferred, dk, sites)
			break
		}
	}
	if best < 0 && !quiet {
		c.R.Add("TERM-W1", name+"|witness", name, p.Pos(f.Pos()), false,
			"a recursive function carries a visited-set or in-progress-set witness (insertion before recursion, membership test guarding it)",
			"no witness found; candidates: "+strings.Join(report, "; "))
	}
	return best >= 0
}

func resolvesToParam(p *core.Prog, v ssa.Value, prm *ssa.Parameter) bool {
	for _, s := range core.Sources(v) {
		if s != ssa.Value(prm) {
			return false
		}
	}
	return true
}

// guardedByLookup: block b (in f) is guarded by a membership test on M — directly
// (`_, ok := M[k]; !ok`, `M[k] == 0`) or through the unsatisfied-list form: a
// list whose appends are guarded by `ok(M[k])` and whose non-emptiness returns before b.
func (c *Ctx) guardedByLookup(f *ssa.Function, b *ssa.BasicBlock, isM func(ssa.Value) bool) (bool, string) {
	lits := c.P.ExpandLits(c.P.ILits(b))
	for _, l := range lits {
		if lk, in, ok := core.MemberLit(l); ok && !in && isM(lk.X) {
			return true, "guarded by `not in set`"
		}
		if l.Kind == "cmp" && l.Op == token.EQL && l.Pol {
			for _, pair := range [][2]ssa.Value{{l.X, l.Y}, {l.Y, l.X}} {
				if lk, ok := pair[0].(*ssa.Lookup); ok && isM(lk.X) {
					if k, ok := core.ConstInt(pair[1]); ok && k == 0 {
						return true, "guarded by `index in set == 0` (unvisited)"
					}
				}
			}
		}
	}
	// list form
	for _, l := range lits {
		if l.Kind != "cmp" {
			continue
		}
		cl, ok := l.X.(*ssa.Call)
		if !ok || core.CalleeName(cl.Common()) != "builtin.len" {
			continue
		}
		k, isK := core.ConstInt(l.Y)
		if !isK || k != 0 || !((l.Op == token.GTR && !l.Pol) || (l.Op == token.EQL && l.Pol)) {
			continue
		}
		list := cl.Common().Args[0]
		for _, ap := range appendSites(f, list) {
			for _, l2 := range c.P.ExpandLits(c.P.ILits(ap.Block())) {
				if lk, in, ok := core.MemberLit(l2); ok && in && isM(lk.X) {
					return true, "guarded by emptiness of a list that receives an entry whenever a vertex on a chosen path is in the set"
				}
			}
		}
	}
	return false, ""
}

// termRelease checks the stack discipline of an in-progress set (W3).
func (c *Ctx) termRelease(f *ssa.Function, name, desc string, ins ssa.Instruction, insKey string, plain []ssa.Instruction, plainKeys []string, deferred []ssa.Instruction, deferredKeys []string, sites []ssa.CallInstruction) {
	p := c.P
	if len(deferred)+len(plain) == 0 {
		return // a pure visited set: never released, nothing to check
	}
	// (a) released on every exit: a defer right after the insertion with the same key, or a delete before every return
	releasedAll := false
	how := ""
	for i, d := range deferred {
		if deferredKeys[i] == insKey && core.InstrDominates(ins, d) && d.Block() == ins.Block() {
			// no return can happen between insertion and defer registration (same block)
			releasedAll, how = true, "deferred release (same key) registered in the block of the insertion"
		}
	}
	if !releasedAll && len(plain) > 0 {
		releasedAll = true
		for _, r := range core.Returns(f) {
			if !core.InstrDominates(ins, r) && !core.CanFollow(ins, r) {
				continue
			}
			covered := false
			for i, d := range plain {
				if plainKeys[i] == insKey && core.InstrDominates(d, r) {
					covered = true
				}
			}
			if !covered {
				releasedAll = false
				how = "return at " + p.InstrPos(r) + " is not preceded by a release"
			}
		}
		if releasedAll {
			how = "explicit release before every return"
		}
	}
	c.R.Add("TERM-W3", name+"|"+desc+"|released-on-every-exit", name, p.InstrPos(ins), releasedAll,
		"an in-progress set is a stack discipline: what a call inserts it releases on every exit (otherwise an acyclic converter set in which one converter is needed twice is misreported as cyclic)",
		ternary(releasedAll, how, "insertion not released on all exits: "+how))
	// (b) not released early: no non-deferred release can execute before a recursive call
	early := ""
	for _, d := range plain {
		for _, s := range sites {
			anchors, _ := p.Anchors(s, f)
			for _, a := range anchors {
				if core.CanFollow(d, a) {
					early = "release at " + p.InstrPos(d) + " can execute before the recursive call at " + p.InstrPos(s)
				}
			}
		}
	}
	c.R.Add("TERM-W3", name+"|"+desc+"|held-during-recursion", name, p.InstrPos(ins), early == "",
		"the in-progress mark is held for the whole time nested resolution can run (otherwise mutually dependent converters recurse without bound)", ternary(early == "", "no release before a recursive call", early))
}
