package rules

import (
	"fmt"
	"go/token"
	"go/types"
	"strings"

	"argverif/internal/core"

	"golang.org/x/tools/go/ssa"
)

// MIRROR / COPY / PURITY — package graph (C19). See DESIGN §4.

type graphFields struct {
	out, in, hash string
}

// graphFieldRoles names the adjacency fields by role: "out" is the field the
// exported OutEdges reads, "in" the one InEdges reads, "hash" the vertex table.
func (c *Ctx) graphFieldRoles() (*graphFields, error) {
	if v, ok := c.memo["graphFields"]; ok {
		return v.(*graphFields), nil
	}
	p := c.P
	gf := &graphFields{}
	read := func(method string) (string, error) {
		f := p.Method(p.Graph, "Graph", method)
		if f == nil {
			return "", fmt.Errorf("(*Graph).%s not found", method)
		}
		fields := map[string]bool{}
		core.Instrs(f, func(in ssa.Instruction) {
			if fa, ok := in.(*ssa.FieldAddr); ok {
				if fr, ok := core.AsFieldAddr(fa); ok && fr.Owner == "graph.Graph" {
					if mt, ok := fa.Type().(*types.Pointer).Elem().Underlying().(*types.Map); ok {
						if _, inner := mt.Elem().Underlying().(*types.Map); inner {
							fields[fr.Field] = true
						}
					}
				}
			}
		})
		if len(fields) != 1 {
			return "", fmt.Errorf("(*Graph).%s reads %d adjacency fields, expected 1", method, len(fields))
		}
		for k := range fields {
			return k, nil
		}
		return "", nil
	}
	var err error
	if gf.out, err = read("OutEdges"); err != nil {
		return nil, err
	}
	if gf.in, err = read("InEdges"); err != nil {
		return nil, err
	}
	if gf.out == gf.in {
		return nil, fmt.Errorf("OutEdges and InEdges read the same field %s", gf.out)
	}
	m, _ := p.Graph.Members["Graph"].(*ssa.Type)
	s, _ := core.StructOf(m.Type())
	for i := 0; i < s.NumFields(); i++ {
		if mt, ok := s.Field(i).Type().Underlying().(*types.Map); ok {
			if _, inner := mt.Elem().Underlying().(*types.Map); !inner {
				gf.hash = s.Field(i).Name()
			}
		}
	}
	if gf.hash == "" {
		return nil, fmt.Errorf("vertex table field of Graph not found")
	}
	if c.memo == nil {
		c.memo = map[string]interface{}{}
	}
	c.memo["graphFields"] = gf
	return gf, nil
}

type mapRef struct {
	level string // outer | inner | hash | other
	field string // out | in | hash
	base  ssa.Value
	key   string // inner: path of the outer key
	keyV  ssa.Value
}

func (m mapRef) String() string {
	switch m.level {
	case "outer", "hash":
		return m.field
	case "inner":
		return m.field + "[" + m.key + "]"
	}
	return "other"
}

// substEnv replaces a helper parameter by the value bound to it in the current virtual inlining.
func substEnv(v ssa.Value) ssa.Value {
	for i := 0; i < 4; i++ {
		prm, ok := core.Strip(v).(*ssa.Parameter)
		if !ok {
			return v
		}
		sub, ok := core.PathEnv[prm]
		if !ok || sub == nil {
			return v
		}
		v = sub
	}
	return v
}

func (c *Ctx) classifyMap(gf *graphFields, m ssa.Value) mapRef {
	if prm, ok := m.(*ssa.Parameter); ok {
		if sub, ok := core.PathEnv[prm]; ok && sub != nil {
			return c.classifyMap(gf, sub)
		}
	}
	role := func(field string) string {
		switch field {
		case gf.out:
			return "out"
		case gf.in:
			return "in"
		case gf.hash:
			return "hash"
		}
		return ""
	}
	if fr, ok := core.AsFieldLoad(m); ok && fr.Owner == "graph.Graph" {
		r := role(fr.Field)
		base := substEnv(fr.Base)
		if r == "hash" {
			return mapRef{level: "hash", field: r, base: base}
		}
		if r != "" {
			return mapRef{level: "outer", field: r, base: base}
		}
	}
	var lk *ssa.Lookup
	switch x := m.(type) {
	case *ssa.Lookup:
		lk = x
	case *ssa.Extract:
		if l, ok := x.Tuple.(*ssa.Lookup); ok && x.Index == 0 {
			lk = l
		}
		if n, ok := x.Tuple.(*ssa.Next); ok && x.Index == 2 {
			if r, ok := n.Iter.(*ssa.Range); ok {
				o := c.classifyMap(gf, r.X)
				if o.level == "outer" {
					kp := "rangekey(" + core.Path(r.X) + ")@" + fmt.Sprintf("%p", n)
					return mapRef{level: "inner", field: o.field, base: o.base, key: kp}
				}
			}
		}
	}
	if lk != nil {
		o := c.classifyMap(gf, lk.X)
		if o.level == "outer" {
			return mapRef{level: "inner", field: o.field, base: o.base, key: core.Path(lk.Index), keyV: substEnv(lk.Index)}
		}
	}
	return mapRef{level: "other"}
}

type mapMut struct {
	in    ssa.Instruction
	del   bool
	ref   mapRef
	key   string
	keyV  ssa.Value
	val   ssa.Value
	block *ssa.BasicBlock
	// when the outer key of ref ranges over a map: that map's classification (computed where the loop lives)
	rangeSrc *mapRef
	valPath  string
	// virtual inlining: the instruction inside the helper and the parameter binding of that call
	orig      ssa.Instruction
	origBlock *ssa.BasicBlock
	env       map[*ssa.Parameter]ssa.Value
	// the mutation is conditional inside the helper it was inlined from
	conditional bool
}

func (c *Ctx) mapMuts(gf *graphFields, f *ssa.Function) []mapMut {
	return c.mapMutsDepth(gf, f, 0)
}

func (c *Ctx) mapMutsDepth(gf *graphFields, f *ssa.Function, depth int) []mapMut {
	var out []mapMut
	rangeSrcOf := func(ref mapRef) *mapRef {
		if !strings.HasPrefix(ref.key, "rangekey(") {
			return nil
		}
		var res *mapRef
		for _, g := range c.P.GraphFuncs() {
			core.Instrs(g, func(in ssa.Instruction) {
				if n, ok := in.(*ssa.Next); ok {
					if rg, ok := n.Iter.(*ssa.Range); ok {
						kp := "rangekey(" + core.Path(rg.X) + ")@" + fmt.Sprintf("%p", n)
						if kp == ref.key {
							saved := core.PathEnv
							if g != f {
								core.PathEnv = nil // the loop lives in a caller: classify it in the caller's own terms
							}
							r := c.classifyMap(gf, rg.X)
							core.PathEnv = saved
							res = &r
						}
					}
				}
			})
		}
		return res
	}
	core.Instrs(f, func(in ssa.Instruction) {
		switch x := in.(type) {
		case *ssa.MapUpdate:
			ref := c.classifyMap(gf, x.Map)
			out = append(out, mapMut{in: in, ref: ref, key: core.Path(x.Key), keyV: substEnv(x.Key), val: substEnv(x.Value), block: in.Block(), rangeSrc: rangeSrcOf(ref), valPath: core.Path(x.Value)})
		case ssa.CallInstruction:
			if core.CalleeName(x.Common()) == "builtin.delete" {
				a := x.Common().Args
				ref := c.classifyMap(gf, a[0])
				out = append(out, mapMut{in: in, del: true, ref: ref, key: core.Path(a[1]), keyV: substEnv(a[1]), block: in.Block(), rangeSrc: rangeSrcOf(ref)})
				return
			}
			// virtual inlining: a private helper (function or method, two levels), or any in-target
			// non-method helper that receives adjacency maps / the vertex table (one level)
			cal := x.Common().StaticCallee()
			if cal == nil || !c.P.InTarget(cal) || cal.Blocks == nil || cal == f {
				return
			}
			private := c.P.PrivateHelper(cal)
			if private {
				if depth > 1 {
					return
				}
			} else {
				if depth > 0 {
					return
				}
				if cal.Signature.Recv() != nil && core.NamedOf(cal.Signature.Recv().Type()) == "graph.Graph" {
					return // exported methods of Graph are analysed in their own right
				}
				passes := false
				for _, a := range x.Common().Args {
					if r := c.classifyMap(gf, a); r.level != "other" {
						passes = true
					}
				}
				if !passes {
					return
				}
			}
			saved := core.PathEnv
			env := map[*ssa.Parameter]ssa.Value{}
			for k, v := range saved {
				env[k] = v
			}
			for i, prm := range cal.Params {
				if i < len(x.Common().Args) {
					env[prm] = substEnv(x.Common().Args[i])
				}
			}
			core.PathEnv = env
			for _, m := range c.mapMutsDepth(gf, cal, depth+1) {
				// the helper's mutations happen at the call site as far as the caller's control flow is concerned
				if m.orig == nil {
					m.orig = m.in
					m.origBlock = m.block
					m.env = env
				}
				if !postDominatesEntry(cal, loopHeaderOrSelf(m.block)) {
					// an early return taken only when the key is not in the very table the mutation is about
					// (`peers, ok := own[h]; if !ok { return }` before `delete(own, h)` and the loop over own[h]) skips
					// nothing: without the entry the deletion and the neighbour loop do nothing
					harmless := func(r *ssa.Return) bool {
						for _, l := range core.Lits(core.Guards(r.Block())) {
							lk, pol, ok := core.MemberLit(l)
							if !ok || pol {
								continue
							}
							ref := c.classifyMap(gf, lk.X)
							if ref.level != "outer" {
								continue
							}
							k := core.Path(lk.Index)
							if m.del && m.ref.level == "outer" && m.ref.field == ref.field && m.key == k {
								return true
							}
							if m.del && m.rangeSrc != nil && m.rangeSrc.level == "inner" && m.rangeSrc.field == ref.field && m.rangeSrc.key == k {
								return true
							}
						}
						return false
					}
					hb := loopHeaderOrSelf(m.block)
					allHarmless := true
					for _, r := range core.Returns(cal) {
						if r.Block() == hb {
							continue
						}
						if core.ReachableAvoiding(cal.Blocks[0], r.Block(), map[*ssa.BasicBlock]bool{hb: true}) && cal.Blocks[0] != hb && !harmless(r) {
							allHarmless = false
						}
					}
					if !allHarmless {
						m.conditional = true
					}
				}
				m.in = in
				m.block = in.Block()
				out = append(out, m)
			}
			core.PathEnv = saved
		}
	})
	return out
}

func other(field string) string {
	if field == "out" {
		return "in"
	}
	return "out"
}

// postDominatesEntry: every path from entry to a return passes block b.
func postDominatesEntry(f *ssa.Function, b *ssa.BasicBlock) bool {
	for _, r := range core.Returns(f) {
		if r.Block() == b {
			continue
		}
		if core.ReachableAvoiding(f.Blocks[0], r.Block(), map[*ssa.BasicBlock]bool{b: true}) && f.Blocks[0] != b {
			return false
		}
	}
	return true
}

func init() {
	register(&Engine{
		Name: "MIRROR",
		Doc:  "paired in/out adjacency updates, copy freshness, reverse view, purity of read-only methods (package graph)",
		Run:  runMirror,
		Floor: map[string]int{
			"MIRROR-EDGE": 2, "MIRROR-DEL": 2, "MIRROR-REMOVE": 5, "MIRROR-ADD": 4, "COPY": 4, "REVERSE": 3, "PURITY": 8, "MIRROR-KEY": 6, "MIRROR-VERT": 3,
		},
	})
}

func runMirror(c *Ctx) {
	p := c.P
	runGraphHelpers(c)
	gf, err := c.graphFieldRoles()
	if err != nil {
		c.R.Undecided("MIRROR-EDGE", "fields", "graph.Graph", "-", err.Error())
		return
	}
	c.R.Note("MIRROR", "adjacency fields by role: out=%s in=%s hash=%s", gf.out, gf.in, gf.hash)
	mutators := map[string]bool{"Add": true, "AddOverwrite": true, "Remove": true, "AddEdge": true, "AddEdgeWeighted": true, "RemoveEdge": true}
	hashcodeFn := p.HashcodeFn()

	isHashOfParam := func(v ssa.Value, f *ssa.Function) (int, bool) {
		call, ok := v.(*ssa.Call)
		if !ok || call.Common().StaticCallee() != hashcodeFn || hashcodeFn == nil {
			return 0, false
		}
		a := core.Strip(call.Common().Args[0])
		for i, prm := range f.Params {
			if a == prm {
				return i, true
			}
		}
		return 0, false
	}

	for _, f := range p.GraphFuncs() {
		muts := c.mapMuts(gf, f)
		// a private helper's mutations are analysed where it is called (virtual inlining): pairing and purity are
		// decided there, in the control context of an exported operation
		inlinedElsewhere := false
		if p.PrivateHelper(f) && f.Name() != "init" {
			for _, m := range muts {
				if m.ref.level != "other" {
					inlinedElsewhere = true
				}
			}
		}
		name := core.FuncName(f)
		c.R.Func(name)
		// an operation that makes the tables on first use does so before it writes any of them (a write to a table of
		// the zero Graph is a write to a nil map)
		if initM := p.Method(p.Graph, "Graph", "init"); initM != nil && f != initM {
			var initCall ssa.Instruction
			for _, ci := range core.Calls(f) {
				if ci.Common().StaticCallee() == initM && initCall == nil {
					initCall = ci
				}
			}
			if initCall != nil {
				early := ""
				for _, m := range muts {
					if m.ref.level == "other" {
						continue
					}
					if m.in.Parent() == f && !core.InstrDominates(initCall, m.in) {
						early = p.InstrPos(m.in)
					}
				}
				c.R.Add("MIRROR-ADD", core.FuncName(f)+"|tables-made-before-written", name, p.InstrPos(initCall), early == "",
					"the tables are made (init) before the operation writes any of them", ternary(early == "", "init first", "a table is written at "+early+" before init ran"))
			}
		}
		isMethod := f.Signature.Recv() != nil && core.NamedOf(f.Signature.Recv().Type()) == "graph.Graph"
		short := f.Name()
		var recv ssa.Value
		if isMethod && len(f.Params) > 0 {
			recv = f.Params[0]
		}

		// ---- generic pairing of inner updates / deletes, wherever they occur
		for i, m := range muts {
			if m.ref.level != "inner" || inlinedElsewhere {
				continue
			}
			c.R.Sites++
			if !m.del {
				// X[a][b] = w  needs  X'[b][a] = w in the same control context
				found := false
				for j, o := range muts {
					if i == j || o.del || o.ref.level != "inner" {
						continue
					}
					if o.ref.field == other(m.ref.field) && o.ref.key == m.key && o.key == m.ref.key &&
						o.valPath == m.valPath && core.Path(o.ref.base) == core.Path(m.ref.base) &&
						(o.block == m.block || (o.block.Dominates(m.block) && sameGuards(o.block, m.block)) || (m.block.Dominates(o.block) && sameGuards(o.block, m.block))) {
						found = true
					}
				}
				// Copy fills a fresh inner map, not a graph's inner map: those are level "other"
				c.R.Add("MIRROR-EDGE", name+"|"+m.ref.field+"[a][b]=w", name, p.InstrPos(m.in), found,
					fmt.Sprintf("update %s[%s] = %s has its mirror %s[%s][%s] = same weight in the same control context", m.ref, m.key, core.Path(m.val), other(m.ref.field), m.key, m.ref.key),
					ternary(found, "mirror update present", "no mirror update found"))
				continue
			}
			// delete(X[a], b) needs delete(X'[b], a)  — or, when a ranges over the keys of X'[b], the
			// whole inner map X'[b] is dropped by delete(X', b) on every path afterwards
			found := false
			how := ""
			for j, o := range muts {
				if i == j || !o.del {
					continue
				}
				if o.ref.level == "inner" && o.ref.field == other(m.ref.field) && o.ref.key == m.key && o.key == m.ref.key && o.block == m.block {
					found, how = true, "mirror delete in the same block"
				}
				if o.ref.level == "outer" && o.ref.field == other(m.ref.field) && o.key == m.key &&
					strings.HasPrefix(m.ref.key, "rangekey(") && postDominatesEntry(f, o.block) {
					// a (m.ref.key) must range over X'[b]
					if src := m.rangeSrc; src != nil {
						if src.level == "inner" && src.field == other(m.ref.field) && src.key == m.key {
							found, how = true, "neighbour loop over "+src.String()+" followed by delete("+o.ref.String()+", key)"
						}
					}
				}
			}
			c.R.Add("MIRROR-DEL", name+"|delete "+m.ref.field+"[a],b", name, p.InstrPos(m.in), found,
				fmt.Sprintf("delete(%s, %s) has its mirror on %s", m.ref, m.key, other(m.ref.field)), ternary(found, how, "no mirror delete found"))
		}

		// ---- Remove: all five deletions, on every path
		if isMethod && short == "Remove" {
			h := ""
			for _, m := range muts {
				if m.del {
					if _, ok := isHashOfParam(m.keyV, f); ok {
						h = m.key
					}
				}
			}
			want := map[string]bool{}
			for _, m := range muts {
				if !m.del || m.conditional || !postDominatesEntry(f, loopHeaderOrSelf(m.block)) {
					continue
				}
				switch {
				case m.ref.level == "outer" && m.key == h:
					want["outer-"+m.ref.field] = true
				case m.ref.level == "hash" && m.key == h:
					want["hash"] = true
				case m.ref.level == "inner" && m.key == h:
					want["neigh-"+m.ref.field] = true
				}
			}
			for _, k := range []string{"neigh-in", "outer-out", "neigh-out", "outer-in", "hash"} {
				c.R.Add("MIRROR-REMOVE", "Remove|"+k, name, p.Pos(f.Pos()), want[k],
					"Remove(v) unconditionally drops "+k+" entries keyed by hashcode(v)", ternary(want[k], "present on every path", "missing or conditional"))
			}
		}

		// ---- Add / AddOverwrite
		if isMethod && (short == "Add" || short == "AddOverwrite") {
			var outerOut, outerIn, hashUp *mapMut
			innerTouch := false
			for i := range muts {
				m := &muts[i]
				switch {
				case m.ref.level == "inner":
					innerTouch = true
				case m.del:
					innerTouch = true // deleting anything in Add is wrong
				case m.ref.level == "outer" && m.ref.field == "out":
					outerOut = m
				case m.ref.level == "outer" && m.ref.field == "in":
					outerIn = m
				case m.ref.level == "hash":
					hashUp = m
				}
			}
			c.R.Add("MIRROR-ADD", short+"|no-edge-touch", name, p.Pos(f.Pos()), !innerTouch,
				short+" never updates or deletes an existing edge entry", ternary(!innerTouch, "no inner-map mutation", "inner-map mutation or delete present"))
			pairOK := outerOut != nil && outerIn != nil && outerOut.block == outerIn.block && outerOut.key == outerIn.key
			guarded := false
			// one ensure-step called once per adjacency map (`edgeSet(g.adjacencyOut, h); edgeSet(g.adjacencyIn, h)`): two
			// executions of the step make two maps, each under the step's own "no entry yet" test of its own table
			twoCalls := outerOut != nil && outerIn != nil && outerOut.orig != nil && outerIn.orig != nil && outerOut.in != outerIn.in
			if pairOK {
				_, isMk1 := outerOut.val.(*ssa.MakeMap)
				_, isMk2 := outerIn.val.(*ssa.MakeMap)
				pairOK = isMk1 && isMk2 && (outerOut.val != outerIn.val || twoCalls)
				// guarded by "no entry yet" for this key (inside the helper the creation was inlined from, if any)
				guarded = c.absentGuard(gf, outerOut)
				if twoCalls {
					guarded = guarded && c.absentGuard(gf, outerIn) && postDominatesEntry(f, outerOut.block) && postDominatesEntry(f, outerIn.block)
				}
			}
			c.R.Add("MIRROR-ADD", short+"|paired-creation", name, p.Pos(f.Pos()), pairOK && guarded,
				"both adjacency maps get a fresh, distinct inner map for the key, only when the key has none yet (existing edges are kept)",
				fmt.Sprintf("paired=%v guarded-by-absence=%v", pairOK, guarded))
			if _, ok := func() (int, bool) {
				if hashUp == nil {
					return 0, false
				}
				return isHashOfParam(hashUp.keyV, f)
			}(); ok {
				stored := core.Strip(hashUp.val) == f.Params[1] || core.Path(hashUp.val) == "param1"
				if short == "AddOverwrite" {
					c.R.Add("MIRROR-ADD", short+"|hash-replace", name, p.InstrPos(hashUp.in), stored && !hashUp.conditional && postDominatesEntry(f, hashUp.block),
						"AddOverwrite always replaces the hash entry with the given vertex", fmt.Sprintf("stores-param=%v unconditional=%v", stored, !hashUp.conditional && postDominatesEntry(f, hashUp.block)))
				} else {
					sameBlock := outerOut != nil && hashUp.block == outerOut.block && hashUp.origBlock == outerOut.origBlock
					if !sameBlock && outerOut != nil {
						// `if g.ensure(h) { g.hash[h] = v }`: the store is guarded by the helper call that created the entries
						// reporting that it did so
						sameBlock = c.guardedByCreation(gf, hashUp, outerOut)
					}
					if !sameBlock && outerOut != nil && twoCalls {
						// the store sits under its own "no adjacency entry for this key yet" test, evaluated before the
						// ensure-steps run (they create the entry under the very same condition)
						hm := *hashUp
						hm.key = outerOut.key
						if c.absentGuard(gf, &hm) && core.CanFollow(hashUp.in, outerOut.in) && !core.CanFollow(outerOut.in, hashUp.in) {
							sameBlock = true
						}
					}
					c.R.Add("MIRROR-ADD", short+"|hash-keep", name, p.InstrPos(hashUp.in), stored && sameBlock,
						"Add stores the hash entry only together with the creation of the adjacency entries (an existing vertex is kept)", fmt.Sprintf("stores-param=%v with-creation=%v", stored, sameBlock))
				}
			} else {
				c.R.Add("MIRROR-ADD", short+"|hash", name, p.Pos(f.Pos()), false, short+" stores hash[hashcode(v)] = v", "no such store found")
			}
		}

		// ---- AddEdgeWeighted / RemoveEdge: unconditional, keyed by hashcode of the right parameters
		if isMethod && (short == "AddEdgeWeighted" || short == "RemoveEdge" || short == "AddEdge") {
			for _, m := range muts {
				if m.ref.level != "inner" {
					continue
				}
				okeyIdx, ok1 := isHashOfParam(m.ref.keyV, f)
				ikeyIdx, ok2 := isHashOfParam(m.keyV, f)
				wantOuter, wantInner := 1, 2
				if m.ref.field == "in" {
					wantOuter, wantInner = 2, 1
				}
				ok := ok1 && ok2 && okeyIdx == wantOuter && ikeyIdx == wantInner && !m.conditional && postDominatesEntry(f, m.block)
				if short == "AddEdgeWeighted" && !m.del {
					ok = ok && len(f.Params) > 3 && core.Strip(m.val) == ssa.Value(f.Params[3])
				}
				if short == "AddEdge" && !m.del {
					_, isConst := core.ConstInt(m.val)
					ok = ok && isConst
				}
				c.R.Add("MIRROR-KEY", short+"|"+m.ref.field, name, p.InstrPos(m.in), ok,
					fmt.Sprintf("%s writes %s[hashcode(v%d)][hashcode(v%d)] unconditionally (last weight wins)", short, m.ref.field, wantOuter, wantInner),
					fmt.Sprintf("outer key from param %d (%v), inner key from param %d (%v)", okeyIdx, ok1, ikeyIdx, ok2))
			}
		}

		// ---- Copy
		if isMethod && short == "Copy" {
			for _, m := range muts {
				if m.del {
					c.R.Add("COPY", "Copy|delete", name, p.InstrPos(m.in), false, "Copy deletes nothing", "delete present")
					continue
				}
				switch m.ref.level {
				case "outer":
					freshGraph := p.FreshIn(m.ref.base) && core.Root(m.ref.base) != recv
					_, freshInner := m.val.(*ssa.MakeMap)
					// the fresh inner map is filled from the same field of the receiver
					srcOK := false
					if mk, ok := m.val.(*ssa.MakeMap); ok {
						for _, o := range muts {
							if o.ref.level == "other" && !o.del {
								oi := o.in
								if o.orig != nil {
									if o.in != m.in {
										continue // a different inlined call of the helper
									}
									oi = o.orig
								}
								if mu, ok := oi.(*ssa.MapUpdate); ok && mu.Map == mk {
									if n, ok := extractNext(mu.Key); ok {
										if r, ok := n.Iter.(*ssa.Range); ok {
											saved := core.PathEnv
											if o.env != nil {
												core.PathEnv = o.env
											}
											src := c.classifyMap(gf, r.X)
											core.PathEnv = saved
											if src.level == "inner" && src.field == m.ref.field && core.Root(src.base) == recv &&
												src.key == m.key && sameNext(mu.Value, n, 2) {
												srcOK = true
											}
										}
									}
								}
							}
						}
					}
					// library form: dup := make(...); maps.Copy(dup, set); g2.X[k] = dup
					if mk, ok := m.val.(*ssa.MakeMap); ok && !srcOK {
						for _, ref := range *mk.Referrers() {
							ci, isCall := ref.(ssa.CallInstruction)
							if !isCall || len(ci.Common().Args) != 2 || ci.Common().Args[0] != ssa.Value(mk) {
								continue
							}
							if pk, fn := core.StdCallee(ci.Common().StaticCallee()); pk == "maps" && fn == "Copy" {
								saved := core.PathEnv
								if m.env != nil {
									core.PathEnv = m.env // the copy is made inside a step inlined at this call
								}
								src := c.classifyMap(gf, ci.Common().Args[1])
								core.PathEnv = saved
								if src.level == "inner" && src.field == m.ref.field && core.Root(src.base) == recv && src.key == m.key {
									srcOK = true
								}
							}
						}
					}
					// one-level helper form: g2.X[k] = copier(set) with copier returning a fresh map filled from its parameter
					if hc, ok := m.val.(*ssa.Call); ok && isMapCopier(p, hc.Common().StaticCallee()) && len(hc.Common().Args) == 1 {
						src := c.classifyMap(gf, hc.Common().Args[0])
						if src.level == "inner" && src.field == m.ref.field && core.Root(src.base) == recv && src.key == m.key {
							freshInner, srcOK = true, true
						}
					}
					// library form: g2.X[k] = maps.Clone(set) — a fresh map with the same entries (the values are weights)
					if hc, ok := m.val.(*ssa.Call); ok && len(hc.Common().Args) == 1 {
						if pk, fn := core.StdCallee(hc.Common().StaticCallee()); pk == "maps" && fn == "Clone" {
							src := c.classifyMap(gf, hc.Common().Args[0])
							if src.level == "inner" && src.field == m.ref.field && core.Root(src.base) == recv && src.key == m.key {
								freshInner, srcOK = true, true
							}
							// two-step form: the copy's outer table is maps.Clone of the receiver's (same keys, shared inner
							// maps), and every inner map is then replaced, in place and under its own key, by its clone
							if src.level == "inner" && src.field == m.ref.field && src.key == m.key && core.Root(src.base) == core.Root(m.ref.base) && core.Root(src.base) != recv {
								fieldName := gf.out
								if m.ref.field == "in" {
									fieldName = gf.in
								}
								if oc, ok := c.graphLiteralFields(f)[fieldName].(*ssa.Call); ok && len(oc.Common().Args) == 1 {
									if pk2, fn2 := core.StdCallee(oc.Common().StaticCallee()); pk2 == "maps" && fn2 == "Clone" {
										if of, ok := core.AsFieldLoad(oc.Common().Args[0]); ok && of.Owner == "graph.Graph" && of.Field == fieldName && core.Strip(of.Base) == recv {
											freshInner, srcOK = true, true
										}
									}
								}
							}
						}
					}
					c.R.Add("COPY", "Copy|outer-"+m.ref.field, name, p.InstrPos(m.in), freshGraph && freshInner && srcOK,
						"the copy's "+m.ref.field+" map receives, per key, a fresh inner map filled entry by entry from the receiver's "+m.ref.field+" inner map of that key",
						fmt.Sprintf("copy-graph-fresh=%v inner-fresh=%v filled-from-same-field=%v", freshGraph, freshInner, srcOK))
				case "hash":
					fresh := p.FreshIn(m.ref.base) && core.Root(m.ref.base) != recv
					c.R.Add("COPY", "Copy|hash", name, p.InstrPos(m.in), fresh, "hash entries are stored into the fresh copy only", fmt.Sprintf("fresh=%v", fresh))
				case "inner":
					c.R.Add("COPY", "Copy|inner", name, p.InstrPos(m.in), false, "Copy never writes into an existing inner map", "inner-map write present")
				}
			}
			// library form for the vertex table: maps.Copy(copy.hash, g.hash)
			hashCopied := false
			for _, ci := range core.Calls(f) {
				if pk, fn := core.StdCallee(ci.Common().StaticCallee()); pk == "maps" && fn == "Copy" && len(ci.Common().Args) == 2 {
					dst, src := c.classifyMap(gf, ci.Common().Args[0]), c.classifyMap(gf, ci.Common().Args[1])
					if dst.level == "hash" {
						fresh := p.FreshIn(dst.base) && core.Root(dst.base) != recv && src.level == "hash" && core.Root(src.base) == recv
						hashCopied = true
						c.R.Add("COPY", "Copy|hash", name, p.InstrPos(ci), fresh, "hash entries are stored into the fresh copy only", fmt.Sprintf("maps.Copy into the fresh copy from the receiver's table=%v", fresh))
					} else if dst.level != "" && dst.level != "other" {
						c.R.Add("COPY", "Copy|inner", name, p.InstrPos(ci), false, "Copy never writes into an existing inner map", "maps.Copy into "+dst.level+" map")
					}
				}
			}
			// constructor form: the copy is assembled from separately built maps (`derive(clone(out), clone(in), hash)`)
			nOuter := 0
			if hashCopied {
				nOuter++
			}
			for _, m := range muts {
				if m.ref.level == "outer" || m.ref.level == "hash" {
					nOuter++
				}
			}
			if nOuter == 0 {
				fields := c.graphLiteralFields(f)
				for _, fld := range []string{gf.out, gf.in} {
					role := "out"
					if fld == gf.in {
						role = "in"
					}
					okc, why := false, "field not set from a deep copy of the receiver's "+role+" map"
					if cl, ok := fields[fld].(*ssa.Call); ok && isAdjacencyCloner(p, cl.Common().StaticCallee()) && len(cl.Common().Args) == 1 {
						if src, ok := core.AsFieldLoad(cl.Common().Args[0]); ok && src.Owner == "graph.Graph" && src.Field == fld && core.Strip(src.Base) == recv {
							okc, why = true, "deep copy (fresh outer and inner maps) of the receiver's "+role+" map"
						}
					}
					c.R.Add("COPY", "Copy|outer-"+role, name, p.Pos(f.Pos()), okc,
						"the copy's "+role+" map receives, per key, a fresh inner map filled entry by entry from the receiver's "+role+" inner map of that key", why)
				}
				okh, whyh := false, "vertex table not set from a fresh copy of the receiver's"
				if hm, ok := fields[gf.hash].(*ssa.MakeMap); ok {
					okh = true
					nUp := 0
					for _, ref := range *hm.Referrers() {
						switch x := ref.(type) {
						case *ssa.MapUpdate:
							nUp++
							n, isNext := extractNext(x.Key)
							if !isNext || !sameNext(x.Key, n, 1) || !sameNext(x.Value, n, 2) {
								okh = false
								continue
							}
							rg, isR := n.Iter.(*ssa.Range)
							if !isR {
								okh = false
								continue
							}
							if src, ok := core.AsFieldLoad(rg.X); !ok || src.Field != gf.hash || core.Strip(src.Base) != recv {
								okh = false
							}
						}
					}
					okh = okh && nUp > 0
					if okh {
						whyh = "fresh map filled from the receiver's vertex table"
					}
				}
				c.R.Add("COPY", "Copy|hash", name, p.Pos(f.Pos()), okh, "hash entries are stored into the fresh copy only", whyh)
			}
			// none of the copy's three tables is the receiver's own map: a table assigned as a whole must not come from a
			// field of the receiver (`g2.hash = g.hash` shares the vertex table between the copy and the original)
			shared := ""
			p.RegionInstrs(f, func(in ssa.Instruction) {
				st, ok := in.(*ssa.Store)
				if !ok {
					return
				}
				fr, ok := core.AsFieldAddr(st.Addr)
				if !ok || fr.Owner != "graph.Graph" || !(fr.Field == gf.hash || fr.Field == gf.out || fr.Field == gf.in) {
					return
				}
				// what is stored, as seen from Copy: a parameter of a shared constructor is bound at the call made from
				// Copy's own region (Reverse may hand the same constructor the receiver's maps on purpose)
				vals := []ssa.Value{st.Val}
				if prm, isPrm := core.Strip(st.Val).(*ssa.Parameter); isPrm && prm.Parent() != f {
					vals = nil
					h := prm.Parent()
					for _, cs := range p.Callers(h) {
						if cs.Parent() == f || p.InRegion(core.Outer(cs.Parent()), f) && core.Outer(cs.Parent()) != h {
							for i, q := range h.Params {
								if q == prm && i < len(cs.Common().Args) {
									vals = append(vals, cs.Common().Args[i])
								}
							}
						}
					}
				}
				for _, v0 := range vals {
					for _, sv := range core.Sources(v0) {
						if src, ok := core.AsFieldLoad(sv); ok && src.Owner == "graph.Graph" {
							shared = fr.Field + " assigned from " + core.Path(sv) + " at " + p.InstrPos(st)
						}
					}
				}
			})
			c.R.Add("COPY", "Copy|no-table-shared", name, p.Pos(f.Pos()), shared == "",
				"no table of the copy (adjacency maps, vertex table) is a map taken over from another graph", ternary(shared == "", "every table is built for the copy", shared))
			// every table of the copy is allocated, also when the receiver's is still nil (a zero-value graph that was
			// never written): the copy's init() runs (or the receiver's, before its tables are cloned), or the tables are
			// made here — maps.Clone(nil) is nil, and a view of a copy with nil tables is detached from it for good
			{
				initCalled := false
				var initFn *ssa.Function
				if m := p.Method(p.Graph, "Graph", "init"); m != nil {
					initFn = m
				}
				for _, ci := range p.RegionCalls(f) {
					if initFn != nil && ci.Common().StaticCallee() == initFn {
						initCalled = true
					}
				}
				cloned := ""
				p.RegionInstrs(f, func(in ssa.Instruction) {
					if cl, ok := in.(*ssa.Call); ok && len(cl.Common().Args) == 1 {
						if pk, fn := core.StdCallee(cl.Common().StaticCallee()); pk == "maps" && fn == "Clone" {
							if fr, ok := core.AsFieldLoad(cl.Common().Args[0]); ok && fr.Owner == "graph.Graph" && core.Strip(fr.Base) == recv {
								cloned = fr.Field
							}
						}
					}
				})
				c.R.Add("COPY", "Copy|tables-allocated", name, p.Pos(f.Pos()), cloned == "" || initCalled,
					"the copy owns allocated tables even when the receiver's are still nil", ternary(cloned == "", "tables are made here", ternary(initCalled, "init() runs in Copy", "table "+cloned+" is maps.Clone of the receiver's, which stays nil for a graph that was never written, and init() is not called")))
			}
			// returns the fresh graph
			for _, r := range core.Returns(f) {
				ok := len(r.Results) == 1 && p.FreshIn(r.Results[0]) && core.Root(r.Results[0]) != recv
				c.R.Add("COPY", "Copy|return", name, p.InstrPos(r), ok, "Copy returns the freshly allocated graph", fmt.Sprintf("fresh=%v", ok))
			}
		}

		// ---- Reverse
		if isMethod && short == "Reverse" {
			got := map[string]string{}
			for field, v := range c.graphLiteralFields(f) {
				got[field] = "?"
				if v == nil {
					continue
				}
				if src, ok := core.AsFieldLoad(v); ok && src.Owner == "graph.Graph" && core.Strip(src.Base) == recv {
					got[field] = src.Field
				}
			}
			c.R.Add("REVERSE", "Reverse|out", name, p.Pos(f.Pos()), got[gf.out] == gf.in, "reversed view's out-adjacency is the receiver's in-adjacency (shared, not copied)", "out <- "+got[gf.out])
			c.R.Add("REVERSE", "Reverse|in", name, p.Pos(f.Pos()), got[gf.in] == gf.out, "reversed view's in-adjacency is the receiver's out-adjacency (shared, not copied)", "in <- "+got[gf.in])
			c.R.Add("REVERSE", "Reverse|hash", name, p.Pos(f.Pos()), got[gf.hash] == gf.hash, "reversed view shares the vertex table", "hash <- "+got[gf.hash])
			c.R.Add("REVERSE", "Reverse|pure", name, p.Pos(f.Pos()), len(muts) == 0, "Reverse mutates no map", fmt.Sprintf("%d map mutations", len(muts)))
			// the view is built by this very call from the maps the receiver has now: a view kept from an earlier call
			// (memoised in a field of the receiver) still holds the maps the graph had then — nil ones, if the graph was
			// empty — and Reverse itself leaves the receiver untouched
			{
				stale := ""
				for _, r := range core.Returns(f) {
					if len(r.Results) != 1 || !p.FreshIn(r.Results[0]) || core.Root(r.Results[0]) == recv {
						stale = "returns " + core.Path(r.Results[0]) + " at " + p.InstrPos(r) + ", which is not a graph built by this call"
					}
				}
				core.Instrs(f, func(in ssa.Instruction) {
					switch x := in.(type) {
					case *ssa.Store:
						if core.Root(x.Addr) == recv {
							stale = "stores into the receiver at " + p.InstrPos(in)
						}
					case ssa.CallInstruction:
						// a method of a library type called on (the address of) a field of the receiver: atomic.Pointer.Store, sync.Once.Do, …
						if cal := x.Common().StaticCallee(); cal != nil && !p.InTarget(cal) && len(x.Common().Args) > 0 {
							if fa, ok := x.Common().Args[0].(*ssa.FieldAddr); ok && core.Root(fa) == recv {
								stale = "calls " + core.ShortCallee(core.CalleeName(x.Common())) + " on a field of the receiver at " + p.InstrPos(in)
							}
						}
					}
				})
				c.R.Add("REVERSE", "Reverse|fresh-view-per-call", name, p.Pos(f.Pos()), stale == "",
					"every call of Reverse builds its view anew from the receiver's current maps and keeps nothing in the receiver", ternary(stale == "", "fresh view, receiver untouched", stale))
			}
		}

		// ---- PURITY: everything that is not a mutator performs no update on a non-fresh graph
		if !(isMethod && (mutators[short] || short == "init" || short == "Copy" || short == "Reverse")) && !inlinedElsewhere {
			bad := ""
			for _, m := range muts {
				if m.ref.level == "other" {
					continue
				}
				if p.FreshIn(m.ref.base) && core.Root(m.ref.base) != recv {
					continue
				}
				bad = fmt.Sprintf("mutation of %s at %s", m.ref, p.InstrPos(m.in))
			}
			// stores into Graph fields of a non-fresh graph
			core.Instrs(f, func(in ssa.Instruction) {
				if st, ok := in.(*ssa.Store); ok {
					if fr, ok := core.AsFieldAddr(st.Addr); ok && fr.Owner == "graph.Graph" && !p.FreshIn(st.Addr) {
						bad = "store to Graph." + fr.Field + " at " + p.InstrPos(in)
					}
				}
				// calls of mutators on a graph that is not a fresh copy
				if ci, ok := in.(ssa.CallInstruction); ok {
					if cal := ci.Common().StaticCallee(); cal != nil && cal.Signature.Recv() != nil &&
						core.NamedOf(cal.Signature.Recv().Type()) == "graph.Graph" && mutators[cal.Name()] {
						r := ci.Common().Args[0]
						if !isFreshGraph(p, r) {
							// a private step that is only ever handed a private copy (`g = g.Copy(); … g.release(n, S)`)
							viaSites := false
							if prm, isPrm := core.Strip(r).(*ssa.Parameter); isPrm && prm.Parent() == f && p.PrivateHelper(f) {
								idx := -1
								for i, q := range f.Params {
									if q == prm {
										idx = i
									}
								}
								sites := p.Callers(f)
								viaSites = idx >= 0 && len(sites) > 0
								for _, site := range sites {
									if idx >= len(site.Common().Args) || !isFreshGraph(p, site.Common().Args[idx]) {
										viaSites = false
									}
								}
							}
							if !viaSites {
								bad = "calls mutator " + cal.Name() + " on a graph that is not a private copy at " + p.InstrPos(in)
							}
						}
					}
				}
			})
			c.R.Add("PURITY", name, name, p.Pos(f.Pos()), bad == "", "read-only graph function performs no update reachable from its receiver/arguments", ternary(bad == "", "no mutation", bad))
		}
		// init may only create missing maps
		if isMethod && short == "init" {
			ok := len(muts) == 0
			core.Instrs(f, func(in ssa.Instruction) {
				if st, isSt := in.(*ssa.Store); isSt {
					if _, mk := st.Val.(*ssa.MakeMap); !mk {
						ok = false
					}
					nilGuard := false
					for _, l := range core.Lits(core.Guards(st.Block())) {
						if l.Kind == "cmp" && l.Pol && (core.IsNilConst(l.X) || core.IsNilConst(l.Y)) {
							nilGuard = true
						}
					}
					if !nilGuard {
						ok = false
					}
				}
			})
			c.R.Add("PURITY", "init", name, p.Pos(f.Pos()), ok, "init only allocates maps that are still nil", fmt.Sprintf("ok=%v", ok))
		}
	}
}

// graphLiteralFields: the values stored into the fields of the fresh Graph that f builds — in f itself or in a private
// constructor helper f calls, whose parameters are read as the arguments of f's own call (the helper may be shared with
// other functions that hand in different maps). A field stored more than once, or with an unresolvable value, maps to nil.
func (c *Ctx) graphLiteralFields(f *ssa.Function) map[string]ssa.Value {
	p := c.P
	got := map[string]ssa.Value{}
	record := func(fn *ssa.Function, bind func(ssa.Value) ssa.Value) {
		core.Instrs(fn, func(in ssa.Instruction) {
			st, ok := in.(*ssa.Store)
			if !ok {
				return
			}
			fr, ok := core.AsFieldAddr(st.Addr)
			if !ok || fr.Owner != "graph.Graph" || !p.FreshIn(st.Addr) {
				return
			}
			if _, dup := got[fr.Field]; dup {
				got[fr.Field] = nil
				return
			}
			got[fr.Field] = bind(st.Val)
		})
	}
	record(f, func(v ssa.Value) ssa.Value { return v })
	for _, ci := range core.Calls(f) {
		h := ci.Common().StaticCallee()
		if !p.PrivateHelper(h) {
			continue
		}
		site := ci
		record(h, func(v ssa.Value) ssa.Value {
			if prm, ok := core.Strip(v).(*ssa.Parameter); ok && prm.Parent() == h {
				for i, q := range h.Params {
					if q == prm && i < len(site.Common().Args) {
						return site.Common().Args[i]
					}
				}
			}
			return v
		})
	}
	return got
}

// isAdjacencyCloner: h(src) returns one freshly made outer map that receives, for every key of src, a freshly made
// inner map filled entry by entry from src's inner map of that key.
func isAdjacencyCloner(p *core.Prog, h *ssa.Function) bool {
	if h == nil || !p.InTarget(h) || len(h.Params) != 1 || h.Signature.Results().Len() != 1 {
		return false
	}
	var dst *ssa.MakeMap
	for _, r := range core.Returns(h) {
		m, ok := r.Results[0].(*ssa.MakeMap)
		if !ok || (dst != nil && dst != m) {
			return false
		}
		dst = m
	}
	if dst == nil {
		return false
	}
	outerOK, innerOK, bad := false, false, false
	core.Instrs(h, func(in ssa.Instruction) {
		mu, ok := in.(*ssa.MapUpdate)
		if !ok {
			if ci, ok := in.(ssa.CallInstruction); ok && core.CalleeName(ci.Common()) == "builtin.delete" {
				bad = true
			}
			return
		}
		switch {
		case mu.Map == ssa.Value(dst):
			// dst[k] = inner, k the key of a range over the parameter, inner a fresh map
			inner, isMk := mu.Value.(*ssa.MakeMap)
			n, isNext := extractNext(mu.Key)
			if !isMk || !isNext || !sameNext(mu.Key, n, 1) {
				bad = true
				return
			}
			if rg, ok := n.Iter.(*ssa.Range); !ok || rg.X != ssa.Value(h.Params[0]) {
				bad = true
				return
			}
			_ = inner
			outerOK = true
		default:
			// inner[k2] = v2 with (k2, v2) ranging over the outer range's value
			inner, isMk := mu.Map.(*ssa.MakeMap)
			n2, isNext := extractNext(mu.Key)
			if !isMk || !isNext || !sameNext(mu.Key, n2, 1) || !sameNext(mu.Value, n2, 2) {
				bad = true
				return
			}
			rg2, ok := n2.Iter.(*ssa.Range)
			if !ok {
				bad = true
				return
			}
			n1, isNext1 := extractNext(rg2.X)
			if !isNext1 || !sameNext(rg2.X, n1, 2) {
				bad = true
				return
			}
			if rg1, ok := n1.Iter.(*ssa.Range); !ok || rg1.X != ssa.Value(h.Params[0]) {
				bad = true
				return
			}
			// that inner map is the one stored under the outer key
			stored := false
			for _, ref := range *inner.Referrers() {
				if mu2, ok := ref.(*ssa.MapUpdate); ok && mu2.Map == ssa.Value(dst) && mu2.Value == ssa.Value(inner) {
					stored = true
				}
			}
			if !stored {
				bad = true
				return
			}
			innerOK = true
		}
	})
	return outerOK && innerOK && !bad
}

// absentGuard: the creation of an adjacency entry (mutation m on an outer map) happens only when the outer map has
// no entry for that key: a dominating `_, ok := outer[key]; !ok` in the function (or helper) the store lives in.
func (c *Ctx) absentGuard(gf *graphFields, m *mapMut) bool {
	saved := core.PathEnv
	defer func() { core.PathEnv = saved }()
	blocks := []*ssa.BasicBlock{m.block}
	if m.origBlock != nil {
		blocks = append(blocks, m.origBlock)
	}
	for i, b := range blocks {
		core.PathEnv = saved
		if i == 1 {
			core.PathEnv = m.env
		}
		for _, l := range core.Lits(core.Guards(b)) {
			if l.Kind == "ok" && !l.Pol {
				if lk, ok := l.Of.(*ssa.Lookup); ok && core.Path(lk.Index) == m.key {
					if r := c.classifyMap(gf, lk.X); r.level == "outer" {
						return true
					}
				}
			}
		}
	}
	return false
}

// guardedByCreation: mutation m is guarded by a call of the private helper that performed the creation `created`,
// on the outcome for which the helper provably found no entry for that key (so it did create the entries).
func (c *Ctx) guardedByCreation(gf *graphFields, m, created *mapMut) bool {
	p := c.P
	call, _ := created.in.(*ssa.Call)
	if call == nil || created.orig == nil {
		return false
	}
	h := call.Common().StaticCallee()
	for _, l := range core.Lits(core.Guards(m.block)) {
		var cl *ssa.Call
		switch l.Kind {
		case "call":
			cl, _ = l.Of.(*ssa.Call)
		case "bool":
			cl, _ = l.Of.(*ssa.Call)
		}
		if cl != call || !p.PrivateHelper(h) {
			continue
		}
		saved := core.PathEnv
		core.PathEnv = created.env
		// whenever the helper returns l.Pol, the absent-literal held and the creating store was executed
		absent := core.HelperImplies(h, l.Pol, func(hl core.Lit) bool {
			if hl.Kind == "ok" && !hl.Pol {
				if lk, ok := hl.Of.(*ssa.Lookup); ok && core.Path(lk.Index) == created.key {
					return c.classifyMap(gf, lk.X).level == "outer"
				}
			}
			return false
		})
		// … and every return producing that outcome is dominated by the creating store
		executed := true
		for _, bc := range core.BoolCases(h) {
			if k, isC := core.ConstBool(bc.Val); isC && k != l.Pol {
				continue
			}
			_ = bc
		}
		for _, r := range core.Returns(h) {
			if len(r.Results) != 1 {
				executed = false
				continue
			}
			if k, isC := core.ConstBool(r.Results[0]); isC && k != l.Pol {
				continue
			}
			if !core.InstrDominates(created.orig, r) {
				executed = false
			}
		}
		core.PathEnv = saved
		if absent && executed && m.key == created.key {
			return true
		}
	}
	return false
}

// isFreshGraph: the graph value is the result of Copy() (or otherwise fresh) in this function.
func isFreshGraph(p *core.Prog, v ssa.Value) bool {
	for _, s := range core.Sources(v) {
		if call, ok := s.(*ssa.Call); ok && core.CalleeName(call.Common()) == core.GCopy {
			continue
		}
		if p.FreshIn(s) {
			if _, isParam := core.Root(s).(*ssa.Parameter); !isParam {
				continue
			}
		}
		return false
	}
	return true
}

func sameGuards(a, b *ssa.BasicBlock) bool {
	ga, gb := core.LitStrings(core.Lits(core.Guards(a))), core.LitStrings(core.Lits(core.Guards(b)))
	return strings.Join(ga, ";") == strings.Join(gb, ";")
}

func ternary(b bool, x, y string) string {
	if b {
		return x
	}
	return y
}

func extractNext(v ssa.Value) (*ssa.Next, bool) {
	if e, ok := v.(*ssa.Extract); ok {
		if n, ok := e.Tuple.(*ssa.Next); ok {
			return n, true
		}
	}
	return nil, false
}

func sameNext(v ssa.Value, n *ssa.Next, idx int) bool {
	e, ok := v.(*ssa.Extract)
	return ok && e.Tuple == n && e.Index == idx
}

// rangeSourceOfKey finds the map ranged over by the loop whose key is used as
// the outer key of inner map reference r.
func rangeSourceOfKey(r mapRef, muts []mapMut, f *ssa.Function) ssa.Value {
	var res ssa.Value
	core.Instrs(f, func(in ssa.Instruction) {
		if n, ok := in.(*ssa.Next); ok {
			if rg, ok := n.Iter.(*ssa.Range); ok {
				kp := "rangekey(" + core.Path(rg.X) + ")@" + fmt.Sprintf("%p", n)
				if kp == r.key {
					res = rg.X
				}
			}
		}
	})
	return res
}

// loopHeaderOrSelf maps a loop-body block to the block that post-dominance
// should be tested on: a body executes zero or more times, so it is the loop
// header (its sole predecessor that is a range/next block) that must lie on every path.
func loopHeaderOrSelf(b *ssa.BasicBlock) *ssa.BasicBlock {
	if len(b.Preds) == 1 {
		pr := b.Preds[0]
		for _, in := range pr.Instrs {
			if _, ok := in.(*ssa.Next); ok {
				return pr
			}
		}
	}
	return b
}

var _ = token.ADD

// isMapCopier: h(m map[K]V) map[K]V returns, on every path, one freshly made map into which every entry of
// its parameter is stored unchanged (a range over the parameter with m2[k] = v).
func isMapCopier(p *core.Prog, h *ssa.Function) bool {
	if h == nil || !p.InTarget(h) || len(h.Params) != 1 || h.Signature.Results().Len() != 1 {
		return false
	}
	prm := ssa.Value(h.Params[0])
	isClone := func(v ssa.Value) bool {
		cl, ok := v.(*ssa.Call)
		if !ok || len(cl.Common().Args) != 1 || cl.Common().Args[0] != prm {
			return false
		}
		pk, fn := core.StdCallee(cl.Common().StaticCallee())
		return pk == "maps" && fn == "Clone"
	}
	// every return is a map made here (filled from the parameter, or left empty where the parameter is nil/empty) or
	// maps.Clone of the parameter
	made := map[*ssa.MakeMap]bool{}
	full := false
	for _, r := range core.Returns(h) {
		for _, sv := range core.Sources(r.Results[0]) {
			switch x := sv.(type) {
			case *ssa.MakeMap:
				made[x] = true
			case *ssa.Call:
				if !isClone(x) {
					return false
				}
				full = true
			default:
				return false
			}
		}
	}
	filled := map[*ssa.MakeMap]bool{}
	bad := false
	core.Instrs(h, func(in ssa.Instruction) {
		switch x := in.(type) {
		case *ssa.MapUpdate:
			mk, _ := x.Map.(*ssa.MakeMap)
			if mk == nil || !made[mk] {
				bad = true
				return
			}
			n, ok := extractNext(x.Key)
			if !ok || !sameNext(x.Value, n, 2) {
				bad = true
				return
			}
			plain := true
			nOther := 0
			for _, l := range core.Lits(core.Guards(x.Block())) {
				if core.IsLoopBound(l) {
					continue
				}
				// "the parameter is not empty" / "not nil": the other outcome returns the empty map
				if l.Kind == "cmp" {
					if cl, ok := l.X.(*ssa.Call); ok && core.CalleeName(cl.Common()) == "builtin.len" && cl.Common().Args[0] == prm {
						continue
					}
					if l.X == prm || l.Y == prm {
						continue
					}
				}
				nOther++
			}
			if nOther > 0 {
				plain = false
			}
			if rg, ok := n.Iter.(*ssa.Range); ok && rg.X == prm && plain {
				filled[mk] = true
			} else {
				bad = true
			}
		case *ssa.Store:
			bad = true
		case ssa.CallInstruction:
			if core.CalleeName(x.Common()) == "builtin.len" {
				return
			}
			if cl, ok := x.(*ssa.Call); ok && isClone(cl) {
				return
			}
			if pk, fn := core.StdCallee(x.Common().StaticCallee()); pk == "maps" && fn == "Copy" && len(x.Common().Args) == 2 && x.Common().Args[1] == prm {
				if mk, ok := x.Common().Args[0].(*ssa.MakeMap); ok && made[mk] && len(core.Lits(core.Guards(x.Block()))) == 0 {
					filled[mk] = true
					return
				}
			}
			bad = true
		}
	})
	if bad {
		return false
	}
	for mk := range made {
		if filled[mk] {
			full = true
			continue
		}
		// an empty map is returned only where the parameter has nothing to copy
		okEmpty := false
		for _, r := range core.Returns(h) {
			for _, sv := range core.Sources(r.Results[0]) {
				if sv != ssa.Value(mk) {
					continue
				}
				for _, l := range core.Lits(core.Guards(r.Block())) {
					if l.Kind == "cmp" && l.Op == token.EQL && l.Pol {
						if (l.X == prm && core.IsNilConst(l.Y)) || (l.Y == prm && core.IsNilConst(l.X)) {
							okEmpty = true
						}
						if cl, ok := l.X.(*ssa.Call); ok && core.CalleeName(cl.Common()) == "builtin.len" && cl.Common().Args[0] == prm {
							if k, isK := core.ConstInt(l.Y); isK && k == 0 {
								okEmpty = true
							}
						}
					}
				}
			}
		}
		if !okEmpty {
			return false
		}
	}
	return full
}
