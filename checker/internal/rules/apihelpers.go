package rules

import (
	"fmt"
	"go/token"
	"go/types"

	"argverif/internal/core"

	"golang.org/x/tools/go/ssa"
)

// Small helpers and accessors of the root package that other rules take for granted (round 11, DESIGN §7.16).

// runKind: VSET Value.Kind.
func (c *Ctx) runKind() {
	p := c.P
	// Value.Kind: named exactly when the Name field is not the empty string (the tag parser and Named keep a name of
	// blanks as a name; the discriminator must agree with the tables that are keyed by the name verbatim)
	if k := p.Method(p.Arg, "Value", "Kind"); k != nil {
		c.R.Func(core.FuncName(k))
		bad, n := "", 0
		for _, blk := range k.Blocks {
			iff, ok := blk.Instrs[len(blk.Instrs)-1].(*ssa.If)
			if !ok {
				continue
			}
			n++
			l := core.LitOf(iff.Cond, true)
			okc := false
			if l.Kind == "cmp" && l.Op == token.EQL {
				for _, pr := range [][2]ssa.Value{{l.X, l.Y}, {l.Y, l.X}} {
					if s, isS := core.ConstString(pr[1]); isS && s == "" {
						if fr, isF := core.AsFieldLoad(pr[0]); isF && fr.Field == "Name" && fr.Owner == "Value" {
							okc = true
						}
					}
				}
			}
			if !okc {
				bad = "the kind is decided by " + l.String()
			}
		}
		for _, r := range core.Returns(k) {
			if _, isK := core.ConstInt(r.Results[0]); !isK {
				if _, isPhi := r.Results[0].(*ssa.Phi); !isPhi {
					bad = "returns " + core.Path(r.Results[0])
				}
			}
		}
		c.R.Add("VSET", "Kind|named-iff-name-non-empty", core.FuncName(k), p.Pos(k.Pos()), bad == "" && n == 1,
			"a value is named exactly when its Name field is not the empty string (one test, on the field itself)", ternary(bad == "" && n == 1, "Name != \"\"", ternary(bad != "", bad, fmt.Sprintf("%d tests", n))))
	}
}

// runFilters: FILTER FilterOr / FilterAnd.
// FilterOr: true only where one of the filters returned true, false otherwise (also for no filters);
// FilterAnd: false only where one of the filters returned false, true otherwise.
func (c *Ctx) runFilters() {
	p := c.P
	for _, spec := range []struct {
		name  string
		early bool
	}{{"FilterOr", true}, {"FilterAnd", false}} {
		f := p.Func(p.Arg, spec.name)
		if f == nil {
			continue
		}
		c.R.Func(spec.name)
		var body *ssa.Function
		for _, a := range f.AnonFuncs {
			body = a
		}
		if body == nil {
			c.R.Undecided("FILTER", spec.name+"|body", spec.name, p.Pos(f.Pos()), "the combined filter is not a function literal")
			continue
		}
		bad := ""
		nEarly, nRest := 0, 0
		// both combinators delegating to one loop with a constant "stop at this answer" flag
		// (`return filterUntil(fs, v, true)`): judged on that helper under the constant
		if rs := core.Returns(body); len(rs) == 1 {
			if hc, isC := core.Strip(rs[0].Results[0]).(*ssa.Call); isC {
				if h := hc.Common().StaticCallee(); h != nil && p.InTarget(h) && len(h.Blocks) > 0 {
					okH, why := filterHelperShape(h, hc, spec.early)
					c.R.Add("FILTER", spec.name+"|combines-exactly", spec.name, p.Pos(f.Pos()), okH,
						ternary(spec.early, "FilterOr accepts a value exactly when one of its filters accepts it (no filters: nothing is accepted)", "FilterAnd rejects a value exactly when one of its filters rejects it (no filters: everything is accepted)"), why)
					continue
				}
			}
		}
		for _, r := range core.Returns(body) {
			v, isK := core.ConstBool(r.Results[0])
			if !isK {
				// a result variable: every incoming edge is judged
				if ph, isPhi := r.Results[0].(*ssa.Phi); isPhi {
					for i, e := range ph.Edges {
						ev, ok := core.ConstBool(e)
						if !ok {
							bad = "returns " + core.Path(e)
							continue
						}
						pred := ph.Block().Preds[i]
						lits := core.Lits(append(core.Guards(pred), edgeGuard(pred, ph.Block())...))
						if ev == spec.early {
							if !filterSaid(lits, spec.early) {
								bad = fmt.Sprintf("can return %v without a filter having returned %v", spec.early, spec.early)
							}
							nEarly++
						} else {
							nRest++
						}
					}
					continue
				}
				bad = "returns " + core.Path(r.Results[0])
				continue
			}
			if v == spec.early {
				nEarly++
				if !filterSaid(core.Lits(core.Guards(r.Block())), spec.early) {
					bad = fmt.Sprintf("returns %v without a filter having returned %v", spec.early, spec.early)
				}
			} else {
				nRest++
			}
		}
		// every filter of the list is consulted: the dynamic call sits in a loop over the captured list with no other guard
		consulted := false
		core.Instrs(body, func(in ssa.Instruction) {
			cl, ok := in.(*ssa.Call)
			if !ok || cl.Common().IsInvoke() || cl.Common().StaticCallee() != nil || core.TypeStr(cl.Common().Value.Type()) != "FilterFunc" {
				return
			}
			extra := ""
			for _, l := range core.Lits(core.Guards(cl.Block())) {
				if !core.IsLoopBound(l) {
					extra = l.String()
				}
			}
			if extra == "" {
				consulted = true
			} else {
				bad = "a filter is consulted only under " + extra
			}
		})
		c.R.Add("FILTER", spec.name+"|combines-exactly", spec.name, p.Pos(f.Pos()), bad == "" && consulted && nEarly > 0 && nRest > 0,
			ternary(spec.early, "FilterOr accepts a value exactly when one of its filters accepts it (no filters: nothing is accepted)", "FilterAnd rejects a value exactly when one of its filters rejects it (no filters: everything is accepted)"),
			ternary(bad == "", fmt.Sprintf("filters consulted=%v", consulted), bad))
	}
}

// filterSaid: the literals contain a dynamic FilterFunc call with the given outcome.
func filterSaid(lits []core.Lit, outcome bool) bool {
	for _, l := range lits {
		var cl *ssa.Call
		switch l.Kind {
		case "call":
			cl, _ = l.Of.(*ssa.Call)
		case "bool":
			cl, _ = l.Of.(*ssa.Call)
		}
		if cl != nil && !cl.Common().IsInvoke() && cl.Common().StaticCallee() == nil && core.TypeStr(cl.Common().Value.Type()) == "FilterFunc" && l.Pol == outcome {
			return true
		}
	}
	return false
}

// runConverterOptions (INPUT-C): the options that take converters keep every one of them: the append onto the builder's
// converter list is guarded by nothing but the nil test of that very element (and, for Converter, the nil error of
// wrapping it) — no de-duplication, no "already failed", no "has no outputs", no state carried between applications.
func (c *Ctx) runConverterOptions() {
	p := c.P
	n := 0
	// the option closures and the private steps they hand the converters to
	var fns []*ssa.Function
	seenFn := map[*ssa.Function]bool{}
	for _, f := range p.ArgFuncs() {
		if f.Parent() == nil || !isArgCtor(core.Outer(f)) {
			continue
		}
		for _, g := range p.Region(f) {
			if !seenFn[g] {
				seenFn[g] = true
				fns = append(fns, g)
			}
		}
	}
	for _, f := range fns {
		core.Instrs(f, func(in ssa.Instruction) {
			cl, ok := in.(*ssa.Call)
			if !ok || core.CalleeName(cl.Common()) != "builtin.append" {
				return
			}
			fr, ok := core.AsFieldLoad(cl.Common().Args[0])
			if !ok || fr.Owner != "argBuilder" || core.TypeStr(cl.Common().Args[0].Type()) != "[]*Func" {
				return
			}
			n++
			elems := appendedValues(cl)
			extra := ""
			for _, l := range core.Lits(core.Guards(cl.Block())) {
				switch {
				case core.IsLoopBound(l):
				case l.Kind == "cmp" && l.Op == token.EQL && (core.IsNilConst(l.X) || core.IsNilConst(l.Y)):
					// the element's own nil test, or the nil error of wrapping it
					other := l.X
					if core.IsNilConst(l.X) {
						other = l.Y
					}
					okNil := false
					for _, e := range elems {
						if core.Strip(e) == core.Strip(other) || core.Path(e) == core.Path(other) {
							okNil = true
						}
					}
					if _, isErr := other.Type().Underlying().(*types.Interface); isErr {
						okNil = true
					}
					if !okNil {
						extra = l.String()
					}
				case l.Kind == "ok":
					// a type dispatch on the handed-in element (`switch f := f.(type)`): which branch appends is decided by it,
					// that some branch appends is decided by the bypass test below
					if ta, isT := l.Of.(*ssa.TypeAssert); !isT {
						extra = l.String()
					} else {
						_ = ta
					}
				default:
					extra = l.String()
				}
			}
			// … and no way from the element's non-nil side to the next element avoids the append (a `continue` out of an
			// inner "is it already in the list" loop is not a dominating guard of the append, but it skips it)
			if extra == "" {
				var header *ssa.BasicBlock
				size := 1 << 30
				for _, lp := range naturalLoops(f) {
					if lp.body[cl.Block()] && len(lp.body) < size {
						// the loop over the handed-in elements: the outermost loop that contains the append
					}
					if lp.body[cl.Block()] && (header == nil || len(lp.body) > size) {
						header, size = lp.header, len(lp.body)
					}
				}
				if header != nil {
					// start: the side of the innermost dominating test (loop bounds aside) that leads to this append
					var start *ssa.BasicBlock
					for _, g := range core.Guards(cl.Block()) {
						if core.IsLoopBound(core.LitOf(g.Cond, g.Pol)) || g.At == nil {
							continue
						}
						blk := g.At.Block()
						if g.Pol {
							start = blk.Succs[0]
						} else {
							start = blk.Succs[1]
						}
						break
					}
					if start == nil {
						for _, sc := range header.Succs {
							if core.Reachable(sc, cl.Block(), nil) && sc != header {
								start = sc
							}
						}
					}
					if start != nil && start != cl.Block() && core.ReachableAvoiding(start, header, map[*ssa.BasicBlock]bool{cl.Block(): true}) {
						extra = "a path from the element to the next one that skips the append"
					}
					// … and the loop over the handed-in elements is left only when they are exhausted or with an error: an
					// exit from its body that returns no error (or just leaves the loop) drops every later element
					if extra == "" {
						for _, lp := range naturalLoops(f) {
							if lp.header == header {
								if w := c.silentLoopExit(lp.header, lp.body); w != "" {
									extra = w + ": the elements after it are dropped"
								}
							}
						}
					}
				}
			}
			c.R.Func(core.FuncName(core.Outer(f)))
			c.R.Add("INPUT-C", fmt.Sprintf("%s|keeps-every-converter#%d", core.FuncName(core.Outer(f)), n), core.FuncName(core.Outer(f)), p.InstrPos(cl), extra == "",
				"a converter handed to a converter option is appended to the builder's list whenever it is non-nil (and could be wrapped): nothing else decides", ternary(extra == "", "nil test only", "also decided by "+extra))
		})
	}
}

// runResultCtor (ERRFLOW-E4): the constructor of an error Result stores the error it is handed, verbatim.
func (c *Ctx) runResultCtor() {
	p := c.P
	for _, f := range p.ArgFuncs() {
		if f.Parent() != nil || len(f.Params) != 1 || f.Signature.Results().Len() != 1 || core.NamedOf(f.Signature.Results().At(0).Type()) != "Result" {
			continue
		}
		if !types.Identical(f.Params[0].Type(), types.Universe.Lookup("error").Type()) {
			continue
		}
		c.R.Func(core.FuncName(f))
		bad := ""
		n := 0
		core.Instrs(f, func(in ssa.Instruction) {
			st, ok := in.(*ssa.Store)
			if !ok {
				return
			}
			if fr, isF := core.AsFieldAddr(st.Addr); isF && fr.Owner == "Result" {
				n++
				if core.Strip(st.Val) != ssa.Value(f.Params[0]) {
					bad = "stores " + core.Path(st.Val) + " into Result." + fr.Field
				}
			}
		})
		c.R.Add("ERRFLOW-E4", core.FuncName(f)+"|stores-the-error-verbatim", core.FuncName(f), p.Pos(f.Pos()), bad == "" && n == 1 && len(f.Blocks) == 1,
			"the constructor of an error Result stores exactly the error it is given (not an unwrapped, normalised or nil-collapsed form of it)", ternary(bad == "" && n == 1 && len(f.Blocks) == 1, "verbatim", ternary(bad != "", bad, fmt.Sprintf("%d stores, %d blocks", n, len(f.Blocks)))))
	}
}

// runAccumulators (ERRFLOW-E2): a function that accumulates errors with multierror.Append never returns a nil error on
// a way on which the accumulator may be non-nil: a nil-error return is dominated by `accumulator == nil`, every other
// return hands back the accumulator or another error.
func (c *Ctx) runAccumulators() {
	p := c.P
	for _, f := range p.ArgFuncs() {
		var apps []*ssa.Call
		core.Instrs(f, func(in ssa.Instruction) {
			if cl, ok := in.(*ssa.Call); ok && isErrAccumulator(cl.Common()) {
				apps = append(apps, cl)
			}
		})
		if len(apps) == 0 {
			continue
		}
		web := map[ssa.Value]bool{}
		var grow func(v ssa.Value, d int)
		grow = func(v ssa.Value, d int) {
			if v == nil || web[v] || d > 8 {
				return
			}
			web[v] = true
			if v.Referrers() == nil {
				return
			}
			for _, ref := range *v.Referrers() {
				switch x := ref.(type) {
				case *ssa.Phi:
					grow(x, d+1)
				case *ssa.MakeInterface:
					grow(x, d+1)
				case *ssa.ChangeInterface:
					grow(x, d+1)
				case *ssa.Store:
					// a spilled accumulator (captured or address-taken): its loads belong to the web
					if al, ok := x.Addr.(*ssa.Alloc); ok && x.Val == v {
						for _, r2 := range *al.Referrers() {
							if ld, ok := r2.(*ssa.UnOp); ok {
								grow(ld, d+1)
							}
						}
					}
				}
			}
		}
		for _, a := range apps {
			grow(a, 0)
			// what was appended onto is the accumulator too (its earlier state)
			if len(a.Common().Args) > 0 {
				for _, sv := range core.Sources(a.Common().Args[0]) {
					if !core.IsNilConst(sv) {
						grow(sv, 0)
					}
				}
			}
		}
		inWeb := func(v ssa.Value) bool {
			if web[v] {
				return true
			}
			for _, sv := range core.Sources(v) {
				if web[sv] {
					return true
				}
			}
			return false
		}
		nRet, bad := 0, ""
		for _, r := range core.Returns(f) {
			if len(r.Results) == 0 {
				continue
			}
			ev := r.Results[len(r.Results)-1]
			if !types.Identical(ev.Type(), types.Universe.Lookup("error").Type()) {
				continue
			}
			if !core.IsNilConst(ev) {
				continue // hands back the accumulator or some other error
			}
			nRet++
			okNil := false
			for _, l := range core.Lits(core.Guards(r.Block())) {
				if l.Kind == "cmp" && l.Op == token.EQL && l.Pol {
					for _, pr := range [][2]ssa.Value{{l.X, l.Y}, {l.Y, l.X}} {
						if core.IsNilConst(pr[1]) && inWeb(pr[0]) {
							okNil = true
						}
					}
				}
			}
			// the accumulation cannot have happened yet: no Append can precede this return
			before := false
			for _, a := range apps {
				if a.Block() == r.Block() || core.Reachable(a.Block(), r.Block(), nil) {
					before = true
				}
			}
			if !okNil && before {
				bad = "returns a nil error at " + p.InstrPos(r) + " although errors may have been accumulated"
			}
		}
		if nRet == 0 && bad == "" {
			continue
		}
		c.R.Func(core.FuncName(f))
		c.R.Add("ERRFLOW-E2", core.FuncName(f)+"|accumulated-errors-not-dropped", core.FuncName(f), p.Pos(f.Pos()), bad == "",
			"where errors were accumulated with multierror.Append, a nil error is returned only where the accumulator was tested to be nil", ternary(bad == "", fmt.Sprintf("%d nil-error return(s), each after an accumulator-is-nil test or before any accumulation", nRet), bad))
	}
	// a constructor of a list of Funcs leaves its loop over the handed-in functions only when they are exhausted or with
	// an error (`if err == nil { return nil, err }` hands back no list and no error after the first function)
	for _, f := range p.ArgFuncs() {
		if f.Parent() != nil || f.Object() == nil || !f.Object().Exported() || f.Signature.Recv() != nil {
			continue
		}
		rs := f.Signature.Results()
		if rs.Len() != 2 || core.TypeStr(rs.At(0).Type()) != "[]*Func" || !types.Identical(rs.At(1).Type(), types.Universe.Lookup("error").Type()) {
			continue
		}
		for i, lp := range naturalLoops(f) {
			w := c.silentLoopExit(lp.header, lp.body)
			c.R.Func(core.FuncName(f))
			c.R.Add("ERRFLOW-E2", fmt.Sprintf("%s|loop-left-only-with-an-error#%d", core.FuncName(f), i+1), core.FuncName(f), p.Pos(f.Pos()), w == "",
				"the loop over the handed-in functions is left only when they are exhausted or with an error", ternary(w == "", "exhaustion or error exits only", w))
		}
	}
}

// filterHelperShape: h(fs, v, stop) returns stop exactly where a filter answered stop and !stop otherwise, every filter
// being consulted; the call hands in the constant `early`.
func filterHelperShape(h *ssa.Function, site *ssa.Call, early bool) (bool, string) {
	var stopP *ssa.Parameter
	for i, prm := range h.Params {
		if types.Identical(prm.Type(), types.Typ[types.Bool]) && i < len(site.Common().Args) {
			if k, ok := core.ConstBool(site.Common().Args[i]); ok {
				if k != early {
					return false, fmt.Sprintf("the helper is told to stop at %v", k)
				}
				stopP = prm
			}
		}
	}
	if stopP == nil {
		return false, "no constant stop flag handed to the helper"
	}
	nStop, nRest := 0, 0
	for _, r := range core.Returns(h) {
		v := core.Strip(r.Results[0])
		switch {
		case v == ssa.Value(stopP):
			// under `f(v) == stop`
			okG := false
			for _, l := range core.Lits(core.Guards(r.Block())) {
				if l.Kind == "cmp" && l.Op == token.EQL && l.Pol {
					for _, pr := range [][2]ssa.Value{{l.X, l.Y}, {l.Y, l.X}} {
						if pr[1] == ssa.Value(stopP) {
							if cl, ok := pr[0].(*ssa.Call); ok && cl.Common().StaticCallee() == nil && !cl.Common().IsInvoke() && core.TypeStr(cl.Common().Value.Type()) == "FilterFunc" {
								okG = true
							}
						}
					}
				}
			}
			if !okG {
				return false, "returns the stop answer without a filter having given it"
			}
			nStop++
		default:
			if u, ok := v.(*ssa.UnOp); ok && u.Op == token.NOT && u.X == ssa.Value(stopP) {
				nRest++
				continue
			}
			return false, "returns " + core.Path(v)
		}
	}
	consulted := false
	core.Instrs(h, func(in ssa.Instruction) {
		if cl, ok := in.(*ssa.Call); ok && cl.Common().StaticCallee() == nil && !cl.Common().IsInvoke() && core.TypeStr(cl.Common().Value.Type()) == "FilterFunc" {
			only := true
			for _, l := range core.Lits(core.Guards(cl.Block())) {
				if !core.IsLoopBound(l) {
					only = false
				}
			}
			consulted = consulted || only
		}
	})
	if nStop == 0 || nRest == 0 || !consulted {
		return false, fmt.Sprintf("stop-returns=%d other-returns=%d filters-consulted=%v", nStop, nRest, consulted)
	}
	return true, "shared loop: the stop answer only where a filter gave it, its negation otherwise"
}

// runValueOptions (INPUT-V): the value options record exactly what they are given. Every entry written into one of
// the argument builder's value tables (map … → reflect.Value, directly or in an inner by-subtype map) is
// reflect.ValueOf of a value parameter of an option constructor (or an entry copied from the same table of another
// builder), and where the table is keyed by type the key is that very value's Type(). `Typed(cfg)` that also files a
// pointer to a private copy under *T manufactures an input nobody supplied and overwrites one somebody did.
func (c *Ctx) runValueOptions() {
	p := c.P
	builderField := func(m ssa.Value) (string, bool) {
		fr, ok := core.AsFieldLoad(m)
		if ok && fr.Owner == "argBuilder" {
			return fr.Field, true
		}
		return "", false
	}
	isRV := func(t types.Type) bool { return core.TypeStr(t) == "reflect.Value" }
	// the outer lookup an inner by-subtype map was obtained by
	outerOf := func(m ssa.Value) (field string, key ssa.Value, ok bool) {
		for _, sv := range core.Sources(m) {
			switch x := core.Strip(sv).(type) {
			case *ssa.Lookup:
				if f, ok := builderField(x.X); ok {
					return f, x.Index, true
				}
			case *ssa.Extract:
				if lk, ok := x.Tuple.(*ssa.Lookup); ok {
					if f, ok := builderField(lk.X); ok {
						return f, lk.Index, true
					}
				}
			case *ssa.MakeMap:
				for _, ref := range *x.Referrers() {
					if m2, ok := ref.(*ssa.MapUpdate); ok && m2.Value == ssa.Value(x) {
						if f, ok := builderField(m2.Map); ok {
							return f, m2.Key, true
						}
					}
				}
			}
		}
		return "", nil, false
	}
	// the value handed to reflect.ValueOf, traced to parameters of option constructors
	var givenValue func(v ssa.Value, d int) (string, bool)
	givenValue = func(v ssa.Value, d int) (string, bool) {
		if v == nil || d > 10 {
			return "", false
		}
		v = core.Strip(v)
		switch x := v.(type) {
		case *ssa.MakeInterface:
			return givenValue(x.X, d+1)
		case *ssa.ChangeInterface:
			return givenValue(x.X, d+1)
		case *ssa.Slice:
			return givenValue(x.X, d+1)
		case *ssa.UnOp:
			if x.Op != token.MUL {
				return "", false
			}
			if ia, ok := x.X.(*ssa.IndexAddr); ok {
				return givenValue(ia.X, d+1) // an element of the variadic list
			}
			if dv := p.DerefFree(x); dv != nil {
				return givenValue(dv, d+1)
			}
			if al, ok := x.X.(*ssa.Alloc); ok {
				if sv := core.SingleStore(al); sv != nil {
					return givenValue(sv, d+1)
				}
			}
			return "", false
		case *ssa.Extract:
			if nx, ok := x.Tuple.(*ssa.Next); ok && x.Index == 2 {
				if rg, ok := nx.Iter.(*ssa.Range); ok {
					return givenValue(rg.X, d+1)
				}
			}
			return "", false
		case *ssa.FreeVar:
			if b := p.Binding(x); b != nil {
				return givenValue(b, d+1)
			}
			return "", false
		case *ssa.Alloc:
			if sv := core.SingleStore(x); sv != nil {
				return givenValue(sv, d+1)
			}
			return "", false
		case *ssa.Phi:
			who := ""
			for _, e := range x.Edges {
				w, ok := givenValue(e, d+1)
				if !ok {
					return "", false
				}
				who = w
			}
			return who, who != ""
		case *ssa.Parameter:
			if b, isB := x.Type().Underlying().(*types.Basic); isB && b.Kind() == types.String {
				return "", false
			}
			par := x.Parent()
			if par.Parent() == nil && isArgCtor(par) {
				return par.Name() + "." + x.Name(), true
			}
			if !p.PrivateHelper(par) {
				return "", false
			}
			idx, who := paramIndex(x), ""
			sites := p.Callers(par)
			if idx < 0 || len(sites) == 0 {
				return "", false
			}
			for _, site := range sites {
				if idx >= len(site.Common().Args) {
					return "", false
				}
				w, ok := givenValue(site.Common().Args[idx], d+1)
				if !ok {
					return "", false
				}
				who = w
			}
			return who, true
		}
		return "", false
	}
	var typeOfSame func(key, val ssa.Value, d int) bool
	typeOfSame = func(key, val ssa.Value, d int) bool {
		if d > 3 {
			return false
		}
		// key and value handed to a private setter: judged at each call site
		if kp, ok := core.Strip(key).(*ssa.Parameter); ok {
			vp, ok := core.Strip(val).(*ssa.Parameter)
			if !ok || vp.Parent() != kp.Parent() || !p.PrivateHelper(kp.Parent()) {
				return false
			}
			ki, vi := paramIndex(kp), paramIndex(vp)
			sites := p.Callers(kp.Parent())
			if len(sites) == 0 {
				return false
			}
			for _, site := range sites {
				as := site.Common().Args
				if ki >= len(as) || vi >= len(as) || !typeOfSame(as[ki], as[vi], d+1) {
					return false
				}
			}
			return true
		}
		for _, sv := range core.Sources(key) {
			cl, ok := core.Strip(sv).(*ssa.Call)
			if !ok || core.CalleeName(cl.Common()) != "(reflect.Value).Type" {
				return false
			}
			a := cl.Common().Args[0]
			if a != val && core.Path(a) != core.Path(val) {
				// both may be loads of one local, or reads of one captured variable
				la, ok1 := core.Strip(a).(*ssa.UnOp)
				lv, ok2 := core.Strip(val).(*ssa.UnOp)
				if !(ok1 && ok2 && la.X == lv.X) {
					return false
				}
			}
		}
		return true
	}
	n := 0
	for _, f := range p.ArgFuncs() {
		core.Instrs(f, func(in ssa.Instruction) {
			mu, ok := in.(*ssa.MapUpdate)
			if !ok {
				return
			}
			mt, ok := mu.Map.Type().Underlying().(*types.Map)
			if !ok || !isRV(mt.Elem()) {
				return
			}
			field, direct := builderField(mu.Map)
			var outerKey ssa.Value
			if !direct {
				var ok bool
				field, outerKey, ok = outerOf(mu.Map)
				if !ok {
					return
				}
			}
			n++
			c.R.Func(core.FuncName(f))
			// copied from the same table of another builder
			copied := false
			for _, sv := range core.Sources(mu.Value) {
				if ex, ok := core.Strip(sv).(*ssa.Extract); ok {
					if nx, ok := ex.Tuple.(*ssa.Next); ok {
						if rg, ok := nx.Iter.(*ssa.Range); ok {
							if f2, ok := builderField(rg.X); ok && f2 == field && direct {
								copied = true
							}
							if f2, _, ok := outerOf(rg.X); ok && f2 == field && !direct {
								copied = true
							}
						}
					}
				}
			}
			found := "copied from the same table of another builder"
			okv := copied
			if !copied {
				okv = true
				who := ""
				srcs := p.ISources(mu.Value)
				for i := 0; i < len(srcs) && i < 32; i++ {
					// a value computed by the constructor and captured by the option closure
					if ld, ok := core.Strip(srcs[i]).(*ssa.UnOp); ok && ld.Op == token.MUL {
						if dv := p.DerefFree(ld); dv != nil {
							srcs = append(srcs, p.ISources(dv)...)
							srcs[i] = nil
						}
					}
				}
				for _, sv := range srcs {
					if sv == nil {
						continue
					}
					sv = core.Strip(sv)
					if al, isAl := sv.(*ssa.Alloc); isAl && isRV(al.Type().(*types.Pointer).Elem()) && core.SingleStore(al) == nil {
						continue // the zero Value a step returns together with "not valid"
					}
					if k, isK := sv.(*ssa.Const); isK && k.Value == nil {
						continue
					}
					cl, isCall := sv.(*ssa.Call)
					if !isCall || core.CalleeName(cl.Common()) != "reflect.ValueOf" {
						okv = false
						found = "the entry may be " + core.Path(sv) + ", not reflect.ValueOf of a given value"
						break
					}
					w, ok := givenValue(cl.Common().Args[0], 0)
					if !ok {
						okv = false
						found = "reflect.ValueOf of " + core.Path(cl.Common().Args[0]) + ", which is not a value parameter of an option constructor"
						break
					}
					who = w
				}
				if okv && who == "" {
					okv = false
					found = "no reflect.ValueOf of a given value reaches the entry"
				}
				if okv {
					found = "reflect.ValueOf(" + who + ")"
					tk := mu.Key
					if !direct {
						tk = outerKey
					}
					if (direct && core.TypeStr(mt.Key()) == "reflect.Type") || (!direct && core.TypeStr(tk.Type()) == "reflect.Type") {
						if !typeOfSame(tk, mu.Value, 0) {
							okv = false
							found += " filed under a type key that is not that value's own Type()"
						}
					}
				}
			}
			c.R.Add("INPUT-V", fmt.Sprintf("%s|%s entry#%d", core.FuncName(f), field, n), core.FuncName(f), p.InstrPos(mu), okv,
				"an entry of the argument builder's value tables is reflect.ValueOf of a value handed to an option constructor, filed (where the table is keyed by type) under that value's own type — nothing is manufactured from it",
				found)
		})
	}
}

func paramIndex(x *ssa.Parameter) int {
	for i, q := range x.Parent().Params {
		if q == x {
			return i
		}
	}
	return -1
}

// runValueListOrder (VSET): the ordered list of a ValueSet is written only while the set is being constructed.
// Declaration order is what Values(), Args(), Signature() and the error message report; nothing — a renderer that
// sorts "for a stable message" included — permutes, overwrites or re-slices the list of a set that already exists.
func (c *Ctx) runValueListOrder() {
	p := c.P
	isList := func(v ssa.Value) bool {
		for _, sv := range p.ISources(v) {
			if fr, ok := core.AsFieldLoad(core.Strip(sv)); ok && fr.Owner == "ValueSet" && fr.Field == "values" {
				return true
			}
		}
		return false
	}
	bad := ""
	n := 0
	for _, f := range p.ArgFuncs() {
		for _, w := range enumerateWrites(f) {
			var tgt ssa.Value
			switch w.kind {
			case "sort-in-place", "copy-into":
				tgt = w.target
			case "store":
				if ia, ok := w.target.(*ssa.IndexAddr); ok {
					tgt = ia.X
				}
			}
			if tgt == nil || !isList(tgt) {
				continue
			}
			n++
			if p.FreshIn(tgt) {
				continue
			}
			bad = fmt.Sprintf("%s of the ordered value list of an existing set in %s at %s", w.kind, core.FuncName(f), p.InstrPos(w.in))
		}
	}
	c.R.Add("VSET", "values|order-fixed-at-construction", "(package)", "-", bad == "",
		"the ordered value list of a ValueSet is never permuted, overwritten or copied into after the set was built (declaration order is what introspection and the error message report)",
		ternary(bad == "", fmt.Sprintf("%d write(s) to such lists, all on sets under construction", n), bad))
}

// errBoxer: h is a private step `func(err error) reflect.Value` that boxes an error for the final result slot of a
// generated function exactly as the two spellings it replaces did: reflect.ValueOf(err) for a non-nil error and
// reflect.Zero(errType) for nil — decided by err itself (err == nil, or ValueOf(err).IsValid()), not by its contents.
func (c *Ctx) errBoxer(h *ssa.Function) bool {
	p := c.P
	if h == nil || !p.PrivateHelper(h) || len(h.Params) != 1 || h.Signature.Results().Len() != 1 {
		return false
	}
	if core.TypeStr(h.Params[0].Type()) != "error" || core.TypeStr(h.Signature.Results().At(0).Type()) != "reflect.Value" {
		return false
	}
	prm := ssa.Value(h.Params[0])
	isValueOfParam := func(v ssa.Value) bool {
		cl, ok := core.Strip(v).(*ssa.Call)
		if !ok || core.CalleeName(cl.Common()) != "reflect.ValueOf" {
			return false
		}
		a := core.Strip(cl.Common().Args[0])
		if mi, ok := a.(*ssa.MakeInterface); ok {
			a = core.Strip(mi.X)
		}
		if ci, ok := a.(*ssa.ChangeInterface); ok {
			a = core.Strip(ci.X)
		}
		return a == prm
	}
	// the literal that decides: nilKnown(lits) = +1 when err is known nil, -1 when known non-nil, 0 otherwise
	nilKnown := func(lits []core.Lit) int {
		for _, l := range lits {
			switch {
			case l.Kind == "cmp" && l.Op == token.EQL && ((l.X == prm && core.IsNilConst(l.Y)) || (l.Y == prm && core.IsNilConst(l.X))):
				if l.Pol {
					return 1
				}
				return -1
			case l.Kind == "call" && l.Callee == core.RVIsValid && len(l.Args) > 0 && isValueOfParam(l.Args[0]):
				if l.Pol {
					return -1
				}
				return 1
			}
		}
		return 0
	}
	nz, nv := 0, 0
	for _, r := range core.Returns(h) {
		k := nilKnown(core.Lits(core.Guards(r.Block())))
		for _, sv := range core.Sources(r.Results[0]) {
			switch {
			case isValueOfParam(sv):
				if k != -1 {
					return false // the boxed error is returned where err may be nil
				}
				nv++
			default:
				cl, ok := core.Strip(sv).(*ssa.Call)
				if !ok || core.CalleeName(cl.Common()) != "reflect.Zero" || !p.IsErrTypeGlobal(cl.Common().Args[0]) {
					return false
				}
				if k != 1 {
					return false // the nil error is returned where err may be non-nil
				}
				nz++
			}
		}
	}
	return nz > 0 && nv > 0
}

// boxedErr: v is reflect.ValueOf(e), or the error boxer applied to an error that is not the nil constant; e is returned.
func (c *Ctx) boxedErr(v ssa.Value) (ssa.Value, bool) {
	cl, ok := core.Strip(v).(*ssa.Call)
	if !ok || len(cl.Common().Args) != 1 {
		return nil, false
	}
	if core.CalleeName(cl.Common()) == "reflect.ValueOf" {
		return cl.Common().Args[0], true
	}
	if c.errBoxer(cl.Common().StaticCallee()) && !core.IsNilConst(cl.Common().Args[0]) {
		return cl.Common().Args[0], true
	}
	return nil, false
}

// zeroErr: v is reflect.Zero(…) or the error boxer applied to the nil constant.
func (c *Ctx) zeroErr(v ssa.Value) bool {
	cl, ok := core.Strip(v).(*ssa.Call)
	if !ok {
		return false
	}
	if core.CalleeName(cl.Common()) == "reflect.Zero" {
		return true
	}
	return len(cl.Common().Args) == 1 && c.errBoxer(cl.Common().StaticCallee()) && core.IsNilConst(cl.Common().Args[0])
}

// silentLoopExit looks for a way out of a loop's body, other than the exhaustion test in its header, that does not
// report an error: a return whose final error result is the nil constant or is known to be nil on that edge (a
// dominating `err == nil`, the nil alternative of a merged value), or a jump to the code after the loop. Panics and
// returns of a possibly non-nil error are fine. Returns a description of the first such exit, or "".
func (c *Ctx) silentLoopExit(header *ssa.BasicBlock, body map[*ssa.BasicBlock]bool) string {
	p := c.P
	for _, b := range header.Parent().Blocks {
		if !body[b] || b == header {
			continue
		}
		for si, sc := range b.Succs {
			if body[sc] {
				continue
			}
			at := p.InstrPos(b.Instrs[len(b.Instrs)-1])
			switch t := sc.Instrs[len(sc.Instrs)-1].(type) {
			case *ssa.Panic:
				continue
			case *ssa.Return:
				n := len(t.Results)
				if n == 0 {
					return "an exit from the loop at " + at + " that returns nothing"
				}
				ev := t.Results[n-1]
				if _, isErr := ev.Type().Underlying().(*types.Interface); !isErr {
					return "an exit from the loop at " + at + " that reports no error"
				}
				if ph, isPhi := ev.(*ssa.Phi); isPhi && ph.Block() == sc {
					for pi, pr := range sc.Preds {
						if pr == b {
							ev = ph.Edges[pi]
						}
					}
				}
				if core.IsNilConst(ev) {
					return "an exit from the loop at " + at + " that reports no error"
				}
				lits := core.Lits(core.Guards(b))
				if iff, isIf := b.Instrs[len(b.Instrs)-1].(*ssa.If); isIf {
					lits = append(lits, core.LitOf(iff.Cond, si == 0))
				}
				for _, l := range lits {
					if l.Kind == "cmp" && l.Op == token.EQL && l.Pol {
						if (core.Strip(l.X) == core.Strip(ev) && core.IsNilConst(l.Y)) || (core.Strip(l.Y) == core.Strip(ev) && core.IsNilConst(l.X)) {
							return "an exit from the loop at " + at + " on which the returned error is known to be nil"
						}
					}
				}
			default:
				return "a jump out of the loop at " + at
			}
		}
	}
	return ""
}
