package rules

import (
	"fmt"
	"go/token"
	"go/types"
	"strings"

	"argverif/internal/core"

	"golang.org/x/tools/go/ssa"
)

// Small helpers and accessors of the root package that other rules take for granted (round 11, DESIGN §7.16).

// runKind: VSET Value.Kind.
func (c *Ctx) runKind() {
	p := c.P
	// Value.Kind: named exactly when the Name field is not the empty string (the tag parser and Named keep a name of
	// blanks as a name; the discriminator must agree with the tables that are keyed by the name verbatim)
	if k := p.Method(p.Arg, "Value", "Kind"); k != nil {
		c.R.Func(core.FuncName(k))
		bad, n := "", 0
		for _, blk := range k.Blocks {
			iff, ok := blk.Instrs[len(blk.Instrs)-1].(*ssa.If)
			if !ok {
				continue
			}
			n++
			l := core.LitOf(iff.Cond, true)
			okc := false
			if l.Kind == "cmp" && l.Op == token.EQL {
				for _, pr := range [][2]ssa.Value{{l.X, l.Y}, {l.Y, l.X}} {
					if s, isS := core.ConstString(pr[1]); isS && s == "" {
						if fr, isF := core.AsFieldLoad(pr[0]); isF && fr.Field == "Name" && fr.Owner == "Value" {
							okc = true
						}
					}
				}
			}
			if !okc {
				bad = "the kind is decided by " + l.String()
			}
		}
		for _, r := range core.Returns(k) {
			if _, isK := core.ConstInt(r.Results[0]); !isK {
				if _, isPhi := r.Results[0].(*ssa.Phi); !isPhi {
					bad = "returns " + core.Path(r.Results[0])
				}
			}
		}
		c.R.Add("VSET", "Kind|named-iff-name-non-empty", core.FuncName(k), p.Pos(k.Pos()), bad == "" && n == 1,
			"a value is named exactly when its Name field is not the empty string (one test, on the field itself)", ternary(bad == "" && n == 1, "Name != \"\"", ternary(bad != "", bad, fmt.Sprintf("%d tests", n))))
	}
}

// runFilters: FILTER FilterOr / FilterAnd.
// FilterOr: true only where one of the filters returned true, false otherwise (also for no filters);
// FilterAnd: false only where one of the filters returned false, true otherwise.
func (c *Ctx) runFilters() {
	p := c.P
	for _, spec := range []struct {
		name  string
		early bool
	}{{"FilterOr", true}, {"FilterAnd", false}} {
		f := p.Func(p.Arg, spec.name)
		if f == nil {
			continue
		}
		c.R.Func(spec.name)
		var body *ssa.Function
		for _, a := range f.AnonFuncs {
			body = a
		}
		if body == nil {
			c.R.Undecided("FILTER", spec.name+"|body", spec.name, p.Pos(f.Pos()), "the combined filter is not a function literal")
			continue
		}
		bad := ""
		nEarly, nRest := 0, 0
		// both combinators delegating to one loop with a constant "stop at this answer" flag
		// (`return filterUntil(fs, v, true)`): judged on that helper under the constant
		if rs := core.Returns(body); len(rs) == 1 {
			if hc, isC := core.Strip(rs[0].Results[0]).(*ssa.Call); isC {
				if h := hc.Common().StaticCallee(); h != nil && p.InTarget(h) && len(h.Blocks) > 0 {
					okH, why := filterHelperShape(h, hc, spec.early)
					c.R.Add("FILTER", spec.name+"|combines-exactly", spec.name, p.Pos(f.Pos()), okH,
						ternary(spec.early, "FilterOr accepts a value exactly when one of its filters accepts it (no filters: nothing is accepted)", "FilterAnd rejects a value exactly when one of its filters rejects it (no filters: everything is accepted)"), why)
					continue
				}
			}
		}
		for _, r := range core.Returns(body) {
			v, isK := core.ConstBool(r.Results[0])
			if !isK {
				// a result variable: every incoming edge is judged
				if ph, isPhi := r.Results[0].(*ssa.Phi); isPhi {
					for i, e := range ph.Edges {
						ev, ok := core.ConstBool(e)
						if !ok {
							bad = "returns " + core.Path(e)
							continue
						}
						pred := ph.Block().Preds[i]
						lits := core.Lits(append(core.Guards(pred), edgeGuard(pred, ph.Block())...))
						if ev == spec.early {
							if !filterSaid(lits, spec.early) {
								bad = fmt.Sprintf("can return %v without a filter having returned %v", spec.early, spec.early)
							}
							nEarly++
						} else {
							nRest++
						}
					}
					continue
				}
				bad = "returns " + core.Path(r.Results[0])
				continue
			}
			if v == spec.early {
				nEarly++
				if !filterSaid(core.Lits(core.Guards(r.Block())), spec.early) {
					bad = fmt.Sprintf("returns %v without a filter having returned %v", spec.early, spec.early)
				}
			} else {
				nRest++
			}
		}
		// every filter of the list is consulted: the dynamic call sits in a loop over the captured list with no other guard
		consulted := false
		core.Instrs(body, func(in ssa.Instruction) {
			cl, ok := in.(*ssa.Call)
			if !ok || cl.Common().IsInvoke() || cl.Common().StaticCallee() != nil || core.TypeStr(cl.Common().Value.Type()) != "FilterFunc" {
				return
			}
			extra := ""
			for _, l := range core.Lits(core.Guards(cl.Block())) {
				if !core.IsLoopBound(l) {
					extra = l.String()
				}
			}
			if extra == "" {
				consulted = true
			} else {
				bad = "a filter is consulted only under " + extra
			}
		})
		c.R.Add("FILTER", spec.name+"|combines-exactly", spec.name, p.Pos(f.Pos()), bad == "" && consulted && nEarly > 0 && nRest > 0,
			ternary(spec.early, "FilterOr accepts a value exactly when one of its filters accepts it (no filters: nothing is accepted)", "FilterAnd rejects a value exactly when one of its filters rejects it (no filters: everything is accepted)"),
			ternary(bad == "", fmt.Sprintf("filters consulted=%v", consulted), bad))
	}
}

// filterSaid: the literals contain a dynamic FilterFunc call with the given outcome.
func filterSaid(lits []core.Lit, outcome bool) bool {
	for _, l := range lits {
		var cl *ssa.Call
		switch l.Kind {
		case "call":
			cl, _ = l.Of.(*ssa.Call)
		case "bool":
			cl, _ = l.Of.(*ssa.Call)
		}
		if cl != nil && !cl.Common().IsInvoke() && cl.Common().StaticCallee() == nil && core.TypeStr(cl.Common().Value.Type()) == "FilterFunc" && l.Pol == outcome {
			return true
		}
	}
	return false
}

// runConverterOptions (INPUT-C): the options that take converters keep every one of them: the append onto the builder's
// converter list is guarded by nothing but the nil test of that very element (and, for Converter, the nil error of
// wrapping it) — no de-duplication, no "already failed", no "has no outputs", no state carried between applications.
func (c *Ctx) runConverterOptions() {
	p := c.P
	n := 0
	for _, f := range p.ArgFuncs() {
		if f.Parent() == nil || !isArgCtor(core.Outer(f)) {
			continue
		}
		core.Instrs(f, func(in ssa.Instruction) {
			cl, ok := in.(*ssa.Call)
			if !ok || core.CalleeName(cl.Common()) != "builtin.append" {
				return
			}
			fr, ok := core.AsFieldLoad(cl.Common().Args[0])
			if !ok || fr.Owner != "argBuilder" || core.TypeStr(cl.Common().Args[0].Type()) != "[]*Func" {
				return
			}
			n++
			elems := appendedValues(cl)
			extra := ""
			for _, l := range core.Lits(core.Guards(cl.Block())) {
				switch {
				case core.IsLoopBound(l):
				case l.Kind == "cmp" && l.Op == token.EQL && (core.IsNilConst(l.X) || core.IsNilConst(l.Y)):
					// the element's own nil test, or the nil error of wrapping it
					other := l.X
					if core.IsNilConst(l.X) {
						other = l.Y
					}
					okNil := false
					for _, e := range elems {
						if core.Strip(e) == core.Strip(other) || core.Path(e) == core.Path(other) {
							okNil = true
						}
					}
					if _, isErr := other.Type().Underlying().(*types.Interface); isErr {
						okNil = true
					}
					if !okNil {
						extra = l.String()
					}
				case l.Kind == "ok":
					// a type dispatch on the handed-in element (`switch f := f.(type)`): which branch appends is decided by it,
					// that some branch appends is decided by the bypass test below
					if ta, isT := l.Of.(*ssa.TypeAssert); !isT {
						extra = l.String()
					} else {
						_ = ta
					}
				default:
					extra = l.String()
				}
			}
			// … and no way from the element's non-nil side to the next element avoids the append (a `continue` out of an
			// inner "is it already in the list" loop is not a dominating guard of the append, but it skips it)
			if extra == "" {
				var header *ssa.BasicBlock
				size := 1 << 30
				for _, lp := range naturalLoops(f) {
					if lp.body[cl.Block()] && len(lp.body) < size {
						// the loop over the handed-in elements: the outermost loop that contains the append
					}
					if lp.body[cl.Block()] && (header == nil || len(lp.body) > size) {
						header, size = lp.header, len(lp.body)
					}
				}
				if header != nil {
					// start: the side of the innermost dominating test (loop bounds aside) that leads to this append
					var start *ssa.BasicBlock
					for _, g := range core.Guards(cl.Block()) {
						if core.IsLoopBound(core.LitOf(g.Cond, g.Pol)) || g.At == nil {
							continue
						}
						blk := g.At.Block()
						if g.Pol {
							start = blk.Succs[0]
						} else {
							start = blk.Succs[1]
						}
						break
					}
					if start == nil {
						for _, sc := range header.Succs {
							if core.Reachable(sc, cl.Block(), nil) && sc != header {
								start = sc
							}
						}
					}
					if start != nil && start != cl.Block() && core.ReachableAvoiding(start, header, map[*ssa.BasicBlock]bool{cl.Block(): true}) {
						extra = "a path from the element to the next one that skips the append"
					}
				}
			}
			c.R.Func(core.FuncName(core.Outer(f)))
			c.R.Add("INPUT-C", fmt.Sprintf("%s|keeps-every-converter#%d", core.FuncName(core.Outer(f)), n), core.FuncName(core.Outer(f)), p.InstrPos(cl), extra == "",
				"a converter handed to a converter option is appended to the builder's list whenever it is non-nil (and could be wrapped): nothing else decides", ternary(extra == "", "nil test only", "also decided by "+extra))
		})
	}
}

// runResultCtor (ERRFLOW-E4): the constructor of an error Result stores the error it is handed, verbatim.
func (c *Ctx) runResultCtor() {
	p := c.P
	for _, f := range p.ArgFuncs() {
		if f.Parent() != nil || len(f.Params) != 1 || f.Signature.Results().Len() != 1 || core.NamedOf(f.Signature.Results().At(0).Type()) != "Result" {
			continue
		}
		if !types.Identical(f.Params[0].Type(), types.Universe.Lookup("error").Type()) {
			continue
		}
		c.R.Func(core.FuncName(f))
		bad := ""
		n := 0
		core.Instrs(f, func(in ssa.Instruction) {
			st, ok := in.(*ssa.Store)
			if !ok {
				return
			}
			if fr, isF := core.AsFieldAddr(st.Addr); isF && fr.Owner == "Result" {
				n++
				if core.Strip(st.Val) != ssa.Value(f.Params[0]) {
					bad = "stores " + core.Path(st.Val) + " into Result." + fr.Field
				}
			}
		})
		c.R.Add("ERRFLOW-E4", core.FuncName(f)+"|stores-the-error-verbatim", core.FuncName(f), p.Pos(f.Pos()), bad == "" && n == 1 && len(f.Blocks) == 1,
			"the constructor of an error Result stores exactly the error it is given (not an unwrapped, normalised or nil-collapsed form of it)", ternary(bad == "" && n == 1 && len(f.Blocks) == 1, "verbatim", ternary(bad != "", bad, fmt.Sprintf("%d stores, %d blocks", n, len(f.Blocks)))))
	}
}

// runAccumulators (ERRFLOW-E2): a function that accumulates errors with multierror.Append never returns a nil error on
// a way on which the accumulator may be non-nil: a nil-error return is dominated by `accumulator == nil`, every other
// return hands back the accumulator or another error.
func (c *Ctx) runAccumulators() {
	p := c.P
	for _, f := range p.ArgFuncs() {
		var apps []*ssa.Call
		core.Instrs(f, func(in ssa.Instruction) {
			if cl, ok := in.(*ssa.Call); ok && strings.HasSuffix(core.CalleeName(cl.Common()), "go-multierror.Append") {
				apps = append(apps, cl)
			}
		})
		if len(apps) == 0 {
			continue
		}
		web := map[ssa.Value]bool{}
		var grow func(v ssa.Value, d int)
		grow = func(v ssa.Value, d int) {
			if v == nil || web[v] || d > 8 {
				return
			}
			web[v] = true
			if v.Referrers() == nil {
				return
			}
			for _, ref := range *v.Referrers() {
				switch x := ref.(type) {
				case *ssa.Phi:
					grow(x, d+1)
				case *ssa.MakeInterface:
					grow(x, d+1)
				case *ssa.ChangeInterface:
					grow(x, d+1)
				case *ssa.Store:
					// a spilled accumulator (captured or address-taken): its loads belong to the web
					if al, ok := x.Addr.(*ssa.Alloc); ok && x.Val == v {
						for _, r2 := range *al.Referrers() {
							if ld, ok := r2.(*ssa.UnOp); ok {
								grow(ld, d+1)
							}
						}
					}
				}
			}
		}
		for _, a := range apps {
			grow(a, 0)
			// what was appended onto is the accumulator too (its earlier state)
			if len(a.Common().Args) > 0 {
				for _, sv := range core.Sources(a.Common().Args[0]) {
					if !core.IsNilConst(sv) {
						grow(sv, 0)
					}
				}
			}
		}
		inWeb := func(v ssa.Value) bool {
			if web[v] {
				return true
			}
			for _, sv := range core.Sources(v) {
				if web[sv] {
					return true
				}
			}
			return false
		}
		nRet, bad := 0, ""
		for _, r := range core.Returns(f) {
			if len(r.Results) == 0 {
				continue
			}
			ev := r.Results[len(r.Results)-1]
			if !types.Identical(ev.Type(), types.Universe.Lookup("error").Type()) {
				continue
			}
			if !core.IsNilConst(ev) {
				continue // hands back the accumulator or some other error
			}
			nRet++
			okNil := false
			for _, l := range core.Lits(core.Guards(r.Block())) {
				if l.Kind == "cmp" && l.Op == token.EQL && l.Pol {
					for _, pr := range [][2]ssa.Value{{l.X, l.Y}, {l.Y, l.X}} {
						if core.IsNilConst(pr[1]) && inWeb(pr[0]) {
							okNil = true
						}
					}
				}
			}
			// the accumulation cannot have happened yet: no Append can precede this return
			before := false
			for _, a := range apps {
				if a.Block() == r.Block() || core.Reachable(a.Block(), r.Block(), nil) {
					before = true
				}
			}
			if !okNil && before {
				bad = "returns a nil error at " + p.InstrPos(r) + " although errors may have been accumulated"
			}
		}
		if nRet == 0 && bad == "" {
			continue
		}
		c.R.Func(core.FuncName(f))
		c.R.Add("ERRFLOW-E2", core.FuncName(f)+"|accumulated-errors-not-dropped", core.FuncName(f), p.Pos(f.Pos()), bad == "",
			"where errors were accumulated with multierror.Append, a nil error is returned only where the accumulator was tested to be nil", ternary(bad == "", fmt.Sprintf("%d nil-error return(s), each after an accumulator-is-nil test or before any accumulation", nRet), bad))
	}
}

// filterHelperShape: h(fs, v, stop) returns stop exactly where a filter answered stop and !stop otherwise, every filter
// being consulted; the call hands in the constant `early`.
func filterHelperShape(h *ssa.Function, site *ssa.Call, early bool) (bool, string) {
	var stopP *ssa.Parameter
	for i, prm := range h.Params {
		if types.Identical(prm.Type(), types.Typ[types.Bool]) && i < len(site.Common().Args) {
			if k, ok := core.ConstBool(site.Common().Args[i]); ok {
				if k != early {
					return false, fmt.Sprintf("the helper is told to stop at %v", k)
				}
				stopP = prm
			}
		}
	}
	if stopP == nil {
		return false, "no constant stop flag handed to the helper"
	}
	nStop, nRest := 0, 0
	for _, r := range core.Returns(h) {
		v := core.Strip(r.Results[0])
		switch {
		case v == ssa.Value(stopP):
			// under `f(v) == stop`
			okG := false
			for _, l := range core.Lits(core.Guards(r.Block())) {
				if l.Kind == "cmp" && l.Op == token.EQL && l.Pol {
					for _, pr := range [][2]ssa.Value{{l.X, l.Y}, {l.Y, l.X}} {
						if pr[1] == ssa.Value(stopP) {
							if cl, ok := pr[0].(*ssa.Call); ok && cl.Common().StaticCallee() == nil && !cl.Common().IsInvoke() && core.TypeStr(cl.Common().Value.Type()) == "FilterFunc" {
								okG = true
							}
						}
					}
				}
			}
			if !okG {
				return false, "returns the stop answer without a filter having given it"
			}
			nStop++
		default:
			if u, ok := v.(*ssa.UnOp); ok && u.Op == token.NOT && u.X == ssa.Value(stopP) {
				nRest++
				continue
			}
			return false, "returns " + core.Path(v)
		}
	}
	consulted := false
	core.Instrs(h, func(in ssa.Instruction) {
		if cl, ok := in.(*ssa.Call); ok && cl.Common().StaticCallee() == nil && !cl.Common().IsInvoke() && core.TypeStr(cl.Common().Value.Type()) == "FilterFunc" {
			only := true
			for _, l := range core.Lits(core.Guards(cl.Block())) {
				if !core.IsLoopBound(l) {
					only = false
				}
			}
			consulted = consulted || only
		}
	})
	if nStop == 0 || nRest == 0 || !consulted {
		return false, fmt.Sprintf("stop-returns=%d other-returns=%d filters-consulted=%v", nStop, nRest, consulted)
	}
	return true, "shared loop: the stop answer only where a filter gave it, its negation otherwise"
}
