package rules

import "sort"

// PropSpec says which engines decide a property and which rule ids count for it.
type PropSpec struct {
	ID          string
	Engines     []string // engines to run
	Rules       []string // rule ids / families whose obligations belong to this property
	Explanation string
	NotDecided  string
	Assumptions []string
}

var props = map[string]*PropSpec{}

func PropertyIDs() []string {
	var ids []string
	for id := range props {
		ids = append(ids, id)
	}
	sort.Strings(ids)
	return ids
}

func Property(id string) *PropSpec { return props[id] }

func init() {
	props["C01"] = &PropSpec{ID: "C01", Engines: []string{"EDGE", "WALK", "SHARED"}, Rules: []string{"EDGE", "WALK", "ORDER", "OUTMAP", "ARGPOP", "SIBLING", "FAB", "HASH", "IMMUT"},
		Explanation: "wip"}
	props["C03"] = &PropSpec{ID: "C03", Engines: []string{"PRIO", "EDGE"}, Rules: []string{"PRIO-N", "PRIO-T", "PRIO-W", "PRIO-P", "PRIO-D", "INPUT", "EDGE-V"},
		Explanation: "wip"}
	props["C06"] = &PropSpec{ID: "C06", Engines: []string{"TERM", "PANIC", "HEAP", "OPTS", "SHARED"}, Rules: []string{"TERM", "PANIC", "PACK", "STRUCTOF", "HEAP-H3", "NILOPT", "REFLVALID", "ALIAS"},
		Explanation: "wip"}
	props["C07"] = &PropSpec{ID: "C07", Engines: []string{"PRIO"}, Rules: []string{"PRIO-W", "PRIO-D", "PRIO-P"},
		Explanation: "wip"}
	props["C04"] = &PropSpec{ID: "C04", Engines: []string{"ERRFLOW"}, Rules: []string{"ERRFLOW"},
		Explanation: "wip"}
	props["C08"] = &PropSpec{ID: "C08", Engines: []string{"REDEF", "EXEC", "SHARED", "WALK"}, Rules: []string{"REDEF", "EXEC-X2", "EXEC-X3", "EXEC-X4", "EXEC-X6", "SHARED-C", "FAB"},
		Explanation: "wip"}
	props["C09"] = &PropSpec{ID: "C09", Engines: []string{"EXEC", "SHARED"}, Rules: []string{"EXEC", "SHARED", "ALIAS"},
		Explanation: "wip"}
	props["C11"] = &PropSpec{ID: "C11", Engines: []string{"EXEC", "SHARED"}, Rules: []string{"ONCE", "ALIAS", "SHARED-W", "SHARED-C"},
		Explanation: "wip"}
	props["C12"] = &PropSpec{ID: "C12", Engines: []string{"SHARED"}, Rules: []string{"SHARED", "IMMUT", "ALIAS", "HASH"},
		Explanation: "wip"}
	props["C13"] = &PropSpec{ID: "C13", Engines: []string{"UNSAT"}, Rules: []string{"UNSAT"},
		Explanation: "wip"}
	props["C15"] = &PropSpec{ID: "C15", Engines: []string{"BUILD", "PANIC", "OPTS", "SHARED"}, Rules: []string{"BUILD", "VSET", "PACK", "TAGS", "SHARED-C", "STRUCTWALK"},
		Explanation: "wip"}
	props["C02"] = &PropSpec{ID: "C02", Engines: []string{"ERRFLOW", "UNSAT", "TERM"}, Rules: []string{"ERRFLOW-E2", "ERRFLOW-E3", "ERRFLOW-E5", "UNSAT-U1", "UNSAT-U2", "UNSAT-U3", "UNSAT-U7", "TERM-W1", "TERM-W2", "TERM-W3"},
		Explanation: "wip"}
	props["C05"] = &PropSpec{ID: "C05", Engines: []string{"EDGE", "UNSAT", "PRIO", "ERRFLOW", "TERM"}, Rules: []string{"EDGE-K", "UNSAT-U3", "PRIO-P", "ERRFLOW-E3", "TERM-W3", "TERM-W1", "TERM-W2"},
		Explanation: "wip"}
	props["C16"] = &PropSpec{ID: "C16", Engines: []string{"OPTS"}, Rules: []string{"LOWER", "OPTORDER", "NILOPT", "REFLVALID"},
		Explanation: "wip"}
	props["C14"] = &PropSpec{ID: "C14", Engines: []string{"OPTS", "ERRPRED"}, Rules: []string{"LOWER", "ERRPRED", "REFLVALID", "TAGS", "REJECT", "STRUCTWALK"},
		Explanation: "wip"}
	props["C10"] = &PropSpec{ID: "C10", Engines: []string{"CONVERT", "ERRFLOW"}, Rules: []string{"CONVERT", "ERRFLOW-E1", "ERRFLOW-E4"},
		Explanation: "wip"}
	props["C17"] = &PropSpec{ID: "C17", Engines: []string{"ERRPRED"}, Rules: []string{"ERRPRED", "RESULTLIT", "LEN"},
		Explanation: "wip"}
	props["C18"] = &PropSpec{ID: "C18", Engines: []string{"HEAP"}, Rules: []string{"HEAP"},
		Explanation: "wip"}
	props["C20"] = &PropSpec{ID: "C20", Engines: []string{"DFSV"}, Rules: []string{"DFSV", "KAHN"},
		Explanation: "wip"}
	props["C19"] = &PropSpec{ID: "C19", Engines: []string{"MIRROR"}, Rules: []string{"MIRROR", "COPY", "REVERSE", "PURITY"},
		Explanation: "wip"}
}
