package rules

import (
	"go/types"

	"argverif/internal/core"

	"golang.org/x/tools/go/ssa"
)

// sliceReuseHazard: the function shortens a slice in place (`s = s[:0]`, `s[:k]`), appends onto the shortened slice and
// still reads the original through another name afterwards (`ready := s; s = s[:0]; for … range ready { s = append(s, …) }`):
// the appends overwrite elements of the original that have not been read yet. Returns a description, or "".
// A read that can only be reached again through the block that re-defines the original (the next iteration of the
// loop the pop idiom lives in) does not count.
func sliceReuseHazard(p *core.Prog, f *ssa.Function) string {
	hazard := ""
	core.Instrs(f, func(in ssa.Instruction) {
		sl, ok := in.(*ssa.Slice)
		if !ok || hazard != "" {
			return
		}
		if _, isSlice := sl.X.Type().Underlying().(*types.Slice); !isSlice {
			return
		}
		if sl.Low != nil {
			if k, ok := core.ConstInt(sl.Low); !ok || k != 0 {
				return // drops a prefix: the kept part is not overwritten by appends
			}
		}
		if sl.High == nil {
			return
		}
		// appended onto (through phis)?
		appended := false
		seen := map[ssa.Value]bool{}
		var flows func(v ssa.Value, d int)
		flows = func(v ssa.Value, d int) {
			if seen[v] || d > 6 || v.Referrers() == nil {
				return
			}
			seen[v] = true
			for _, ref := range *v.Referrers() {
				switch x := ref.(type) {
				case *ssa.Phi:
					flows(x, d+1)
				case *ssa.Call:
					if core.CalleeName(x.Common()) == "builtin.append" && len(x.Common().Args) > 0 && x.Common().Args[0] == v {
						appended = true
					}
				}
			}
		}
		flows(sl, 0)
		if !appended {
			return
		}
		// later reads of the original value
		var defBlock *ssa.BasicBlock
		if ph, isPhi := sl.X.(*ssa.Phi); isPhi {
			defBlock = ph.Block()
		}
		if sl.X.Referrers() == nil {
			return
		}
		for _, ref := range *sl.X.Referrers() {
			ia, isIA := ref.(*ssa.IndexAddr)
			if !isIA {
				continue
			}
			later := false
			if ia.Block() == sl.Block() {
				later = core.InstrIndex(ia) > core.InstrIndex(sl)
			} else {
				avoid := map[*ssa.BasicBlock]bool{}
				if defBlock != nil && defBlock != ia.Block() {
					avoid[defBlock] = true
				}
				later = core.ReachableAvoiding(sl.Block(), ia.Block(), avoid)
			}
			if later {
				hazard = "appends onto " + core.Path(sl) + " (shortened at " + p.InstrPos(sl) + ") overwrite elements of the original still read at " + p.InstrPos(ia)
			}
		}
	})
	return hazard
}
