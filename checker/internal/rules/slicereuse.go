package rules

import (
	"go/types"

	"argverif/internal/core"

	"golang.org/x/tools/go/ssa"
)

// sliceReuseHazard: the function shortens a slice in place (`s = s[:0]`, `s[:k]`), appends onto the shortened slice and
// still reads the original through another name afterwards (`ready := s; s = s[:0]; for … range ready { s = append(s, …) }`):
// the appends overwrite elements of the original that have not been read yet. Returns a description, or "".
// A read that can only be reached again through the block that re-defines the original (the next iteration of the
// loop the pop idiom lives in) does not count.
func sliceReuseHazard(p *core.Prog, f *ssa.Function) string {
	hazard := ""
	core.Instrs(f, func(in ssa.Instruction) {
		sl, ok := in.(*ssa.Slice)
		if !ok || hazard != "" {
			return
		}
		if _, isSlice := sl.X.Type().Underlying().(*types.Slice); !isSlice {
			return
		}
		if sl.Low != nil {
			if k, ok := core.ConstInt(sl.Low); !ok || k != 0 {
				return // drops a prefix: the kept part is not overwritten by appends
			}
		}
		if sl.High == nil {
			return
		}
		// appended onto (through phis)?
		appended := false
		seen := map[ssa.Value]bool{}
		var flows func(v ssa.Value, d int)
		flows = func(v ssa.Value, d int) {
			if seen[v] || d > 6 || v.Referrers() == nil {
				return
			}
			seen[v] = true
			for _, ref := range *v.Referrers() {
				switch x := ref.(type) {
				case *ssa.Phi:
					flows(x, d+1)
				case *ssa.Call:
					if core.CalleeName(x.Common()) == "builtin.append" && len(x.Common().Args) > 0 && x.Common().Args[0] == v {
						appended = true
					}
				}
			}
		}
		flows(sl, 0)
		if !appended {
			return
		}
		// later reads of the original value
		var defBlock *ssa.BasicBlock
		if ph, isPhi := sl.X.(*ssa.Phi); isPhi {
			defBlock = ph.Block()
		}
		if sl.X.Referrers() == nil {
			return
		}
		for _, ref := range *sl.X.Referrers() {
			ia, isIA := ref.(*ssa.IndexAddr)
			if !isIA {
				continue
			}
			later := false
			if ia.Block() == sl.Block() {
				later = core.InstrIndex(ia) > core.InstrIndex(sl)
			} else {
				avoid := map[*ssa.BasicBlock]bool{}
				if defBlock != nil && defBlock != ia.Block() {
					avoid[defBlock] = true
				}
				later = core.ReachableAvoiding(sl.Block(), ia.Block(), avoid)
			}
			if later {
				hazard = "appends onto " + core.Path(sl) + " (shortened at " + p.InstrPos(sl) + ") overwrite elements of the original still read at " + p.InstrPos(ia)
			}
		}
	})
	return hazard
}

// retainsParam: callee g keeps parameter idx beyond its own activation — returns it, stores it outside its frame, or
// binds it into a closure that it returns or stores (one level; enough for accessor-style methods).
func retainsParam(p *core.Prog, g *ssa.Function, idx int) bool {
	if g == nil || len(g.Blocks) == 0 || idx >= len(g.Params) {
		return false
	}
	prm := g.Params[idx]
	escapes := func(v ssa.Value) bool {
		if v.Referrers() == nil {
			return false
		}
		for _, ref := range *v.Referrers() {
			switch x := ref.(type) {
			case *ssa.Return:
				return true
			case *ssa.Store:
				if x.Val == v {
					if _, local := x.Addr.(*ssa.Alloc); !local {
						return true
					}
				}
			case *ssa.MapUpdate:
				if x.Value == v {
					return true
				}
			case *ssa.MakeInterface, *ssa.ChangeType:
				for _, r2 := range *x.(ssa.Value).Referrers() {
					if _, ok := r2.(*ssa.Return); ok {
						return true
					}
				}
			}
		}
		return false
	}
	if escapes(prm) {
		return true
	}
	for _, ref := range *prm.Referrers() {
		if mc, ok := ref.(*ssa.MakeClosure); ok && escapes(mc) {
			return true
		}
		// a captured parameter is spilled into a cell first: the closure binds the cell
		if st, ok := ref.(*ssa.Store); ok && st.Val == ssa.Value(prm) {
			if cell, ok := st.Addr.(*ssa.Alloc); ok && cell.Referrers() != nil {
				for _, r2 := range *cell.Referrers() {
					if mc, ok := r2.(*ssa.MakeClosure); ok && escapes(mc) {
						return true
					}
				}
			}
		}
	}
	return false
}

// loopVarRetained: a variable that lives across the iterations of a loop (allocated outside the loop, assigned in it —
// a range variable under the pre-1.22 semantics the module's go directive selects) has its address kept beyond the
// iteration: handed to a callee that retains it, bound into a closure that outlives the iteration, or stored. Every
// keeper then sees the value of the last iteration.
func loopVarRetained(p *core.Prog, f *ssa.Function) string {
	loops := naturalLoops(f)
	if len(loops) == 0 {
		return ""
	}
	out := ""
	core.Instrs(f, func(in ssa.Instruction) {
		al, ok := in.(*ssa.Alloc)
		if !ok || out != "" || al.Referrers() == nil {
			return
		}
		for _, lp := range loops {
			if lp.body[al.Block()] {
				continue // allocated per iteration
			}
			assigned := false
			for _, ref := range *al.Referrers() {
				if st, ok := ref.(*ssa.Store); ok && st.Addr == ssa.Value(al) && lp.body[st.Block()] {
					assigned = true
				}
			}
			if !assigned {
				continue
			}
			for _, ref := range *al.Referrers() {
				ri, _ := ref.(ssa.Instruction)
				if ri == nil || !lp.body[ri.Block()] {
					continue
				}
				switch x := ref.(type) {
				case ssa.CallInstruction:
					cal := x.Common().StaticCallee()
					for i, a := range x.Common().Args {
						if a == ssa.Value(al) && p.InTarget(cal) && retainsParam(p, cal, i) {
							out = "the address of a variable shared by all iterations (" + al.Comment + ") is handed to " + core.FuncName(cal) + ", which keeps it, at " + p.InstrPos(x)
						}
					}
				case *ssa.MakeClosure:
					var follow func(v ssa.Value, d int)
					follow = func(v ssa.Value, d int) {
						if v.Referrers() == nil || d > 3 {
							return
						}
						for _, r2 := range *v.Referrers() {
							switch y := r2.(type) {
							case *ssa.Store, *ssa.MapUpdate, *ssa.Return, *ssa.Go, *ssa.Defer:
								out = "a closure over a variable shared by all iterations (" + al.Comment + ") outlives the iteration at " + p.InstrPos(y)
							case *ssa.ChangeType:
								follow(y, d+1)
							case *ssa.MakeInterface:
								follow(y, d+1)
							}
						}
					}
					follow(x, 0)
				case *ssa.Store:
					if x.Val == ssa.Value(al) {
						if _, local := x.Addr.(*ssa.Alloc); !local {
							out = "the address of a variable shared by all iterations (" + al.Comment + ") is stored at " + p.InstrPos(x)
						}
					}
				}
			}
		}
	})
	return out
}
