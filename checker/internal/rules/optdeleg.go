package rules

import (
	"fmt"
	"go/token"
	"go/types"
	"sort"
	"strings"

	"argverif/internal/core"

	"golang.org/x/tools/go/ssa"
)

// OPTDELEG (C01, C03, C16). An option constructor that hands its work to another option constructor keeps every
// label: the callee's name parameter receives the caller's name parameter, its subtype parameter the caller's
// subtype parameter, and a label the callee cannot carry is dropped only where it was tested to be empty.
// The role of a string parameter is read from the code: the parameter that (lower-cased or not) keys a string-keyed
// table of the builder is the name; the parameter that keys an inner by-subtype table is the subtype.

// traceToParam follows a string value back through strings.ToLower, locals, captured variables and the parameters of
// private steps to a parameter of an outermost function. With several call sites of a step the value has several
// origins; the single-origin form returns nil then.
func (c *Ctx) traceToParam(v ssa.Value, fn *ssa.Function) *ssa.Parameter {
	ps, ok := c.traceToParams(v, 0)
	if !ok || len(ps) != 1 {
		return nil
	}
	return ps[0]
}

// traceToParams: every parameter of an outermost function the value can originate from (constants contribute none);
// ok is false when some origin is something else.
func (c *Ctx) traceToParams(v ssa.Value, d int) ([]*ssa.Parameter, bool) {
	p := c.P
	if v == nil || d > 12 {
		return nil, false
	}
	v = core.Strip(v)
	switch x := v.(type) {
	case *ssa.Const:
		return nil, true
	case *ssa.Call:
		n := core.CalleeName(x.Common())
		if (n == "strings.ToLower" || n == "strings.TrimSpace") && len(x.Common().Args) == 1 {
			return c.traceToParams(x.Common().Args[0], d+1)
		}
		return nil, false
	case *ssa.Phi:
		var out []*ssa.Parameter
		for _, e := range x.Edges {
			ps, ok := c.traceToParams(e, d+1)
			if !ok {
				return nil, false
			}
			out = append(out, ps...)
		}
		return out, true
	case *ssa.UnOp:
		if x.Op == token.MUL {
			if dv := p.DerefFree(x); dv != nil {
				return c.traceToParams(dv, d+1)
			}
			if al, ok := x.X.(*ssa.Alloc); ok {
				if s := core.SingleStore(al); s != nil {
					return c.traceToParams(s, d+1)
				}
			}
		}
		return nil, false
	case *ssa.FreeVar:
		if b := p.Binding(x); b != nil {
			return c.traceToParams(b, d+1)
		}
		return nil, false
	case *ssa.Alloc:
		if s := core.SingleStore(x); s != nil {
			return c.traceToParams(s, d+1)
		}
		return nil, false
	case *ssa.Parameter:
		par := x.Parent()
		if par.Parent() == nil && (!p.PrivateHelper(par) || isArgCtorLike(par)) {
			return []*ssa.Parameter{x}, true
		}
		idx := -1
		for j, q := range par.Params {
			if q == x {
				idx = j
			}
		}
		sites := p.Callers(par)
		if idx < 0 || len(sites) == 0 {
			return nil, false
		}
		var out []*ssa.Parameter
		for _, site := range sites {
			if idx >= len(site.Common().Args) {
				return nil, false
			}
			ps, ok := c.traceToParams(site.Common().Args[idx], d+1)
			if !ok {
				return nil, false
			}
			out = append(out, ps...)
		}
		return out, true
	}
	return nil, false
}

func isArgCtor(f *ssa.Function) bool {
	if f == nil || f.Parent() != nil || f.Object() == nil || !f.Object().Exported() || f.Signature.Recv() != nil {
		return false
	}
	rs := f.Signature.Results()
	return rs.Len() == 1 && core.TypeStr(rs.At(0).Type()) == "Arg"
}

// isArgCtorLike: an exported option constructor, or an unexported top-level function of the same shape (it returns
// an Arg and takes at least one string parameter) that exported constructors share their implementation with — such a
// function carries labels of its own and is judged like a constructor by OPTDELEG.
func isArgCtorLike(f *ssa.Function) bool {
	if isArgCtor(f) {
		return true
	}
	if f == nil || f.Parent() != nil || f.Object() == nil || f.Signature.Recv() != nil || f.Blocks == nil {
		return false
	}
	rs := f.Signature.Results()
	if rs.Len() != 1 || core.TypeStr(rs.At(0).Type()) != "Arg" {
		return false
	}
	for _, q := range f.Params {
		if b, ok := q.Type().Underlying().(*types.Basic); ok && b.Kind() == types.String {
			return true
		}
	}
	return false
}

func (c *Ctx) runOptDeleg() {
	p := c.P
	roles := map[*ssa.Function]map[int]string{} // ctor -> parameter index -> "name" | "subtype"
	setRole := func(prm *ssa.Parameter, role string) {
		f := prm.Parent()
		if !isArgCtorLike(f) {
			return
		}
		if b, ok := prm.Type().Underlying().(*types.Basic); !ok || b.Kind() != types.String {
			return
		}
		for i, q := range f.Params {
			if q == prm {
				if roles[f] == nil {
					roles[f] = map[int]string{}
				}
				if old, ok := roles[f][i]; ok && old != role {
					roles[f][i] = "both"
					return
				}
				roles[f][i] = role
			}
		}
	}
	// a table handed to a private step (`setSubtype(a.namedSub, name, st, rv)`) is the builder's table at every call site
	var builderFieldD func(m ssa.Value, d int) bool
	builderFieldD = func(m ssa.Value, d int) bool {
		if fr, ok := core.AsFieldLoad(m); ok && fr.Owner == "argBuilder" {
			return true
		}
		prm, ok := core.Strip(m).(*ssa.Parameter)
		if !ok || d > 2 || !p.PrivateHelper(prm.Parent()) {
			return false
		}
		idx := paramIndex(prm)
		sites := p.Callers(prm.Parent())
		if idx < 0 || len(sites) == 0 {
			return false
		}
		for _, site := range sites {
			if idx >= len(site.Common().Args) || !builderFieldD(site.Common().Args[idx], d+1) {
				return false
			}
		}
		return true
	}
	builderField := func(m ssa.Value) bool { return builderFieldD(m, 0) }
	innerOfBuilder := func(m ssa.Value) bool {
		for _, sv := range core.Sources(m) {
			switch x := core.Strip(sv).(type) {
			case *ssa.Lookup:
				if builderField(x.X) {
					return true
				}
			case *ssa.Extract:
				if lk, ok := x.Tuple.(*ssa.Lookup); ok && builderField(lk.X) {
					return true
				}
			case *ssa.MakeMap:
				for _, ref := range *x.Referrers() {
					if m2, ok := ref.(*ssa.MapUpdate); ok && m2.Value == ssa.Value(x) && builderField(m2.Map) {
						return true
					}
				}
			}
		}
		return false
	}
	for _, f := range p.ArgFuncs() {
		core.Instrs(f, func(in ssa.Instruction) {
			var m, key ssa.Value
			switch x := in.(type) {
			case *ssa.MapUpdate:
				m, key = x.Map, x.Key
			case *ssa.Lookup:
				m, key = x.X, x.Index
			default:
				return
			}
			mt, ok := m.Type().Underlying().(*types.Map)
			if !ok {
				return
			}
			if b, ok := mt.Key().Underlying().(*types.Basic); !ok || b.Kind() != types.String {
				return
			}
			role := ""
			if builderField(m) {
				role = "name"
			} else if innerOfBuilder(m) {
				role = "subtype"
			}
			if role == "" {
				return
			}
			if prms, ok := c.traceToParams(key, 0); ok {
				for _, prm := range prms {
					setRole(prm, role)
				}
			}
		})
	}
	var ctors []*ssa.Function
	for _, f := range p.ArgFuncs() {
		if isArgCtorLike(f) {
			ctors = append(ctors, f)
		}
	}
	sort.Slice(ctors, func(i, j int) bool { return ctors[i].Name() < ctors[j].Name() })
	// pure delegators inherit the role of the position they forward to
	for round := 0; round < 2; round++ {
		for _, f := range ctors {
			for _, ci := range core.Calls(f) {
				cal := ci.Common().StaticCallee()
				if !isArgCtorLike(cal) || roles[cal] == nil {
					continue
				}
				for j, r := range roles[cal] {
					if j >= len(ci.Common().Args) {
						continue
					}
					if prm := c.traceToParam(ci.Common().Args[j], f); prm != nil && prm.Parent() == f {
						has := false
						for i, q := range f.Params {
							if q == prm {
								_, has = roles[f][i]
							}
						}
						if !has {
							setRole(prm, r)
						}
					}
				}
			}
		}
	}
	var desc []string
	for _, f := range ctors {
		if len(roles[f]) == 0 {
			continue
		}
		var ps []string
		for i, q := range f.Params {
			if r, ok := roles[f][i]; ok {
				ps = append(ps, q.Name()+"="+r)
			}
		}
		desc = append(desc, f.Name()+"("+strings.Join(ps, ",")+")")
	}
	c.R.Note("OPTDELEG", "label parameters of the option constructors: %s", strings.Join(desc, " "))
	{
		var both, nameOnly, subOnly int
		for _, f := range ctors {
			hasN, hasS := false, false
			for _, r := range roles[f] {
				hasN = hasN || r == "name"
				hasS = hasS || r == "subtype"
			}
			switch {
			case hasN && hasS:
				both++
			case hasN:
				nameOnly++
			case hasS:
				subOnly++
			}
		}
		c.R.Add("OPTDELEG", "constructors|label-parameters-identified", "(option constructors)", "-", both > 0 && nameOnly > 0 && subOnly > 0,
			"the name and subtype parameters of the option constructors are identified from the tables they key", strings.Join(desc, " "))
	}

	paramWithRole := func(f *ssa.Function, role string) *ssa.Parameter {
		for i, q := range f.Params {
			if roles[f][i] == role {
				return q
			}
		}
		return nil
	}
	n := 0
	for _, f := range ctors {
		for _, ci := range core.Calls(f) {
			cal := ci.Common().StaticCallee()
			if !isArgCtorLike(cal) || cal == f {
				continue
			}
			if len(roles[f]) == 0 && len(roles[cal]) == 0 {
				continue
			}
			n++
			c.R.Func(core.FuncName(f))
			bad := ""
			for _, role := range []string{"name", "subtype"} {
				cp, fp := paramWithRole(cal, role), paramWithRole(f, role)
				switch {
				case cp != nil:
					idx := -1
					for j, q := range cal.Params {
						if q == cp {
							idx = j
						}
					}
					if idx < 0 || idx >= len(ci.Common().Args) {
						bad = "the " + role + " argument of " + cal.Name() + " could not be located"
						break
					}
					arg := ci.Common().Args[idx]
					got := c.traceToParam(arg, f)
					if fp == nil {
						if got != nil && got.Parent() == f {
							for i, q := range f.Params {
								if q == got && roles[f][i] != "" && roles[f][i] != role {
									bad = fmt.Sprintf("%s's %s parameter %s receives %s, which is the %s of %s", cal.Name(), role, cp.Name(), got.Name(), roles[f][i], f.Name())
								}
							}
						}
					} else if got != fp {
						what := core.Path(arg)
						if got != nil {
							what = got.Name()
						}
						bad = fmt.Sprintf("%s's %s parameter %s receives %s instead of %s's %s %s", cal.Name(), role, cp.Name(), what, f.Name(), role, fp.Name())
					}
				case fp != nil:
					// the callee cannot carry this label: it must be empty here
					empty := false
					for _, l := range core.Lits(core.Guards(ci.Block())) {
						if l.Kind == "cmp" && l.Op == token.EQL && l.Pol {
							for _, pr := range [][2]ssa.Value{{l.X, l.Y}, {l.Y, l.X}} {
								if s, ok := core.ConstString(pr[1]); ok && s == "" && c.traceToParam(pr[0], f) == fp {
									empty = true
								}
							}
						}
					}
					if !empty {
						bad = fmt.Sprintf("%s cannot carry the %s %s of %s, and the call is not confined to %s == \"\"", cal.Name(), role, fp.Name(), f.Name(), fp.Name())
					}
				}
				if bad != "" {
					break
				}
			}
			c.R.Add("OPTDELEG", fmt.Sprintf("%s|delegates-to|%s", f.Name(), cal.Name()), core.FuncName(f), p.InstrPos(ci), bad == "",
				"an option constructor that delegates to another one passes its name to the name parameter and its subtype to the subtype parameter, and drops a label only where that label was tested empty",
				ternary(bad == "", "labels preserved", bad))
		}
	}
	c.R.Note("OPTDELEG", "%d delegation(s) between option constructors", n)
	c.optRoles = roles
	c.runValueArgs()
}

// sliceElems: the values that can be elements of slice v (a literal's stores, appended values, through phis).
func sliceElems(v ssa.Value, d int, seen map[ssa.Value]bool) []ssa.Value {
	if v == nil || d > 8 || seen[v] {
		return nil
	}
	seen[v] = true
	switch x := v.(type) {
	case *ssa.Slice:
		var out []ssa.Value
		if al, ok := x.X.(*ssa.Alloc); ok {
			for _, ref := range *al.Referrers() {
				if ia, ok := ref.(*ssa.IndexAddr); ok {
					for _, r2 := range *ia.Referrers() {
						if st, ok := r2.(*ssa.Store); ok && st.Addr == ssa.Value(ia) {
							out = append(out, st.Val)
						}
					}
				}
			}
			return out
		}
		return sliceElems(x.X, d+1, seen)
	case *ssa.Phi:
		var out []ssa.Value
		for _, e := range x.Edges {
			out = append(out, sliceElems(e, d+1, seen)...)
		}
		return out
	case *ssa.Call:
		if core.CalleeName(x.Common()) == "builtin.append" {
			out := sliceElems(x.Common().Args[0], d+1, seen)
			if len(x.Common().Args) > 1 {
				out = append(out, sliceElems(x.Common().Args[1], d+1, seen)...)
			}
			return out
		}
	}
	return nil
}

// runValueArgs (OPTDELEG): where the library itself turns a *Value into an option (Value.Arg, ValueSet.Args), the option
// constructor it calls receives the value's own subtype at its subtype parameter and its own name at its name
// parameter; a constructor that cannot carry a subtype is used only where the value's subtype was tested empty.
func (c *Ctx) runValueArgs() {
	p := c.P
	roles := c.optRoles
	n := 0
	for _, f := range p.ArgFuncs() {
		if isArgCtor(core.Outer(f)) {
			continue
		}
		for _, ci := range core.Calls(f) {
			cal := ci.Common().StaticCallee()
			if !isArgCtor(cal) {
				continue
			}
			// the *Value(s) whose reflect value is handed over
			bases := map[string]ssa.Value{}
			// where the value was taken up (the call itself, or the block in which it was put into a list that is handed
			// over later): the emptiness test of its subtype must hold there
			takenAt := map[string]*ssa.BasicBlock{}
			var look func(v ssa.Value, d int)
			look = func(v ssa.Value, d int) {
				if v == nil || d > 6 {
					return
				}
				v = core.Strip(v)
				if mi, ok := v.(*ssa.MakeInterface); ok {
					v = core.Strip(mi.X)
				}
				if cl, ok := v.(*ssa.Call); ok && core.CalleeName(cl.Common()) == "(reflect.Value).Interface" {
					if fr, ok := core.AsFieldLoad(cl.Common().Args[0]); ok && fr.Field == "Value" && fr.Owner == "Value" {
						bases[core.Path(elemOf(fr.Base))] = elemOf(fr.Base)
						if cl.Block() != nil && cl.Block() != ci.Block() {
							takenAt[core.Path(elemOf(fr.Base))] = cl.Block()
						}
					}
					return
				}
				if _, isSlice := v.Type().Underlying().(*types.Slice); isSlice {
					for _, e := range sliceElems(v, 0, map[ssa.Value]bool{}) {
						look(e, d+1)
					}
				}
			}
			for _, a := range ci.Common().Args {
				look(a, 0)
			}
			if len(bases) == 0 {
				continue
			}
			n++
			bad := ""
			for bp, base := range bases {
				for _, role := range []string{"subtype", "name"} {
					field := map[string]string{"subtype": "Subtype", "name": "Name"}[role]
					idx := -1
					for i := range cal.Params {
						if roles[cal][i] == role {
							idx = i
						}
					}
					if idx >= 0 && idx < len(ci.Common().Args) {
						fr, ok := core.AsFieldLoad(core.Strip(ci.Common().Args[idx]))
						if !ok || fr.Field != field || fr.Owner != "Value" || core.Path(elemOf(fr.Base)) != bp {
							bad = fmt.Sprintf("%s's %s parameter receives %s instead of the %s of %s", cal.Name(), role, core.Path(ci.Common().Args[idx]), field, bp)
						}
						continue
					}
					if role != "subtype" {
						continue
					}
					// the constructor cannot carry a subtype: only where the value's subtype is known to be empty
					empty := false
					gb := ci.Block()
					if tb, ok := takenAt[bp]; ok {
						gb = tb
					}
					for _, l := range p.ExpandLitsKeep(core.Lits(core.Guards(gb))) {
						if l.Kind == "cmp" && l.Op == token.EQL && l.Pol {
							for _, pr := range [][2]ssa.Value{{l.X, l.Y}, {l.Y, l.X}} {
								if s0, ok := core.ConstString(pr[1]); ok && s0 == "" {
									if fr, ok := core.AsFieldLoad(pr[0]); ok && fr.Field == "Subtype" && core.Path(elemOf(fr.Base)) == bp {
										empty = true
									}
								}
							}
						}
					}
					if !empty {
						bad = fmt.Sprintf("%s cannot carry a subtype, and the value of %s is handed to it without its Subtype having been tested empty", cal.Name(), bp)
					}
				}
				_ = base
			}
			c.R.Func(core.FuncName(f))
			c.R.Add("OPTDELEG", fmt.Sprintf("%s|value-rendered-as-option#%d|%s", core.FuncName(f), n, cal.Name()), core.FuncName(f), p.InstrPos(ci), bad == "",
				"a Value turned into an option keeps its labels: the constructor receives the value's own name and subtype, and a constructor without a subtype parameter is used only for a value whose subtype was tested empty",
				ternary(bad == "", "labels preserved", bad))
		}
	}
}

// runSubtableInstall (OPTORDER): the inner map of a by-subtype table is installed only where none is present yet.
// `a.namedSub[name] = map[string]reflect.Value{st: rv}` executed unconditionally throws away every subtype recorded
// earlier under that name — (name, subtype) pairs are distinct keys and must accumulate.
func (c *Ctx) runSubtableInstall() {
	p := c.P
	n := 0
	for _, f := range p.ArgFuncs() {
		core.Instrs(f, func(in ssa.Instruction) {
			mu, ok := in.(*ssa.MapUpdate)
			if !ok {
				return
			}
			fr, ok := core.AsFieldLoad(mu.Map)
			if !ok || fr.Owner != "argBuilder" {
				return
			}
			if _, isMap := mu.Value.Type().Underlying().(*types.Map); !isMap {
				return
			}
			n++
			absent := ""
			keyPath := core.Path(mu.Key)
			for _, l := range p.ILits(mu.Block()) {
				var lk *ssa.Lookup
				switch {
				case l.Kind == "cmp" && l.Op == token.EQL && l.Pol:
					for _, pr := range [][2]ssa.Value{{l.X, l.Y}, {l.Y, l.X}} {
						if core.IsNilConst(pr[1]) {
							if x, ok := core.Strip(pr[0]).(*ssa.Lookup); ok {
								lk = x
							}
						}
					}
					// len(inner) == 0
					if lk == nil {
						for _, pr := range [][2]ssa.Value{{l.X, l.Y}, {l.Y, l.X}} {
							if k, ok := core.ConstInt(pr[1]); ok && k == 0 {
								if cl, ok := pr[0].(*ssa.Call); ok && core.CalleeName(cl.Common()) == "builtin.len" {
									if x, ok := core.Strip(cl.Common().Args[0]).(*ssa.Lookup); ok {
										lk = x
									}
								}
							}
						}
					}
				case l.Kind == "ok" && !l.Pol:
					lk, _ = l.Of.(*ssa.Lookup)
				}
				if lk == nil {
					continue
				}
				if lf, ok := core.AsFieldLoad(lk.X); ok && lf.Owner == fr.Owner && lf.Field == fr.Field && core.Path(lk.Index) == keyPath {
					absent = l.String()
				}
			}
			c.R.Func(core.FuncName(core.Outer(f)))
			c.R.Add("OPTORDER", fmt.Sprintf("%s|inner-table-installed-only-when-absent#%d", core.FuncName(core.Outer(f)), n), core.FuncName(core.Outer(f)), p.InstrPos(mu), absent != "",
				"the inner map of a by-subtype table is installed only where the builder has none for that key yet (entries under one name or type accumulate; a fresh map would drop the subtypes recorded earlier)",
				ternary(absent != "", "under "+absent, fr.Field+"["+keyPath+"] is replaced by a new map without testing for an existing one"))
		})
	}
}

// runBuilderOrigin (OPTORDER): every option builder the graph builder works from was produced by the defaults merger
// (the Func's construction defaults followed by the options of this call), never by applying the call's options
// alone — otherwise defaults given to NewFunc do not "apply otherwise" on that path (Redefine planning its inputs
// from a builder made of its own options only turns every defaulted parameter into a required input).
func (c *Ctx) runBuilderOrigin() {
	p := c.P
	gb := p.MustRole("graphBuilder")
	merger := p.MustRole("defaultsMerger")
	applier := p.MustRole("optionApplier")
	if gb == nil || merger == nil || applier == nil {
		return
	}
	// the builder parameter of the graph builder
	bidx := -1
	for i, prm := range gb.Params {
		if core.TypeStr(prm.Type()) == "*argBuilder" {
			bidx = i
		}
	}
	if bidx < 0 {
		return
	}
	n := 0
	for _, site := range p.Callers(gb) {
		if bidx >= len(site.Common().Args) {
			continue
		}
		n++
		// follow the builder back through parameters of private steps to the call that made it
		v := site.Common().Args[bidx]
		from := ""
		for i := 0; i < 6 && v != nil; i++ {
			v = core.Strip(v)
			if e, ok := v.(*ssa.Extract); ok {
				v = e.Tuple
				continue
			}
			if prm, ok := v.(*ssa.Parameter); ok {
				sites := p.Callers(prm.Parent())
				if len(sites) != 1 || !p.PrivateHelper(prm.Parent()) {
					from = "parameter " + prm.Name() + " of " + core.FuncName(prm.Parent())
					break
				}
				for j, q := range prm.Parent().Params {
					if q == prm && j < len(sites[0].Common().Args) {
						v = sites[0].Common().Args[j]
					}
				}
				continue
			}
			if cl, ok := v.(*ssa.Call); ok {
				if cal := cl.Common().StaticCallee(); cal != nil {
					from = core.FuncName(cal)
					if cal == merger {
						from = "merger"
					}
				}
			}
			break
		}
		c.R.Add("OPTORDER", fmt.Sprintf("%s|graph-builder-works-from-merged-options#%d", core.FuncName(site.Parent()), n), core.FuncName(site.Parent()), p.InstrPos(site), from == "merger",
			"the option builder handed to the graph builder comes from the defaults merger (construction defaults, then this call's options)",
			ternary(from == "merger", "built by the merger", "built by "+ternary(from == "", core.Path(site.Common().Args[bidx]), from)))
	}
}
