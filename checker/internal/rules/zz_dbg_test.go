package rules

import (
	"fmt"
	"os"
	"testing"

	"argverif/internal/core"
)

func TestDbg(t *testing.T) {
	p, err := core.Load(os.Getenv("DBGREPO"), "")
	if err != nil {
		t.Fatal(err)
	}
	for _, r := range []string{"planner", "resolver", "zeroBody"} {
		f, err := p.Role(r)
		fmt.Println(r, f, err)
	}
}
