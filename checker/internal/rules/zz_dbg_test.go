package rules

import (
	"fmt"
	"os"
	"testing"

	"argverif/internal/core"
	"golang.org/x/tools/go/ssa"
)

func TestDbg(t *testing.T) {
	p, _ := core.Load(os.Getenv("DBG_REPO"), "verif")
	for _, f := range p.Funcs {
		core.Instrs(f, func(in ssa.Instruction) {
			switch x := in.(type) {
			case *ssa.IndexAddr:
				fmt.Printf("IDXADDR %s %s [%s] of %s : %s\n", core.FuncName(f), p.InstrPos(in), core.Path(x.Index), core.Path(x.X), x.X.Type())
			case *ssa.Index:
				fmt.Printf("INDEX %s %s [%s] of %s\n", core.FuncName(f), p.InstrPos(in), core.Path(x.Index), core.Path(x.X))
			case *ssa.Slice:
				if x.Low != nil || x.High != nil {
					fmt.Printf("SLICE %s %s %s\n", core.FuncName(f), p.InstrPos(in), x)
				}
			}
		})
	}
}
