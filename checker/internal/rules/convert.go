package rules

import (
	"fmt"

	"argverif/internal/core"

	"golang.org/x/tools/go/ssa"
)

// CONVERT (C10): Convert has no resolution logic of its own — it calls Call on
// a synthesized identity function. DESIGN §4 CONVERT.

func init() {
	register(&Engine{
		Name:  "CONVERT",
		Doc:   "structural identity of Convert with Call on func(T) T",
		Run:   runConvert,
		Floor: map[string]int{"CONVERT": 10},
	})
}

func runConvert(c *Ctx) {
	p := c.P
	cv := c.role("CONVERT", "Convert")
	cm := c.role("CONVERT", "convertMulti")
	call := c.role("CONVERT", "Call")
	nf := c.role("CONVERT", "NewFunc")
	if cv == nil || cm == nil || call == nil || nf == nil {
		return
	}
	c.R.Func("Convert", core.FuncName(cm))

	// ---- Convert
	var cmCall *ssa.Call
	for _, ci := range core.Calls(cv) {
		if ci.Common().StaticCallee() == cm {
			cmCall, _ = ci.(*ssa.Call)
		}
	}
	if cmCall == nil {
		c.R.Undecided("CONVERT", "Convert|delegates", "Convert", p.Pos(cv.Pos()), "Convert does not call convertMulti")
		return
	}
	// args: a one-element slice holding the target parameter, and the options unmodified
	tgtOK, optsOK := false, false
	a := cmCall.Common().Args
	if len(a) == 2 {
		for _, v := range sliceLiteralElems(a[0]) {
			if v == ssa.Value(cv.Params[0]) {
				tgtOK = true
			}
		}
		optsOK = a[1] == ssa.Value(cv.Params[1])
	}
	c.R.Add("CONVERT", "Convert|passes-target-and-options", "Convert", p.InstrPos(cmCall), tgtOK && optsOK,
		"Convert hands exactly its target type and its options, unmodified, to the identity-function call", fmt.Sprintf("target=%v options=%v", tgtOK, optsOK))
	var outV, errV ssa.Value
	for _, ref := range *cmCall.Referrers() {
		if e, ok := ref.(*ssa.Extract); ok {
			if e.Index == 0 {
				outV = e
			} else {
				errV = e
			}
		}
	}
	errRet, okRet := false, false
	for _, r := range core.Returns(cv) {
		lits := core.Lits(core.Guards(r.Block()))
		if errV != nil && nilCheckLit(lits, errV, false) {
			// error path: (nil, err)
			errRet = core.IsNilConst(r.Results[0]) && r.Results[1] == errV
			continue
		}
		// success: out[0].Interface(), nil
		if cl, ok := r.Results[0].(*ssa.Call); ok && core.CalleeName(cl.Common()) == "(reflect.Value).Interface" {
			if ld, ok := cl.Common().Args[0].(*ssa.UnOp); ok {
				if ia, ok := ld.X.(*ssa.IndexAddr); ok && ia.X == outV {
					if k, ok := core.ConstInt(ia.Index); ok && k == 0 && core.IsNilConst(r.Results[1]) && errV != nil && nilCheckLit(lits, errV, true) {
						okRet = true
					}
				}
			}
		}
	}
	c.R.Add("CONVERT", "Convert|error-returns-nil-value", "Convert", p.Pos(cv.Pos()), errRet, "when conversion fails Convert returns a nil value and that very error", fmt.Sprintf("ok=%v", errRet))
	c.R.Add("CONVERT", "Convert|success-returns-first-output", "Convert", p.Pos(cv.Pos()), okRet, "on success Convert returns the identity call's first output and a nil error", fmt.Sprintf("ok=%v", okRet))
	nRet := len(core.Returns(cv))
	c.R.Add("CONVERT", "Convert|no-other-path", "Convert", p.Pos(cv.Pos()), nRet == 2 && len(core.Calls(cv)) <= 2, "Convert has no path (fast path, cache, special case) besides these two", fmt.Sprintf("returns=%d calls=%d", nRet, len(core.Calls(cv))))

	// ---- convertMulti (with its private helpers: the identity-function builder and/or a result helper)
	var callCall, funcOf, makeFunc, newFunc *ssa.Call
	var callSites []ssa.CallInstruction
	for _, ci := range p.RegionCalls(cm) {
		cl, _ := ci.(*ssa.Call)
		if cl == nil {
			continue
		}
		switch core.CalleeName(ci.Common()) {
		case "reflect.FuncOf":
			funcOf = cl
		case "reflect.MakeFunc":
			makeFunc = cl
		}
		switch ci.Common().StaticCallee() {
		case call:
			callCall = cl
			callSites = append(callSites, ci)
		case nf:
			newFunc = cl
		}
	}
	c.oneSite("CONVERT", "convertMulti", "identity call", callSites)
	for _, g := range p.Region(cm) {
		c.R.Func(core.FuncName(g))
	}
	if callCall == nil {
		c.R.Undecided("CONVERT", "convertMulti|shape", core.FuncName(cm), p.Pos(cm.Pos()), "convertMulti does not build a Func and call Call on it")
		return
	}
	if funcOf == nil || makeFunc == nil || newFunc == nil {
		c.R.Undecided("CONVERT", "identity|shape", core.FuncName(cm), p.Pos(cm.Pos()), "identity-function builder does not use FuncOf/MakeFunc/NewFunc")
		return
	}
	only := func(v ssa.Value, want func(ssa.Value) bool) bool {
		srcs := p.ISources(v)
		if len(srcs) == 0 {
			return false
		}
		for _, s := range srcs {
			if !want(s) {
				return false
			}
		}
		return true
	}
	isParam := func(i int) func(ssa.Value) bool {
		return func(s ssa.Value) bool { return s == ssa.Value(cm.Params[i]) }
	}
	// Call receiver is the Func just built (and nothing else: no cache); options are convertMulti's own variadic parameter
	recvOK := only(callCall.Common().Args[0], func(s ssa.Value) bool {
		e, ok := s.(*ssa.Extract)
		return ok && e.Tuple == ssa.Value(newFunc) && e.Index == 0
	})
	optsThrough := len(callCall.Common().Args) == 2 && only(callCall.Common().Args[1], isParam(1))
	c.R.Add("CONVERT", "convertMulti|calls-Call-on-identity-func", core.FuncName(cm), p.InstrPos(callCall), recvOK && optsThrough,
		"the identity function just built is resolved and executed by Call with the caller's options unmodified", fmt.Sprintf("receiver=%v options=%v", recvOK, optsThrough))
	fa := funcOf.Common().Args
	sigOK := only(fa[0], isParam(0)) && only(fa[1], isParam(0))
	// … and the requested list itself is not edited on the way (an element rewritten before FuncOf is a different target)
	edited := ""
	for _, g := range p.Region(cm) {
		core.Instrs(g, func(in ssa.Instruction) {
			st, ok := in.(*ssa.Store)
			if !ok {
				return
			}
			ia, ok := st.Addr.(*ssa.IndexAddr)
			if !ok {
				return
			}
			base := core.Strip(ia.X)
			if prm, isPrm := base.(*ssa.Parameter); isPrm {
				base = core.Strip(p.Bind(prm))
			}
			if base == ssa.Value(cm.Params[0]) {
				edited = "an element of the target list is overwritten at " + p.InstrPos(in)
			}
		})
	}
	if edited != "" {
		sigOK = false
	}
	c.R.Add("CONVERT", "convertMulti|builds-for-target", core.FuncName(cm), p.InstrPos(funcOf), sigOK, "the identity function is built for exactly the requested target types", ternary(edited == "", fmt.Sprintf("ok=%v", sigOK), edited))
	// returns result.out on success, (nil, err) on failure
	succ, fail := false, 0
	rets := p.IReturns(cm)
	for _, r := range rets {
		if len(r.Results) != 2 {
			continue
		}
		if core.IsNilConst(r.Results[0]) && !core.IsNilConst(r.Results[1]) {
			fail++
			continue
		}
		if fr, ok := core.AsFieldLoad(r.Results[0]); ok && fr.Owner == "Result" && fr.Field == "out" && core.IsNilConst(r.Results[1]) {
			// of the Result returned by Call
			if only(loadBaseValue(fr.Base), func(s ssa.Value) bool { return s == ssa.Value(callCall) }) {
				succ = true
			}
		}
	}
	c.R.Add("CONVERT", "convertMulti|returns-call-outputs", core.FuncName(cm), p.Pos(cm.Pos()), succ && fail == 2 && len(rets) == 3,
		"convertMulti returns the raw outputs of that Call, or (nil, error) — nothing else", fmt.Sprintf("success-return=%v failure-returns=%d total=%d", succ, fail, len(rets)))

	// ---- the identity function
	bf := funcOf.Parent()
	variadic, _ := fa[2].(*ssa.Const)
	c.R.Add("CONVERT", "identity|signature", core.FuncName(bf), p.InstrPos(funcOf), sigOK && variadic != nil && variadic.Value.ExactString() == "false",
		"the synthesized function has the target types both as parameters and as results (func(T) T), non-variadic", fmt.Sprintf("in=out=target: %v", sigOK))
	// body returns its parameter unchanged
	bodyOK := false
	if makeFunc.Common().Args[0] == ssa.Value(funcOf) {
		var body *ssa.Function
		switch x := makeFunc.Common().Args[1].(type) {
		case *ssa.Function:
			body = x
		case *ssa.MakeClosure:
			body = x.Fn.(*ssa.Function)
		}
		if body != nil {
			c.R.Func(core.FuncName(body))
			bodyOK = len(core.Returns(body)) == 1 && len(core.Calls(body)) == 0
			for _, r := range core.Returns(body) {
				if len(r.Results) != 1 || r.Results[0] != ssa.Value(body.Params[0]) {
					bodyOK = false
				}
			}
		}
	}
	c.R.Add("CONVERT", "identity|body-returns-arguments", core.FuncName(bf), p.InstrPos(makeFunc), bodyOK, "the synthesized function returns exactly the arguments it was called with", fmt.Sprintf("ok=%v", bodyOK))
	// NewFunc on that function, no options
	nfOK := false
	if cl, ok := newFunc.Common().Args[0].(*ssa.Call); ok && core.CalleeName(cl.Common()) == "(reflect.Value).Interface" && cl.Common().Args[0] == ssa.Value(makeFunc) {
		nfOK = len(newFunc.Common().Args) == 2 && core.IsNilConst(newFunc.Common().Args[1])
	}
	c.R.Add("CONVERT", "identity|wrapped-without-options", core.FuncName(bf), p.InstrPos(newFunc), nfOK, "the synthesized function is wrapped by NewFunc with no default options", fmt.Sprintf("ok=%v", nfOK))
	// fresh per call: the builder is executed on every path to Call (it dominates it), so nothing is cached or shared
	fresh := recvOK && p.IDominates(newFunc, callCall, cm) && p.IDominates(makeFunc, newFunc, cm)
	c.R.Add("CONVERT", "identity|fresh-per-call", core.FuncName(bf), p.Pos(bf.Pos()), fresh, "every conversion builds its own identity function (nothing cached or shared between target types)", fmt.Sprintf("ok=%v", fresh))
}

func sliceLiteralElems(v ssa.Value) []ssa.Value {
	var out []ssa.Value
	if sl, ok := v.(*ssa.Slice); ok {
		if al, ok := sl.X.(*ssa.Alloc); ok {
			for _, ref := range *al.Referrers() {
				if ia, ok := ref.(*ssa.IndexAddr); ok {
					for _, r2 := range *ia.Referrers() {
						if st, ok := r2.(*ssa.Store); ok {
							out = append(out, st.Val)
						}
					}
				}
			}
		}
	}
	return out
}

func loadBaseValue(v ssa.Value) ssa.Value {
	if al, ok := v.(*ssa.Alloc); ok {
		for _, ref := range *al.Referrers() {
			if st, ok := ref.(*ssa.Store); ok && st.Addr == ssa.Value(al) {
				return st.Val
			}
		}
	}
	return v
}
