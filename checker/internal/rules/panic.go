package rules

import (
	"fmt"
	"go/token"
	"go/types"
	"sort"
	"strings"

	"argverif/internal/core"

	"golang.org/x/tools/go/ssa"
)

// PANIC / PACK / STRUCTOF (C06, C15). DESIGN §4.

func init() {
	register(&Engine{
		Name:  "PANIC",
		Doc:   "audit of explicit panics and unchecked assertions; positional packing agreement; StructOf field-name uniqueness",
		Run:   runPanic,
		Floor: map[string]int{"PANIC": 8, "PANIC-A": 3, "PACK-P1": 1, "PACK-P3": 3, "STRUCTOF": 5},
	})
}

// reviewedPanics: (function, guard descriptor) -> invariant. The message text is not part of the key.
var reviewedPanics = map[string]string{
	"graphBuilder|not a value-converter":   "only requirement vertices (out-edges of the target: value/typedArg) that were pruned, and supplied inputs (value/typedOut), reach the assertion; every label-carrying kind implements value() (checked mechanically below)",
	"resolver|not a value-converter":       "the asserted vertex is a requirement of the function being resolved that is not the root (root requirements are skipped earlier): value or typedArg, which implement value()",
	"resolver|final value invalid":         "a chosen path ends at the requirement and every arm of the walk forwards the last seen value (rule ORDER: snapshot after update); reviewed after the fix of the stale-snapshot defect",
	"Redefine-closure|struct walker error": "the walked type is the reflect.StructOf result built by the planner: a struct, zero pointers — neither rejection of the struct walker can trigger",
	"MustFunc|by-contract":                 "exported; documented to panic on error; not reachable from Call/Convert/Redefine (checked below)",
	"Graph.KahnSort|by-contract":           "exported; documented to panic on cyclic graphs (property C20); not reachable from Call/Convert/Redefine (checked below)",
}

// reviewedAsserts: unchecked type assertions accepted after review.
var reviewedAsserts = map[string]string{
	"Result.Err|error":                    "guarded by the final output's static type being exactly `error` and a non-nil interface value",
	"Graph.Dijkstra|*graph.distQueueItem": "the queue only ever holds *distQueueItem (its element type)",
	"distQueue.Push|*graph.distQueueItem": "heap.Push is only handed *distQueueItem; Push is not called by the search at all",
	"typedArgVertex.String|string":        "Hashcode of this kind returns a fmt.Sprintf string (checked mechanically)",
	"typedOutputVertex.String|string":     "Hashcode of this kind returns a fmt.Sprintf string (checked mechanically)",
}

func runPanic(c *Ctx) {
	p := c.P
	kinds, kerr := p.VertexKinds()
	if kerr != nil {
		c.R.Undecided("PANIC", "kinds", "(vertex kinds)", "-", kerr.Error())
		return
	}
	// reachability from Call/Convert/Redefine over static calls, closures and dynamic dispatch to in-target methods by name
	reach := map[*ssa.Function]bool{}
	var work []*ssa.Function
	for _, r := range []string{"Call", "Convert", "Redefine"} {
		if f := p.MustRole(r); f != nil {
			work = append(work, f)
		}
	}
	for len(work) > 0 {
		f := work[len(work)-1]
		work = work[:len(work)-1]
		if reach[f] {
			continue
		}
		reach[f] = true
		for _, a := range f.AnonFuncs {
			work = append(work, a)
		}
		for _, ci := range core.Calls(f) {
			if cal := ci.Common().StaticCallee(); cal != nil && p.InTarget(cal) {
				work = append(work, cal)
			}
			if ci.Common().IsInvoke() {
				// interface dispatch: any in-target method of that name
				for _, g := range p.Funcs {
					if g.Signature.Recv() != nil && g.Name() == ci.Common().Method.Name() {
						work = append(work, g)
					}
				}
			}
		}
	}
	valueKindConsts := c.valueKindReturns()

	seen := map[string]int{}
	for _, f := range p.Funcs {
		name := core.FuncName(f)
		core.Instrs(f, func(in ssa.Instruction) {
			pn, ok := in.(*ssa.Panic)
			if !ok {
				return
			}
			c.R.Func(name)
			pos := p.InstrPos(pn)
			lits := core.Lits(core.Guards(pn.Block()))
			// ---- (X) default arm of an exhaustive type switch over the vertex kinds
			negKinds := map[string]bool{}
			var switched ssa.Value
			for _, l := range lits {
				if l.Kind == "ok" && !l.Pol {
					if ta, ok := l.Of.(*ssa.TypeAssert); ok {
						if n := core.NamedOf(ta.AssertedType); n != "" {
							negKinds[n] = true
							switched = ta.X
						}
					}
				}
			}
			if len(negKinds) >= 2 {
				missing := []string{}
				for _, k := range kinds.All {
					if !negKinds[k] {
						missing = append(missing, k)
					}
				}
				key := name + "|default of vertex-kind switch"
				c.R.Add("PANIC", key, name, pos, len(missing) == 0,
					"a panic in the default arm of a switch over vertex kinds is unreachable because the switch names every kind that is ever added to the graph",
					ternary(len(missing) == 0, "exhaustive over "+strings.Join(kinds.All, ","), "kinds not handled before the default: "+strings.Join(missing, ",")+" (switch on "+core.Path(switched)+")"))
				return
			}
			// ---- (X) default arm of a switch over Value.Kind()
			negConsts := map[int64]bool{}
			onKind := false
			for _, l := range lits {
				if l.Kind == "cmp" && l.Op == token.EQL && !l.Pol {
					if cl, ok := l.X.(*ssa.Call); ok && cl.Common().StaticCallee() != nil && cl.Common().StaticCallee().Name() == "Kind" && core.NamedOf(cl.Common().StaticCallee().Signature.Recv().Type()) == "Value" {
						if k, ok := core.ConstInt(l.Y); ok {
							negConsts[k] = true
							onKind = true
						}
					}
				}
			}
			if onKind {
				var missing []string
				for k := range valueKindConsts {
					if !negConsts[k] {
						missing = append(missing, fmt.Sprint(k))
					}
				}
				seen[name+"|kind"]++
				key := fmt.Sprintf("%s|default of value-kind switch#%d", name, seen[name+"|kind"])
				c.R.Add("PANIC", key, name, pos, len(missing) == 0 && len(valueKindConsts) > 0,
					"a panic in the default arm of a switch over Value.Kind() is unreachable because every value Kind() can return has its own case",
					ternary(len(missing) == 0, fmt.Sprintf("Kind() returns only %v, all handled", keysOf(valueKindConsts)), "Kind() results without a case: "+strings.Join(missing, ",")))
				return
			}
			// ---- (N) guarded by an error that is statically always nil
			for _, l := range lits {
				if l.Kind == "cmp" && l.Op == token.EQL && !l.Pol && (core.IsNilConst(l.X) || core.IsNilConst(l.Y)) {
					ev := l.X
					if core.IsNilConst(ev) {
						ev = l.Y
					}
					var cal *ssa.Function
					switch x := ev.(type) {
					case *ssa.Call:
						cal = x.Common().StaticCallee()
					case *ssa.Extract:
						if cl, ok := x.Tuple.(*ssa.Call); ok {
							cal = cl.Common().StaticCallee()
						}
					}
					if cal != nil && p.InTarget(cal) && isErrorType(ev.Type()) {
						alwaysNil := true
						for _, r := range core.Returns(cal) {
							if !core.IsNilConst(r.Results[len(r.Results)-1]) {
								alwaysNil = false
							}
						}
						if alwaysNil {
							c.R.Add("PANIC", name+"|error of "+core.FuncName(cal)+" is always nil", name, pos, true,
								"a panic guarded by a non-nil error is unreachable when the callee returns nil on every path", core.FuncName(cal)+" returns a nil error on all paths")
							return
						}
						if cal == p.MustRole("structWalker") {
							c.tablePanic(name, "struct walker error", pos, reach[f])
							return
						}
						// a private step that only forwards the struct walker's error (or nil)
						if p.PrivateHelper(cal) {
							onlyWalker := true
							nsrc := 0
							for _, sv := range p.ISources(ev) {
								if core.IsNilConst(sv) {
									continue
								}
								nsrc++
								e2, isE := sv.(*ssa.Extract)
								if !isE {
									onlyWalker = false
									continue
								}
								if c2, ok := e2.Tuple.(*ssa.Call); !ok || c2.Common().StaticCallee() != p.MustRole("structWalker") {
									onlyWalker = false
								}
							}
							if onlyWalker && nsrc > 0 {
								c.tablePanic(name, "struct walker error", pos, reach[f])
								return
							}
						}
					}
				}
			}
			// ---- reviewed table by guard descriptor
			desc := ""
			for _, l := range lits {
				if l.Kind == "ok" && !l.Pol {
					if ta, ok := l.Of.(*ssa.TypeAssert); ok && core.TypeStr(ta.AssertedType) == p.ValuerIfaceName() {
						desc = "not a value-converter"
					}
				}
				if l.Kind == "call" && l.Callee == core.RVIsValid && !l.Pol {
					desc = "final value invalid"
				}
			}
			if f.Parent() == nil && f.Object() != nil && f.Object().Exported() && (f.Name() == "MustFunc" || f.Name() == "KahnSort") {
				desc = "by-contract"
			}
			// a private step of KahnSort (the leftover-edge scan moved into a helper) panics under the same contract
			if ksf := p.Method(p.Graph, "Graph", "KahnSort"); ksf != nil && f != ksf && f.Parent() == nil && p.PrivateHelper(f) && p.InRegion(f, ksf) {
				desc = "by-contract"
			}
			for _, l := range lits {
				if l.Kind == "ok" && !l.Pol {
					if ta, ok := l.Of.(*ssa.TypeAssert); ok && core.TypeStr(ta.AssertedType) == p.ValuerIfaceName() {
						desc = "not a value-converter"
					}
				}
			}
			if desc == "" {
				desc = "unclassified"
			}
			c.tablePanic(name, desc, pos, reach[f])
		})
	}
	// label kinds implement the value-converter interface (supports the table entries above)
	for _, k := range []string{kinds.Value, kinds.Arg, kinds.Out} {
		m := p.Method(p.Arg, k, p.ValuerMethodName())
		c.R.Add("PANIC", "kind "+k+" implements value()", k, "-", m != nil, "every label-carrying vertex kind can be rendered as a Value (the assertion to the value-converter interface cannot fail for them)", fmt.Sprintf("method found=%v", m != nil))
	}

	// ---- PANIC-A: unchecked type assertions
	for _, f := range p.Funcs {
		name := core.FuncName(f)
		core.Instrs(f, func(in ssa.Instruction) {
			ta, ok := in.(*ssa.TypeAssert)
			if !ok || ta.CommaOk {
				return
			}
			key := name + "|" + core.TypeStr(ta.AssertedType)
			why, listed := reviewedAsserts[key]
			if !listed {
				// a private step of a reviewed function: the review of the driver covers it
				if drv := c.driverOf(f); drv != nil {
					if w2, ok := reviewedAsserts[core.FuncName(drv)+"|"+core.TypeStr(ta.AssertedType)]; ok {
						why, listed = w2+" (in a private step of "+core.FuncName(drv)+")", true
					}
				}
			}
			mech := ""
			// mechanical: asserting the result of an in-target call whose every return boxes exactly that type
			// (also through a parameter of an unexported helper, when every call site hands in such a result)
			if why, ok := c.boxesExactly(ta.X, ta.AssertedType, 0); ok {
				mech = why
			}
			if types.Identical(ta.X.Type(), ta.AssertedType) {
				mech = "assertion to the operand's own static type: the implicit nil check of a method value, on an interface obtained from reflect just before"
			}
			c.R.Func(name)
			c.R.Add("PANIC-A", key, name, p.InstrPos(ta), listed || mech != "",
				"an unchecked type assertion is justified mechanically or by a reviewed invariant", ternary(mech != "", mech, ternary(listed, "reviewed: "+why, "unreviewed unchecked assertion to "+core.TypeStr(ta.AssertedType))))
		})
	}

	runPack(c)
	runStructOf(c)
}

// boxesExactly: v is an interface value that provably holds dynamic type T.
func (c *Ctx) boxesExactly(v ssa.Value, T types.Type, depth int) (string, bool) {
	p := c.P
	if depth > 3 {
		return "", false
	}
	switch x := v.(type) {
	case *ssa.MakeInterface:
		if types.Identical(x.X.Type(), T) {
			return "boxed from exactly this type", true
		}
	case *ssa.Call:
		var cal *ssa.Function
		if x.Common().IsInvoke() {
			if rcv := core.NamedOf(x.Common().Value.Type()); rcv != "" {
				cal = p.Method(p.Arg, rcv, x.Common().Method.Name())
			}
		} else {
			cal = x.Common().StaticCallee()
		}
		if cal == nil || !p.InTarget(cal) || len(cal.Blocks) == 0 {
			return "", false
		}
		rets := core.Returns(cal)
		if len(rets) == 0 {
			return "", false
		}
		for _, r := range rets {
			if len(r.Results) != 1 {
				return "", false
			}
			if _, ok := c.boxesExactly(r.Results[0], T, depth+1); !ok {
				return "", false
			}
		}
		return "callee " + core.FuncName(cal) + " returns exactly this type on every path", true
	case *ssa.Phi:
		for _, e := range x.Edges {
			if _, ok := c.boxesExactly(e, T, depth+1); !ok {
				return "", false
			}
		}
		return "every incoming value is boxed from exactly this type", len(x.Edges) > 0
	case *ssa.Parameter:
		fn := x.Parent()
		if !p.OnlyStaticallyCalled(fn) {
			return "", false
		}
		idx := -1
		for i, pr := range fn.Params {
			if pr == x {
				idx = i
			}
		}
		sites := p.Callers(fn)
		if idx < 0 || len(sites) == 0 {
			return "", false
		}
		for _, s := range sites {
			if idx >= len(s.Common().Args) {
				return "", false
			}
			if _, ok := c.boxesExactly(s.Common().Args[idx], T, depth+1); !ok {
				return "", false
			}
		}
		return fmt.Sprintf("parameter of %s: all %d call site(s) hand in a value boxed from exactly this type", core.FuncName(fn), len(sites)), true
	}
	return "", false
}

// driverOf: the function that alone reaches private helper f (through private helpers only), or nil.
func (c *Ctx) driverOf(f *ssa.Function) *ssa.Function {
	cur := f
	for i := 0; i < 4; i++ {
		if !c.P.PrivateHelper(cur) {
			break
		}
		var caller *ssa.Function
		for _, s := range c.P.Callers(cur) {
			o := core.Outer(s.Parent())
			if caller != nil && caller != o {
				return nil
			}
			caller = o
		}
		if caller == nil {
			return nil
		}
		cur = caller
	}
	if cur == f {
		return nil
	}
	return cur
}

func keysOf(m map[int64]bool) []int64 {
	var out []int64
	for k := range m {
		out = append(out, k)
	}
	sort.Slice(out, func(i, j int) bool { return out[i] < out[j] })
	return out
}

func (c *Ctx) tablePanic(name, desc, pos string, reachable bool) {
	key := c.panicRole(name) + "|" + desc
	why, ok := reviewedPanics[key]
	if ok && desc == "by-contract" {
		// by-contract panics must not be reachable from Call/Convert/Redefine
		c.R.Add("PANIC", key, name, pos, !reachable, "a function that panics by contract is not reachable from Call, Convert or Redefine", fmt.Sprintf("reachable=%v; %s", reachable, why))
		return
	}
	c.R.Add("PANIC", key, name, pos, ok,
		"every explicit panic reachable from the API is unreachable by a mechanical argument or covered by a reviewed invariant",
		ternary(ok, "reviewed: "+why, "panic not covered by any mechanical argument or reviewed invariant (guard: "+desc+")"))
}

// valueKindReturns: the set of constants (*Value).Kind can return.
func (c *Ctx) valueKindReturns() map[int64]bool {
	out := map[int64]bool{}
	m := c.P.Method(c.P.Arg, "Value", "Kind")
	if m == nil {
		return out
	}
	for _, r := range core.Returns(m) {
		for _, v := range core.ReturnOperand(r, 0) {
			if k, ok := core.ConstInt(v); ok {
				out[k] = true
			} else {
				return map[int64]bool{}
			}
		}
	}
	return out
}

// ---------------------------------------------------------------------------
// PACK

func runPack(c *Ctx) {
	p := c.P
	for _, f := range p.ArgFuncs() {
		type use struct {
			ia   *ssa.IndexAddr
			elem ssa.Value // the *Value whose .index is used
		}
		var uses []use
		core.Instrs(f, func(in ssa.Instruction) {
			ia, ok := in.(*ssa.IndexAddr)
			if !ok {
				return
			}
			fr, ok := core.AsFieldLoad(ia.Index)
			if !ok || fr.Field != "index" {
				return
			}
			// base of valueInternal is &elem.valueInternal
			elem := fr.Base
			if fa, ok := elem.(*ssa.FieldAddr); ok {
				elem = fa.X
			}
			uses = append(uses, use{ia, elem})
		})
		if len(uses) == 0 {
			continue
		}
		name := core.FuncName(f)
		c.R.Func(name)
		for i, u := range uses {
			key := fmt.Sprintf("%s|slice indexed by field ordinal#%d", name, i+1)
			// P3: the element comes from ranging over the ordered value list
			src := core.Root(u.elem)
			fromValues := false
			var listPath string
			fromList := func(v ssa.Value) (string, bool) {
				if ld, ok := v.(*ssa.UnOp); ok {
					if ia2, ok := ld.X.(*ssa.IndexAddr); ok {
						if fr, ok := core.AsFieldLoad(ia2.X); ok && fr.Owner == "ValueSet" && fr.Field == "values" {
							return core.Path(ia2.X), true
						}
					}
				}
				return "", false
			}
			if lp, ok := fromList(u.elem); ok {
				fromValues, listPath = true, lp
			} else if actuals := c.strategyActuals(u.elem); len(actuals) > 0 {
				// the element is the parameter of a function literal that is handed to a private helper as a strategy:
				// what the helper passes to it
				fromValues = true
				for _, a := range actuals {
					lp, ok := fromList(a)
					if !ok {
						fromValues = false
					}
					listPath = lp
				}
			}
			c.R.Add("PACK-P3", key, name, p.InstrPos(u.ia), fromValues,
				"positions are packed/unpacked by iterating the ordered value list (one entry per struct field), never a map keyed by a non-unique attribute",
				ternary(fromValues, "ranges over "+listPath, "element comes from "+core.Path(src)))
			// P1: a slice allocated here is as long as that list
			if mk, ok := u.ia.X.(*ssa.MakeSlice); ok {
				okLen := false
				if cl, ok := mk.Len.(*ssa.Call); ok && core.CalleeName(cl.Common()) == "builtin.len" && core.Path(cl.Common().Args[0]) == listPath && listPath != "" {
					okLen = true
				}
				c.R.Add("PACK-P1", key, name, p.InstrPos(mk), okLen,
					"a slice indexed by struct-field ordinal is allocated with the length of the ordered value list", "len = "+core.Path(mk.Len))
			}
			// P2: struct field and slice position use the same element's ordinal (look at reflect Field(idx) calls in the block)
			for _, in := range u.ia.Block().Instrs {
				if cl, ok := in.(*ssa.Call); ok && (strings.HasSuffix(core.CalleeName(cl.Common()), ".Field")) {
					a := core.CallArgs(cl.Common())
					idx := a[len(a)-1]
					if fr, ok := core.AsFieldLoad(idx); ok && fr.Field == "index" {
						e2 := fr.Base
						if fa, ok := e2.(*ssa.FieldAddr); ok {
							e2 = fa.X
						}
						c.R.Add("PACK-P2", key, name, p.InstrPos(cl), e2 == u.elem,
							"the struct field and the slice position addressed in one step belong to the same value", fmt.Sprintf("same-element=%v", e2 == u.elem))
					}
				}
			}
		}
	}
}

// strategyActuals: v is parameter i of a function (literal) that is only ever handed, as a function value, to private
// helpers which call it; returns the i-th arguments of those calls (nil if the function escapes in any other way).
func (c *Ctx) strategyActuals(v ssa.Value) []ssa.Value {
	p := c.P
	prm, ok := v.(*ssa.Parameter)
	if !ok {
		return nil
	}
	L := prm.Parent()
	idx := -1
	for i, q := range L.Params {
		if q == prm {
			idx = i
		}
	}
	if idx < 0 {
		return nil
	}
	// the function value: the literal itself or its closure
	var fv ssa.Value = L
	if mc := p.ClosureSite(L); mc != nil {
		fv = mc
	}
	refs := fv.Referrers()
	if _, isFn := fv.(*ssa.Function); isFn || refs == nil {
		// a capture-free literal has no referrer list: scan its parent
		var out []ssa.Value
		okAll := true
		if L.Parent() == nil {
			return nil
		}
		core.Instrs(L.Parent(), func(in ssa.Instruction) {
			for _, op := range in.Operands(nil) {
				if op == nil || *op != fv {
					continue
				}
				as, ok := c.strategyUse(in, fv, idx)
				if !ok {
					okAll = false
				}
				out = append(out, as...)
			}
		})
		if !okAll {
			return nil
		}
		return out
	}
	var out []ssa.Value
	for _, r := range *refs {
		as, ok := c.strategyUse(r, fv, idx)
		if !ok {
			return nil
		}
		out = append(out, as...)
	}
	return out
}

// strategyUse: instruction `in` hands function value fv to a private helper; returns the idx-th arguments of the
// helper's dynamic calls of that parameter.
func (c *Ctx) strategyUse(in ssa.Instruction, fv ssa.Value, idx int) ([]ssa.Value, bool) {
	p := c.P
	ci, ok := in.(ssa.CallInstruction)
	if !ok {
		return nil, false
	}
	h := ci.Common().StaticCallee()
	if !p.PrivateHelper(h) {
		return nil, false
	}
	var out []ssa.Value
	for j, a := range ci.Common().Args {
		if a != fv || j >= len(h.Params) {
			continue
		}
		hp := h.Params[j]
		for _, r := range *hp.Referrers() {
			dc, ok := r.(ssa.CallInstruction)
			if !ok || dc.Common().Value != ssa.Value(hp) || idx >= len(dc.Common().Args) {
				return nil, false // the helper does something else with the strategy
			}
			out = append(out, dc.Common().Args[idx])
		}
	}
	return out, len(out) > 0
}

// ---------------------------------------------------------------------------
// STRUCTOF

func runStructOf(c *Ctx) {
	p := c.P
	for _, f := range p.ArgFuncs() {
		for _, ci := range core.Calls(f, "reflect.StructOf") {
			name := core.FuncName(f)
			c.R.Func(name)
			list := ci.Common().Args[0]
			n := 0
			lists := c.fieldLists(f, list)
			seenAp := map[*ssa.Call]bool{}
			for _, li := range lists {
				for _, ap := range appendSites(li.fn, li.list) {
					if seenAp[ap] {
						continue
					}
					seenAp[ap] = true
					for _, lit := range c.appendedStructFieldLits(ap) {
						// a name chosen per kind before one shared literal (`switch … { case A: name = …; case B: name = … }`):
						// every alternative is classified
						names := []ssa.Value{lit.fields["Name"]}
						if ph, isPhi := lit.fields["Name"].(*ssa.Phi); isPhi {
							names = nil
							var flat func(x *ssa.Phi, d int)
							flat = func(x *ssa.Phi, d int) {
								for _, e := range x.Edges {
									if p2, ok := e.(*ssa.Phi); ok && d < 4 {
										flat(p2, d+1)
									} else {
										names = append(names, e)
									}
								}
							}
							flat(ph, 0)
						}
						for _, nameV := range names {
							n++
							key := fmt.Sprintf("%s|field#%d", name, n)
							cls, ok := c.classifyFieldNameIn(lit.fn, li.fn, nameV, ap, lit.env)
							c.R.Add("STRUCTOF", key+"|"+cls, name, p.InstrPos(ap), ok,
								"every field name handed to reflect.StructOf is a constant, an index-formatted name with a growing counter, or a projection that is provably unique (duplicate → error)",
								ternary(ok, cls, "field name "+core.Path(nameV)+": "+cls))
						}
					}
				}
			}
			if n == 0 {
				c.R.Undecided("STRUCTOF", name+"|fields", name, p.InstrPos(ci), "cannot find the struct-field literals that reach reflect.StructOf")
			}
		}
	}
}

// listIn: a slice value and the function it is built in.
type listIn struct {
	fn   *ssa.Function
	list ssa.Value
}

// fieldLists: the field list handed to StructOf is built in f itself, or by a private helper whose result is handed
// over; returns the list value(s) together with the function that appends to them.
func (c *Ctx) fieldLists(f *ssa.Function, list ssa.Value) []listIn {
	p := c.P
	lists := []listIn{{f, list}}
	var hc *ssa.Call
	idx := 0
	switch x := list.(type) {
	case *ssa.Call:
		hc = x
	case *ssa.Extract:
		hc, _ = x.Tuple.(*ssa.Call)
		idx = x.Index
	}
	if hc != nil {
		if h := hc.Common().StaticCallee(); p.PrivateHelper(h) {
			lists = nil
			c.R.Func(core.FuncName(h))
			for _, r := range core.Returns(h) {
				for _, o := range core.ReturnOperand(r, idx) {
					if !core.IsNilConst(o) {
						lists = append(lists, listIn{h, o})
					}
				}
			}
		}
	}
	return lists
}

// sfLit is one reflect.StructField literal that reaches a field list: its field stores, the function the
// literal lives in, and — when that function is a helper returning the literal — the binding of the helper's
// parameters to the arguments of the call whose result is appended.
type sfLit struct {
	fields map[string]ssa.Value
	fn     *ssa.Function
	env    map[*ssa.Parameter]ssa.Value
}

func litFields(al *ssa.Alloc) map[string]ssa.Value {
	m := map[string]ssa.Value{}
	for _, ref := range *al.Referrers() {
		if fa, ok := ref.(*ssa.FieldAddr); ok {
			fr, _ := core.AsFieldAddr(fa)
			for _, r2 := range *fa.Referrers() {
				if st, ok := r2.(*ssa.Store); ok {
					m[fr.Field] = st.Val
				}
			}
		}
	}
	return m
}

// appendedStructFieldLits: for append(list, X…) returns the StructField literals X stands for: a local literal,
// or the literals returned by an in-target helper (one level).
func (c *Ctx) appendedStructFieldLits(ap *ssa.Call) []sfLit {
	var out []sfLit
	for _, e := range appendedValues(ap) {
		switch x := e.(type) {
		case *ssa.UnOp:
			if al, ok := x.X.(*ssa.Alloc); ok {
				out = append(out, sfLit{litFields(al), ap.Parent(), nil})
			}
		case *ssa.Call:
			h := x.Common().StaticCallee()
			if h == nil || !c.P.InTarget(h) || h.Blocks == nil {
				continue
			}
			env := map[*ssa.Parameter]ssa.Value{}
			for i, prm := range h.Params {
				if i < len(x.Common().Args) {
					env[prm] = x.Common().Args[i]
				}
			}
			for _, r := range core.Returns(h) {
				for _, rv := range core.ReturnOperand(r, 0) {
					if ld, ok := rv.(*ssa.UnOp); ok {
						if al, ok := ld.X.(*ssa.Alloc); ok {
							out = append(out, sfLit{litFields(al), h, env})
						}
					}
				}
			}
		}
	}
	return out
}

// appendedStructFields keeps the old shape for callers that only need the field maps.
func appendedStructFields(ap *ssa.Call) []map[string]ssa.Value {
	var out []map[string]ssa.Value
	for _, e := range appendedValues(ap) {
		if ld, ok := e.(*ssa.UnOp); ok {
			if al, ok := ld.X.(*ssa.Alloc); ok {
				out = append(out, litFields(al))
			}
		}
	}
	return out
}

// classifyFieldNameIn classifies a field name expression that lives in function lf (the function holding the
// literal); outer is the function that calls StructOf and env binds lf's parameters when lf is a helper.
func (c *Ctx) classifyFieldNameIn(lf, outer *ssa.Function, v ssa.Value, ap *ssa.Call, env map[*ssa.Parameter]ssa.Value) (string, bool) {
	saved := fieldNameEnv
	fieldNameEnv = env
	defer func() { fieldNameEnv = saved }()
	cls, ok := c.classifyFieldName(outer, v, ap)
	if !ok && lf != outer && strings.HasPrefix(cls, "name projection") && outer.Name() == "NewValueSet" {
		return "listed exception: the caller-supplied value list of NewValueSet must not repeat a name (well-formedness is the caller's obligation)", true
	}
	return cls, ok
}

var fieldNameEnv map[*ssa.Parameter]ssa.Value

func upEnv(v ssa.Value) ssa.Value {
	if prm, ok := v.(*ssa.Parameter); ok {
		if a, ok := fieldNameEnv[prm]; ok {
			return a
		}
	}
	return v
}

func (c *Ctx) classifyFieldName(f *ssa.Function, v ssa.Value, ap *ssa.Call) (string, bool) {
	if v == nil {
		return "no name", false
	}
	if _, ok := core.ConstString(v); ok {
		return "constant", true
	}
	isCounterArg := func(a ssa.Value) (string, bool) {
		a = upEnv(a)
		if cv, ok := a.(*ssa.Convert); ok {
			a = upEnv(cv.X)
		}
		if ph, ok := a.(*ssa.Phi); ok {
			for _, e := range ph.Edges {
				if b, ok := e.(*ssa.BinOp); ok && b.Op == token.ADD && (b.X == ssa.Value(ph)) {
					return "indexed by a strictly increasing counter", true
				}
			}
		}
		if b, ok := a.(*ssa.BinOp); ok && b.Op == token.ADD {
			if _, ok := b.X.(*ssa.Phi); ok {
				return "indexed by a strictly increasing counter", true
			}
		}
		if lc, ok := a.(*ssa.Call); ok && core.CalleeName(lc.Common()) == "builtin.len" && lc.Common().Args[0] == ap.Common().Args[0] {
			return "indexed by the growing length of the field list", true
		}
		return "", false
	}
	// "prefix" + strconv.Itoa(counter): the concatenated form of an index-formatted name
	if lv := flattenConcat(v); len(lv) == 2 {
		if _, isK := core.ConstString(lv[0]); isK {
			if ic, ok := lv[1].(*ssa.Call); ok {
				switch core.CalleeName(ic.Common()) {
				case "strconv.Itoa", "strconv.FormatInt", "strconv.FormatUint":
					if why, ok := isCounterArg(ic.Common().Args[0]); ok {
						return why, true
					}
					return "numeric suffix is not a recognised counter", false
				}
			}
		}
	}
	cl, ok := v.(*ssa.Call)
	if !ok {
		return "unrecognised expression", false
	}
	switch core.CalleeName(cl.Common()) {
	case "fmt.Sprintf":
		format, _ := core.ConstString(cl.Common().Args[0])
		if !strings.Contains(format, "%d") {
			return "format without a counter", false
		}
		for _, a := range appendedOrVarargs(cl) {
			a = upEnv(a)
			// counter: a loop phi incremented by one, or len(list) of the list being appended to
			if ph, ok := a.(*ssa.Phi); ok {
				for _, e := range ph.Edges {
					if b, ok := e.(*ssa.BinOp); ok && b.Op == token.ADD && (b.X == ssa.Value(ph)) {
						return "indexed by a strictly increasing counter", true
					}
				}
			}
			if b, ok := a.(*ssa.BinOp); ok && b.Op == token.ADD {
				if _, ok := b.X.(*ssa.Phi); ok {
					return "indexed by a strictly increasing counter", true
				}
			}
			if lc, ok := a.(*ssa.Call); ok && core.CalleeName(lc.Common()) == "builtin.len" && lc.Common().Args[0] == ap.Common().Args[0] {
				return "indexed by the growing length of the field list", true
			}
		}
		return "format argument is not a recognised counter", false
	case "strings.ToUpper":
		src := cl.Common().Args[0]
		// guarded by a seen-set whose duplicate branch returns an error
		for _, l := range core.Lits(core.Guards(ap.Block())) {
			if l.Kind == "ok" && !l.Pol {
				if lk, ok := l.Of.(*ssa.Lookup); ok && core.Path(lk.Index) == core.Path(src) {
					// the duplicate branch returns an error
					dupErr := false
					for _, r := range core.Returns(f) {
						for _, l2 := range core.Lits(core.Guards(r.Block())) {
							if l2.Kind == "ok" && l2.Pol && l2.Of == l.Of {
								if _, isCall := core.Strip(r.Results[len(r.Results)-1]).(*ssa.Call); isCall {
									dupErr = true
								}
							}
						}
					}
					// and the name is inserted into the set
					inserted := false
					core.Instrs(f, func(in ssa.Instruction) {
						if mu, ok := in.(*ssa.MapUpdate); ok && mu.Map == lk.X && core.Path(mu.Key) == core.Path(src) {
							inserted = true
						}
					})
					if dupErr && inserted {
						return "name projection guarded by a seen-set (duplicate → error)", true
					}
				}
			}
		}
		if f.Name() == "NewValueSet" {
			return "listed exception: the caller-supplied value list of NewValueSet must not repeat a name (well-formedness is the caller's obligation)", true
		}
		return "name projection without a uniqueness guard", false
	}
	return "unrecognised call", false
}

// panicRole maps a function (display name) to the role name used as table key, so that renaming or
// extracting a helper does not change the key: the resolver, the graph builder, the generated function of
// Redefine, or — for a helper whose in-target callers all have one of those roles — the callers' role.
func (c *Ctx) panicRole(name string) string {
	p := c.P
	var f *ssa.Function
	for _, g := range p.Funcs {
		if core.FuncName(g) == name {
			f = g
		}
	}
	if f == nil {
		return name
	}
	roleOf := func(g *ssa.Function) string {
		for _, r := range []string{"graphBuilder", "resolver", "planner"} {
			if p.MustRole(r) == g {
				return r
			}
		}
		if rd := p.MustRole("Redefine"); rd != nil && (g.Parent() == rd || g == p.GeneratedBody()) {
			return "Redefine-closure"
		}
		return ""
	}
	if r := roleOf(f); r != "" {
		return r
	}
	// a private step of the exported topological sort panics under that function's contract
	if ksf := p.Method(p.Graph, "Graph", "KahnSort"); ksf != nil && f != ksf && f.Parent() == nil && p.PrivateHelper(f) && p.InRegion(f, ksf) {
		return core.FuncName(ksf)
	}
	// helper: every way it is reached (through private helpers) starts in a role function
	roles := map[string]bool{}
	var climb func(g *ssa.Function, d int) bool
	climb = func(g *ssa.Function, d int) bool {
		if r := roleOf(g); r != "" {
			roles[r] = true
			return true
		}
		if g.Parent() != nil {
			if r := roleOf(g.Parent()); r != "" {
				roles[r] = true
				return true
			}
		}
		o := core.Outer(g)
		if r := roleOf(o); r != "" {
			roles[r] = true
			return true
		}
		if d > 4 || !p.PrivateHelper(o) {
			return false
		}
		sites := p.Callers(o)
		if len(sites) == 0 {
			return false
		}
		for _, cs := range sites {
			if !climb(cs.Parent(), d+1) {
				return false
			}
		}
		return true
	}
	for _, cs := range p.Callers(f) {
		if !climb(cs.Parent(), 0) {
			return name
		}
	}
	if len(roles) == 0 {
		return name
	}
	// a helper shared by the graph builder and the resolver keeps both invariants; use either key
	for _, r := range []string{"resolver", "graphBuilder", "Redefine-closure", "planner"} {
		if roles[r] {
			return r
		}
	}
	return name
}
