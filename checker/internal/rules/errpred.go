package rules

import (
	"fmt"
	"go/token"
	"strings"

	"argverif/internal/core"

	"golang.org/x/tools/go/ssa"
)

// ERRPRED / RESULTLIT / LEN (C04, C14, C17).

func init() {
	register(&Engine{
		Name:  "ERRPRED",
		Doc:   "final-error predicate = type identity at the last position everywhere; Result literals; Len/Out arithmetic",
		Run:   runErrpred,
		Floor: map[string]int{"ERRPRED": 5, "RESULTLIT": 3, "LEN": 3},
	})
}

// lastIndexOf reports whether idx is `len(s)-1` (or NumOut()-1 / n-1 with n := X.NumOut() possibly phi'd through a decrement guard).
func isLenMinusOne(idx ssa.Value, of string) bool {
	b, ok := idx.(*ssa.BinOp)
	if !ok || b.Op != token.SUB {
		return false
	}
	if k, ok := core.ConstInt(b.Y); !ok || k != 1 {
		return false
	}
	return core.Path(b.X) == of
}

func runErrpred(c *Ctx) {
	p := c.P
	errG := p.ErrTypeGlobal() // found by its initialiser, whatever it is called
	if errG == nil {
		c.R.Undecided("ERRPRED", "global", "(package)", "-", "the package-level error type descriptor was not found")
		return
	}
	isErrT := func(v ssa.Value) bool {
		u, ok := v.(*ssa.UnOp)
		return ok && u.Op == token.MUL && u.X == ssa.Value(errG)
	}
	n := 0
	for _, f := range p.ArgFuncs() {
		core.Instrs(f, func(in ssa.Instruction) {
			switch x := in.(type) {
			case *ssa.BinOp:
				var other ssa.Value
				if isErrT(x.X) {
					other = x.Y
				} else if isErrT(x.Y) {
					other = x.X
				} else {
					return
				}
				n++
				c.R.Func(core.FuncName(f))
				key := fmt.Sprintf("%s|cmp#%d", core.FuncName(f), countIn(f, x, isErrT))
				// other must be the type of the element at the last position
				ok, why := lastPositionType(other)
				c.R.Add("ERRPRED", key, core.FuncName(f), p.InstrPos(x), (x.Op == token.EQL || x.Op == token.NEQ) && ok,
					"the final-error predicate is type identity with `error`, applied to the last result/output only", why)
			case ssa.CallInstruction:
				nm := core.CalleeName(x.Common())
				if nm == "(reflect.Type).Implements" || nm == "(reflect.Type).AssignableTo" || nm == "(reflect.Type).ConvertibleTo" {
					for _, a := range core.CallArgs(x.Common()) {
						if isErrT(a) {
							n++
							c.R.Add("ERRPRED", core.FuncName(f)+"|"+core.ShortCallee(nm), core.FuncName(f), p.InstrPos(x), false,
								"the error type descriptor is only compared by identity (a concrete error type is an ordinary output)", "used with "+core.ShortCallee(nm))
						}
					}
				}
			}
		})
	}

	// every consumer of the final-error notion reaches the identity comparison (directly or through its private helpers)
	for _, cons := range []struct{ typ, name string }{{"Result", "Err"}, {"Result", "Len"}, {"", "NewFunc"}, {"Func", "Redefine"}} {
		var f *ssa.Function
		if cons.typ == "" {
			f = p.Func(p.Arg, cons.name)
		} else {
			f = p.Method(p.Arg, cons.typ, cons.name)
		}
		if f == nil {
			c.R.Undecided("ERRPRED", cons.name+"|uses-identity-predicate", cons.name, "-", "exported function not found")
			continue
		}
		found := false
		p.RegionInstrs(f, func(in ssa.Instruction) {
			if b, ok := in.(*ssa.BinOp); ok && (b.Op == token.EQL || b.Op == token.NEQ) && (isErrT(b.X) || isErrT(b.Y)) {
				found = true
			}
		})
		c.R.Add("ERRPRED", core.FuncName(f)+"|uses-identity-predicate", core.FuncName(f), p.Pos(f.Pos()), found,
			"whoever needs to know whether the last output is the error decides it by the identity comparison with `error`", fmt.Sprintf("comparison in region=%v", found))
	}

	// Err|exact-conditions: the final output is reported as the error under exactly the reviewed conditions
	if em := p.Method(p.Arg, "Result", "Err"); em != nil {
		c.R.Func(core.FuncName(em))
		for _, r := range core.Returns(em) {
			ta, isTA := r.Results[0].(*ssa.TypeAssert)
			if !isTA {
				continue
			}
			extra := ""
			seen := map[string]bool{}
			for _, l := range p.ExpandLits(core.Lits(core.Guards(r.Block()))) {
				switch {
				case l.Kind == "cmp" && l.Op == token.EQL && l.Pol && (core.IsNilConst(l.X) || core.IsNilConst(l.Y)) &&
					(strings.HasSuffix(core.Path(l.X), ".buildErr") || strings.HasSuffix(core.Path(l.Y), ".buildErr")):
					seen["no-resolution-error"] = true
				case core.LitImpliesGreater(l, 0) && strings.HasPrefix(core.Path(l.X), "builtin.len("):
					seen["has-outputs"] = true
				case l.Kind == "call" && l.Callee == core.RVIsValid && l.Pol:
					seen["final-valid"] = true
				case l.Kind == "cmp" && l.Op == token.EQL && l.Pol && (isErrT(l.X) || isErrT(l.Y)):
					seen["final-is-error-type"] = true
				case l.Kind == "cmp" && l.Op == token.EQL && !l.Pol && (core.IsNilConst(l.X) || core.IsNilConst(l.Y)) && (l.X == ta.X || l.Y == ta.X):
					seen["interface-non-nil"] = true
				default:
					extra = l.String()
				}
			}
			okk := extra == "" && seen["no-resolution-error"] && seen["final-is-error-type"] && seen["interface-non-nil"]
			c.R.Add("ERRPRED", "Result.Err|exact-conditions", core.FuncName(em), p.InstrPos(r), okk,
				"the final output is returned as the call's error exactly when there is no resolution error, its static type is `error` and its interface value is non-nil — no further condition (a typed-nil or otherwise 'empty-looking' error is still an error)",
				ternary(extra == "", fmt.Sprintf("conditions: %v", seen), "additional condition: "+extra))
		}
	}

	// RESULTLIT: every Result composite literal sets exactly one of out / buildErr
	for _, f := range p.ArgFuncs() {
		core.Instrs(f, func(in ssa.Instruction) {
			al, ok := in.(*ssa.Alloc)
			if !ok || core.NamedOf(al.Type()) != "Result" || wholeStored(al) {
				return // not a literal: a parameter spill or a copy of another Result
			}
			set := map[string]bool{}
			for _, ref := range *al.Referrers() {
				if fa, ok := ref.(*ssa.FieldAddr); ok {
					fr, _ := core.AsFieldAddr(fa)
					for _, r2 := range *fa.Referrers() {
						if st, ok := r2.(*ssa.Store); ok && st.Addr == ssa.Value(fa) {
							set[fr.Field] = true
						}
					}
				}
			}
			var fs []string
			for k := range set {
				fs = append(fs, k)
			}
			c.R.Func(core.FuncName(f))
			c.R.Add("RESULTLIT", fmt.Sprintf("%s|literal sets %s", core.FuncName(f), strings.Join(fs, "+")), core.FuncName(f), p.InstrPos(al), len(set) == 1,
				"a Result is built with exactly one of its outputs or its resolution error", fmt.Sprintf("fields set: %v", fs))
		})
	}
	// the executor's Result holds exactly what the reflective call returned
	if exec := p.MustRole("executor"); exec != nil {
		ok := false
		rewritten := ""
		p.RegionInstrs(exec, func(in ssa.Instruction) {
			if st, isSt := in.(*ssa.Store); isSt {
				if fr, isF := core.AsFieldAddr(st.Addr); isF && fr.Owner == "Result" && fr.Field == "out" {
					if cl, isC := st.Val.(*ssa.Call); isC && core.CalleeName(cl.Common()) == core.RVCall {
						ok = true
						// … and none of its elements is replaced on the way (an error wrapped with the function's name is
						// no longer the error the function returned)
						for _, ref := range *cl.Referrers() {
							if ia, isIA := ref.(*ssa.IndexAddr); isIA {
								for _, r2 := range *ia.Referrers() {
									if st2, isSt2 := r2.(*ssa.Store); isSt2 && st2.Addr == ssa.Value(ia) {
										ok = false
										rewritten = p.InstrPos(st2)
									}
								}
							}
						}
					}
				}
			}
		})
		c.R.Add("RESULTLIT", "executor|out-is-raw-call-result", "executor", p.Pos(exec.Pos()), ok,
			"the executor's Result carries exactly the slice returned by the reflective call (unfiltered, in order, no element replaced)", ternary(rewritten == "", fmt.Sprintf("ok=%v", ok), "an element of the returned slice is overwritten at "+rewritten))
		// the value returned after the call is that Result (not a derived one)
		retOK := true
		rv := c.oneSite("RESULTLIT", "executor", "reflect.Value.Call", p.RegionCalls(exec, core.RVCall))
		var rvA ssa.Instruction
		if rv != nil {
			if as, _ := p.Anchors(rv, exec); len(as) == 1 {
				rvA = as[0]
			}
		}
		isRawLiteral := func(v ssa.Value) bool {
			ld, isLd := v.(*ssa.UnOp)
			if !isLd {
				return false
			}
			al, isAl := ld.X.(*ssa.Alloc)
			if !isAl {
				return false
			}
			// alloc must be assigned (transitively) from the literal whose out is the call result
			good := !wholeStored(al) && storesRawCall(al)
			for _, ref := range *al.Referrers() {
				if st, isSt := ref.(*ssa.Store); isSt && st.Addr == ssa.Value(al) {
					for _, src := range core.Sources(st.Val) {
						if l2, ok2 := src.(*ssa.UnOp); ok2 {
							if a2, ok3 := l2.X.(*ssa.Alloc); ok3 && !wholeStored(a2) && storesRawCall(a2) {
								good = true
							}
						}
					}
				}
			}
			return good
		}
		nAfter := 0
		for _, r := range core.Returns(exec) {
			if rvA == nil || !(core.InstrDominates(rvA, r) || rvA == ssa.Instruction(r)) {
				continue
			}
			nAfter++
			for _, v := range core.ReturnOperand(r, 0) {
				if isRawLiteral(v) {
					continue
				}
				// through private steps (invoke / remember): every value that can be returned here is that literal — or
				// the error Result of a step that did not reach the call
				beforeCall := func(at ssa.Instruction) bool {
					// `at` cannot execute once the reflective call has happened
					if at.Parent() == rv.Parent() {
						return !core.InstrDominates(rv, at) && !core.CanFollow(rv, at)
					}
					as, _ := p.Anchors(at, exec)
					for _, a := range as {
						if rvA != nil && (a == rvA || core.CanFollow(rvA, a)) && at.Parent() != rv.Parent() {
							// the step runs after (or is) the step that makes the call: only fine if it is that very step
							if a != rvA {
								return false
							}
						}
					}
					return len(as) > 0
				}
				var walkLeaf func(lf ssa.Value, d int) bool
				walkLeaf = func(lf ssa.Value, d int) bool {
					if isRawLiteral(lf) {
						return true
					}
					if d > 4 {
						return false
					}
					switch x := lf.(type) {
					case *ssa.Call:
						cal := x.Common().StaticCallee()
						if cal == nil || !p.InTarget(cal) {
							return false
						}
						// an error-Result constructor (resultError(err)) on a path that never reached the call
						if len(x.Common().Args) == 1 && strings.Contains(core.TypeStr(x.Common().Args[0].Type()), "error") && core.NamedOf(cal.Signature.Results().At(0).Type()) == "Result" {
							return beforeCall(x)
						}
						if !p.PrivateHelper(cal) || cal.Signature.Results().Len() != 1 {
							return false
						}
						for _, hr := range core.Returns(cal) {
							for _, o := range core.ReturnOperand(hr, 0) {
								for _, sv := range core.Sources(o) {
									if !walkLeaf(sv, d+1) {
										return false
									}
								}
							}
						}
						return true
					case *ssa.Parameter:
						h := x.Parent()
						if !p.PrivateHelper(h) {
							return false
						}
						idx := -1
						for i, q := range h.Params {
							if q == x {
								idx = i
							}
						}
						sites := p.Callers(h)
						if idx < 0 || len(sites) == 0 {
							return false
						}
						for _, site := range sites {
							for _, sv := range core.Sources(site.Common().Args[idx]) {
								if !walkLeaf(sv, d+1) {
									return false
								}
							}
						}
						return true
					case *ssa.UnOp:
						al, isAl := x.X.(*ssa.Alloc)
						if !isAl {
							return false
						}
						if wholeStored(al) {
							// a variable: everything assigned to it
							for _, ref := range *al.Referrers() {
								if st, ok := ref.(*ssa.Store); ok && st.Addr == ssa.Value(al) {
									for _, sv := range core.Sources(st.Val) {
										if sv == ssa.Value(x) {
											continue
										}
										if !walkLeaf(sv, d+1) {
											return false
										}
									}
								}
							}
							return true
						}
						// an error Result literal (sets only the resolution error) on a path that never reached the call
						onlyErr := true
						for _, ref := range *al.Referrers() {
							if fa, ok := ref.(*ssa.FieldAddr); ok {
								if fr, _ := core.AsFieldAddr(fa); fr.Field != "buildErr" {
									onlyErr = false
								}
							}
						}
						return onlyErr && beforeCall(x)
					}
					return false
				}
				for _, sv := range core.Sources(v) {
					if !walkLeaf(sv, 0) {
						retOK = false
					}
				}
			}
		}
		if nAfter == 0 {
			retOK = false
		}
		c.R.Add("RESULTLIT", "executor|returns-that-result", "executor", p.Pos(exec.Pos()), retOK,
			"after executing the function the executor returns the Result built from the call's outputs, unmodified", fmt.Sprintf("ok=%v", retOK))
	}

	// LEN / Out
	lenM, outM, hasM := p.Method(p.Arg, "Result", "Len"), p.Method(p.Arg, "Result", "Out"), (*ssa.Function)(nil)
	if lenM == nil || outM == nil {
		c.R.Undecided("LEN", "methods", "Result", "-", "exported methods (*Result).Len/Out not found")
		return
	}
	c.R.Func(core.FuncName(lenM), core.FuncName(outM))
	// Len: returns len(out) or len(out)-1, the latter exactly under the final-error predicate
	lenOK, subGuarded, plainUnguarded := true, false, false
	for _, r := range core.Returns(lenM) {
		for _, v := range core.ReturnOperand(r, 0) {
			vals := []ssa.Value{v}
			if ph, ok := v.(*ssa.Phi); ok {
				vals = ph.Edges
			}
			for _, e := range vals {
				switch x := e.(type) {
				case *ssa.Call:
					if core.CalleeName(x.Common()) == "builtin.len" && strings.HasSuffix(core.Path(x.Common().Args[0]), ".out") {
						plainUnguarded = true
					} else {
						lenOK = false
					}
				case *ssa.BinOp:
					if x.Op == token.SUB {
						if k, ok := core.ConstInt(x.Y); ok && k == 1 && strings.HasSuffix(core.Path(x.X), ".out)") {
							for _, l := range core.Lits(core.Guards(x.Block())) {
								if l.Kind == "call" && l.Pol {
									if cal := l.Of.(*ssa.Call).Common().StaticCallee(); cal != nil && p.InTarget(cal) {
										hasM = cal
										subGuarded = true
									}
								}
							}
						} else {
							lenOK = false
						}
					} else {
						lenOK = false
					}
				default:
					lenOK = false
				}
			}
		}
	}
	c.R.Add("LEN", "Len|arithmetic", core.FuncName(lenM), p.Pos(lenM.Pos()), lenOK && subGuarded && plainUnguarded,
		"Len is len(out), minus one exactly when the final-error predicate holds", fmt.Sprintf("only-len-or-len-1=%v minus-one-under-predicate=%v", lenOK, subGuarded))
	if hasM != nil {
		c.R.Func(core.FuncName(hasM))
		// predicate returns false on empty, else the identity comparison (already checked by ERRPRED to be last position)
		okPred := true
		cmpSeen := false
		for _, r := range core.Returns(hasM) {
			for _, src := range p.ISources(r.Results[0]) {
				switch x := src.(type) {
				case *ssa.Const:
					if x.Value != nil && x.Value.ExactString() == "true" {
						okPred = false
					}
				case *ssa.BinOp:
					if x.Op == token.EQL && (isErrT(x.X) || isErrT(x.Y)) {
						cmpSeen = true
					} else {
						okPred = false
					}
				default:
					okPred = false
				}
			}
		}
		c.R.Add("LEN", "hasError|predicate", core.FuncName(hasM), p.Pos(hasM.Pos()), okPred && cmpSeen,
			"the predicate used by Len is false for no outputs and otherwise the identity comparison with `error`", fmt.Sprintf("ok=%v cmp=%v", okPred, cmpSeen))
	} else {
		c.R.Add("LEN", "hasError|predicate", core.FuncName(lenM), p.Pos(lenM.Pos()), false, "Len's decrement is guarded by an in-package final-error predicate", "predicate not found")
	}
	// Out(i) = out[i].Interface()
	outOK := len(core.Returns(outM)) > 0
	for _, r := range core.Returns(outM) {
		for _, rv := range core.Sources(r.Results[0]) {
			one := false
			if cl, ok := rv.(*ssa.Call); ok && core.CalleeName(cl.Common()) == "(reflect.Value).Interface" {
				if ld, ok := cl.Common().Args[0].(*ssa.UnOp); ok {
					if ia, ok := ld.X.(*ssa.IndexAddr); ok && ia.Index == ssa.Value(outM.Params[1]) && strings.HasSuffix(core.Path(ia.X), ".out") {
						one = true
					}
				}
			}
			if !one {
				outOK = false // every way out returns the raw output, whatever it holds (zero values included)
			}
		}
	}
	c.R.Add("LEN", "Out|indexing", core.FuncName(outM), p.Pos(outM.Pos()), outOK, "Out(i) is the i-th raw output", fmt.Sprintf("ok=%v", outOK))
}

func countIn(f *ssa.Function, target *ssa.BinOp, isErrT func(ssa.Value) bool) int {
	n, res := 0, 0
	core.Instrs(f, func(in ssa.Instruction) {
		if b, ok := in.(*ssa.BinOp); ok && (isErrT(b.X) || isErrT(b.Y)) {
			n++
			if b == target {
				res = n
			}
		}
	})
	return res
}

// lastPositionType: v is the reflect.Type of the element at the last position
// of a result list: X.Out(NumOut()-1) (possibly via a local n := NumOut()),
// s[len(s)-1] or (s[len(s)-1]).Type().
func lastPositionType(v ssa.Value) (bool, string) {
	switch x := v.(type) {
	case *ssa.Call:
		// `get(count-1)` where get and count are parameters of a private helper (`valueTypes(n, t.Out, trimError)`): at
		// every call site that can reach the comparison, get is the bound accessor of a type and count its own length
		if prm, ok := x.Common().Value.(*ssa.Parameter); ok && x.Common().StaticCallee() == nil && len(x.Common().Args) == 1 {
			if pr := core.Active; pr != nil && pr.PrivateHelper(prm.Parent()) {
				return strategyLastPosition(pr, x, prm)
			}
		}
		nm := core.CalleeName(x.Common())
		a := core.CallArgs(x.Common())
		switch nm {
		case "(reflect.Type).Out":
			// index = NumOut()-1 of the same type
			want := "(reflect.Type).NumOut(" + core.Path(a[0]) + ")"
			if isLenMinusOne(a[1], want) {
				return true, "Out(NumOut()-1)"
			}
			return false, "Out(" + core.Path(a[1]) + ") is not the last result"
		case "(reflect.Value).Type":
			return lastElem(a[0])
		}
	case *ssa.UnOp:
		return lastElem(x)
	case *ssa.Parameter:
		// a predicate helper `isErrorType(t)`: what every call site hands in
		if pr := core.Active; pr != nil && pr.PrivateHelper(x.Parent()) {
			idx := -1
			for i, q := range x.Parent().Params {
				if q == x {
					idx = i
				}
			}
			sites := pr.Callers(x.Parent())
			if idx >= 0 && len(sites) > 0 {
				why := ""
				for _, s := range sites {
					if idx >= len(s.Common().Args) {
						return false, "call site shape"
					}
					ok, w := lastPositionType(s.Common().Args[idx])
					if !ok {
						return false, w
					}
					why = w
				}
				return true, why + " (through " + core.FuncName(x.Parent()) + ")"
			}
		}
	}
	return false, "compared value " + core.Path(v) + " is not recognisably the last result's type"
}

// strategyLastPosition decides `get(count-1)` for a helper whose accessor and length are parameters.
func strategyLastPosition(pr *core.Prog, call *ssa.Call, getP *ssa.Parameter) (bool, string) {
	h := getP.Parent()
	b, ok := call.Common().Args[0].(*ssa.BinOp)
	if !ok || b.Op != token.SUB {
		return false, "index is not count-1"
	}
	if k, ok := core.ConstInt(b.Y); !ok || k != 1 {
		return false, "index is not count-1"
	}
	cntP, ok := b.X.(*ssa.Parameter)
	if !ok || cntP.Parent() != h {
		return false, "count is not a parameter of the helper"
	}
	idxOf := func(q *ssa.Parameter) int {
		for i, x := range h.Params {
			if x == q {
				return i
			}
		}
		return -1
	}
	gi, ci := idxOf(getP), idxOf(cntP)
	// boolean parameters that must be true for the comparison to execute
	var gates []int
	for _, l := range core.Lits(core.Guards(call.Block())) {
		if l.Kind == "bool" && l.Pol {
			if bp, ok := l.Of.(*ssa.Parameter); ok && bp.Parent() == h {
				gates = append(gates, idxOf(bp))
			}
		}
	}
	sites := pr.Callers(h)
	n := 0
	for _, s := range sites {
		as := s.Common().Args
		off := false
		for _, g := range gates {
			if g >= 0 && g < len(as) {
				if kb, ok := core.ConstBool(as[g]); ok && !kb {
					off = true // this site switches the comparison off
				}
			}
		}
		if off {
			continue
		}
		n++
		mc, ok := as[gi].(*ssa.MakeClosure)
		if !ok || len(mc.Bindings) != 1 {
			return false, "accessor handed in at " + pr.InstrPos(s) + " is not a bound method"
		}
		fn, _ := mc.Fn.(*ssa.Function)
		if fn == nil || !strings.HasPrefix(fn.Name(), "Out$bound") && fn.Name() != "Out$bound" {
			return false, "accessor handed in at " + pr.InstrPos(s) + " is " + fn.Name() + ", not the result accessor"
		}
		cc, ok := as[ci].(*ssa.Call)
		if !ok || core.CalleeName(cc.Common()) != "(reflect.Type).NumOut" || core.Path(core.CallArgs(cc.Common())[0]) != core.Path(mc.Bindings[0]) {
			return false, "count handed in at " + pr.InstrPos(s) + " is not NumOut() of the same type"
		}
	}
	if n == 0 {
		return false, "no call site enables the comparison"
	}
	return true, "Out(NumOut()-1) through the accessor/length parameters of " + core.FuncName(h)
}

func lastElem(v ssa.Value) (bool, string) {
	ld, ok := v.(*ssa.UnOp)
	if !ok || ld.Op != token.MUL {
		return false, "not an element load: " + core.Path(v)
	}
	ia, ok := ld.X.(*ssa.IndexAddr)
	if !ok {
		return false, "not an element load: " + core.Path(v)
	}
	want := "builtin.len(" + core.Path(ia.X) + ")"
	if isLenMinusOne(ia.Index, want) {
		return true, "element at len-1"
	}
	return false, "index " + core.Path(ia.Index) + " is not len-1 of the same slice"
}

// storesRawCall: the Result literal's out field is assigned the reflective call's result.
func storesRawCall(al *ssa.Alloc) bool {
	for _, ref := range *al.Referrers() {
		if fa, ok := ref.(*ssa.FieldAddr); ok {
			if fr, _ := core.AsFieldAddr(fa); fr.Field == "out" {
				for _, r2 := range *fa.Referrers() {
					if st, ok := r2.(*ssa.Store); ok {
						if cl, ok := st.Val.(*ssa.Call); ok && core.CalleeName(cl.Common()) == core.RVCall {
							return true
						}
					}
				}
			}
		}
	}
	return false
}

// wholeStored: the local receives a whole struct value somewhere (so it is not
// a composite literal being built field by field).
func wholeStored(al *ssa.Alloc) bool {
	for _, ref := range *al.Referrers() {
		if st, ok := ref.(*ssa.Store); ok && st.Addr == ssa.Value(al) {
			return true
		}
	}
	return false
}
