package rules

import (
	"bufio"
	"bytes"
	"fmt"
	"go/token"
	"go/types"
	"os/exec"
	"path/filepath"
	"regexp"
	"sort"
	"strconv"
	"strings"

	"argverif/internal/core"

	"golang.org/x/tools/go/ssa"
)

// BOUNDS — every index or slice expression of the target that the Go compiler's own bounds-check elimination cannot
// prove in range (C06: an index out of range is a panic). DESIGN §4.
//
// The enumeration comes from the compiler (`go build -gcflags=-d=ssa/check_bce/debug=1`, the prove pass over the
// compiler's SSA; nothing is executed): a site it proves needs no argument. Every remaining site must be discharged
//   - by a local argument the checker verifies (a dominating length guard for a constant or len-1 index, an index that
//     is a loop counter bounded by the indexed slice, a slice made with the length the index ranges over), or
//   - by an entry of the reviewed table below, keyed by the *shape* of the indexed operand and of the index (not by
//     function or line), each with the invariant that bounds it and, where the invariant is a guard, the guard that
//     must dominate the site.
// A site that is neither is reported: a new unproven index expression needs a stated reason.

func init() {
	register(&Engine{
		Name:  "BOUNDS",
		Doc:   "compiler-unproven index/slice expressions are justified (local guard or reviewed shape)",
		Run:   runBounds,
		Floor: map[string]int{"BOUNDS": 15},
	})
}

type bceSite struct {
	file      string
	line, col int
	kind      string
}

var bceRe = regexp.MustCompile(`^(.*\.go):(\d+):(\d+): Found (IsInBounds|IsSliceInBounds)`)

// unprovenBounds asks the compiler which bounds checks of the target's two packages it could not eliminate.
func unprovenBounds(dir string) ([]bceSite, error) {
	cmd := exec.Command("go", "build", "-tags=verif", "-gcflags=-l -d=ssa/check_bce/debug=1", ".", "./internal/graph")
	cmd.Dir = dir
	var buf bytes.Buffer
	cmd.Stdout = &buf
	cmd.Stderr = &buf
	if err := cmd.Run(); err != nil {
		return nil, fmt.Errorf("go build (bounds-check report) failed: %v: %s", err, firstLine(buf.String()))
	}
	var out []bceSite
	pkgDir := ""
	sc := bufio.NewScanner(&buf)
	for sc.Scan() {
		ln := sc.Text()
		if strings.HasPrefix(ln, "# ") {
			pkgDir = ""
			continue
		}
		m := bceRe.FindStringSubmatch(ln)
		if m == nil {
			continue
		}
		l, _ := strconv.Atoi(m[2])
		cl, _ := strconv.Atoi(m[3])
		f := filepath.Clean(m[1])
		if !filepath.IsAbs(f) {
			f = filepath.Join(dir, pkgDir, f)
		}
		out = append(out, bceSite{file: f, line: l, col: cl, kind: m[4]})
	}
	return out, nil
}

func firstLine(s string) string {
	if i := strings.IndexByte(s, '\n'); i >= 0 {
		return s[:i]
	}
	return s
}

// shape renders a value position-independently: parameters by type, field loads by owner.field, calls by callee,
// loop counters as "i", constants by value.
func (c *Ctx) shape(v ssa.Value, d int) string {
	if d > 6 {
		return "…"
	}
	switch x := v.(type) {
	case nil:
		return "nil"
	case *ssa.Const:
		if x.Value == nil {
			return "nil"
		}
		return x.Value.ExactString()
	case *ssa.Parameter:
		return "param:" + core.TypeStr(x.Type())
	case *ssa.FreeVar:
		return "captured:" + core.TypeStr(x.Type())
	case *ssa.Phi:
		if isCounter(x) {
			return "i"
		}
		return "phi:" + core.TypeStr(x.Type())
	case *ssa.BinOp:
		// the increment of a range loop's counter is the element index
		if ph, ok := x.X.(*ssa.Phi); ok && x.Op == token.ADD && isCounter(ph) {
			if k, ok := core.ConstInt(x.Y); ok && k == 1 {
				return "i"
			}
		}
		return "(" + c.shape(x.X, d+1) + x.Op.String() + c.shape(x.Y, d+1) + ")"
	case *ssa.UnOp:
		if x.Op == token.MUL {
			if fr, ok := c.P.FlatFieldLoad(x); ok {
				return fr.Owner + "." + fr.Field
			}
			if al, ok := x.X.(*ssa.Alloc); ok {
				if sv := core.SingleStore(al); sv != nil {
					return c.shape(sv, d+1)
				}
				return "local:" + core.TypeStr(x.Type())
			}
			if dv := c.P.DerefFree(x); dv != nil {
				return c.shape(dv, d+1)
			}
			return "*" + c.shape(x.X, d+1)
		}
		return x.Op.String() + c.shape(x.X, d+1)
	case *ssa.Field:
		if fr, ok := core.AsFieldLoad(x); ok {
			return fr.Owner + "." + fr.Field
		}
	case *ssa.Call:
		n := core.CalleeName(x.Common())
		if n == "builtin.len" {
			return "len(" + c.shape(x.Common().Args[0], d+1) + ")"
		}
		if x.Common().IsInvoke() {
			return "call:" + x.Common().Method.Name()
		}
		if fr, ok := core.AsFieldLoad(x); ok {
			return fr.Owner + "." + fr.Field
		}
		return "call:" + strings.TrimPrefix(strings.TrimPrefix(n, core.ArgPath+"."), core.GraphPath+".")
	case *ssa.Extract:
		return fmt.Sprintf("%s#%d", c.shape(x.Tuple, d+1), x.Index)
	case *ssa.MakeSlice:
		return "make(" + c.shape(x.Len, d+1) + ")"
	case *ssa.Slice:
		return c.shape(x.X, d+1) + "[:]"
	case *ssa.Alloc:
		return "local:" + core.TypeStr(x.Type())
	case *ssa.IndexAddr:
		return c.shape(x.X, d+1) + "[" + c.shape(x.Index, d+1) + "]"
	case *ssa.Index:
		return c.shape(x.X, d+1) + "[" + c.shape(x.Index, d+1) + "]"
	case *ssa.Lookup:
		return c.shape(x.X, d+1) + "[" + c.shape(x.Index, d+1) + "]"
	case *ssa.Convert:
		return c.shape(x.X, d+1)
	case *ssa.ChangeType:
		return c.shape(x.X, d+1)
	case *ssa.FieldAddr:
		if fr, ok := c.P.FlatFieldAddr(x); ok {
			return "&" + fr.Owner + "." + fr.Field
		}
	case *ssa.Next:
		return "next"
	case *ssa.TypeAssert:
		return c.shape(x.X, d+1) + ".(" + core.TypeStr(x.AssertedType) + ")"
	}
	return fmt.Sprintf("%T", v)
}

// isCounter: a phi that starts at a constant and is otherwise only incremented/decremented by one (loop counter).
func isCounter(ph *ssa.Phi) bool {
	if _, ok := ph.Type().Underlying().(*types.Basic); !ok {
		return false
	}
	hasConst, hasStep := false, false
	for _, e := range ph.Edges {
		switch x := e.(type) {
		case *ssa.Const:
			hasConst = true
		case *ssa.BinOp:
			if (x.Op == token.ADD || x.Op == token.SUB) && x.X == ssa.Value(ph) {
				if k, ok := core.ConstInt(x.Y); ok && k == 1 {
					hasStep = true
					continue
				}
			}
			return false
		default:
			return false
		}
	}
	return hasConst && hasStep
}

// lengthFact: a reviewed lower bound on the length of a slice by where it comes from.
type lengthFact struct {
	min      int64
	reason   string
	requires string // a guard (litShape) that must dominate the site, or ""
}

// reviewedLengths: origin of the indexed slice -> minimum length. Confirmed by reading the code (DESIGN §4 BOUNDS).
// Origins name what produced the slice (a callee, a role, a field), never a position.
var reviewedLengths = map[string]lengthFact{
	"call:strings.Split": {1, "strings.Split with a non-empty separator returns at least one element", ""},
	"call:(*graph.Graph).EdgeToPath": {1,
		"a path returned by EdgeToPath contains at least its target (HEAP-H5 and the reversal rules state its construction)", ""},
	"Result.out@output-mapping": {1,
		"the Result of a function that is on a resolution path (entered through one of its output vertices), adapted for a non-lifted output set, carries the output struct as its first value", ""},
	"role:convertMulti#0": {1,
		"on success convertMulti returns one output per requested target, and Convert requests one", "role:convertMulti#1==nil"},
	"generated-body-args": {1,
		"the generated function type is built by reflect.FuncOf with exactly one parameter (the input struct)", ""},
	"generated-body-results": {1,
		"the redefined function's result list always ends in an error type (appended when missing)", ""},
	"ValueSet.FromSignature:values": {1,
		"by contract the list matches Signature(), which has one element exactly when the set has a struct type", "ValueSet.structType!=nil"},
}

func runBounds(c *Ctx) {
	p := c.P
	sites, err := unprovenBounds(p.Dir)
	if err != nil {
		c.R.Undecided("BOUNDS", "compiler-report", "(whole program)", "-", err.Error())
		return
	}
	type key struct {
		file      string
		line, col int
	}
	instrAt := map[key][]ssa.Instruction{}
	for _, f := range p.Funcs {
		core.Instrs(f, func(in ssa.Instruction) {
			switch in.(type) {
			case *ssa.IndexAddr, *ssa.Index, *ssa.Slice, *ssa.Lookup:
			default:
				return
			}
			if !in.Pos().IsValid() {
				return
			}
			ps := p.Fset.Position(in.Pos())
			k := key{filepath.Clean(ps.Filename), ps.Line, ps.Column}
			instrAt[k] = append(instrAt[k], in)
		})
	}
	// the compiler's report lists the checks it could not prove; an index it can prove to be OUT of range (`x[len(x)]`,
	// `x[len(x)-0]`) is not among them — it compiles to an unconditional panic. Those are found here by their shape.
	for _, f := range p.Funcs {
		if !p.InTarget(f) {
			continue
		}
		core.Instrs(f, func(in ssa.Instruction) {
			ia, ok := in.(*ssa.IndexAddr)
			if !ok {
				return
			}
			if _, isSlice := ia.X.Type().Underlying().(*types.Slice); !isSlice {
				return
			}
			idx := c.res(ia.Index)
			if b, isB := idx.(*ssa.BinOp); isB && (b.Op == token.SUB || b.Op == token.ADD) {
				if k, isK := core.ConstInt(b.Y); isK && ((b.Op == token.SUB && k <= 0) || (b.Op == token.ADD && k >= 0)) {
					idx = c.res(b.X)
				}
			}
			if c.isLenOf(idx, ia.X) {
				c.R.Add("BOUNDS", "always-out-of-range|"+core.FuncName(f)+"|"+core.Path(ia.X), core.FuncName(f), p.InstrPos(in), false,
					"no slice is indexed at its own length (or beyond)", "index "+core.Path(ia.Index)+" is never below the length of "+core.Path(ia.X))
			}
		})
	}
	// reflect's positional accessors panic like an index does: a counter handed to Type.In/Out/Field or Value.Field is
	// compared strictly below the matching count (`i <= t.NumOut()` runs one position too far)
	counts := map[string]string{"(reflect.Type).Out": "(reflect.Type).NumOut", "(reflect.Type).In": "(reflect.Type).NumIn", "(reflect.Type).Field": "(reflect.Type).NumField", "(reflect.Value).Field": "(reflect.Value).NumField"}
	for _, f := range p.Funcs {
		if !p.InTarget(f) {
			continue
		}
		nAcc := 0
		for _, ci := range core.Calls(f) {
			want, ok := counts[core.CalleeName(ci.Common())]
			if !ok {
				continue
			}
			as := core.CallArgs(ci.Common())
			if len(as) != 2 {
				continue
			}
			ph, isPhi := as[1].(*ssa.Phi)
			if !isPhi {
				continue
			}
			for _, l := range core.Lits(core.Guards(ci.Block())) {
				l = core.PositiveOrder(l)
				if l.Kind != "cmp" || !l.Pol {
					continue
				}
				var other ssa.Value
				strict := false
				switch {
				case l.X == ssa.Value(ph) && (l.Op == token.LSS || l.Op == token.LEQ):
					other, strict = l.Y, l.Op == token.LSS
				case l.Y == ssa.Value(ph) && (l.Op == token.GTR || l.Op == token.GEQ):
					other, strict = l.X, l.Op == token.GTR
				default:
					continue
				}
				cl, isC := core.Strip(other).(*ssa.Call)
				if !isC || core.CalleeName(cl.Common()) != want {
					continue
				}
				nAcc++
				c.R.Add("BOUNDS", fmt.Sprintf("reflect-position|%s#%d", core.FuncName(f), nAcc), core.FuncName(f), p.InstrPos(ci), strict,
					"a counter handed to a positional accessor of reflect stays strictly below the matching count", ternary(strict, "counter < count", "counter <= count: one position too far"))
			}
		}
	}
	// a result list padded with a nil error up to the declared number of results is padded only while it is SHORTER than
	// that number (`len(result) <= fn.NumOut()` pads a complete list: reflect.MakeFunc panics on the extra value)
	for _, f := range p.Funcs {
		if !p.InTarget(f) {
			continue
		}
		nPad := 0
		for _, ci := range core.Calls(f, "builtin.append") {
			cl, ok := ci.(*ssa.Call)
			if !ok || core.TypeStr(cl.Type()) != "[]reflect.Value" {
				continue
			}
			for _, l := range core.Lits(core.Guards(cl.Block())) {
				l = core.PositiveOrder(l)
				if l.Kind != "cmp" || !l.Pol {
					continue
				}
				lenC, okL := core.Strip(l.X).(*ssa.Call)
				numC, okN := core.Strip(l.Y).(*ssa.Call)
				if !okL || !okN || core.CalleeName(lenC.Common()) != "builtin.len" || core.CalleeName(numC.Common()) != "(reflect.Type).NumOut" {
					continue
				}
				nPad++
				c.R.Add("BOUNDS", fmt.Sprintf("result-count|%s#%d", core.FuncName(f), nPad), core.FuncName(f), p.InstrPos(cl), l.Op == token.LSS,
					"a result list is padded only while it is strictly shorter than the declared number of results", ternary(l.Op == token.LSS, "len < NumOut()", "padded under len "+l.Op.String()+" NumOut()"))
			}
		}
	}
	c.roleOfFn = map[*ssa.Function]string{}
	for _, r := range []string{"convertMulti", "executor", "resolver", "planner", "graphBuilder", "inputBuilder", "funcBuilder", "structWalker", "outputMapper", "resultAdapter"} {
		if f := p.MustRole(r); f != nil {
			c.roleOfFn[f] = r
		}
	}
	seen := map[string]int{}
	sort.Slice(sites, func(i, j int) bool {
		if sites[i].file != sites[j].file {
			return sites[i].file < sites[j].file
		}
		if sites[i].line != sites[j].line {
			return sites[i].line < sites[j].line
		}
		return sites[i].col < sites[j].col
	})
	for _, s := range sites {
		if strings.HasSuffix(s.file, "_string.go") {
			continue // generated by stringer: its index is guarded by its own range test
		}
		rel, _ := filepath.Rel(p.Dir, s.file)
		if strings.HasPrefix(rel, "..") {
			continue // a check inside a standard-library generic function instantiated for this package (slices, maps): not this repository's code
		}
		pos := fmt.Sprintf("%s:%d", rel, s.line)
		ins := instrAt[key{s.file, s.line, s.col}]
		if len(ins) == 0 {
			c.R.Undecided("BOUNDS", fmt.Sprintf("unmapped|%s:%d", rel, s.col), rel, pos, "compiler reports an unproven "+s.kind+" here but no index/slice instruction was found at that position")
			continue
		}
		for _, in := range ins {
			c.R.Sites++
			c.R.Func(core.FuncName(in.Parent()))
			// the site must hold on every way its function is reached (one binding of helper parameters per call site)
			sh, ok, why := "", true, ""
			saved := core.PathEnv
			for _, ch := range c.chains(in.Parent(), 0) {
				core.PathEnv = ch.env
				s1, ok1, why1 := c.boundsJustified(in, ch.lits)
				if sh == "" || !ok1 {
					sh, why = s1, why1
				}
				if !ok1 {
					ok = false
					break
				}
			}
			core.PathEnv = saved
			k := "site|" + sh
			seen[k]++
			if seen[k] > 1 {
				k = fmt.Sprintf("%s#%d", k, seen[k])
			}
			c.R.Add("BOUNDS", k, core.FuncName(in.Parent()), pos, ok,
				"an index or slice expression the compiler cannot prove in range is bounded by a dominating guard, by construction, or by a reviewed length invariant of where the slice comes from", why)
		}
	}
}

type siteChain struct {
	env  map[*ssa.Parameter]ssa.Value
	lits []core.Lit
}

// chains enumerates the ways f is reached through private helpers: for each chain of call sites, the parameters bound
// to the arguments handed in and the guards that dominate the call sites (so that paths and guards of callers and
// callee can be compared). A function that is not a private helper has the single empty chain.
func (c *Ctx) chains(f *ssa.Function, d int) []siteChain {
	for f != nil && f.Parent() != nil {
		f = f.Parent()
	}
	empty := []siteChain{{env: map[*ssa.Parameter]ssa.Value{}}}
	if f == nil || d > 3 || !c.P.PrivateHelper(f) {
		return empty
	}
	sites := c.P.Callers(f)
	if len(sites) == 0 {
		return empty
	}
	var out []siteChain
	for _, s := range sites {
		for _, pc := range c.chains(s.Parent(), d+1) {
			env := map[*ssa.Parameter]ssa.Value{}
			for k, v := range pc.env {
				env[k] = v
			}
			for j, prm := range f.Params {
				if j < len(s.Common().Args) {
					env[prm] = s.Common().Args[j]
				}
			}
			lits := append(append([]core.Lit{}, pc.lits...), core.Lits(core.Guards(s.Block()))...)
			out = append(out, siteChain{env, lits})
			if len(out) >= 12 {
				return out
			}
		}
	}
	return out
}

// res follows conversions, bound parameters, single-assignment locals and captured variables to the defining value.
func (c *Ctx) res(v ssa.Value) ssa.Value {
	for i := 0; i < 10; i++ {
		v = core.Strip(v)
		switch x := v.(type) {
		case *ssa.Parameter:
			if a, ok := core.PathEnv[x]; ok && a != nil {
				v = a
				continue
			}
		case *ssa.UnOp:
			if x.Op == token.MUL {
				if al, ok := x.X.(*ssa.Alloc); ok {
					if sv := core.SingleStore(al); sv != nil {
						v = sv
						continue
					}
				}
				if d := c.P.DerefFree(x); d != nil {
					v = d
					continue
				}
			}
		case *ssa.Slice:
			if x.Low == nil && x.High == nil {
				v = x.X
				continue
			}
		}
		return v
	}
	return v
}

// elemSources collects the origins of the values stored as elements of the slice `base` (a slice made in this or a
// calling function, or returned by a private step).
func (c *Ctx) elemSources(base ssa.Value, out map[string]bool, d int) {
	if d > 5 {
		out["elem"] = true
		return
	}
	b := c.res(base)
	if core.IsNilConst(b) {
		out["nil-slice"] = true
		return
	}
	switch v := b.(type) {
	case *ssa.Extract:
		if cl, ok := v.Tuple.(*ssa.Call); ok {
			if h := cl.Common().StaticCallee(); h != nil && c.P.InTarget(h) && len(h.Blocks) > 0 {
				saved := core.PathEnv
				core.PathEnv = nil
				for _, r := range core.Returns(h) {
					if v.Index < len(r.Results) && !core.IsNilConst(r.Results[v.Index]) {
						c.elemSources(r.Results[v.Index], out, d+1)
					}
				}
				core.PathEnv = saved
				return
			}
		}
	case *ssa.Call:
		if h := v.Common().StaticCallee(); h != nil && c.P.InTarget(h) && len(h.Blocks) > 0 && core.CalleeName(v.Common()) != "builtin.append" {
			saved := core.PathEnv
			core.PathEnv = nil
			for _, r := range core.Returns(h) {
				if len(r.Results) == 1 && !core.IsNilConst(r.Results[0]) {
					c.elemSources(r.Results[0], out, d+1)
				}
			}
			core.PathEnv = saved
			return
		}
	}
	inst, ok := b.(ssa.Instruction)
	if !ok || inst.Parent() == nil {
		out["elem"] = true
		return
	}
	found := false
	core.Instrs(inst.Parent(), func(i2 ssa.Instruction) {
		if st, ok := i2.(*ssa.Store); ok {
			if ia2, ok := st.Addr.(*ssa.IndexAddr); ok && (c.res(ia2.X) == b || core.Path(ia2.X) == core.Path(b)) {
				found = true
				out[c.originOf(i2, st.Val, d+1)] = true
			}
		}
	})
	if !found {
		out["elem"] = true
	}
}

// originOf names where the indexed slice comes from.
func (c *Ctx) originOf(in ssa.Instruction, x ssa.Value, d int) string {
	o := c.originRaw(in, x, d)
	if o == "Result.out" {
		// the Result being mapped back onto the graph (output mapper and the result adapter it calls)
		for _, r := range []string{"outputMapper", "resultAdapter"} {
			if rf := c.P.MustRole(r); rf != nil && c.P.InRegion(core.Outer(in.Parent()), rf) {
				return "Result.out@output-mapping"
			}
		}
	}
	return o
}

func (c *Ctx) originRaw(in ssa.Instruction, x ssa.Value, d int) string {
	if d > 5 {
		return "local"
	}
	v := c.res(x)
	switch o := v.(type) {
	case *ssa.Parameter:
		f := o.Parent()
		if gb := c.P.GeneratedBody(); gb != nil && f == gb {
			return "generated-body-args"
		}
		if f.Name() == "FromSignature" && core.NamedOf(f.Signature.Recv().Type()) == "ValueSet" {
			return "ValueSet.FromSignature:values"
		}
		return "param"
	case *ssa.Phi:
		// a parameter that one branch replaces (FromSignature's lifted case builds a one-element list)
		for _, e := range o.Edges {
			if prm, ok := core.Strip(e).(*ssa.Parameter); ok && prm.Parent().Name() == "FromSignature" {
				return "ValueSet.FromSignature:values"
			}
		}
		return "local"
	case *ssa.MakeSlice:
		if gb := c.P.GeneratedBody(); gb != nil && (in.Parent() == gb || c.P.InRegion(in.Parent(), gb)) && core.TypeStr(o.Type()) == "[]reflect.Value" {
			return "generated-body-results"
		}
		return "make"
	case *ssa.Call:
		if fr, ok := core.AsFieldLoad(o); ok {
			return fr.Owner + "." + fr.Field
		}
		// append([]T(nil), xs...): a copy of xs, as long as xs
		if core.CalleeName(o.Common()) == "builtin.append" && len(o.Common().Args) == 2 && core.IsNilConst(o.Common().Args[0]) {
			if _, isSlice := o.Common().Args[1].Type().Underlying().(*types.Slice); isSlice {
				if _, lit := o.Common().Args[1].(*ssa.Slice); !lit {
					return c.originRaw(in, o.Common().Args[1], d+1)
				}
			}
		}
		// a private step that hands back what another call produced (`return g.EdgeToPath(…)`)
		if h := o.Common().StaticCallee(); h != nil && c.P.PrivateHelper(h) && h.Signature.Results().Len() == 1 {
			srcs := map[string]bool{}
			saved := core.PathEnv
			core.PathEnv = nil
			for _, r := range core.Returns(h) {
				if len(r.Results) == 1 {
					srcs[c.originRaw(r, r.Results[0], d+1)] = true
				}
			}
			core.PathEnv = saved
			if len(srcs) == 1 {
				for k := range srcs {
					if k != "local" && k != "param" {
						return k
					}
				}
			}
		}
		return c.callName(o)
	case *ssa.Extract:
		if cl, ok := o.Tuple.(*ssa.Call); ok {
			return fmt.Sprintf("%s#%d", c.callName(cl), o.Index)
		}
	case *ssa.Field:
		if fr, ok := core.AsFieldLoad(o); ok {
			return fr.Owner + "." + fr.Field
		}
	case *ssa.UnOp:
		if o.Op == token.MUL {
			if fr, ok := c.P.FlatFieldLoad(o); ok {
				return fr.Owner + "." + fr.Field
			}
			if ia, ok := o.X.(*ssa.IndexAddr); ok {
				// an element of a slice of slices: where do the elements come from?
				srcs := map[string]bool{}
				c.elemSources(ia.X, srcs, d+1)
				if len(srcs) == 1 {
					for k := range srcs {
						return k
					}
				}
				return "elem"
			}
		}
	case *ssa.Lookup, *ssa.Index:
		return "elem"
	}
	return "local"
}

func (c *Ctx) callName(cl *ssa.Call) string {
	if cal := cl.Common().StaticCallee(); cal != nil {
		if r, ok := c.roleOfFn[cal]; ok {
			return "role:" + r
		}
	}
	if cl.Common().IsInvoke() {
		return "call:" + cl.Common().Method.Name()
	}
	n := core.CalleeName(cl.Common())
	if isSplitAll(cl) {
		n = "strings.Split" // SplitN with a negative count is Split
	}
	n = strings.Replace(n, core.GraphPath+".", "graph.", 1)
	n = strings.Replace(n, core.ArgPath+".", "", 1)
	return "call:" + n
}

// boundsJustified returns a description of the site and whether it is discharged.
func (c *Ctx) boundsJustified(in ssa.Instruction, outer []core.Lit) (string, bool, string) {
	p := c.P
	f := in.Parent()
	var x, idx, lo, hi ssa.Value
	switch v := in.(type) {
	case *ssa.IndexAddr:
		x, idx = v.X, v.Index
	case *ssa.Index:
		x, idx = v.X, v.Index
	case *ssa.Lookup:
		x, idx = v.X, v.Index
	case *ssa.Slice:
		x, lo, hi = v.X, v.Low, v.High
	}
	origin := c.originOf(in, x, 0)
	t := core.TypeStr(x.Type())
	if pt, ok := x.Type().Underlying().(*types.Pointer); ok {
		t = core.TypeStr(pt.Elem())
	}
	is := ""
	if idx != nil {
		is = c.idxShape(x, idx)
	} else {
		if lo != nil {
			is = c.idxShape(x, lo)
		}
		is += ":"
		if hi != nil {
			is += c.idxShape(x, hi)
		}
	}
	sh := t + "<-" + origin + " [" + is + "]"
	lits := p.ExpandLitsKeep(append(core.Lits(core.Guards(in.Block())), outer...))

	if origin == "nil-slice" {
		return sh, true, "element of a slice that is nil on this way into the function: the loop over it does not run"
	}
	// 0. methods of a heap.Interface implementation: indices come from container/heap
	if recv := f.Signature.Recv(); recv != nil && (f.Name() == "Less" || f.Name() == "Swap" || f.Name() == "Pop") && isHeapImpl(recv.Type()) {
		return sh, true, "method of a heap.Interface implementation: container/heap supplies indices in [0, Len()) and calls Pop only on a non-empty queue"
	}
	if idx != nil {
		ri := c.res(idx)
		// 0b. the less function handed to sort.Slice*/sort.SliceStable over this very slice: sort supplies the indices
		if prm, ok := ri.(*ssa.Parameter); ok && prm.Parent() == f && f.Parent() != nil {
			if mc := p.ClosureSite(f); mc != nil {
				for _, u := range core.Users(mc) {
					if ci, ok := u.(ssa.CallInstruction); ok {
						n := core.CalleeName(ci.Common())
						if (n == "sort.Slice" || n == "sort.SliceStable" || n == "sort.SliceIsSorted") && len(ci.Common().Args) == 2 {
							sorted := c.res(ci.Common().Args[0])
							if mi, ok := sorted.(*ssa.MakeInterface); ok {
								sorted = c.res(mi.X)
							}
							if c.sameSlice(x, sorted) || c.res(x) == sorted {
								return sh, true, "index parameters of the less function are supplied by " + n + " for this very slice"
							}
						}
					}
				}
			}
		}
		// 1. struct-field ordinal of a value: the packing rules (PACK-P1/P3) size and fill these slices
		if fr, ok := core.AsFieldLoad(ri); ok && fr.Field == "index" && (fr.Owner == "valueInternal" || fr.Owner == "Value") {
			return sh, true, "index is the struct-field ordinal of a value; the slice is sized by the ordered value list (rules PACK-P1/P3)"
		}
		if fr, ok := p.FlatFieldLoad(ri); ok && strings.HasSuffix(fr.Field, "index") && fr.Owner == "Value" {
			return sh, true, "index is the struct-field ordinal of a value; the slice is sized by the ordered value list (rules PACK-P1/P3)"
		}
		// 2. the index parameter of an exported accessor: the caller's obligation, as for a slice
		if prm, ok := ri.(*ssa.Parameter); ok && prm.Parent().Object() != nil && prm.Parent().Object().Exported() {
			return sh, true, "index is the parameter of an exported accessor (" + core.FuncName(prm.Parent()) + "): in range by its documented contract, like indexing a slice"
		}
		// 3./4. first / last / k-th element
		need := int64(-1)
		if k, ok := core.ConstInt(ri); ok {
			need = k
		} else if c.isLenMinus1(ri, x) {
			need = 0
		}
		if need >= 0 {
			for _, l := range lits {
				if lenGuard(l, x, need) {
					return sh, true, "dominating guard " + l.String() + " bounds the index"
				}
			}
			if ok, why := c.lengthFactOK(origin, need, lits); ok {
				return sh, true, why
			} else if why != "" {
				return sh, false, why
			}
		}
		// 5. a loop counter bounded by the length of this slice (or of the slice whose length sized it)
		if c.counterOver(ri, x, lits) {
			return sh, true, "index is a loop counter bounded by the length of the indexed slice (or of the slice it was sized by)"
		}
		// 6. counter-1 under counter > 0
		if b, ok := ri.(*ssa.BinOp); ok && b.Op == token.SUB {
			if k, ok := core.ConstInt(b.Y); ok && k == 1 {
				v := c.res(b.X)
				pos := false
				for _, l := range lits {
					if intGuardPositive(l, b.X) || intGuardPositive(l, v) {
						pos = true
					}
				}
				if pos && c.counterOver(v, x, lits) {
					return sh, true, "index is (counter - 1) of a counter over the indexed slice, under counter > 0"
				}
			}
		}
		// 6b. x = make([]T, n+k) with a constant k >= 1, indexed at n where n is a length (so 0 <= n < n+k)
		if mk, ok := c.res(x).(*ssa.MakeSlice); ok {
			if sum, ok := mk.Len.(*ssa.BinOp); ok && sum.Op == token.ADD {
				for _, pair := range [][2]ssa.Value{{sum.X, sum.Y}, {sum.Y, sum.X}} {
					k, isK := core.ConstInt(pair[1])
					cl, isLen := c.res(pair[0]).(*ssa.Call)
					if isK && k >= 1 && isLen && core.CalleeName(cl.Common()) == "builtin.len" && (c.res(ri) == ssa.Value(cl) || core.Path(ri) == core.Path(pair[0])) {
						return sh, true, "slice made with length len(…)+k (k >= 1) and indexed at that len(…)"
					}
				}
			}
		}
		// 7b. half reversal: i counts up from 0 under i < len/2; the indices are i and len-1-i
		if c.halfReversal(ri, x, lits) {
			return sh, true, "half reversal: 0 <= i < len/2, the indices are i and len-1-i"
		}
		// 7. two-pointer reversal
		if c.twoPointer(ri, x, lits) {
			return sh, true, "two-pointer walk: 0 <= i < j <= len-1 (i counts up from 0, j down from len-1, loop condition i < j)"
		}
	} else {
		// slices
		if hi == nil && lo != nil {
			if k, ok := core.ConstInt(lo); ok {
				for _, l := range lits {
					if lenGuard(l, x, k-1) {
						return sh, true, "dominating guard " + l.String() + " bounds the slice"
					}
				}
				if ok, why := c.lengthFactOK(origin, k-1, lits); ok {
					return sh, true, why
				}
			}
			// x starts as make([]T, n, …) and only grows by append; x[n:] is in range
			{
				grown := true
				nMake := 0
				seen := map[ssa.Value]bool{}
				var walkA func(v ssa.Value, d int)
				walkA = func(v ssa.Value, d int) {
					if v == nil || seen[v] || d > 8 {
						return
					}
					seen[v] = true
					switch y := v.(type) {
					case *ssa.Phi:
						for _, e := range y.Edges {
							walkA(e, d+1)
						}
					case *ssa.Call:
						if core.CalleeName(y.Common()) == "builtin.append" {
							walkA(y.Common().Args[0], d+1)
						} else {
							grown = false
						}
					case *ssa.MakeSlice:
						if core.Path(y.Len) == core.Path(lo) {
							nMake++
						} else {
							grown = false
						}
					default:
						grown = false
					}
				}
				walkA(x, 0)
				if grown && nMake > 0 {
					return sh, true, "slice made with exactly the low bound as its length and only appended to since"
				}
			}
			// x = make(len(A)+len(B))[len(A):]
			if mk, ok := c.res(x).(*ssa.MakeSlice); ok {
				if sum, ok := mk.Len.(*ssa.BinOp); ok && sum.Op == token.ADD {
					if core.Path(sum.X) == core.Path(lo) || core.Path(sum.Y) == core.Path(lo) {
						return sh, true, "slice made with a length that has the low bound as a summand"
					}
				}
			}
		}
		// t[i:], t[:i+1] with i = slices.Index(t, …) found (i >= 0 implies i < len(t))
		{
			b := lo
			if b == nil {
				b = hi
			}
			if bo, ok := b.(*ssa.BinOp); ok && bo.Op == token.ADD {
				if k, isK := core.ConstInt(bo.Y); isK && k == 1 {
					b = bo.X
				}
			}
			if cl, ok := c.res(b).(*ssa.Call); ok && len(cl.Common().Args) >= 1 {
				if pk, fn := core.StdCallee(cl.Common().StaticCallee()); pk == "slices" && (fn == "Index" || fn == "IndexFunc") && (core.Path(cl.Common().Args[0]) == core.Path(x) || c.sameSlice(x, cl.Common().Args[0])) {
					for _, l0 := range lits {
						l := core.PositiveOrder(l0)
						if l.Kind != "cmp" || c.res(l.X) != ssa.Value(cl) {
							continue
						}
						k, ok := core.ConstInt(l.Y)
						if !ok {
							continue
						}
						if (l.Op == token.EQL && !l.Pol && k == -1) || (l.Op == token.GEQ && l.Pol && k == 0) || (l.Op == token.GTR && l.Pol && k == -1) || (l.Op == token.LSS && !l.Pol && k == 0) {
							return sh, true, "cut at the position slices.Index found in this very slice (guard: found)"
						}
					}
				}
			}
		}
		// s[:i], s[i+1:] with i = strings.Index(s, …) found
		if st, ok := x.Type().Underlying().(*types.Basic); ok && st.Info()&types.IsString != 0 {
			b := lo
			if b == nil {
				b = hi
			}
			if bo, ok := b.(*ssa.BinOp); ok && bo.Op == token.ADD {
				b = bo.X
			}
			if cl, ok := c.res(b).(*ssa.Call); ok && strings.HasPrefix(core.CalleeName(cl.Common()), "strings.Index") && core.Path(cl.Common().Args[0]) == core.Path(x) {
				for _, l0 := range lits {
					l := core.PositiveOrder(l0)
					if l.Kind != "cmp" || c.res(l.X) != ssa.Value(cl) {
						continue
					}
					k, ok := core.ConstInt(l.Y)
					if !ok {
						continue
					}
					found := (l.Op == token.EQL && !l.Pol && k == -1) || (l.Op == token.GEQ && l.Pol && k == 0) || (l.Op == token.GTR && l.Pol && k == -1)
					if found {
						return sh, true, "cut at the position strings.Index found in this very string (guard: found)"
					}
				}
			}
		}
	}
	return sh, false, "no dominating guard, loop bound, construction or reviewed length invariant bounds this expression (slice from " + origin + ")"
}

func (c *Ctx) lengthFactOK(origin string, need int64, lits []core.Lit) (bool, string) {
	e, ok := reviewedLengths[origin]
	if !ok || e.min <= need {
		return false, ""
	}
	if e.requires == "" {
		return true, "reviewed length invariant: " + e.reason
	}
	for _, l := range lits {
		if c.litShape(l) == e.requires {
			return true, "reviewed length invariant: " + e.reason + " (guard " + e.requires + " present)"
		}
	}
	return false, "the length invariant of " + origin + " needs the guard " + e.requires + ", which does not dominate this site: " + e.reason
}

func isHeapImpl(t types.Type) bool {
	ms := types.NewMethodSet(types.NewPointer(derefAll(t)))
	n := 0
	for _, name := range []string{"Len", "Less", "Swap", "Push", "Pop"} {
		for i := 0; i < ms.Len(); i++ {
			if ms.At(i).Obj().Name() == name {
				n++
				break
			}
		}
	}
	return n == 5
}

func (c *Ctx) isLenMinus1(idx, x ssa.Value) bool {
	b, ok := idx.(*ssa.BinOp)
	if !ok || b.Op != token.SUB {
		return false
	}
	if k, ok := core.ConstInt(b.Y); !ok || k != 1 {
		return false
	}
	return c.isLenOf(c.res(b.X), x)
}

// isLenOf: v is len(y) with y the same slice as x (or a private accessor returning it).
func (c *Ctx) isLenOf(v, x ssa.Value) bool {
	cl, ok := v.(*ssa.Call)
	if !ok {
		return false
	}
	if core.CalleeName(cl.Common()) == "builtin.len" {
		return c.sameSlice(cl.Common().Args[0], x)
	}
	// `func (s *stack) len() int { return len(*s) }`
	if h := cl.Common().StaticCallee(); h != nil && c.P.InTarget(h) && len(h.Blocks) == 1 && len(cl.Common().Args) == 1 {
		rets := core.Returns(h)
		if len(rets) == 1 && len(rets[0].Results) == 1 {
			if in, ok := rets[0].Results[0].(*ssa.Call); ok && core.CalleeName(in.Common()) == "builtin.len" {
				saved := core.PathEnv
				env := map[*ssa.Parameter]ssa.Value{}
				for k, v := range saved {
					env[k] = v
				}
				env[h.Params[0]] = cl.Common().Args[0]
				core.PathEnv = env
				same := c.sameSlice(in.Common().Args[0], x)
				core.PathEnv = saved
				return same
			}
		}
	}
	return false
}

func (c *Ctx) sameSlice(a, b ssa.Value) bool {
	if core.Path(a) == core.Path(b) {
		return true
	}
	// two reads of the same variable (one of them through a pointer parameter bound to its address)
	if aa, ab := c.addrOfLoad(a), c.addrOfLoad(b); aa != nil && aa == ab {
		return true
	}
	ra, rb := c.res(a), c.res(b)
	return ra == rb || core.Path(ra) == core.Path(rb)
}

// addrOfLoad: v is a load; returns the address it reads, with helper parameters bound to their arguments.
func (c *Ctx) addrOfLoad(v ssa.Value) ssa.Value {
	u, ok := core.Strip(v).(*ssa.UnOp)
	if !ok || u.Op != token.MUL {
		return nil
	}
	a := core.Strip(u.X)
	for i := 0; i < 4; i++ {
		prm, ok := a.(*ssa.Parameter)
		if !ok {
			break
		}
		b, ok := core.PathEnv[prm]
		if !ok || b == nil {
			break
		}
		a = core.Strip(b)
	}
	return a
}

// counterOver: v is a loop counter and a dominating literal bounds it by the length of x, or of the slice whose
// length x was made with.
func (c *Ctx) counterOver(v, x ssa.Value, lits []core.Lit) bool {
	isCtr := false
	switch t := v.(type) {
	case *ssa.Phi:
		isCtr = isCounter(t)
	case *ssa.BinOp:
		if ph, ok := t.X.(*ssa.Phi); ok && t.Op == token.ADD && isCounter(ph) {
			isCtr = true
		}
	}
	if !isCtr {
		return false
	}
	for _, l := range lits {
		if l.Kind != "cmp" || !((l.Op == token.LSS && l.Pol) || (l.Op == token.GEQ && !l.Pol)) {
			continue
		}
		if c.res(l.X) != v && l.X != v {
			continue
		}
		bound := c.res(l.Y)
		if c.isLenOf(bound, x) {
			return true
		}
		// x and y are two results of one private step that makes both with one length on every return
		if bl, ok := bound.(*ssa.Call); ok && core.CalleeName(bl.Common()) == "builtin.len" && c.siblingResultsSameLen(x, bl.Common().Args[0]) {
			return true
		}
		// x = make([]T, len(y)) and the counter is bounded by len(y)
		if mk, ok := c.res(x).(*ssa.MakeSlice); ok {
			if bl, ok := bound.(*ssa.Call); ok && core.CalleeName(bl.Common()) == "builtin.len" {
				if c.isLenOf(c.res(mk.Len), bl.Common().Args[0]) {
					return true
				}
			}
		}
	}
	return false
}

// siblingResultsSameLen: x and y are two results of the same call of a private step, and on every return of that step
// both are nil or both were made with the same length value (and returned as made).
func (c *Ctx) siblingResultsSameLen(x, y ssa.Value) bool {
	pick := func(v ssa.Value) *ssa.Extract {
		if e, ok := v.(*ssa.Extract); ok {
			return e
		}
		e, _ := c.res(v).(*ssa.Extract)
		return e
	}
	ex, ey := pick(x), pick(y)
	if ex == nil || ey == nil || ex.Tuple != ey.Tuple || ex.Index == ey.Index {
		return false
	}
	call, ok := ex.Tuple.(*ssa.Call)
	if !ok {
		return false
	}
	callee := call.Common().StaticCallee()
	if callee == nil || len(callee.Blocks) == 0 || !c.P.PrivateHelper(callee) {
		return false
	}
	n, good := 0, true
	core.Instrs(callee, func(in ssa.Instruction) {
		r, isR := in.(*ssa.Return)
		if !isR {
			return
		}
		n++
		if ex.Index >= len(r.Results) || ey.Index >= len(r.Results) {
			good = false
			return
		}
		a, b := r.Results[ex.Index], r.Results[ey.Index]
		ca, isCA := a.(*ssa.Const)
		cb, isCB := b.(*ssa.Const)
		if isCA && isCB && ca.IsNil() && cb.IsNil() {
			return
		}
		ma, isMA := a.(*ssa.MakeSlice)
		mb, isMB := b.(*ssa.MakeSlice)
		if isMA && isMB && (ma.Len == mb.Len || core.Path(ma.Len) == core.Path(mb.Len)) {
			return
		}
		good = false
	})
	return good && n > 0
}

// intGuardPositive: literal l states v > 0.
func intGuardPositive(l core.Lit, v ssa.Value) bool {
	if l.Kind != "cmp" {
		return false
	}
	if l.X != v && core.Path(l.X) != core.Path(v) {
		return false
	}
	k, ok := core.ConstInt(l.Y)
	if !ok {
		return false
	}
	switch {
	case l.Op == token.GTR && l.Pol && k >= 0:
		return true
	case l.Op == token.LEQ && !l.Pol && k >= 0:
		return true
	case l.Op == token.GEQ && l.Pol && k >= 1:
		return true
	case l.Op == token.LSS && !l.Pol && k >= 1:
		return true
	case l.Op == token.EQL && !l.Pol && k == 0:
		// != 0 on a counter that starts at 0 and counts up
		return true
	}
	return false
}

// twoPointer: v is one of two cursors i (from 0, +1) and j (from len(x)-1, -1) under the loop condition i < j.
func (c *Ctx) twoPointer(v, x ssa.Value, lits []core.Lit) bool {
	for _, l := range lits {
		if l.Kind != "cmp" || l.Op != token.LSS || !l.Pol {
			continue
		}
		i, ok1 := l.X.(*ssa.Phi)
		j, ok2 := l.Y.(*ssa.Phi)
		if !ok1 || !ok2 || (v != ssa.Value(i) && v != ssa.Value(j)) {
			continue
		}
		up, down := false, false
		for _, e := range i.Edges {
			if k, ok := core.ConstInt(e); ok && k == 0 {
				up = true
			}
		}
		for _, e := range j.Edges {
			if c.isLenMinus1(c.res(e), x) {
				down = true
			}
		}
		stepOK := func(ph *ssa.Phi, op token.Token) bool {
			for _, e := range ph.Edges {
				if b, ok := e.(*ssa.BinOp); ok && b.X == ssa.Value(ph) {
					if k, ok := core.ConstInt(b.Y); !ok || k != 1 || b.Op != op {
						return false
					}
				}
			}
			return true
		}
		if up && down && stepOK(i, token.ADD) && stepOK(j, token.SUB) {
			return true
		}
	}
	return false
}

// idxShape: the index relative to its operand (for the description of the site only).
func (c *Ctx) idxShape(x, idx ssa.Value) string {
	ri := c.res(idx)
	if k, ok := core.ConstInt(ri); ok {
		return fmt.Sprint(k)
	}
	if c.isLenMinus1(ri, x) {
		return "len-1"
	}
	switch v := ri.(type) {
	case *ssa.Parameter:
		return "param"
	case *ssa.Phi:
		if isCounter(v) {
			return "i"
		}
		return "local"
	}
	sh := c.shape(ri, 0)
	if strings.HasPrefix(sh, "phi:") {
		return "local"
	}
	return sh
}

// litShape renders a guard literal by shapes: "X==Y" / "X!=Y" forms.
func (c *Ctx) litShape(l core.Lit) string {
	switch l.Kind {
	case "cmp":
		op := l.Op.String()
		if l.Op == token.EQL && !l.Pol {
			op = "!="
		} else if !l.Pol {
			op = "!" + op
		}
		return c.shapeR(l.X) + op + c.shapeR(l.Y)
	case "bool":
		if l.Pol {
			return c.shapeR(l.Of)
		}
		return "!" + c.shapeR(l.Of)
	}
	return l.String()
}

// shapeR is shape with calls of role functions named by role.
func (c *Ctx) shapeR(v ssa.Value) string {
	if e, ok := v.(*ssa.Extract); ok {
		if cl, ok := e.Tuple.(*ssa.Call); ok {
			return fmt.Sprintf("%s#%d", c.callName(cl), e.Index)
		}
	}
	return c.shape(v, 0)
}

// lenGuard: literal l implies len(x) > need.
func lenGuard(l core.Lit, x ssa.Value, need int64) bool {
	if l.Kind != "cmp" {
		return false
	}
	a, b, op, pol := l.X, l.Y, l.Op, l.Pol
	if _, isK := a.(*ssa.Const); isK {
		a, b = b, a
		switch op {
		case token.LSS:
			op = token.GTR
		case token.GTR:
			op = token.LSS
		case token.LEQ:
			op = token.GEQ
		case token.GEQ:
			op = token.LEQ
		}
	}
	cl, ok := a.(*ssa.Call)
	if !ok || core.Active == nil {
		return false
	}
	cx := &Ctx{P: core.Active}
	if !cx.isLenOf(cl, x) {
		return false
	}
	k, ok := core.ConstInt(b)
	if !ok {
		return false
	}
	switch {
	case op == token.EQL && !pol:
		return need == 0 && k == 0 // len != 0
	case op == token.EQL && pol:
		return k > need // len == k
	case op == token.GTR && pol, op == token.LEQ && !pol:
		return k >= need
	case op == token.GEQ && pol, op == token.LSS && !pol:
		return k > need
	}
	return false
}

// halfReversal: v is i or len(x)-1-i for a counter i (from 0, +1) under the loop condition i < len(x)/2.
func (c *Ctx) halfReversal(v, x ssa.Value, lits []core.Lit) bool {
	for _, l := range lits {
		if l.Kind != "cmp" || l.Op != token.LSS || !l.Pol {
			continue
		}
		i, ok := l.X.(*ssa.Phi)
		if !ok || !isCounter(i) {
			continue
		}
		q, ok := c.res(l.Y).(*ssa.BinOp)
		if !ok || q.Op != token.QUO {
			continue
		}
		if k, ok := core.ConstInt(q.Y); !ok || k != 2 || !c.isLenOf(c.res(q.X), x) {
			continue
		}
		if v == ssa.Value(i) {
			return true
		}
		// len-1-i
		if b, ok := v.(*ssa.BinOp); ok && b.Op == token.SUB && (b.Y == ssa.Value(i) || c.res(b.Y) == ssa.Value(i)) {
			if c.isLenMinus1(c.res(b.X), x) {
				return true
			}
			if a, ok := c.res(b.X).(*ssa.BinOp); ok && a.Op == token.SUB {
				if k, ok := core.ConstInt(a.Y); ok && k == 1 && c.isLenOf(c.res(a.X), x) {
					return true
				}
			}
		}
	}
	return false
}
