package rules

import (
	"fmt"
	"go/token"
	"go/types"
	"strings"

	"argverif/internal/core"

	"golang.org/x/tools/go/ssa"
)

// HEAP — shortest-path search bookkeeping (C18). Decides the heap-position
// bookkeeping and the relaxation pairing, NOT exactness on all graphs.

func init() {
	register(&Engine{
		Name:  "HEAP",
		Doc:   "Dijkstra: heap index bookkeeping, relaxation pairing, visited guard, initialisation, result extraction; path reconstruction",
		Run:   runHeap,
		Floor: map[string]int{"HEAP-H0": 1, "HEAP-H1": 2, "HEAP-H2": 1, "HEAP-H3": 3, "HEAP-H4": 3, "HEAP-H5": 2, "HEAP-H6": 1, "HEAP-H7": 1, "HEAP-PATH": 3},
	})
}

const (
	heapFix  = "container/heap.Fix"
	heapInit = "container/heap.Init"
	heapPop  = "container/heap.Pop"
	heapPush = "container/heap.Push"
	heapRem  = "container/heap.Remove"
)

func runHeap(c *Ctx) {
	p := c.P
	dj := p.Method(p.Graph, "Graph", "Dijkstra")
	if dj == nil {
		c.R.Undecided("HEAP-H2", "Dijkstra", "Graph.Dijkstra", "-", "exported method (*Graph).Dijkstra not found")
		return
	}
	name := core.FuncName(dj)
	c.R.Func(name)

	// queue type: the named type whose pointer is boxed into heap.Interface
	var qType types.Type
	for _, call := range p.RegionCalls(dj, heapInit, heapPop, heapFix, heapPush, heapRem) {
		if mi, ok := call.Common().Args[0].(*ssa.MakeInterface); ok {
			if pt, ok := mi.X.Type().(*types.Pointer); ok {
				qType = pt.Elem()
			}
		}
	}
	qNamed, _ := qType.(*types.Named)
	if qNamed == nil {
		c.R.Undecided("HEAP-H1", "queue", name, "-", "cannot find the priority queue type handed to container/heap")
		return
	}
	qName := qNamed.Obj().Name()
	less, swap := p.Method(p.Graph, qName, "Less"), p.Method(p.Graph, qName, "Swap")
	if less == nil || swap == nil {
		c.R.Undecided("HEAP-H1", "queue", name, "-", "queue type lacks Less/Swap")
		return
	}
	c.R.Func(core.FuncName(less), core.FuncName(swap))

	// distance field: the item field compared in Less
	distField := ""
	lessOK := false
	for _, r := range core.Returns(less) {
		if b, ok := r.Results[0].(*ssa.BinOp); ok {
			fx, okx := core.AsFieldLoad(b.X)
			fy, oky := core.AsFieldLoad(b.Y)
			if okx && oky && fx.Field == fy.Field {
				distField = fx.Field
				// min-heap: pq[i].d < pq[j].d  (or pq[j].d > pq[i].d)
				ix, iy := indexParam(fx.Base), indexParam(fy.Base)
				lessOK = (b.Op == token.LSS && ix == 1 && iy == 2) || (b.Op == token.GTR && ix == 2 && iy == 1) ||
					(b.Op == token.LEQ && ix == 1 && iy == 2)
			}
		}
	}
	c.R.Add("HEAP-H0", "Less|min-heap", core.FuncName(less), p.Pos(less.Pos()), lessOK && distField != "",
		"Less orders the queue by ascending item distance (min-heap)", fmt.Sprintf("distance field=%q min-order=%v", distField, lessOK))
	if distField == "" {
		return
	}

	// index field: the item field whose load is passed to heap.Fix / heap.Remove
	// the search itself plus the in-package helpers it calls (one level): a relaxation step may be extracted
	// the search itself plus its private helpers (set-up, relaxation step, improvement test, result collection …)
	scope := []*ssa.Function{dj}
	for _, g := range p.Region(dj) {
		if g != dj && g.Parent() == nil {
			scope = append(scope, g)
			c.R.Func(core.FuncName(g))
		}
	}
	// one binding for the whole region: parameters of helpers with a single call site read as the caller's values
	regionEnv := map[*ssa.Parameter]ssa.Value{}
	for _, g := range scope {
		if g == dj {
			continue
		}
		if sites := p.Callers(g); len(sites) == 1 {
			for i, prm := range g.Params {
				if i < len(sites[0].Common().Args) {
					regionEnv[prm] = sites[0].Common().Args[i]
				}
			}
		}
	}
	savedEnv := core.PathEnv
	core.PathEnv = regionEnv
	defer func() { core.PathEnv = savedEnv }()
	up := func(v ssa.Value) ssa.Value {
		for i := 0; i < 6; i++ {
			prm, ok := v.(*ssa.Parameter)
			if !ok {
				break
			}
			a, ok := regionEnv[prm]
			if !ok {
				break
			}
			v = a
		}
		return v
	}
	anchorIn := func(in ssa.Instruction) ssa.Instruction {
		as, _ := p.Anchors(in, dj)
		if len(as) == 1 {
			return as[0]
		}
		return nil
	}
	indexField := ""
	for _, fn := range scope {
		for _, call := range core.Calls(fn, heapFix, heapRem) {
			if fr, ok := core.AsFieldLoad(call.Common().Args[1]); ok {
				indexField = fr.Field
			}
		}
	}

	// H1: Swap re-establishes pq[k].index == k for both positions (needed iff an index is consumed)
	if indexField != "" {
		for _, k := range []int{1, 2} {
			ok := false
			var lastElemStore ssa.Instruction
			core.Instrs(swap, func(in ssa.Instruction) {
				if st, isSt := in.(*ssa.Store); isSt {
					if _, isIdx := st.Addr.(*ssa.IndexAddr); isIdx {
						lastElemStore = in
					}
				}
			})
			core.Instrs(swap, func(in ssa.Instruction) {
				st, isSt := in.(*ssa.Store)
				if !isSt {
					return
				}
				fr, isF := core.AsFieldAddr(st.Addr)
				if !isF || fr.Field != indexField {
					return
				}
				if indexParam(fr.Base) == k && st.Val == swap.Params[k] {
					// the element must be re-read after the swap stores
					if ld, isLd := fr.Base.(*ssa.UnOp); isLd && lastElemStore != nil &&
						ld.Block() == lastElemStore.Block() && core.InstrIndex(ld) > core.InstrIndex(lastElemStore) {
						ok = true
					}
				}
			})
			c.R.Add("HEAP-H1", fmt.Sprintf("Swap|index-of-position-%d", k), core.FuncName(swap), p.Pos(swap.Pos()), ok,
				fmt.Sprintf("after swapping, the item now at position %d records that position in its %s field", k, indexField),
				ternary(ok, "index re-established", "index store missing, wrong value, or taken before the swap"))
		}
	} else {
		c.R.Note("HEAP", "no heap.Fix/Remove consumes an item index: H1 not required")
		c.R.Add("HEAP-H1", "Swap|index-unused", core.FuncName(swap), p.Pos(swap.Pos()), true, "index bookkeeping only required while heap.Fix/Remove consume it", "not consumed")
		c.R.Add("HEAP-H1", "Swap|index-unused-2", core.FuncName(swap), p.Pos(swap.Pos()), true, "index bookkeeping only required while heap.Fix/Remove consume it", "not consumed")
	}

	// locate the pop and the popped item u
	pops := p.RegionCalls(dj, heapPop)
	inits := p.RegionCalls(dj, heapInit)
	if len(pops) != 1 || len(inits) < 1 {
		c.R.Undecided("HEAP-H2", "loop", name, "-", fmt.Sprintf("expected one heap.Pop and at least one heap.Init in the search, found %d/%d (different algorithm: undecidable by this rule)", len(pops), len(inits)))
		return
	}
	pop := pops[0].(*ssa.Call)
	var u ssa.Value
	for _, ref := range *pop.Referrers() {
		if ta, ok := ref.(*ssa.TypeAssert); ok {
			u = ta
		}
	}
	if u == nil {
		c.R.Undecided("HEAP-H2", "pop", name, p.InstrPos(pop), "popped item is not type-asserted to the item type")
		return
	}
	uPath := core.Path(u)

	// visited set: a map updated with key u.<f> in the pop block
	var visited ssa.Value
	vField := ""
	core.Instrs(pop.Parent(), func(in ssa.Instruction) {
		if mu, ok := in.(*ssa.MapUpdate); ok && core.SetInsert(mu) && in.Block() == pop.Block() && core.InstrIndex(in) > core.InstrIndex(pop) {
			if fr, ok := core.AsFieldLoad(mu.Key); ok && core.Path(fr.Base) == uPath {
				visited, vField = mu.Map, fr.Field
			}
		}
	})
	visitedPath := ""
	if visited != nil {
		visitedPath = core.Path(visited)
	}
	popA := anchorIn(pop)
	initA := anchorIn(inits[0])
	if popA == nil || initA == nil {
		c.R.Undecided("HEAP-H2", "loop", name, "-", "the queue is popped or initialised in a helper that is reached from several places (undecidable by this rule)")
		return
	}

	// distance stores
	type dstore struct {
		st   *ssa.Store
		base ssa.Value
		fn   *ssa.Function
		site ssa.CallInstruction // call site in the search when the store lives in a helper
	}
	var relax []dstore
	var initStores []*ssa.Store
	for _, fn := range scope {
		fn := fn
		core.Instrs(fn, func(in ssa.Instruction) {
			st, ok := in.(*ssa.Store)
			if !ok {
				return
			}
			fr, ok := core.AsFieldAddr(st.Addr)
			if !ok || fr.Field != distField {
				return
			}
			a := anchorIn(st)
			if a == nil {
				c.R.Undecided("HEAP-H2", "distance-store|"+core.FuncName(fn), name, p.InstrPos(st), "a distance store in a helper that is reached from several places (undecidable by this rule)")
				return
			}
			isInit := false
			if a == initA && st.Parent() == inits[0].Parent() {
				isInit = core.InstrDominates(st, inits[0]) || !core.CanFollow(inits[0], st) // same set-up helper as heap.Init: cannot run after it
			} else if a != initA {
				isInit = core.InstrDominates(a, initA) || !core.CanFollow(initA, a)
			}
			if isInit {
				initStores = append(initStores, st) // set-up (possibly inside a set-up helper)
				return
			}
			if fn == dj {
				relax = append(relax, dstore{st, fr.Base, fn, nil})
				return
			}
			relax = append(relax, dstore{st, fr.Base, fn, a.(ssa.CallInstruction)})
		})
	}

	// H4: initialisation
	infOK, srcOK := false, false
	srchash := ""
	for _, st := range initStores {
		if k, ok := core.ConstInt(st.Val); ok {
			if k >= (1<<31)-1 {
				infOK = true
			}
			if k == 0 {
				// the item is looked up by hashcode(src)
				fr, _ := core.AsFieldAddr(st.Addr)
				if lk, ok := fr.Base.(*ssa.Lookup); ok {
					if call, ok := p.IsHashcodeCall(lk.Index); ok {
						if p.Bind(up(core.Strip(call.Common().Args[0]))) == ssa.Value(dj.Params[1]) {
							srcOK = st.Parent() == inits[0].Parent() && core.InstrDominates(st, inits[0])
							srchash = core.Path(lk.Index)
						}
					}
				}
			}
		}
	}
	_ = srchash
	c.R.Add("HEAP-H4", "init|infinity", name, p.Pos(dj.Pos()), infOK, "every item starts at a distance no smaller than MaxInt32", fmt.Sprintf("ok=%v", infOK))
	c.R.Add("HEAP-H4", "init|source-zero", name, p.Pos(dj.Pos()), srcOK, "the source item (looked up by hashcode(src)) is set to 0 before heap.Init", fmt.Sprintf("ok=%v", srcOK))
	c.R.Add("HEAP-H4", "init|heap-init-before-pop", name, p.InstrPos(inits[0]), initA != popA && core.InstrDominates(initA, popA) || (initA == popA && inits[0].Parent() == pop.Parent() && core.InstrDominates(inits[0], pop)), "heap.Init dominates the first heap.Pop", "")

	// H7: the distance arithmetic is signed. The graph package documents non-negative weights, but its one client puts a
	// negative weight (the matching-name discount) on edges; in an unsigned type 0 + (-1) wraps to "infinity" and the
	// discounted edge out of a distance-0 vertex is never relaxed.
	{
		unsignedAt := ""
		nd := 0
		for _, st := range append(append([]*ssa.Store{}, initStores...), func() []*ssa.Store {
			var out []*ssa.Store
			for _, r := range relax {
				out = append(out, r.st)
			}
			return out
		}()...) {
			if b, ok := st.Val.Type().Underlying().(*types.Basic); ok && b.Info()&types.IsInteger != 0 {
				nd++
				if b.Info()&types.IsUnsigned != 0 {
					unsignedAt = p.InstrPos(st) + " (" + b.Name() + ")"
				}
			}
		}
		c.R.Add("HEAP-H7", "distance-is-signed", name, p.Pos(dj.Pos()), nd > 0 && unsignedAt == "",
			"tentative distances are kept in a signed integer type (a negative edge weight — the matching-name discount — must lower a distance, not wrap it)",
			ternary(unsignedAt == "", fmt.Sprintf("%d distance stores, all signed", nd), "unsigned distance stored at "+unsignedAt))
	}

	if len(relax) == 0 {
		c.R.Undecided("HEAP-H2", "relax", name, "-", "no relaxation store to the distance field found after heap.Init")
		return
	}
	for i, r := range relax {
		key := fmt.Sprintf("relax#%d", i+1)
		pos := p.InstrPos(r.st)
		vPath := core.Path(r.base)
		// H2: repaired before the next pop — inside the function of the store, or, when the store sits in a helper that
		// reports the update through a constant boolean result, on the branch of the caller that sees that result
		repaired := c.heapRepaired(r.st, dj, popA, stopAtRepair(indexField, vPath), 0)
		prevOK := false
		for _, in := range r.st.Block().Instrs {
			if st, ok := in.(*ssa.Store); ok && st != r.st {
				if fr, ok := core.AsFieldAddr(st.Addr); ok && core.Path(fr.Base) == vPath {
					if src, ok := core.AsFieldLoad(up(st.Val)); ok && core.Path(src.Base) == uPath && src.Field == vField {
						prevOK = true
					}
				}
			}
		}
		c.R.Add("HEAP-H2", key+"|repair-before-pop", name, pos, repaired,
			"on every path from a distance update to the next heap.Pop the queue is repaired (heap.Fix on that item's index, or heap.Init)",
			ternary(repaired, "repaired on all paths", "a path reaches heap.Pop without repair"))
		c.R.Add("HEAP-H2", key+"|predecessor-paired", name, pos, prevOK,
			"the block that lowers an item's distance also records the popped vertex as its predecessor",
			ternary(prevOK, "predecessor store present", "no predecessor store in the same block"))

		// H3: value = u.distance + weight, guarded by sum < / <= old and by not-visited
		sumOK, wOK := false, false
		var weightKeyPath string
		if b, ok := up(r.st.Val).(*ssa.BinOp); ok && b.Op == token.ADD {
			for _, pair := range [][2]ssa.Value{{b.X, b.Y}, {b.Y, b.X}} {
				if fr, ok := core.AsFieldLoad(pair[0]); ok && fr.Field == distField && core.Path(fr.Base) == uPath {
					sumOK = true
					w := pair[1]
					if cv, ok := w.(*ssa.Convert); ok {
						w = cv.X
					}
					w = up(w)
					if n, ok := extractNext(w); ok {
						if rg, ok := n.Iter.(*ssa.Range); ok {
							gf, err := c.graphFieldRoles()
							if err == nil {
								src := c.classifyMap(gf, rg.X)
								if src.level == "inner" && src.field == "out" && src.key == uPath+"."+vField {
									wOK = true
									weightKeyPath = "rangekey(" + core.Path(rg.X) + ")@" + fmt.Sprintf("%p", n)
								}
							}
						}
					}
				}
			}
		}
		c.R.Add("HEAP-H3", key+"|sum", name, pos, sumOK && wOK,
			"the stored distance is exactly popped.distance + weight of the iterated out-edge of the popped vertex",
			fmt.Sprintf("sum-of-popped-distance=%v weight-from-out-adjacency-of-popped=%v", sumOK, wOK))
		// the relaxed item is the one looked up by the iterated neighbour key
		itemOK := false
		if lk, ok := up(r.base).(*ssa.Lookup); ok && core.Path(lk.Index) == weightKeyPath {
			itemOK = true
		}
		c.R.Add("HEAP-H3", key+"|item-of-neighbour", name, pos, itemOK, "the relaxed item is the queue item of the iterated neighbour", fmt.Sprintf("ok=%v", itemOK))
		lits := p.ILits(r.st.Block())
		cmpOK, visOK := false, false
		oldPath := vPath + "." + distField
		for _, l := range lits {
			l = core.PositiveOrder(l)
			if l.Kind == "cmp" && l.Pol {
				x, y := l.X, l.Y
				if (l.Op == token.LSS || l.Op == token.LEQ) && x == r.st.Val && core.Path(y) == oldPath {
					cmpOK = true
				}
				if (l.Op == token.GTR || l.Op == token.GEQ) && y == r.st.Val && core.Path(x) == oldPath {
					cmpOK = true
				}
			}
			if lk, in, ok := core.MemberLit(l); ok && !in && visited != nil {
				if (up(lk.X) == visited || core.Path(lk.X) == visitedPath) && core.Path(lk.Index) == weightKeyPath {
					visOK = true
				}
			}
		}
		c.R.Add("HEAP-H3", key+"|improves", name, pos, cmpOK, "the update is guarded by new distance < (or <=) the item's current distance", fmt.Sprintf("ok=%v", cmpOK), core.LitStrings(lits)...)
		// … and by nothing else: an extra condition on the relaxation (a weight test, an "overflow" test on the candidate)
		// silently skips edges the search must follow. Reviewed conditions: loop bounds, the visited test, the improvement
		// test, presence of the neighbour's queue item.
		extra := ""
		// conditions evaluated once per extracted vertex (before the loop over its out-edges) are not per-edge
		// restrictions: only what is tested inside the edge loop can skip an individual relaxation
		outer := map[string]bool{}
		{
			var ehdr *ssa.BasicBlock
			for d := r.st.Block().Idom(); d != nil; d = d.Idom() {
				if core.ReachableAvoiding(r.st.Block(), d, nil) {
					ehdr = d
					break
				}
			}
			if ehdr != nil {
				for _, g := range core.Guards(r.st.Block()) {
					if g.At.Block() != ehdr && g.At.Block().Dominates(ehdr) {
						outer[core.LitOf(g.Cond, g.Pol).String()] = true
					}
				}
			}
		}
		for _, l0 := range lits {
			l := core.PositiveOrder(l0)
			switch {
			case outer[l0.String()]:
			case core.IsLoopBound(l0):
			case l.Kind == "ok":
			case l.Kind == "cmp" && (l.X == r.st.Val || l.Y == r.st.Val) && (core.Path(l.X) == oldPath || core.Path(l.Y) == oldPath):
			case l.Kind == "cmp" && (core.IsNilConst(l.X) || core.IsNilConst(l.Y)):
				// the neighbour's item exists
			case isDrainCond(l):
				// the outer loop: while the queue is not empty
			default:
				if _, _, isMember := core.MemberLit(l0); isMember {
					continue
				}
				extra = l0.String()
			}
		}
		// a condition that is not a dominating literal (`if a && b { continue }` leaves the relaxation reachable over two
		// edges): once the neighbour passed the visited test, the improvement test is evaluated on every way to the next
		// iteration
		if extra == "" {
			var visG, cmpG *core.Guard
			gs := core.Guards(r.st.Block())
			for i := range gs {
				l := core.PositiveOrder(core.LitOf(gs[i].Cond, gs[i].Pol))
				if _, _, isMember := core.MemberLit(core.LitOf(gs[i].Cond, gs[i].Pol)); isMember {
					visG = &gs[i]
				}
				if l.Kind == "cmp" && (l.X == r.st.Val || l.Y == r.st.Val) {
					cmpG = &gs[i]
				}
			}
			if visG != nil && cmpG != nil {
				vb, cb := visG.At.Block(), cmpG.At.Block()
				// the side of the visited test that leads on to the relaxation
				var next *ssa.BasicBlock
				for _, sc := range vb.Succs {
					if sc == r.st.Block() || core.ReachableAvoiding(sc, r.st.Block(), map[*ssa.BasicBlock]bool{vb: true}) {
						next = sc
					}
				}
				// the innermost loop header around the visited test
				var hdr *ssa.BasicBlock
				for d := vb.Idom(); d != nil; d = d.Idom() {
					if core.ReachableAvoiding(vb, d, nil) {
						hdr = d
						break
					}
				}
				if next != nil && hdr != nil && next != cb && core.ReachableAvoiding(next, hdr, map[*ssa.BasicBlock]bool{cb: true}) {
					extra = "after the visited test the next iteration can be reached without evaluating the improvement test (an extra skip condition)"
				}
			}
		}
		c.R.Add("HEAP-H3", key+"|no-other-condition", name, pos, extra == "",
			"a relaxation is restricted only by the visited test and the improvement test", ternary(extra == "", "only reviewed conditions", "additional condition: "+extra))
		c.R.Add("HEAP-H3", key+"|not-visited", name, pos, visOK && visited != nil,
			"the update is guarded by 'neighbour not yet extracted' and every extracted vertex is recorded as visited right after the pop (also what keeps the predecessor map acyclic)",
			fmt.Sprintf("visited-set-found=%v guard=%v", visited != nil, visOK))
	}

	// H6: the predecessor of an item is written only together with a lowered distance (so only while the item
	// is unvisited and from a visited vertex): every store to the predecessor field after initialisation shares
	// its block with a relaxation store
	{
		prevField := ""
		for _, r := range relax {
			for _, in := range r.st.Block().Instrs {
				if st, ok := in.(*ssa.Store); ok && st != r.st {
					if fr, ok := core.AsFieldAddr(st.Addr); ok && core.NamedOf(fr.Base.Type()) == core.NamedOf(r.base.Type()) && fr.Field != distField && fr.Field != indexField {
						if _, isIface := st.Val.Type().Underlying().(*types.Interface); isIface {
							prevField = fr.Field
						}
					}
				}
			}
		}
		stray := ""
		nPrev := 0
		for _, fn := range scope {
			core.Instrs(fn, func(in ssa.Instruction) {
				st, ok := in.(*ssa.Store)
				if !ok {
					return
				}
				fr, ok := core.AsFieldAddr(st.Addr)
				if !ok || fr.Field != prevField || prevField == "" {
					return
				}
				if p.FreshIn(st.Addr) {
					return // initialisation of a freshly allocated item
				}
				nPrev++
				paired := false
				for _, r := range relax {
					if r.st.Block() == st.Block() {
						paired = true
					}
				}
				if !paired {
					stray = "store to " + fr.Field + " at " + p.InstrPos(st) + " without a lowered distance in the same step"
				}
			})
		}
		c.R.Add("HEAP-H6", "predecessor-only-with-improvement", name, p.Pos(dj.Pos()), prevField != "" && stray == "",
			"an item's predecessor is (re)written only in the step that lowers its distance — never for ties, never for already extracted vertices",
			ternary(stray == "", fmt.Sprintf("%d predecessor store(s), all paired", nPrev), stray))
		// H4b: the queue items of a search are allocated by that search (nothing survives from an earlier call)
		freshItems := true
		nItems := 0
		p.RegionInstrs(dj, func(in ssa.Instruction) {
			mu, ok := in.(*ssa.MapUpdate)
			if !ok || core.NamedOf(mu.Value.Type()) == "" {
				return
			}
			if _, isItem := core.StructOf(mu.Value.Type()); isItem != nil && core.NamedOf(mu.Value.Type()) == core.NamedOf(u.Type()) {
				nItems++
				if _, isAlloc := mu.Value.(*ssa.Alloc); !isAlloc {
					freshItems = false
				}
			}
		})
		c.R.Add("HEAP-H4", "init|items-allocated-per-search", name, p.Pos(dj.Pos()), freshItems && nItems > 0,
			"every queue item of a search is allocated by that search (distance and predecessor cannot survive from an earlier call)", fmt.Sprintf("items registered=%d fresh=%v", nItems, freshItems))
	}

	// H5: results are read from the items
	distRes, prevRes := false, false
	for _, ir := range p.IReturns(dj) {
		if len(ir.Results) != 2 {
			continue
		}
		fnr := ir.Ret.Parent()
		core.Instrs(fnr, func(in ssa.Instruction) {
			mu, ok := in.(*ssa.MapUpdate)
			if !ok {
				return
			}
			for ri := 0; ri < 2; ri++ {
				for _, rv := range core.ReturnOperand(ir.Ret, ri) {
					if mu.Map != rv {
						continue
					}
					kfr, kok := core.AsFieldLoad(mu.Key)
					if !kok || kfr.Field != vField {
						continue
					}
					if ri == 0 {
						v := mu.Value
						if cv, ok := v.(*ssa.Convert); ok {
							v = cv.X
						}
						if fr, ok := core.AsFieldLoad(v); ok && fr.Field == distField && core.Path(fr.Base) == core.Path(kfr.Base) {
							distRes = true
						}
					} else {
						if lk, ok := mu.Value.(*ssa.Lookup); ok {
							if fr, ok := core.AsFieldLoad(lk.Index); ok && core.Path(fr.Base) == core.Path(kfr.Base) && fr.Field != vField && fr.Field != distField && fr.Field != indexField {
								prevRes = true
							}
						}
					}
				}
			}
		})
	}
	c.R.Add("HEAP-H5", "result|distTo", name, p.Pos(dj.Pos()), distRes, "distTo[item.v] is the item's final distance", fmt.Sprintf("ok=%v", distRes))
	c.R.Add("HEAP-H5", "result|edgeTo", name, p.Pos(dj.Pos()), prevRes, "edgeTo[item.v] is the vertex of the item's recorded predecessor", fmt.Sprintf("ok=%v", prevRes))

	// PATH: EdgeToPath follows the predecessor map from the target until nil, then reverses
	ep := p.Method(p.Graph, "Graph", "EdgeToPath")
	if ep == nil {
		c.R.Undecided("HEAP-PATH", "EdgeToPath", "Graph.EdgeToPath", "-", "exported method not found")
		return
	}
	c.R.Func(core.FuncName(ep))
	var cur *ssa.Phi
	core.Instrs(ep, func(in ssa.Instruction) {
		if ph, ok := in.(*ssa.Phi); ok {
			for _, e := range ph.Edges {
				if e == ep.Params[1] {
					cur = ph
				}
			}
		}
	})
	stepOK, exitOK, appendOK := false, false, false
	if cur != nil {
		for _, e := range cur.Edges {
			if lk, ok := e.(*ssa.Lookup); ok && lk.X == ep.Params[2] {
				if call, ok := p.IsHashcodeCall(lk.Index); ok && core.Strip(call.Common().Args[0]) == cur {
					stepOK = true
				}
			}
		}
		for _, ref := range *cur.Referrers() {
			if b, ok := ref.(*ssa.BinOp); ok && (b.Op == token.NEQ || b.Op == token.EQL) && (core.IsNilConst(b.X) || core.IsNilConst(b.Y)) {
				exitOK = true
			}
			if st, ok := ref.(*ssa.Store); ok && st.Val == cur {
				// stored into the varargs array of an append
				appendOK = true
			}
		}
	}
	c.R.Add("HEAP-PATH", "walk|step", core.FuncName(ep), p.Pos(ep.Pos()), stepOK, "the walk moves from a vertex to edgeTo[hashcode(vertex)]", fmt.Sprintf("ok=%v", stepOK))
	c.R.Add("HEAP-PATH", "walk|stop-at-nil", core.FuncName(ep), p.Pos(ep.Pos()), exitOK, "the walk stops when there is no predecessor", fmt.Sprintf("ok=%v", exitOK))
	c.R.Add("HEAP-PATH", "walk|collect", core.FuncName(ep), p.Pos(ep.Pos()), appendOK, "every visited vertex is appended to the path", fmt.Sprintf("ok=%v", appendOK))
	// reversal: two element stores with converging phi indices guarded by left<right
	revOK := false
	revScope := []*ssa.Function{ep}
	for _, h := range p.StaticHelpers(ep) {
		// a reversal helper: takes the collected slice and nothing else
		if len(h.Params) == 1 && types.Identical(h.Params[0].Type(), ep.Signature.Results().At(0).Type()) && len(p.Callers(h)) > 0 {
			revScope = append(revScope, h)
		}
	}
	for _, rf := range revScope {
		core.Instrs(rf, func(in ssa.Instruction) {
			st, ok := in.(*ssa.Store)
			if !ok {
				return
			}
			ia, ok := st.Addr.(*ssa.IndexAddr)
			if !ok {
				return
			}
			if rf != ep && core.Root(ia.X) != ssa.Value(rf.Params[0]) {
				return
			}
			if _, isPhi := ia.Index.(*ssa.Phi); !isPhi {
				return
			}
			for _, l := range core.Lits(core.Guards(st.Block())) {
				if l.Kind == "cmp" && l.Pol && (l.Op == token.LSS || l.Op == token.GTR) {
					_, px := l.X.(*ssa.Phi)
					_, py := l.Y.(*ssa.Phi)
					if px && py {
						revOK = true
					}
					// half form: `for i := 0; i < n/2; i++ { swap(s[i], s[n-1-i]) }`: the other store of the pair is
					// addressed by a difference that contains the counter
					if q, isQ := l.Y.(*ssa.BinOp); isQ && px && l.Op == token.LSS && q.Op == token.QUO && l.X == ia.Index {
						if k, isK := core.ConstInt(q.Y); isK && k == 2 {
							for _, in2 := range st.Block().Instrs {
								if st2, ok := in2.(*ssa.Store); ok && st2 != st {
									if ia2, ok := st2.Addr.(*ssa.IndexAddr); ok && ia2.X == ia.X {
										if d, ok := ia2.Index.(*ssa.BinOp); ok && d.Op == token.SUB && d.Y == l.X {
											revOK = true
										}
									}
								}
							}
						}
					}
				}
			}
		})
	}
	// the library form: slices.Reverse on the collected list (an instantiation of the generic function)
	for _, rf := range revScope {
		for _, ci := range core.Calls(rf) {
			if cal := ci.Common().StaticCallee(); cal != nil && cal.Pkg != nil && cal.Pkg.Pkg.Path() == "slices" && strings.HasPrefix(cal.Name(), "Reverse") && len(ci.Common().Args) == 1 {
				if rf == ep || core.Root(ci.Common().Args[0]) == ssa.Value(rf.Params[0]) {
					revOK = true
				}
			} else if cal != nil && cal.Origin() != nil && cal.Origin().Pkg != nil && cal.Origin().Pkg.Pkg.Path() == "slices" && cal.Origin().Name() == "Reverse" {
				revOK = true
			}
		}
	}
	c.R.Add("HEAP-PATH", "reverse", core.FuncName(ep), p.Pos(ep.Pos()), revOK, "the collected walk is reversed in place (converging indices, or slices.Reverse)", fmt.Sprintf("ok=%v", revOK))
}

// indexParam: v is a load of &slice[paramK]; returns K (0 if not).
func indexParam(v ssa.Value) int {
	u, ok := v.(*ssa.UnOp)
	if !ok || u.Op != token.MUL {
		return 0
	}
	ia, ok := u.X.(*ssa.IndexAddr)
	if !ok {
		return 0
	}
	if prm, ok := ia.Index.(*ssa.Parameter); ok {
		for i, q := range prm.Parent().Params {
			if q == prm {
				return i
			}
		}
	}
	return 0
}

// reachesWithout reports whether, starting right after instruction from,
// some path reaches instruction target without first executing an instruction
// for which stop returns true.
func reachesWithout(from ssa.Instruction, target ssa.Instruction, stop func(ssa.Instruction) bool) bool {
	return reachesWithoutFrom(from.Block(), core.InstrIndex(from)+1, target, stop)
}

// heapRepaired: on every path from `from` to the next heap.Pop the queue is repaired (stop). When `from` lies in a
// private helper and a path leaves the helper unrepaired, the check continues in the caller: after the call, or —
// if the helper reports the update through a constant boolean result that the caller branches on — on that branch.
func (c *Ctx) heapRepaired(from ssa.Instruction, dj *ssa.Function, pop ssa.Instruction, stop func(ssa.Instruction) bool, d int) bool {
	p := c.P
	fn := from.Parent()
	if fn == dj {
		return !reachesWithout(from, pop, stop)
	}
	if d > 3 {
		return false
	}
	leaves := false
	for _, ret := range core.Returns(fn) {
		if reachesWithout(from, ret, stop) {
			leaves = true
		}
	}
	if !leaves {
		return true
	}
	sites := p.Callers(fn)
	if len(sites) != 1 || !p.PrivateHelper(fn) {
		return false
	}
	site := sites[0]
	// does executing `from` determine a constant boolean result?
	var k, haveK, constK = false, false, true
	for _, ret := range core.Returns(fn) {
		if !(core.InstrDominates(from, ret) || core.CanFollow(from, ret)) {
			continue
		}
		if len(ret.Results) != 1 {
			constK = false
			continue
		}
		b, ok := core.ConstBool(ret.Results[0])
		if !ok || (haveK && b != k) {
			constK = false
			continue
		}
		k, haveK = b, true
	}
	if sv, isV := site.(ssa.Value); isV && haveK && constK {
		refs := sv.Referrers()
		if refs != nil && len(*refs) == 1 {
			if iff, ok := (*refs)[0].(*ssa.If); ok && iff.Block() == site.Block() {
				succ := iff.Block().Succs[0]
				if !k {
					succ = iff.Block().Succs[1]
				}
				if len(succ.Instrs) > 0 {
					first := succ.Instrs[0]
					if stop(first) {
						return true
					}
					return c.heapRepairedFromStart(first, dj, pop, stop, d+1)
				}
			}
		}
	}
	return c.heapRepaired(site, dj, pop, stop, d+1)
}

// heapRepairedFromStart is heapRepaired starting at (and including the successors of) instruction first.
func (c *Ctx) heapRepairedFromStart(first ssa.Instruction, dj *ssa.Function, pop ssa.Instruction, stop func(ssa.Instruction) bool, d int) bool {
	return c.heapRepaired(first, dj, pop, stop, d)
}

func reachesWithoutFrom(b0 *ssa.BasicBlock, i0 int, target ssa.Instruction, stop func(ssa.Instruction) bool) bool {
	type pos struct {
		b *ssa.BasicBlock
		i int
	}
	seen := map[*ssa.BasicBlock]bool{}
	work := []pos{{b0, i0}}
	for len(work) > 0 {
		w := work[len(work)-1]
		work = work[:len(work)-1]
		stopped := false
		for i := w.i; i < len(w.b.Instrs); i++ {
			in := w.b.Instrs[i]
			if in == target {
				return true
			}
			if stop(in) {
				stopped = true
				break
			}
		}
		if stopped {
			continue
		}
		for _, s := range w.b.Succs {
			if !seen[s] {
				seen[s] = true
				work = append(work, pos{s, 0})
			}
		}
	}
	return false
}

// stopAtRepair: the instruction repairs the heap for the item with path vPath (heap.Fix/Remove on its index) or re-heapifies.
func stopAtRepair(indexField, vPath string) func(ssa.Instruction) bool {
	return func(in ssa.Instruction) bool {
		call, ok := in.(ssa.CallInstruction)
		if !ok {
			return false
		}
		n := core.CalleeName(call.Common())
		if n == heapInit {
			return true
		}
		if n == heapFix || n == heapRem {
			if fr, ok := core.AsFieldLoad(call.Common().Args[1]); ok && fr.Field == indexField && core.Path(fr.Base) == vPath {
				return true
			}
		}
		return false
	}
}

// isDrainCond: `queue.Len() > 0` / `len(queue) > 0` / `!= 0` — the condition of the loop that drains a work list.
func isDrainCond(l core.Lit) bool {
	if l.Kind != "cmp" {
		return false
	}
	k, ok := core.ConstInt(l.Y)
	if !ok || k != 0 {
		return false
	}
	if !((l.Op == token.GTR && l.Pol) || (l.Op == token.EQL && !l.Pol) || (l.Op == token.LEQ && !l.Pol)) {
		return false
	}
	cl, ok := l.X.(*ssa.Call)
	if !ok {
		return false
	}
	n := core.CalleeName(cl.Common())
	return n == "builtin.len" || strings.HasSuffix(n, ".Len")
}
