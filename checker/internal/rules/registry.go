// Package rules holds the rule engines of DESIGN.md §4. Each engine inspects
// the loaded program and records obligations; none executes target code.
package rules

import (
	"fmt"
	"golang.org/x/tools/go/ssa"
	"sort"
	"strings"

	"argverif/internal/core"
)

// Ctx is what an engine gets.
type Ctx struct {
	P    *core.Prog
	R    *core.Report
	Tier string // quick | thorough

	edges []EdgeRule
	memo  map[string]interface{}

	// vertexEnv binds parameters of the helper / local literal whose edge site is being expanded to the arguments of
	// the call site under consideration
	vertexEnv map[*ssa.Parameter]ssa.Value

	// innerField: for a nested field name of Func ("memo.result") the struct type and field it names
	innerField map[string][2]string
	optRoles   map[*ssa.Function]map[int]string // option constructor -> parameter index -> "name" | "subtype" (OPTDELEG)

	roleOfFn map[*ssa.Function]string
}

// Engine is one rule family.
type Engine struct {
	Name  string
	Doc   string
	Run   func(*Ctx)
	Floor map[string]int // rule id -> minimum number of obligations that must be produced
}

var engines = map[string]*Engine{}

func register(e *Engine) { engines[e.Name] = e }

// Engines returns all registered engines sorted by name.
func Engines() []*Engine {
	var out []*Engine
	for _, e := range engines {
		out = append(out, e)
	}
	sort.Slice(out, func(i, j int) bool { return out[i].Name < out[j].Name })
	return out
}

// Get returns the engine with the given name.
func Get(name string) *Engine { return engines[name] }

// role fetches a role and records an undecided obligation if it cannot be resolved.
func (c *Ctx) role(rule, role string) *coreFunc {
	f, err := c.P.Role(role)
	if err != nil {
		c.R.Undecided(rule, "role|"+role, role, "-", err.Error())
		return nil
	}
	c.R.Func(core.FuncName(f))
	return f
}

// oneSite picks the single call site the rule `rule` is stated about. Several candidate sites make the construct
// undecidable for that rule (a second site — a fast path, a fallback — would escape every obligation that is checked
// on "the" site), which is reported under the rule itself.
func (c *Ctx) oneSite(rule, construct, what string, sites []ssa.CallInstruction) ssa.CallInstruction {
	if len(sites) == 0 {
		return nil
	}
	if len(sites) > 1 {
		var pos []string
		for _, s := range sites {
			pos = append(pos, c.P.InstrPos(s))
		}
		c.R.Undecided(rule, construct+"|one-site|"+what, construct, pos[len(pos)-1],
			fmt.Sprintf("%d sites of %s (%s): the obligations of this rule are stated about a single site", len(sites), what, strings.Join(pos, ", ")))
	}
	return sites[len(sites)-1]
}
