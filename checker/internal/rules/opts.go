package rules

import (
	"fmt"
	"go/token"
	"go/types"
	"reflect"
	"sort"
	"strings"

	"argverif/internal/core"

	"golang.org/x/tools/go/ssa"
)

// LOWER / OPTORDER / NILOPT / REFLVALID / TAGS / REJECT / STRUCTWALK  (C14, C16, C06). DESIGN §4.

func init() {
	register(&Engine{
		Name: "OPTS",
		Doc:  "name lower-casing dataflow; defaults-before-call option order; nil option / nil value guards; tag writer/reader agreement; signature rejections; struct walk",
		Run:  runOpts,
		Floor: map[string]int{
			"LOWER": 4, "OPTORDER": 4, "NILOPT": 2, "NILOPT-F": 3, "REFLVALID": 5, "TAGS": 5, "OPTDELEG": 2, "REJECT": 8, "STRUCTWALK": 6,
		},
	})
}

// lowered: v is a strings.ToLower result, the empty constant, or a captured /
// local variable all of whose stores are lowered.
func (c *Ctx) lowered(v ssa.Value, d int) bool {
	if d > 6 {
		return false
	}
	switch x := v.(type) {
	case *ssa.Parameter:
		// a name handed to a private helper (`setNamed(name, …)`): lower-cased at every call site
		h := x.Parent()
		if !c.P.PrivateHelper(h) {
			return false
		}
		idx := -1
		for i, q := range h.Params {
			if q == x {
				idx = i
			}
		}
		sites := c.P.Callers(h)
		if idx < 0 || len(sites) == 0 {
			return false
		}
		for _, s := range sites {
			if idx >= len(s.Common().Args) || !c.lowered(s.Common().Args[idx], d+1) {
				return false
			}
		}
		return true
	case *ssa.Const:
		s, ok := core.ConstString(x)
		return ok && s == strings.ToLower(s)
	case *ssa.Call:
		n := core.CalleeName(x.Common())
		if n == "strings.ToLower" {
			return true
		}
		// a one-level helper whose every return is lowered
		if cal := x.Common().StaticCallee(); cal != nil && c.P.InTarget(cal) && cal.Signature.Results().Len() == 1 {
			for _, r := range core.Returns(cal) {
				for _, rv := range core.ReturnOperand(r, 0) {
					if !c.lowered(rv, d+2) {
						return false
					}
				}
			}
			return true
		}
	case *ssa.Phi:
		for _, e := range x.Edges {
			if !c.lowered(e, d+1) {
				return false
			}
		}
		return true
	case *ssa.UnOp:
		if x.Op != token.MUL {
			return false
		}
		switch loc := x.X.(type) {
		case *ssa.FreeVar:
			b := c.P.Binding(loc)
			al, ok := b.(*ssa.Alloc)
			if !ok {
				return false
			}
			return c.allStoresLowered(al, d)
		case *ssa.Alloc:
			if st := core.NearestDominatingStore(loc, x); st != nil {
				return c.lowered(st.Val, d+1)
			}
			return c.allStoresLowered(loc, d)
		}
	case *ssa.Extract:
		// one result of a helper with several results (`name, options := parseValueField(sf)`): every return lowers it
		if cl, ok := x.Tuple.(*ssa.Call); ok {
			if cal := cl.Common().StaticCallee(); cal != nil && c.P.InTarget(cal) && len(cal.Blocks) > 0 {
				n := 0
				for _, r := range core.Returns(cal) {
					for _, rv := range core.ReturnOperand(r, x.Index) {
						n++
						if !c.lowered(rv, d+2) {
							return false
						}
					}
				}
				return n > 0
			}
		}
		// range key over a map whose keys are lowered by induction (the builder's own named maps, namedValues)
		if n, ok := x.Tuple.(*ssa.Next); ok && x.Index == 1 {
			if r, ok := n.Iter.(*ssa.Range); ok {
				if fr, ok := core.AsFieldLoad(r.X); ok && (fr.Owner == "argBuilder" || fr.Owner == "ValueSet") {
					return true
				}
			}
		}
	}
	return false
}

func (c *Ctx) allStoresLowered(al *ssa.Alloc, d int) bool {
	n := 0
	ok := true
	var visit func(refs []ssa.Instruction)
	visit = func(refs []ssa.Instruction) {
		for _, ref := range refs {
			if st, isSt := ref.(*ssa.Store); isSt && st.Addr == ssa.Value(al) {
				n++
				if !c.lowered(st.Val, d+1) {
					ok = false
				}
			}
		}
	}
	visit(*al.Referrers())
	// stores through the captured variable inside closures
	for _, f := range c.P.Funcs {
		for _, fv := range f.FreeVars {
			if c.P.Binding(fv) == ssa.Value(al) {
				for _, ref := range *fv.Referrers() {
					if st, isSt := ref.(*ssa.Store); isSt && st.Addr == ssa.Value(fv) {
						n++
						if !c.lowered(st.Val, d+1) {
							ok = false
						}
					}
				}
			}
		}
	}
	return ok && n > 0
}

func runOpts(c *Ctx) {
	p := c.P
	// =============== LOWER
	nLower := 0
	for _, f := range p.ArgFuncs() {
		core.Instrs(f, func(in ssa.Instruction) {
			mu, ok := in.(*ssa.MapUpdate)
			if !ok {
				return
			}
			fr, ok := core.AsFieldLoad(mu.Map)
			if !ok || fr.Owner != "argBuilder" {
				// the table handed to a private step (`setSubtype(a.namedSub, name, st, rv)`): judged at each call site
				prm, isP := core.Strip(mu.Map).(*ssa.Parameter)
				if !isP || !p.PrivateHelper(prm.Parent()) || core.TypeStr(mu.Key.Type()) != "string" {
					return
				}
				mi := paramIndex(prm)
				for _, site := range p.Callers(prm.Parent()) {
					as := site.Common().Args
					if mi < 0 || mi >= len(as) {
						continue
					}
					sfr, ok := core.AsFieldLoad(as[mi])
					if !ok || sfr.Owner != "argBuilder" {
						continue
					}
					key := mu.Key
					if kp, isKP := core.Strip(key).(*ssa.Parameter); isKP && kp.Parent() == prm.Parent() {
						if ki := paramIndex(kp); ki >= 0 && ki < len(as) {
							key = as[ki]
						}
					}
					nLower++
					okk := c.lowered(key, 0)
					c.R.Func(core.FuncName(site.Parent()))
					c.R.Add("LOWER", fmt.Sprintf("%s|argBuilder.%s key", core.FuncName(site.Parent()), sfr.Field), core.FuncName(site.Parent()), p.InstrPos(site), okk,
						"keys of the option builder's name-keyed maps are lower-cased", ternary(okk, "key is a strings.ToLower result", "key "+core.Path(key)+" is not provably lower-cased"))
				}
				return
			}
			if core.TypeStr(mu.Key.Type()) != "string" {
				return
			}
			nLower++
			okk := c.lowered(mu.Key, 0)
			c.R.Func(core.FuncName(f))
			c.R.Add("LOWER", fmt.Sprintf("%s|argBuilder.%s key", core.FuncName(f), fr.Field), core.FuncName(f), p.InstrPos(mu), okk,
				"keys of the option builder's name-keyed maps are lower-cased", ternary(okk, "key is a strings.ToLower result", "key "+core.Path(mu.Key)+" is not provably lower-cased"))
		})
	}
	walker := c.role("LOWER", "structWalker")
	if walker != nil {
		p.RegionInstrs(walker, func(in ssa.Instruction) {
			st, ok := in.(*ssa.Store)
			if !ok {
				return
			}
			if fr, ok := core.AsFieldAddr(st.Addr); ok && fr.Owner == "Value" && fr.Field == "Name" {
				okk := c.lowered(st.Val, 0)
				c.R.Add("LOWER", "structWalker|Value.Name", "structWalker", p.InstrPos(st), okk,
					"the name recorded for a declared parameter/result is lower-cased (or empty for type-only)", ternary(okk, "lower-cased", "stored name "+core.Path(st.Val)+" is not provably lower-cased"))
			}
		})
		// the named lookup map is keyed by that recorded name
		p.RegionInstrs(walker, func(in ssa.Instruction) {
			if mu, ok := in.(*ssa.MapUpdate); ok {
				if fr, ok := core.AsFieldLoad(mu.Map); ok && fr.Owner == "ValueSet" && core.TypeStr(mu.Key.Type()) == "string" {
					kf, isF := core.AsFieldLoad(mu.Key)
					okk := isF && kf.Owner == "Value" && kf.Field == "Name" && core.Strip(kf.Base) == core.Strip(mu.Value)
					c.R.Add("LOWER", "structWalker|ValueSet."+fr.Field+" key", "structWalker", p.InstrPos(mu), okk,
						"the by-name index of a value set is keyed by the value's own recorded (lower-cased) name", fmt.Sprintf("ok=%v", okk))
				}
			}
		})
	}

	// =============== OPTORDER
	merger := c.role("OPTORDER", "defaultsMerger")
	applier := c.role("OPTORDER", "optionApplier")
	if merger != nil && applier != nil {
		var acs []ssa.CallInstruction
		for _, ci := range core.Calls(merger) {
			if ci.Common().StaticCallee() == applier {
				acs = append(acs, ci)
			}
		}
		var ac ssa.CallInstruction
		if len(acs) > 0 {
			ac = acs[len(acs)-1]
		}
		if ac == nil {
			c.R.Undecided("OPTORDER", "merger|call", "defaultsMerger", p.Pos(merger.Pos()), "defaults merger does not call the option applier")
		} else {
			// one option list per call of the applier (an early `return apply(opts...)` when there are no defaults and the
			// merged list otherwise are two sites): every site's list is classified under the guards of that site
			var alts []optAlt
			for _, site := range acs {
				arg := site.Common().Args[len(site.Common().Args)-1]
				noDef, em := c.optSiteGuards(merger, core.Guards(site.Block()))
				for _, a := range c.optSeq(merger, arg, 0) {
					a.guardNoDefaults = a.guardNoDefaults || noDef
					if len(em) > 0 {
						m := map[string]bool{}
						for k := range a.empty {
							m[k] = true
						}
						for k := range em {
							m[k] = true
						}
						a.empty = m
					}
					alts = append(alts, a)
				}
			}
			okAll := len(alts) > 0
			var descr []string
			for _, a := range alts {
				s := strings.Join(a.seq, "+")
				descr = append(descr, s+ternary(a.guardNoDefaults, " (when there are no defaults)", ""))
				switch s {
				case "defaults+call":
				case "call":
					if !a.guardNoDefaults && !a.empty["defaults"] {
						okAll = false
					}
				case "defaults":
					// defaults alone only when there are no call-time options
					if !a.empty["call"] {
						okAll = false
					}
				default:
					okAll = false
				}
			}
			sort.Strings(descr)
			onto := ""
			for _, a := range alts {
				if a.onto != "" {
					onto = a.onto
				}
			}
			c.R.Add("OPTORDER", "merger|private-list", "defaultsMerger", p.InstrPos(ac), onto == "",
				"the merged option list is built in memory of its own: nothing is appended onto the defaults' (or the caller's) slice, whose spare capacity other Funcs and later calls may share",
				ternary(onto == "", "fresh list", "call-time options are appended onto the "+onto+" slice itself"))
			c.R.Add("OPTORDER", "merger|defaults-before-call", "defaultsMerger", p.InstrPos(ac), okAll,
				"the option list handed to the applier is construction-time defaults followed by call-time options (call options alone only when there are no defaults)",
				"source sequence(s): "+strings.Join(descr, " | "))
		}
		// the applier applies in increasing index order, every element, no early exit except the nil-option error
		var dyn *ssa.Call
		for _, ci := range core.Calls(applier) {
			cc := ci.Common()
			if !cc.IsInvoke() && cc.StaticCallee() == nil {
				if _, isB := cc.Value.(*ssa.Builtin); !isB && core.TypeStr(cc.Value.Type()) == "Arg" {
					dyn, _ = ci.(*ssa.Call)
				}
			}
		}
		if dyn != nil {
			inOrder := false
			if ld, ok := dyn.Common().Value.(*ssa.UnOp); ok {
				if ia, ok := ld.X.(*ssa.IndexAddr); ok {
					if b, ok := ia.Index.(*ssa.BinOp); ok && b.Op == token.ADD {
						if k, ok := core.ConstInt(b.Y); ok && k == 1 {
							if ph, ok := b.X.(*ssa.Phi); ok {
								for _, e := range ph.Edges {
									if k2, ok := core.ConstInt(e); ok && k2 == -1 {
										inOrder = true
									}
								}
							}
						}
					}
					// over the parameter slice
					if _, isParam := ia.X.(*ssa.Parameter); !isParam {
						inOrder = false
					}
				}
			}
			c.R.Add("OPTORDER", "applier|increasing-order", "optionApplier", p.InstrPos(dyn), inOrder,
				"the applier applies the options of its parameter slice in increasing index order (later options overwrite earlier ones)", fmt.Sprintf("ok=%v", inOrder))
			// applied to the one builder that is returned
			sameBuilder := false
			for _, r := range core.Returns(applier) {
				if len(r.Results) > 0 && len(dyn.Common().Args) > 0 && core.Strip(r.Results[0]) == core.Strip(dyn.Common().Args[0]) {
					sameBuilder = true
				}
			}
			c.R.Add("OPTORDER", "applier|one-builder", "optionApplier", p.InstrPos(dyn), sameBuilder, "every option is applied to the builder that is returned", fmt.Sprintf("ok=%v", sameBuilder))

			// =============== NILOPT
			lits := core.Lits(core.Guards(dyn.Block()))
			nilGuard := nilCheckLit(lits, dyn.Common().Value, false)
			c.R.Add("NILOPT", "applier|call-behind-nil-check", "optionApplier", p.InstrPos(dyn), nilGuard, "an option is applied only after it was compared with nil", fmt.Sprintf("ok=%v", nilGuard))
			// the nil branch returns a non-nil error
			nilRet := false
			for _, r := range core.Returns(applier) {
				if nilCheckLit(core.Lits(core.Guards(r.Block())), dyn.Common().Value, true) {
					ev := r.Results[len(r.Results)-1]
					if _, isCall := core.Strip(ev).(*ssa.Call); isCall {
						nilRet = true
					}
				}
			}
			c.R.Add("NILOPT", "applier|nil-option-is-error", "optionApplier", p.Pos(applier.Pos()), nilRet, "a nil option makes the applier return a non-nil error", fmt.Sprintf("ok=%v", nilRet))
		} else {
			c.R.Undecided("OPTORDER", "applier|call", "optionApplier", p.Pos(applier.Pos()), "no dynamic option call found")
		}
	}

	// =============== OPTORDER (subtyped tables): an entry of the builder's by-subtype tables is written only under a
	// non-empty subtype. The empty subtype belongs to the plain tables: a value filed under "" in a subtyped table names
	// the same vertex as the plain entry and silently overrides it whatever the option order.
	{
		n := 0
		for _, f := range p.ArgFuncs() {
			core.Instrs(f, func(in ssa.Instruction) {
				mu, ok := in.(*ssa.MapUpdate)
				if !ok {
					return
				}
				// inner map of argBuilder.<x>Sub: a map[string]reflect.Value that is (or is stored as) an element of a field
				// of the builder
				if core.TypeStr(mu.Map.Type()) != "map[string]reflect.Value" {
					return
				}
				field := ""
				for _, sv := range core.Sources(mu.Map) {
					switch x := core.Strip(sv).(type) {
					case *ssa.Lookup:
						if fr, ok := core.AsFieldLoad(x.X); ok && fr.Owner == "argBuilder" {
							field = fr.Field
						}
					case *ssa.Extract:
						if lk, ok := x.Tuple.(*ssa.Lookup); ok {
							if fr, ok := core.AsFieldLoad(lk.X); ok && fr.Owner == "argBuilder" {
								field = fr.Field
							}
						}
					case *ssa.MakeMap:
						for _, ref := range *x.Referrers() {
							if m2, ok := ref.(*ssa.MapUpdate); ok && m2.Value == ssa.Value(x) {
								if fr, ok := core.AsFieldLoad(m2.Map); ok && fr.Owner == "argBuilder" {
									field = fr.Field
								}
							}
						}
					}
				}
				if field == "" {
					return
				}
				fr := core.FieldRef{Owner: "argBuilder", Field: field}
				n++
				// the subtype key, followed through the parameters of private steps and captured variables up to the option
				// constructor's own parameter; the guards of every call / closure-creation site on the way count
				key := mu.Key
				fn := f
				var lits []core.Lit
				lits = append(lits, core.Lits(core.Guards(in.Block()))...)
				keys := []ssa.Value{core.Strip(key)} // every spelling of the key on the way up: a guard may test any of them
				for i := 0; i < 5; i++ {
					keys = append(keys, core.Strip(key))
					if prm, ok := core.Strip(key).(*ssa.Parameter); ok && prm.Parent() == fn && p.PrivateHelper(fn) {
						sites := p.Callers(fn)
						if len(sites) != 1 {
							break
						}
						for j, q := range fn.Params {
							if q == prm && j < len(sites[0].Common().Args) {
								key = sites[0].Common().Args[j]
							}
						}
						lits = append(lits, core.Lits(core.Guards(sites[0].Block()))...)
						fn = sites[0].Parent()
						continue
					}
					if d := p.DerefFree(key); d != nil {
						key = d
					}
					if fv, ok := key.(*ssa.FreeVar); ok {
						if b := p.Binding(fv); b != nil {
							key = b
						}
					}
					if mc := p.ClosureSite(fn); mc != nil && fn.Parent() != nil {
						lits = append(lits, core.Lits(core.Guards(mc.Block()))...)
						fn = fn.Parent()
						continue
					}
					break
				}
				nonEmpty := false
				for _, l := range lits {
					if l.Kind == "cmp" && l.Op == token.EQL && !l.Pol {
						if s0, ok := core.ConstString(l.Y); ok && s0 == "" && (l.X == key || core.Path(l.X) == core.Path(key)) {
							nonEmpty = true
						}
						if s0, ok := core.ConstString(l.Y); ok && s0 == "" {
							normK := func(v ssa.Value) ssa.Value {
								v = core.Strip(v)
								if u, isU := v.(*ssa.UnOp); isU && u.Op == token.MUL {
									if fv, isF := u.X.(*ssa.FreeVar); isF {
										return fv
									}
								}
								return v
							}
							for _, kv := range append(keys, core.Strip(key)) {
								if normK(l.X) == normK(kv) {
									nonEmpty = true
								}
							}
						}
					}
				}
				c.R.Add("OPTORDER", fmt.Sprintf("%s|subtyped-table-entry-has-subtype#%d", core.FuncName(core.Outer(f)), n), core.FuncName(core.Outer(f)), p.InstrPos(in), nonEmpty,
					"a by-subtype table of the builder is written only under a non-empty subtype (the empty subtype is the plain table's: both would name the same vertex)",
					ternary(nonEmpty, "guarded by subtype != \"\"", "entry "+fr.Field+"[…]["+core.Path(mu.Key)+"] can be written with an empty subtype"))
			})
		}
	}

	// =============== OPTDELEG: delegation between option constructors keeps the labels
	c.runOptDeleg()
	c.runSubtableInstall()
	c.runBuilderOrigin()

	// =============== NILOPT-F: no nil *Func enters a converter list (the graph builders dereference every entry)
	c.runNilFunc()

	// =============== REFLVALID
	nRV := 0
	for _, f := range p.ArgFuncs() {
		core.Instrs(f, func(in ssa.Instruction) {
			cl, ok := in.(*ssa.Call)
			if !ok {
				return
			}
			var rv ssa.Value // the reflect.Value under scrutiny
			var x ssa.Value  // the interface value it was made from
			var helperOK ssa.Value
			if core.CalleeName(cl.Common()) == "reflect.ValueOf" {
				rv, x = cl, cl.Common().Args[0]
			} else if h := cl.Common().StaticCallee(); h != nil && c.isValidatingValueOf(h) && len(cl.Common().Args) == 1 {
				// rv, ok := helper(v) where helper returns (reflect.ValueOf(v), thatValue.IsValid())
				x = cl.Common().Args[0]
				for _, ref := range *cl.Referrers() {
					if e, isE := ref.(*ssa.Extract); isE {
						if e.Index == 0 {
							rv = e
						} else {
							helperOK = e
						}
					}
				}
			}
			if rv == nil {
				return
			}
			// only values that originate from the API boundary (parameters, captured parameters, their elements)
			if !c.fromAPI(x) {
				return
			}
			bad := ""
			uses := 0
			for _, u := range *rv.Referrers() {
				var blk *ssa.BasicBlock
				what := ""
				switch w := u.(type) {
				case *ssa.Call:
					nm := core.CalleeName(w.Common())
					if nm == core.RVIsValid {
						continue
					}
					if strings.HasPrefix(nm, "(reflect.Value).") && len(w.Common().Args) > 0 && w.Common().Args[0] == rv {
						blk, what = w.Block(), core.ShortCallee(nm)
					}
					// handed to a private helper that records it (uses its Type, stores it): the hand-over is the use
					if hcal := w.Common().StaticCallee(); hcal != nil && p.PrivateHelper(hcal) && !c.isValidatingValueOf(hcal) {
						for _, a := range w.Common().Args {
							if a == rv {
								blk, what = w.Block(), "handed to "+core.FuncName(hcal)
							}
						}
					}
				case *ssa.MapUpdate:
					if w.Value == rv {
						blk, what = w.Block(), "stored as an option value"
					}
				case *ssa.Store:
					if w.Val == rv {
						if _, isLocal := w.Addr.(*ssa.Alloc); !isLocal {
							blk, what = w.Block(), "stored"
						}
					}
				}
				if blk == nil {
					continue
				}
				uses++
				lits := core.Lits(core.Guards(blk))
				guarded := false
				for _, l := range lits {
					if l.Kind == "call" && l.Callee == core.RVIsValid && l.Pol && len(l.Args) == 1 && l.Args[0] == rv {
						guarded = true
					}
				}
				if nilCheckLit(lits, x, false) {
					guarded = true
				}
				for _, l := range lits {
					if l.Kind == "bool" && l.Pol && helperOK != nil && l.Of == helperOK {
						guarded = true
					}
				}
				if !guarded {
					bad = what + " at " + p.InstrPos(u) + " without a dominating IsValid()/non-nil check"
				}
			}
			// an invalid value skips only itself: inside a loop over several values the invalid branch must not leave the function
			var validity []ssa.Value
			for _, u := range *rv.Referrers() {
				if vc, isC := u.(*ssa.Call); isC && core.CalleeName(vc.Common()) == core.RVIsValid {
					validity = append(validity, vc)
				}
			}
			if helperOK != nil {
				validity = append(validity, helperOK) // `rv, ok := argValue(v)`: ok is the validity
			}
			for _, vc := range validity {
				for _, r2 := range *vc.Referrers() {
					iff, isIf := r2.(*ssa.If)
					if !isIf {
						continue
					}
					// is the check inside a loop over the values?
					var header *ssa.BasicBlock
					for _, lp := range naturalLoops(f) {
						if lp.body[iff.Block()] {
							header = lp.header
						}
					}
					if header == nil {
						continue
					}
					invalid := iff.Block().Succs[1]
					leaves := false
					for _, ret := range core.Returns(f) {
						if invalid == header {
							break // straight back to the loop header: the loop continues
						}
						if core.ReachableAvoiding(invalid, ret.Block(), map[*ssa.BasicBlock]bool{header: true}) || invalid == ret.Block() {
							leaves = true
						}
					}
					c.R.Add("REFLVALID", fmt.Sprintf("%s|invalid-skips-only-itself", core.FuncName(f)), core.FuncName(f), p.InstrPos(iff), !leaves,
						"in an option that takes several values a nil value is skipped and the remaining values are still applied", ternary(!leaves, "the loop continues", "the option returns at the first nil value, dropping the rest"))
				}
			}
			if uses == 0 {
				return
			}
			nRV++
			c.R.Func(core.FuncName(f))
			c.R.Add("REFLVALID", fmt.Sprintf("%s|reflect.ValueOf#%d", core.FuncName(f), countCalls(f, cl)), core.FuncName(f), p.InstrPos(cl), bad == "",
				"a reflect.Value made from a caller-supplied interface value is used (Type, stored as an input, …) only where IsValid() holds: nil values are ignored or rejected, never dereferenced",
				ternary(bad == "", "all uses guarded", bad))
		})
	}

	// reflect.Type.Implements panics unless its argument is an interface type: every call is dominated by the
	// kind test of that very argument (or the argument is the error type descriptor)
	nImpl := 0
	for _, f := range p.ArgFuncs() {
		core.Instrs(f, func(in ssa.Instruction) {
			cl, ok := in.(*ssa.Call)
			if !ok || !cl.Common().IsInvoke() || cl.Common().Method.Name() != "Implements" || core.TypeStr(cl.Common().Value.Type()) != "reflect.Type" || len(cl.Common().Args) != 1 {
				return
			}
			nImpl++
			arg := cl.Common().Args[0]
			ap := core.Path(arg)
			okk := false
			var seen []string
			for _, l := range p.ExpandLitsKeep(core.Lits(core.Guards(cl.Block()))) {
				if l.Kind != "cmp" || l.Op != token.EQL || !l.Pol {
					continue
				}
				for _, pr := range [][2]ssa.Value{{l.X, l.Y}, {l.Y, l.X}} {
					kc, isC := pr[0].(*ssa.Call)
					if !isC || !kc.Common().IsInvoke() || kc.Common().Method.Name() != "Kind" {
						continue
					}
					if k, isK := core.ConstInt(pr[1]); !isK || k != int64(reflect.Interface) {
						continue
					}
					seen = append(seen, core.Path(kc.Common().Value))
					if kc.Common().Value == arg || core.Path(kc.Common().Value) == ap {
						okk = true
					}
				}
			}
			if g, isG := loadBase(arg).(*ssa.Global); isG && interfaceDescriptor(g) {
				okk = true
			}
			c.R.Func(core.FuncName(f))
			c.R.Add("REFLVALID", fmt.Sprintf("%s|Implements#%d", core.FuncName(f), nImpl), core.FuncName(f), p.InstrPos(cl), okk,
				"reflect.Type.Implements is called only with an argument whose Kind() was tested to be Interface on the way (it panics for any other type)",
				ternary(okk, "argument "+ap+" kind-tested", fmt.Sprintf("argument %s not kind-tested (kind tests on: %v)", ap, seen)))
		})
	}

	// =============== TAGS
	c.runTags(walker)

	// =============== REJECT
	c.runReject(walker)

	// =============== STRUCTWALK
	c.runStructWalk(walker)
}

func countCalls(f *ssa.Function, target *ssa.Call) int {
	n, res := 0, 0
	core.Instrs(f, func(in ssa.Instruction) {
		if cl, ok := in.(*ssa.Call); ok && core.CalleeName(cl.Common()) == core.CalleeName(target.Common()) {
			n++
			if cl == target {
				res = n
			}
		}
	})
	return res
}

// fromAPI: v is a parameter of an exported function, a variable captured from
// one, or an element of such a slice parameter.
func (c *Ctx) fromAPI(v ssa.Value) bool {
	for i := 0; i < 8; i++ {
		switch x := v.(type) {
		case *ssa.Parameter:
			f := core.Outer(x.Parent())
			if f.Object() != nil && f.Object().Exported() {
				return true
			}
			// a parameter of a private helper: what every call site hands in
			if h := x.Parent(); c.P.PrivateHelper(h) {
				idx := -1
				for k, q := range h.Params {
					if q == x {
						idx = k
					}
				}
				sites := c.P.Callers(h)
				if idx < 0 || len(sites) == 0 {
					return false
				}
				for _, s := range sites {
					if idx >= len(s.Common().Args) || !c.fromAPI(s.Common().Args[idx]) {
						return false
					}
				}
				return true
			}
			return false
		case *ssa.UnOp:
			if fv, ok := x.X.(*ssa.FreeVar); ok {
				b := c.P.Binding(fv)
				if al, ok := b.(*ssa.Alloc); ok {
					if s := core.SingleStore(al); s != nil {
						v = s
						continue
					}
				}
				return false
			}
			if ia, ok := x.X.(*ssa.IndexAddr); ok {
				v = ia.X
				continue
			}
			if al, ok := x.X.(*ssa.Alloc); ok {
				if s := core.SingleStore(al); s != nil {
					v = s
					continue
				}
			}
			return false
		case *ssa.FreeVar:
			b := c.P.Binding(x)
			if b == nil {
				return false
			}
			v = b
		case *ssa.Alloc:
			if s := core.SingleStore(x); s != nil {
				v = s
				continue
			}
			return false
		default:
			return false
		}
	}
	return false
}

type optAlt struct {
	seq             []string
	guardNoDefaults bool
	// components known to be empty on the path that produces this sequence (atom name -> true)
	empty map[string]bool
	// the list was grown by appending onto memory that is not private to the merge (the first component's own slice)
	onto string
}

// optEnv binds the slice parameters of a list-joining helper to the sequences of the arguments at the call being expanded.
var optEnv map[*ssa.Parameter][]optAlt

// optSeq computes, for the slice value v in the defaults merger, the possible
// source sequences: "defaults" (load of a Func field of type []Arg) and "call"
// (the variadic parameter).
func (c *Ctx) optSeq(f *ssa.Function, v ssa.Value, d int) []optAlt {
	if d > 6 {
		return nil
	}
	isDefaults := func(x ssa.Value) bool {
		fr, ok := core.AsFieldLoad(x)
		return ok && fr.Owner == "Func" && core.TypeStr(x.Type()) == "[]Arg"
	}
	// emptiness guards: `len(X) == 0` where X is one atom
	emptyOf := func(gs []core.Guard) map[string]bool {
		out := map[string]bool{}
		for _, g := range gs {
			l := core.LitOf(g.Cond, g.Pol)
			if l.Kind != "cmp" {
				continue
			}
			cl, ok := l.X.(*ssa.Call)
			if !ok || core.CalleeName(cl.Common()) != "builtin.len" {
				continue
			}
			k, isK := core.ConstInt(l.Y)
			if !isK || k != 0 || !((l.Op == token.GTR && !l.Pol) || (l.Op == token.EQL && l.Pol)) {
				continue
			}
			as := c.optSeq(f, cl.Common().Args[0], d+1)
			if len(as) == 1 && len(as[0].seq) == 1 {
				out[as[0].seq[0]] = true
			}
		}
		return out
	}
	switch x := v.(type) {
	case *ssa.Parameter:
		if alts, ok := optEnv[x]; ok {
			return alts
		}
		return []optAlt{{seq: []string{"call"}}}
	case *ssa.Phi:
		var out []optAlt
		for i, e := range x.Edges {
			alts := c.optSeq(f, e, d+1)
			pred := x.Block().Preds[i]
			// is this edge only taken when there are no defaults?
			noDef := false
			for _, g := range append(core.Guards(pred), edgeGuard(pred, x.Block())...) {
				l := core.LitOf(g.Cond, g.Pol)
				if l.Kind == "cmp" {
					if cl, ok := l.X.(*ssa.Call); ok && core.CalleeName(cl.Common()) == "builtin.len" && isDefaults(cl.Common().Args[0]) {
						if k, ok := core.ConstInt(l.Y); ok && k == 0 && ((l.Op == token.GTR && !l.Pol) || (l.Op == token.EQL && l.Pol)) {
							noDef = true
						}
					}
				}
			}
			em := emptyOf(append(core.Guards(pred), edgeGuard(pred, x.Block())...))
			for _, a := range alts {
				a.guardNoDefaults = a.guardNoDefaults || noDef
				if len(em) > 0 {
					m := map[string]bool{}
					for k := range a.empty {
						m[k] = true
					}
					for k := range em {
						m[k] = true
					}
					a.empty = m
				}
				out = append(out, a)
			}
		}
		return out
	case *ssa.Call:
		// a list-joining helper: its returned list, with its slice parameters read as the arguments of this call
		if h := x.Common().StaticCallee(); h != nil && c.P.PrivateHelper(h) && h.Signature.Results().Len() == 1 && core.TypeStr(h.Signature.Results().At(0).Type()) == "[]Arg" && d < 4 {
			saved := optEnv
			env := map[*ssa.Parameter][]optAlt{}
			for k, v := range saved {
				env[k] = v
			}
			for i, prm := range h.Params {
				if i < len(x.Common().Args) && core.TypeStr(prm.Type()) == "[]Arg" {
					env[prm] = c.optSeq(f, x.Common().Args[i], d+1)
				}
			}
			optEnv = env
			var out []optAlt
			for _, r := range core.Returns(h) {
				em := emptyOf(core.Guards(r.Block()))
				for _, a := range c.optSeq(h, r.Results[0], d+1) {
					if len(em) > 0 {
						m := map[string]bool{}
						for k := range a.empty {
							m[k] = true
						}
						for k := range em {
							m[k] = true
						}
						a.empty = m
					}
					out = append(out, a)
				}
			}
			optEnv = saved
			return out
		}
		// library forms: slices.Clone(x) is x; slices.Concat(a, b, …) is a then b …; slices.Insert(base, 0, vs...) is vs then
		// base, slices.Insert(base, len(base), vs...) is base then vs
		if pk, fn := core.StdCallee(x.Common().StaticCallee()); pk == "slices" {
			cross := func(parts [][]optAlt) []optAlt {
				out := []optAlt{{}}
				for _, part := range parts {
					var next []optAlt
					for _, p1 := range out {
						for _, p2 := range part {
							next = append(next, optAlt{seq: append(append([]string{}, p1.seq...), p2.seq...), empty: p1.empty, onto: p1.onto})
						}
					}
					out = next
				}
				return out
			}
			as := x.Common().Args
			switch fn {
			case "Clone":
				if len(as) == 1 {
					return c.optSeq(f, as[0], d+1)
				}
			case "Concat":
				if len(as) == 1 {
					var parts [][]optAlt
					for _, e := range sliceElems(as[0], 0, map[ssa.Value]bool{}) {
						parts = append(parts, c.optSeq(f, e, d+1))
					}
					if len(parts) > 0 {
						return cross(parts)
					}
				}
			case "Insert":
				if len(as) == 3 {
					base, vs := c.optSeq(f, as[0], d+1), c.optSeq(f, as[2], d+1)
					if k, isK := core.ConstInt(as[1]); isK && k == 0 {
						out := cross([][]optAlt{vs, base})
						if !c.P.FreshIn(as[0]) {
							for i := range out {
								if len(base) > 0 && len(base[0].seq) > 0 {
									out[i].onto = base[0].seq[0] // Insert shifts inside the slice it is handed when capacity allows
								}
							}
						}
						return out
					}
					if cl, ok := as[1].(*ssa.Call); ok && core.CalleeName(cl.Common()) == "builtin.len" && core.Path(cl.Common().Args[0]) == core.Path(as[0]) {
						out := cross([][]optAlt{base, vs})
						if !c.P.FreshIn(as[0]) {
							for i := range out {
								if len(base) > 0 && len(base[0].seq) > 0 {
									out[i].onto = base[0].seq[0]
								}
							}
						}
						return out
					}
				}
			}
			return []optAlt{{seq: []string{"?" + fn}}}
		}
		if core.CalleeName(x.Common()) == "builtin.append" {
			a := c.optSeq(f, x.Common().Args[0], d+1)
			var b []optAlt
			if len(x.Common().Args) > 1 {
				b = c.optSeq(f, x.Common().Args[1], d+1)
			}
			if core.IsNilConst(x.Common().Args[0]) {
				a = []optAlt{{}}
			}
			if mk, ok := x.Common().Args[0].(*ssa.Slice); ok {
				if ms, ok := mk.X.(*ssa.MakeSlice); ok {
					if k, ok := core.ConstInt(ms.Len); ok && k == 0 {
						a = []optAlt{{}} // make([]T, 0, n): an empty list to append onto
					}
				}
			}
			if ms, ok := x.Common().Args[0].(*ssa.MakeSlice); ok {
				if k, ok := core.ConstInt(ms.Len); ok && k == 0 {
					a = []optAlt{{}}
				}
			}
			var out []optAlt
			for _, p1 := range a {
				for _, p2 := range b {
					alt := optAlt{seq: append(append([]string{}, p1.seq...), p2.seq...), empty: p1.empty, onto: p1.onto}
					if alt.onto == "" && len(p1.seq) > 0 && len(p2.seq) > 0 && !c.P.FreshIn(x.Common().Args[0]) && !capLimited(x.Common().Args[0]) {
						alt.onto = p1.seq[0]
					}
					out = append(out, alt)
				}
			}
			return out
		}
	case *ssa.Slice:
		return c.optSeq(f, x.X, d+1)
	case *ssa.MakeSlice:
		// copies into it, ordered by destination offset
		type cp struct {
			off string
			src ssa.Value
		}
		var cps []cp
		core.Instrs(f, func(in ssa.Instruction) {
			cl, ok := in.(*ssa.Call)
			if !ok || core.CalleeName(cl.Common()) != "builtin.copy" {
				return
			}
			dst := cl.Common().Args[0]
			off := "0"
			if sl, ok := dst.(*ssa.Slice); ok && sl.X == ssa.Value(x) {
				if sl.Low != nil {
					off = core.Path(sl.Low)
				}
				cps = append(cps, cp{off, cl.Common().Args[1]})
			} else if dst == ssa.Value(x) {
				cps = append(cps, cp{off, cl.Common().Args[1]})
			}
		})
		if len(cps) == 0 {
			return nil
		}
		// the list is exactly as long as what is copied into it: its length is the sum of len(source) over the copied
		// sources, each once (a longer list keeps nil options in its tail, which the applier refuses; cap() is not len())
		{
			var leaves []ssa.Value
			var walk func(v ssa.Value)
			walk = func(v ssa.Value) {
				if b, ok := v.(*ssa.BinOp); ok && b.Op == token.ADD {
					walk(b.X)
					walk(b.Y)
					return
				}
				leaves = append(leaves, v)
			}
			walk(x.Len)
			want := map[string]int{}
			for _, cpy := range cps {
				want["builtin.len("+core.Path(cpy.src)+")"]++
			}
			exact := len(leaves) == len(cps)
			for _, lf := range leaves {
				cl, ok := lf.(*ssa.Call)
				if !ok || core.CalleeName(cl.Common()) != "builtin.len" {
					exact = false
					continue
				}
				k := "builtin.len(" + core.Path(cl.Common().Args[0]) + ")"
				if want[k] == 0 {
					exact = false
				}
				want[k]--
			}
			if !exact {
				return []optAlt{{seq: []string{"?a list whose length is not the sum of the lengths of what is copied into it"}}}
			}
		}
		// offset "0" first; then offsets equal to len(<first source>)
		sort.SliceStable(cps, func(i, j int) bool { return cps[i].off == "0" && cps[j].off != "0" })
		var seq []string
		prevLen := ""
		for i, cpy := range cps {
			if i > 0 && cpy.off != prevLen {
				return nil // offsets not recognisably contiguous
			}
			as := c.optSeq(f, cpy.src, d+1)
			if len(as) != 1 {
				return nil
			}
			seq = append(seq, as[0].seq...)
			prevLen = "builtin.len(" + core.Path(cpy.src) + ")"
		}
		return []optAlt{{seq: seq}}
	default:
		if isDefaults(v) {
			return []optAlt{{seq: []string{"defaults"}}}
		}
	}
	return nil
}

// edgeGuard: the condition under which control goes from pred directly to succ.
// optSiteGuards reads the guards of a call site of the option applier: is it reached only when the Func has no default
// options, and which single-atom lists are known to be empty there.
func (c *Ctx) optSiteGuards(f *ssa.Function, gs []core.Guard) (noDef bool, em map[string]bool) {
	em = map[string]bool{}
	for _, g := range gs {
		l := core.LitOf(g.Cond, g.Pol)
		if l.Kind != "cmp" {
			continue
		}
		cl, ok := l.X.(*ssa.Call)
		if !ok || core.CalleeName(cl.Common()) != "builtin.len" {
			continue
		}
		k, isK := core.ConstInt(l.Y)
		if !isK || k != 0 || !((l.Op == token.GTR && !l.Pol) || (l.Op == token.EQL && l.Pol)) {
			continue
		}
		x := cl.Common().Args[0]
		if fr, ok := core.AsFieldLoad(x); ok && fr.Owner == "Func" && core.TypeStr(x.Type()) == "[]Arg" {
			noDef = true
		}
		as := c.optSeq(f, x, 1)
		if len(as) == 1 && len(as[0].seq) == 1 {
			em[as[0].seq[0]] = true
		}
	}
	return
}

func edgeGuard(pred, succ *ssa.BasicBlock) []core.Guard {
	if len(pred.Instrs) == 0 {
		return nil
	}
	iff, ok := pred.Instrs[len(pred.Instrs)-1].(*ssa.If)
	if !ok || len(pred.Succs) != 2 {
		return nil
	}
	if pred.Succs[0] == succ && pred.Succs[1] != succ {
		return []core.Guard{{Cond: iff.Cond, Pol: true, At: iff}}
	}
	if pred.Succs[1] == succ && pred.Succs[0] != succ {
		return []core.Guard{{Cond: iff.Cond, Pol: false, At: iff}}
	}
	return nil
}

// ---------------------------------------------------------------------------

func (c *Ctx) runTags(walker *ssa.Function) {
	p := c.P
	if walker == nil {
		return
	}
	// reader
	readerKey := ""
	for _, ci := range p.RegionCalls(walker, "(reflect.StructTag).Get") {
		if s, ok := core.ConstString(ci.Common().Args[1]); ok {
			readerKey = s
		}
	}
	readerOpts := map[string]bool{}
	p.RegionInstrs(walker, func(in ssa.Instruction) {
		if lk, ok := in.(*ssa.Lookup); ok && core.TypeStr(lk.X.Type()) == "map[string]string" {
			if s, ok := core.ConstString(lk.Index); ok {
				readerOpts[s] = true
			}
		}
	})
	var ro []string
	for k := range readerOpts {
		ro = append(ro, k)
	}
	sort.Strings(ro)
	c.R.Note("TAGS", "reader: tag key %q, option keys %v", readerKey, ro)
	c.R.Add("TAGS", "reader|key", "structWalker", p.Pos(walker.Pos()), readerKey != "" && len(readerOpts) >= 2, "the struct walker reads one tag namespace and looks options up by constant keys", fmt.Sprintf("key=%q options=%v", readerKey, ro))

	// writers: every conversion to reflect.StructTag
	n := 0
	for _, f := range p.ArgFuncs() {
		core.Instrs(f, func(in ssa.Instruction) {
			var src ssa.Value
			switch x := in.(type) {
			case *ssa.ChangeType:
				if core.TypeStr(x.Type()) == "reflect.StructTag" {
					src = x.X
				}
			case *ssa.Convert:
				if core.TypeStr(x.Type()) == "reflect.StructTag" {
					src = x.X
				}
			}
			// constants of type StructTag appear directly as stored values
			if st, ok := in.(*ssa.Store); ok {
				if k, ok := st.Val.(*ssa.Const); ok && core.TypeStr(k.Type()) == "reflect.StructTag" {
					src = k
				}
			}
			if src == nil {
				return
			}
			n++
			c.R.Func(core.FuncName(f))
			key := fmt.Sprintf("%s|writer#%d", core.FuncName(f), n)
			// a tag chosen among alternatives (`tag := …; if v.Subtype != "" { tag = … }`): every alternative is a constant
			// tag, no tag at all, or a constant format whose only verb renders the value of its last option
			if ph, isPhi := src.(*ssa.Phi); isPhi {
				okk, why, decided := true, "", true
				for _, e := range ph.Edges {
					if s0, isK := core.ConstString(e); isK {
						if s0 == "" {
							continue // no tag: read like an empty one
						}
						if o, w := checkTagString(s0, readerKey, readerOpts); !o {
							okk, why = false, w
						}
						continue
					}
					if cl, isC := e.(*ssa.Call); isC && core.CalleeName(cl.Common()) == "fmt.Sprintf" {
						format, isK := core.ConstString(cl.Common().Args[0])
						if isK && strings.Count(format, "%") == 1 && strings.HasSuffix(format, `=%s"`) {
							if o, w := checkTagString(strings.Replace(format, "%s", "x", 1), readerKey, readerOpts); !o {
								okk, why = false, w
							}
							continue
						}
					}
					decided = false
				}
				if decided {
					c.R.Add("TAGS", key, core.FuncName(f), p.InstrPos(in), okk, "a generated struct tag uses the reader's namespace, leaves the name part empty and only option keys the reader knows", ternary(okk, "every alternative is a well-formed tag (or none)", why))
					return
				}
			}
			if s, ok := core.ConstString(src); ok {
				okk, why := checkTagString(s, readerKey, readerOpts)
				c.R.Add("TAGS", key, core.FuncName(f), p.InstrPos(in), okk, "a generated struct tag uses the reader's namespace, leaves the name part empty and only option keys the reader knows", why)
				return
			}
			// Sprintf(`ns:"%s"`, strings.Join(parts, ","))
			if cl, ok := src.(*ssa.Call); ok && core.CalleeName(cl.Common()) == "fmt.Sprintf" {
				format, _ := core.ConstString(cl.Common().Args[0])
				nsOK := strings.HasPrefix(format, readerKey+`:"`) && strings.HasSuffix(format, `"`)
				// collect constant parts flowing into the joined slice
				parts := c.tagParts(f, cl)
				okk := nsOK
				why := fmt.Sprintf("format=%q parts=%v", format, parts)
				if len(parts) == 0 || parts[0] != "" {
					okk = false
					why += " (first tag part must be empty: generated fields are never renamed)"
				}
				for _, prt := range parts[1:] {
					k := prt
					if i := strings.Index(k, "="); i >= 0 {
						k = k[:i]
					}
					if !readerOpts[k] {
						okk = false
						why += fmt.Sprintf(" (option %q unknown to the reader)", k)
					}
				}
				c.R.Add("TAGS", key, core.FuncName(f), p.InstrPos(in), okk, "a generated struct tag uses the reader's namespace, leaves the name part empty and only option keys the reader knows", why)
				return
			}
			// `ns:"` + strings.Join(parts, ",") + `"`
			if lv := flattenConcat(src); len(lv) > 1 {
				format, okForm := "", true
				var join *ssa.Call
				for _, leaf := range lv {
					if s, ok := core.ConstString(leaf); ok {
						format += s
					} else if j, ok := leaf.(*ssa.Call); ok && core.CalleeName(j.Common()) == "strings.Join" && join == nil {
						join = j
						format += "%s"
					} else {
						okForm = false
					}
				}
				if okForm && join != nil {
					nsOK := strings.HasPrefix(format, readerKey+`:"`) && strings.HasSuffix(format, `"`)
					parts := c.tagPartsOfJoin(join)
					okk := nsOK
					why := fmt.Sprintf("format=%q parts=%v", format, parts)
					if len(parts) == 0 || parts[0] != "" {
						okk = false
						why += " (first tag part must be empty: generated fields are never renamed)"
					}
					if len(parts) > 0 {
						for _, prt := range parts[1:] {
							k := prt
							if i := strings.Index(k, "="); i >= 0 {
								k = k[:i]
							}
							if !readerOpts[k] {
								okk = false
								why += fmt.Sprintf(" (option %q unknown to the reader)", k)
							}
						}
					}
					c.R.Add("TAGS", key, core.FuncName(f), p.InstrPos(in), okk, "a generated struct tag uses the reader's namespace, leaves the name part empty and only option keys the reader knows", why)
					return
				}
			}
			c.R.Undecided("TAGS", key, core.FuncName(f), p.InstrPos(in), "struct tag built from an unrecognised expression "+core.Path(src))
		})
	}

	// a valued option is written for named and type-only values alike: no path to the tag's construction skips the call
	// that renders `key=%s` other than over the "value is empty" edge of an emptiness test (a guard on the value's kind
	// or name would drop the option for some values). When the tag is put together in another function than the one
	// rendering the option, the dominating guards of the rendering are inspected instead.
	for _, f := range p.ArgFuncs() {
		for _, ci := range core.Calls(f, "fmt.Sprintf") {
			cl, ok := ci.(*ssa.Call)
			if !ok || len(cl.Common().Args) == 0 {
				continue
			}
			format, isK := core.ConstString(cl.Common().Args[0])
			if !isK || !strings.HasSuffix(format, "=%s") || !readerOpts[strings.TrimSuffix(format, "=%s")] {
				continue
			}
			var writers []*ssa.BasicBlock
			for _, b := range f.Blocks {
				for _, in := range b.Instrs {
					switch x := in.(type) {
					case *ssa.ChangeType:
						if core.TypeStr(x.Type()) == "reflect.StructTag" {
							writers = append(writers, b)
						}
					case *ssa.Convert:
						if core.TypeStr(x.Type()) == "reflect.StructTag" {
							writers = append(writers, b)
						}
					}
				}
			}
			bad := ""
			if len(writers) > 0 {
				cut := map[[2]*ssa.BasicBlock]bool{}
				for _, pr := range cl.Block().Preds {
					cut[[2]*ssa.BasicBlock{pr, cl.Block()}] = true
				}
				for _, b := range f.Blocks {
					iff, isIf := b.Instrs[len(b.Instrs)-1].(*ssa.If)
					if !isIf {
						continue
					}
					bo, isB := iff.Cond.(*ssa.BinOp)
					if !isB || (bo.Op != token.EQL && bo.Op != token.NEQ) {
						continue
					}
					sx, okx := core.ConstString(bo.X)
					sy, oky := core.ConstString(bo.Y)
					if (okx && sx == "") || (oky && sy == "") {
						if bo.Op == token.EQL {
							cut[[2]*ssa.BasicBlock{b, b.Succs[0]}] = true
						} else {
							cut[[2]*ssa.BasicBlock{b, b.Succs[1]}] = true
						}
					}
				}
				for _, w := range writers {
					if w != cl.Block() && core.Reachable(f.Blocks[0], w, cut) {
						bad = "the tag built at " + p.InstrPos(w.Instrs[0]) + " can be reached without rendering the option although its value is not empty"
					}
				}
			} else {
				for _, l := range p.ILits(cl.Block()) {
					if core.IsLoopBound(l) {
						continue
					}
					if l.Kind == "cmp" && (l.Op == token.EQL || l.Op == token.NEQ) {
						if s, isS := core.ConstString(l.X); isS && s == "" {
							continue
						}
						if s, isS := core.ConstString(l.Y); isS && s == "" {
							continue
						}
					}
					bad = "also guarded by " + l.String()
				}
			}
			c.R.Func(core.FuncName(f))
			c.R.Add("TAGS", fmt.Sprintf("%s|valued-option-for-every-kind|%s", core.FuncName(f), format), core.FuncName(f), p.InstrPos(cl), bad == "",
				"a generated tag carries the valued option whenever the value has one, for named and type-only values alike (only the emptiness of the option's value decides)",
				ternary(bad == "", "no path to the tag skips the rendering other than for an empty value", bad))
		}
	}

	// reader structure: name override from part 0; options from parts[1:]; option parsing not conditional on the name part
	var split *ssa.Call
	parser := walker // the function that parses the tag: the walker itself, one of its private helpers, or a helper it calls (one level)
	for _, g := range p.Region(walker) {
		for _, ci := range core.Calls(g) {
			if cl, ok := ci.(*ssa.Call); ok && isSplitAll(cl) {
				split = cl
				parser = g
			}
		}
	}
	if split == nil {
		for _, cal := range p.StaticCallees(walker) {
			for _, ci := range core.Calls(cal) {
				if cl, ok := ci.(*ssa.Call); ok && isSplitAll(cl) {
					split = cl
					parser = cal
				}
			}
		}
	}
	if split == nil {
		c.R.Undecided("TAGS", "reader|split", "structWalker", p.Pos(walker.Pos()), "the tag is not split with strings.Split (different parser: undecidable by this rule)")
		return
	}
	sep, _ := core.ConstString(split.Common().Args[1])
	// modern spelling: `name, rest, found := strings.Cut(tag, ","); … strings.Split(rest, ",")` — every element of the
	// split is an option part (the name part was cut off before)
	var cutTag *ssa.Call
	if ex, ok := core.Strip(split.Common().Args[0]).(*ssa.Extract); ok && ex.Index == 1 {
		if cc, ok := ex.Tuple.(*ssa.Call); ok && core.CalleeName(cc.Common()) == "strings.Cut" {
			if s0, isK := core.ConstString(cc.Common().Args[1]); isK && s0 == "," {
				if tg, isTag := core.Strip(cc.Common().Args[0]).(*ssa.Call); isTag && core.CalleeName(tg.Common()) == "(reflect.StructTag).Get" {
					cutTag = cc
				}
			}
		}
	}
	// option map updates
	var optUpdates []*ssa.MapUpdate
	p.RegionInstrs(parser, func(in ssa.Instruction) {
		if mu, ok := in.(*ssa.MapUpdate); ok && core.TypeStr(mu.Map.Type()) == "map[string]string" {
			optUpdates = append(optUpdates, mu)
		}
	})
	fromRest := len(optUpdates) > 0
	condOnName := ""
	for _, mu := range optUpdates {
		// key derives from an element of split[1:]
		r := core.Root(mu.Key)
		okSrc := false
		if sl, ok := r.(*ssa.Slice); ok {
			_ = sl
		}
		var fromSplitRest func(v ssa.Value, d int) bool
		fromSplitRest = func(v ssa.Value, d int) bool {
			if v == nil || d > 8 {
				return false
			}
			switch x := v.(type) {
			case *ssa.Phi:
				for _, e := range x.Edges {
					if !fromSplitRest(e, d+1) {
						return false
					}
				}
				return len(x.Edges) > 0
			case *ssa.Slice:
				return fromSplitRest(x.X, d+1)
			case *ssa.Extract:
				return fromSplitRest(x.Tuple, d+1)
			case *ssa.Call:
				switch core.CalleeName(x.Common()) {
				case "strings.Cut", "strings.SplitN":
					return fromSplitRest(x.Common().Args[0], d+1)
				}
			case *ssa.UnOp:
				if ia, ok := x.X.(*ssa.IndexAddr); ok {
					if sl, ok := ia.X.(*ssa.Slice); ok && sl.X == ssa.Value(split) {
						if k, ok := core.ConstInt(sl.Low); ok && k == 1 {
							return true
						}
					}
					if cutTag != nil && ia.X == ssa.Value(split) {
						return true // an element of Split(rest, ","): the rest of the tag after its first comma
					}
					// an element of the list a private step was handed: `parseTagOptions(parts[1:])`
					if prm, isPrm := ia.X.(*ssa.Parameter); isPrm {
						if sl, ok := core.Strip(p.Bind(prm)).(*ssa.Slice); ok && sl.X == ssa.Value(split) {
							if k, ok := core.ConstInt(sl.Low); ok && k == 1 {
								return true
							}
						}
					}
					return fromSplitRest(ia.X, d+1)
				}
			}
			return false
		}
		okSrc = fromSplitRest(mu.Key, 0)
		if !okSrc {
			fromRest = false
		}
		// the value is the empty constant or, likewise, an exact substring of the part (never trimmed, folded or
		// otherwise rewritten: the writers render names and subtypes verbatim)
		if s0, isK := core.ConstString(mu.Value); !(isK && s0 == "") {
			var valueOK func(v ssa.Value, d int) bool
			valueOK = func(v ssa.Value, d int) bool {
				if ph, ok := v.(*ssa.Phi); ok && d < 4 {
					for _, e := range ph.Edges {
						if !valueOK(e, d+1) {
							return false
						}
					}
					return true
				}
				if s1, isK := core.ConstString(v); isK && s1 == "" {
					return true
				}
				return fromSplitRest(v, 0)
			}
			if !valueOK(mu.Value, 0) {
				fromRest = false
			}
		}
		for _, l := range p.ILits(mu.Block()) {
			if l.Kind == "cmp" && l.Op == token.EQL {
				for _, pair := range [][2]ssa.Value{{l.X, l.Y}, {l.Y, l.X}} {
					if s, ok := core.ConstString(pair[1]); ok && s == "" {
						// is the compared value part 0 of the split?
						if ld, ok := pair[0].(*ssa.UnOp); ok {
							if ia, ok := ld.X.(*ssa.IndexAddr); ok && ia.X == ssa.Value(split) && cutTag == nil {
								condOnName = l.String()
							}
						}
						if ex, ok := pair[0].(*ssa.Extract); ok && cutTag != nil && ex.Tuple == ssa.Value(cutTag) && ex.Index == 0 {
							condOnName = l.String()
						}
					}
				}
			}
		}
	}
	if cutTag != nil {
		// the options are parsed exactly when the comma was found: the split sits under `found` (and the tag test), nothing else
		atCut := map[string]bool{}
		for _, l := range core.Lits(core.Guards(cutTag.Block())) {
			atCut[l.String()] = true
		}
		for _, l := range core.Lits(core.Guards(split.Block())) {
			okLit := atCut[l.String()] // already decided where the tag was cut
			if l.Kind == "bool" && l.Pol {
				if ex, ok := l.Of.(*ssa.Extract); ok && ex.Tuple == ssa.Value(cutTag) && ex.Index == 2 {
					okLit = true
				}
			}
			if l.Kind == "cmp" {
				for _, pair := range [][2]ssa.Value{{l.X, l.Y}, {l.Y, l.X}} {
					if s0, isK := core.ConstString(pair[1]); isK && s0 == "" {
						if tg, isTag := core.Strip(pair[0]).(*ssa.Call); isTag && core.CalleeName(tg.Common()) == "(reflect.StructTag).Get" {
							okLit = true
						}
					}
				}
			}
			if !okLit && !core.IsLoopBound(l) {
				fromRest = false
				c.R.Note("TAGS", "option parsing of the cut tag is also conditional on %s", l.String())
			}
		}
	}
	c.R.Add("TAGS", "reader|options-from-rest", "structWalker", p.InstrPos(split), fromRest && sep == ",",
		"options are parsed from every comma-separated part after the first", fmt.Sprintf("sep=%q updates=%d from-parts[1:]=%v", sep, len(optUpdates), fromRest))
	// an option part is cut into key and value at the FIRST '=': the value may itself contain the separator
	{
		first := map[string]bool{"strings.Index": true, "strings.IndexByte": true, "strings.IndexRune": true, "strings.Cut": true, "strings.SplitN": true, "strings.IndexAny": true}
		other := map[string]bool{"strings.LastIndex": true, "strings.LastIndexByte": true, "strings.LastIndexAny": true, "strings.Split": true, "strings.SplitAfter": true, "strings.SplitAfterN": true}
		scope := []*ssa.Function{parser}
		for _, cal := range p.StaticCallees(parser) {
			if cal.Pkg != nil && cal.Pkg == parser.Pkg {
				scope = append(scope, cal)
			}
		}
		nFirst, bad := 0, ""
		var at ssa.Instruction = split
		for _, g := range scope {
			core.Instrs(g, func(in ssa.Instruction) {
				cl, ok := in.(*ssa.Call)
				if !ok || len(cl.Common().Args) < 2 {
					return
				}
				name := core.CalleeName(cl.Common())
				if !first[name] && !other[name] {
					return
				}
				isEq := false
				if s, ok := core.ConstString(cl.Common().Args[1]); ok && s == "=" {
					isEq = true
				} else if k, ok := core.ConstInt(cl.Common().Args[1]); ok && k == '=' {
					isEq = true
				}
				if !isEq {
					return
				}
				if first[name] {
					if name == "strings.SplitN" {
						if k, ok := core.ConstInt(cl.Common().Args[2]); !ok || k != 2 {
							bad, at = name+" with a limit other than 2", in
							return
						}
					}
					nFirst++
					return
				}
				bad, at = name, in
			})
		}
		if nFirst == 0 && bad == "" {
			c.R.Undecided("TAGS", "reader|option-cut-at-first-separator", "structWalker", p.InstrPos(split), "no recognised search for the '=' of an option part (different parser: undecidable by this rule)")
		} else {
			c.R.Add("TAGS", "reader|option-cut-at-first-separator", "structWalker", p.InstrPos(at), bad == "" && nFirst > 0,
				"an option part is cut into key and value at its first '=' (the writers put the separator first and the subtype, which may contain '=', after it)", ternary(bad == "", fmt.Sprintf("%d first-occurrence search(es)", nFirst), "located with "+bad))
		}
	}
	c.R.Add("TAGS", "reader|options-independent-of-rename", "structWalker", p.InstrPos(split), condOnName == "",
		"options are parsed whether or not the tag also renames the field", ternary(condOnName == "", "unconditional", "option parsing guarded by "+condOnName))
}

func checkTagString(s, key string, opts map[string]bool) (bool, string) {
	pre := key + `:"`
	if !strings.HasPrefix(s, pre) || !strings.HasSuffix(s, `"`) {
		return false, fmt.Sprintf("tag %q is not in namespace %q", s, key)
	}
	body := strings.TrimSuffix(strings.TrimPrefix(s, pre), `"`)
	parts := strings.Split(body, ",")
	if parts[0] != "" {
		return false, fmt.Sprintf("tag %q renames the generated field", s)
	}
	for _, prt := range parts[1:] {
		k := prt
		if i := strings.Index(k, "="); i >= 0 {
			k = k[:i]
		}
		if !opts[k] {
			return false, fmt.Sprintf("tag %q uses option %q unknown to the reader", s, k)
		}
	}
	return true, fmt.Sprintf("tag %q", s)
}

// tagParts returns the constant strings (format strings for Sprintf parts)
// that make up the slice joined into the tag written by Sprintf call cl.
func (c *Ctx) tagParts(f *ssa.Function, cl *ssa.Call) []string {
	var join *ssa.Call
	for _, v := range appendedOrVarargs(cl) {
		if j, ok := v.(*ssa.Call); ok && core.CalleeName(j.Common()) == "strings.Join" {
			join = j
		}
	}
	return c.tagPartsOfJoin(join)
}

// flattenConcat lists the leaves of a chain of string concatenations, left to right.
func flattenConcat(v ssa.Value) []ssa.Value {
	if b, ok := v.(*ssa.BinOp); ok && b.Op == token.ADD {
		return append(flattenConcat(b.X), flattenConcat(b.Y)...)
	}
	return []ssa.Value{v}
}

func (c *Ctx) tagPartsOfJoin(join *ssa.Call) []string {
	if join == nil {
		return nil
	}
	var parts []string
	seen := map[ssa.Value]bool{}
	var walk func(v ssa.Value)
	walk = func(v ssa.Value) {
		if v == nil || seen[v] {
			return
		}
		seen[v] = true
		switch x := v.(type) {
		case *ssa.Phi:
			for _, e := range x.Edges {
				walk(e)
			}
		case *ssa.Call:
			if core.CalleeName(x.Common()) == "builtin.append" {
				walk(x.Common().Args[0])
				for _, e := range appendedValues(x) {
					if s, ok := core.ConstString(e); ok {
						parts = append(parts, s)
					} else if sp, ok := e.(*ssa.Call); ok && core.CalleeName(sp.Common()) == "fmt.Sprintf" {
						if s, ok := core.ConstString(sp.Common().Args[0]); ok {
							parts = append(parts, s)
						}
					} else if lv := flattenConcat(e); len(lv) > 1 {
						// "key=" + value
						if s, ok := core.ConstString(lv[0]); ok {
							parts = append(parts, s+"%s")
						}
					}
				}
			}
		case *ssa.MakeSlice:
			// make([]string, n, …): n empty leading parts
			if n, ok := core.ConstInt(x.Len); ok && n > 0 {
				parts = append([]string{""}, parts...)
			}
		case *ssa.Slice:
			// slice literal: elements stored into the backing array
			if al, ok := x.X.(*ssa.Alloc); ok {
				stored := 0
				for _, ref := range *al.Referrers() {
					if ia, ok := ref.(*ssa.IndexAddr); ok {
						for _, r2 := range *ia.Referrers() {
							if st, ok := r2.(*ssa.Store); ok {
								stored++
								if s, ok := core.ConstString(st.Val); ok {
									parts = append([]string{s}, parts...)
								}
							}
						}
					}
				}
				// make([]string, n, cap) with constant sizes: n zero-valued (empty) leading parts
				if n, ok := core.ConstInt(x.High); ok && stored == 0 && n > 0 {
					parts = append([]string{""}, parts...)
				}
			}
		}
	}
	walk(join.Common().Args[0])
	// de-duplicate keeping the initial element first
	var out []string
	dd := map[string]bool{}
	for _, s := range parts {
		if !dd[s] {
			dd[s] = true
			out = append(out, s)
		}
	}
	// the literal's initial element must come first
	sort.SliceStable(out, func(i, j int) bool { return out[i] == "" && out[j] != "" })
	return out
}

func appendedOrVarargs(cl *ssa.Call) []ssa.Value {
	var out []ssa.Value
	for _, a := range cl.Common().Args {
		if sl, ok := a.(*ssa.Slice); ok {
			if al, ok := sl.X.(*ssa.Alloc); ok {
				for _, ref := range *al.Referrers() {
					if ia, ok := ref.(*ssa.IndexAddr); ok {
						for _, r2 := range *ia.Referrers() {
							if st, ok := r2.(*ssa.Store); ok {
								out = append(out, core.Strip(st.Val))
							}
						}
					}
				}
			}
		}
	}
	return out
}

// ---------------------------------------------------------------------------

func (c *Ctx) runReject(walker *ssa.Function) {
	p := c.P
	nf := p.Func(p.Arg, "NewFunc")
	lifter := c.role("REJECT", "lifter")
	isStruct := c.markerTypePredicate()
	// the predicate may be split into an entry that unwraps the pointer levels and an inner test of the struct's own
	// fields (`isStruct(t)` = unwrap, then `embedsStruct(t)`): callers see the entry
	isStructEntry := isStruct
	if isStruct != nil {
		var outer *ssa.Function
		n := 0
		for _, site := range p.Callers(isStruct) {
			w := core.Outer(site.Parent())
			if w == isStruct {
				continue
			}
			n++
			if len(w.Params) == 1 && core.TypeStr(w.Params[0].Type()) == "reflect.Type" && w.Signature.Results().Len() == 1 && core.TypeStr(w.Signature.Results().At(0).Type()) == "bool" {
				fwd := false
				for _, r := range core.Returns(w) {
					if r.Results[0] == site.Value() {
						fwd = true
					}
				}
				if fwd {
					outer = w
				}
			}
		}
		if outer != nil && n == 1 {
			isStructEntry = outer
		}
	}
	errReturnGuardedBy := func(f *ssa.Function, pred func(l core.Lit) bool) (bool, string) {
		// the error values f can return (seen through private helpers that produce them)
		reach := map[ssa.Value]bool{}
		for _, r := range core.Returns(f) {
			if len(r.Results) == 0 {
				continue
			}
			for _, s := range p.ISources(r.Results[len(r.Results)-1]) {
				reach[core.Strip(s)] = true
			}
		}
		for _, g := range p.Region(f) {
			if g.Parent() != nil {
				continue
			}
			for _, r := range core.Returns(g) {
				if len(r.Results) == 0 {
					continue
				}
				ev := r.Results[len(r.Results)-1]
				if _, isCall := core.Strip(ev).(*ssa.Call); !isCall {
					continue
				}
				if g != f && !reach[core.Strip(ev)] {
					continue
				}
				for _, l := range core.Lits(core.Guards(r.Block())) {
					if pred(l) {
						return true, p.InstrPos(r)
					}
				}
			}
		}
		return false, ""
	}
	if nf != nil {
		c.R.Func("NewFunc")
		ok, _ := errReturnGuardedBy(nf, func(l core.Lit) bool {
			if l.Kind != "cmp" || l.Op != token.EQL || l.Pol {
				return false
			}
			k, isK := core.ConstInt(l.Y)
			cl, isC := l.X.(*ssa.Call)
			return isK && k == 19 && isC && core.CalleeName(cl.Common()) == "(reflect.Type).Kind" // reflect.Func
		})
		c.R.Add("REJECT", "NewFunc|non-function", "NewFunc", p.Pos(nf.Pos()), ok, "a value that is not a function is rejected with an error", fmt.Sprintf("ok=%v", ok))
		ok2, _ := errReturnGuardedBy(nf, func(l core.Lit) bool {
			return l.Kind == "call" && l.Callee == core.RVIsValid && !l.Pol
		})
		c.R.Add("REJECT", "NewFunc|nil", "NewFunc", p.Pos(nf.Pos()), ok2, "a nil function value is rejected with an error", fmt.Sprintf("ok=%v", ok2))
		// the input set is built over exactly the function type's NumIn() parameters through its In accessor, the output
		// set over NumOut() results (less the final error, whose test is ERRPRED's business) through Out
		if lifter != nil {
			for _, ci := range p.RegionCalls(nf) {
				if ci.Common().StaticCallee() != lifter || len(ci.Common().Args) != 2 {
					continue
				}
				cnt, get := ci.Common().Args[0], ci.Common().Args[1]
				acc := ""
				for _, sv := range p.ISources(get) {
					if mc, ok := sv.(*ssa.MakeClosure); ok {
						if fn, ok := mc.Fn.(*ssa.Function); ok {
							acc = strings.TrimSuffix(fn.Name(), "$bound")
						}
					}
				}
				if acc != "In" && acc != "Out" {
					continue
				}
				want := "(reflect.Type).Num" + acc
				okA, found := true, ""
				srcs := p.ISources(cnt)
				if len(srcs) == 0 {
					okA = false
				}
				for _, sv := range srcs {
					v := sv
					if b, ok := v.(*ssa.BinOp); ok && b.Op == token.SUB && acc == "Out" {
						if k, ok := core.ConstInt(b.Y); ok && k == 1 {
							v = core.Strip(b.X)
							for _, s2 := range core.Sources(v) {
								v = s2
							}
						}
					}
					cl, ok := v.(*ssa.Call)
					if !ok || core.CalleeName(cl.Common()) != want {
						okA = false
						found = core.Path(sv)
					}
				}
				c.R.Add("REJECT", "NewFunc|"+acc+"-arity", "NewFunc", p.InstrPos(ci), okA,
					"the "+ternary(acc == "In", "input", "output")+" set is built over exactly the function type's Num"+acc+"() positions"+ternary(acc == "Out", " (less only the final error)", ""),
					ternary(okA, "count is Num"+acc+"()", "count may be "+found))
			}
		}
	}
	if lifter != nil && isStruct != nil {
		// in the positional loop, a marker struct among several parameters is an error
		ok := false
		var lifterRets []*ssa.Return
		for _, g := range p.Region(lifter) {
			if g.Parent() == nil {
				lifterRets = append(lifterRets, core.Returns(g)...)
			}
		}
		for _, r := range lifterRets {
			if len(r.Results) == 0 {
				continue
			}
			ev := r.Results[len(r.Results)-1]
			if _, isCall := core.Strip(ev).(*ssa.Call); !isCall {
				continue
			}
			for _, l := range core.Lits(core.Guards(r.Block())) {
				if l.Kind == "call" && l.Pol {
					if cl, isC := l.Of.(*ssa.Call); isC && (cl.Common().StaticCallee() == isStruct || cl.Common().StaticCallee() == isStructEntry) {
						// inside a counted loop (guard i < count)
						for _, l2 := range core.Lits(core.Guards(r.Block())) {
							if l2.Kind == "cmp" && l2.Op == token.LSS && l2.Pol {
								ok = true
							}
						}
						// … also in its rotated form (`for i := range count`), where the test sits in the latch block
						for _, lp := range naturalLoops(r.Parent()) {
							// an error return leaves the loop: its block is not part of the cycle, but it hangs off a body block
							in := false
							for b := r.Block(); b != nil && !in; b = b.Idom() {
								in = lp.body[b]
							}
							if in {
								if kind, regular, _ := classifyLoop(c, lp); regular && kind == "counted" {
									ok = true
								}
							}
						}
					}
				}
			}
		}
		c.R.Add("REJECT", "lifter|marker-struct-mixed", "lifter", p.Pos(lifter.Pos()), ok, "a marker struct among several positional parameters/results is rejected with an error", fmt.Sprintf("ok=%v", ok))
		// the single-value form accepts a marker struct only when count == 1
		okSingle := false
		for _, ci := range p.RegionCalls(lifter) {
			if ci.Common().StaticCallee() == walker {
				for _, l := range core.Lits(core.Guards(ci.Block())) {
					if l.Kind == "cmp" && l.Op == token.EQL && l.Pol {
						if k, ok := core.ConstInt(l.Y); ok && k == 1 {
							okSingle = true
						}
					}
				}
			}
		}
		c.R.Add("REJECT", "lifter|struct-form-only-when-single", "lifter", p.Pos(lifter.Pos()), okSingle, "the struct form is taken only for a single parameter/result", fmt.Sprintf("ok=%v", okSingle))
	}
	if isStruct != nil {
		// marker detection looks through every pointer level: a loop whose condition is Kind()==Ptr and whose body takes Elem()
		c.R.Func("isStruct")
		loop := false
		for _, b := range append(append([]*ssa.BasicBlock{}, isStruct.Blocks...), func() []*ssa.BasicBlock {
			if isStructEntry != isStruct {
				return isStructEntry.Blocks
			}
			return nil
		}()...) {
			if len(b.Instrs) == 0 {
				continue
			}
			iff, ok := b.Instrs[len(b.Instrs)-1].(*ssa.If)
			if !ok {
				continue
			}
			l := core.LitOf(iff.Cond, true)
			if l.Kind == "cmp" && l.Op == token.EQL {
				if k, ok := core.ConstInt(l.Y); ok && k == 22 { // reflect.Ptr
					// the true successor must lead back to b (loop)
					body := b.Succs[0]
					if !l.Pol {
						body = b.Succs[1]
					}
					if core.Reachable(body, b, nil) {
						loop = true
					}
				}
			}
		}
		c.R.Add("REJECT", "isStruct|all-pointer-levels", "isStruct", p.Pos(isStruct.Pos()), loop,
			"marker detection unwraps every pointer level (so that multiply indirected marker structs reach the depth check instead of being taken for plain values)", fmt.Sprintf("loop=%v", loop))
		// the marker is looked for among the struct's OWN fields, one by one (Type.Field(i)): a lookup by name
		// (FieldByName) or over the visible fields also finds a marker promoted from an embedded struct and misses one
		// embedded under an alias name
		if mf := c.markerFieldPredicate(); mf != nil {
			how, n, byName := "", 0, 0
			for _, ci := range p.RegionCalls(isStruct) {
				if ci.Common().StaticCallee() != mf || len(ci.Common().Args) != 1 {
					continue
				}
				n++
				a := core.Strip(ci.Common().Args[0])
				if fc, ok := a.(*ssa.Call); ok && fc.Common().IsInvoke() && fc.Common().Method.Name() == "Field" && core.TypeStr(fc.Common().Value.Type()) == "reflect.Type" {
					continue
				}
				// a lookup by name used only as a fast path that can answer yes — the hit must be a field of the type itself
				// (one-element index path) and pass the marker test; the scan of the own fields still follows
				if ex, isEx := a.(*ssa.Extract); isEx && ex.Index == 0 {
					if fb, ok := ex.Tuple.(*ssa.Call); ok && fb.Common().IsInvoke() && fb.Common().Method.Name() == "FieldByName" {
						direct := false
						for _, l := range core.Lits(core.Guards(ci.Block())) {
							if l.Kind == "cmp" && l.Op == token.EQL && l.Pol {
								if k, isK := core.ConstInt(l.Y); isK && k == 1 {
									if cl, ok := l.X.(*ssa.Call); ok && core.CalleeName(cl.Common()) == "builtin.len" {
										if fr, ok := core.AsFieldLoad(cl.Common().Args[0]); ok && fr.Field == "Index" {
											direct = true
										}
									}
								}
							}
						}
						if direct {
							byName++
							continue
						}
					}
				}
				if ld, isLd := a.(*ssa.UnOp); isLd && ld.Op == token.MUL {
					if al, isAl := ld.X.(*ssa.Alloc); isAl {
						if ex, isEx := core.SingleStore(al).(*ssa.Extract); isEx && ex.Index == 0 {
							if fb, ok := ex.Tuple.(*ssa.Call); ok && fb.Common().IsInvoke() && fb.Common().Method.Name() == "FieldByName" {
								direct := false
								for _, l := range core.Lits(core.Guards(ci.Block())) {
									if l.Kind == "cmp" && l.Op == token.EQL && l.Pol {
										if k, isK := core.ConstInt(l.Y); isK && k == 1 {
											if cl, ok := l.X.(*ssa.Call); ok && core.CalleeName(cl.Common()) == "builtin.len" {
												if fr, ok := core.AsFieldLoad(cl.Common().Args[0]); ok && fr.Field == "Index" {
													direct = true
												}
											}
										}
									}
								}
								if direct {
									byName++
									continue
								}
							}
						}
					}
				}
				// slices.ContainsFunc(reflect.VisibleFields(t), func(f) bool { return len(f.Index) == 1 && marker(f) }): the
				// visible fields with a one-element index are exactly the type's own fields
				if ld, isLd := a.(*ssa.UnOp); isLd && ld.Op == token.MUL {
					if al, isAl := ld.X.(*ssa.Alloc); isAl {
						if sv, isP := core.SingleStore(al).(*ssa.Parameter); isP {
							a = sv // the spilled parameter
						}
					}
				}
				if prm, ok := a.(*ssa.Parameter); ok && prm.Parent().Parent() != nil && core.TypeStr(prm.Type()) == "reflect.StructField" {
					direct := false
					for _, l := range core.Lits(core.Guards(ci.Block())) {
						if l.Kind == "cmp" && l.Op == token.EQL && l.Pol {
							if k, isK := core.ConstInt(l.Y); isK && k == 1 {
								if cl, ok := l.X.(*ssa.Call); ok && core.CalleeName(cl.Common()) == "builtin.len" {
									if fr, ok := core.AsFieldLoad(cl.Common().Args[0]); ok && fr.Field == "Index" {
										direct = true
									}
								}
							}
						}
					}
					overVisible := false
					if mc := p.ClosureSite(prm.Parent()); mc != nil {
						for _, u := range core.Users(mc) {
							if uc, ok := u.(*ssa.Call); ok && len(uc.Common().Args) == 2 {
								if pk, fn := core.StdCallee(uc.Common().StaticCallee()); pk == "slices" && fn == "ContainsFunc" {
									if vf, ok := core.Strip(uc.Common().Args[0]).(*ssa.Call); ok && core.CalleeName(vf.Common()) == "reflect.VisibleFields" {
										overVisible = true
									}
								}
							}
						}
					} else {
						// a capture-free literal: find the ContainsFunc call that names it
						for _, uc := range p.RegionCalls(isStruct) {
							if pk, fn := core.StdCallee(uc.Common().StaticCallee()); pk == "slices" && fn == "ContainsFunc" && len(uc.Common().Args) == 2 {
								if fnv, ok := core.Strip(uc.Common().Args[1]).(*ssa.Function); ok && fnv == prm.Parent() {
									if vf, ok := core.Strip(uc.Common().Args[0]).(*ssa.Call); ok && core.CalleeName(vf.Common()) == "reflect.VisibleFields" {
										overVisible = true
									}
								}
							}
						}
					}
					if direct && overVisible {
						continue
					}
				}
				how = "the field handed to the marker test comes from " + core.Path(a)
			}
			if byName > 0 && n == byName && how == "" {
				how = "the marker is looked up by name only: a marker embedded under another name (through an alias) is missed"
			}
			c.R.Add("REJECT", "isStruct|scans-own-fields", "isStruct", p.Pos(isStruct.Pos()), n > 0 && how == "",
				"a type is a marker struct exactly when one of its own fields (Type.Field(i)) is the marker field — promoted fields and lookups by name are not used", ternary(how == "", fmt.Sprintf("%d marker test(s) on Type.Field(i)", n), how))
		}
	}
	// the marker field: recognised only when the field is embedded (Anonymous) AND of the marker type — a named field
	// of that type is an ordinary value
	if mf := c.markerFieldPredicate(); mf != nil {
		c.R.Func(core.FuncName(mf))
		okM, why := true, ""
		nTrue := 0
		for _, bc := range core.BoolCases(mf) {
			if k, isK := core.ConstBool(bc.Val); isK && !k {
				continue
			}
			nTrue++
			anon, typ := false, false
			check := func(l core.Lit) {
				if l.Kind == "bool" && l.Pol {
					if fr, ok := core.AsFieldLoad(l.Of); ok && fr.Owner == "reflect.StructField" && fr.Field == "Anonymous" {
						anon = true
					}
				}
				if l.Kind == "cmp" && l.Op == token.EQL && l.Pol {
					for _, v := range []ssa.Value{l.X, l.Y} {
						if fr, ok := core.AsFieldLoad(v); ok && fr.Owner == "reflect.StructField" && fr.Field == "Type" {
							typ = true
						}
					}
				}
			}
			for _, l := range bc.Lits {
				check(l)
			}
			// the returned value itself may be the last conjunct
			check(core.LitOf(bc.Val, true))
			if !(anon && typ) {
				okM = false
				why = fmt.Sprintf("a true result without both tests (embedded=%v marker-type=%v)", anon, typ)
			}
		}
		if nTrue == 0 {
			okM, why = false, "no true result"
		}
		c.R.Add("REJECT", "marker-field|embedded-and-of-marker-type", core.FuncName(mf), p.Pos(mf.Pos()), okM,
			"a struct field is the argmapper marker only when it is embedded and of the marker type", ternary(okM, "both tests on every true result", why))
	}
	if walker != nil {
		ok, _ := errReturnGuardedBy(walker, func(l core.Lit) bool {
			if l.Kind != "cmp" || l.Op != token.GTR || !l.Pol {
				return false
			}
			k, isK := core.ConstInt(l.Y)
			return isK && k == 1
		})
		c.R.Add("REJECT", "structWalker|pointer-depth", "structWalker", p.Pos(walker.Pos()), ok, "a struct behind more than one pointer is rejected with an error", fmt.Sprintf("ok=%v", ok))
		ok2, _ := errReturnGuardedBy(walker, func(l core.Lit) bool {
			if l.Kind != "cmp" || l.Op != token.EQL || l.Pol {
				return false
			}
			k, isK := core.ConstInt(l.Y)
			return isK && k == 25 // reflect.Struct
		})
		c.R.Add("REJECT", "structWalker|struct-expected", "structWalker", p.Pos(walker.Pos()), ok2, "a non-struct where a struct is expected is rejected with an error", fmt.Sprintf("ok=%v", ok2))
	}
}

// ---------------------------------------------------------------------------

func (c *Ctx) runStructWalk(walker *ssa.Function) {
	p := c.P
	if walker == nil {
		return
	}
	// the per-field append into ValueSet.values
	var app *ssa.Call
	var apps []ssa.CallInstruction
	p.RegionInstrs(walker, func(in ssa.Instruction) {
		if cl, ok := in.(*ssa.Call); ok && core.CalleeName(cl.Common()) == "builtin.append" {
			if fr, ok := core.AsFieldLoad(cl.Common().Args[0]); ok && fr.Owner == "ValueSet" && fr.Field == "values" {
				app = cl
				apps = append(apps, cl)
			}
		}
	})
	c.oneSite("STRUCTWALK", "structWalker", "append to the ordered value list", apps)
	if app == nil {
		c.R.Undecided("STRUCTWALK", "append", "structWalker", p.Pos(walker.Pos()), "no append to the ordered value list found")
		return
	}
	elems := appendedValues(app)
	if len(elems) != 1 {
		c.R.Undecided("STRUCTWALK", "append", "structWalker", p.InstrPos(app), "append of more than one value")
		return
	}
	val := elems[0] // *Value alloc
	if _, isAlloc := val.(*ssa.Alloc); !isAlloc {
		// the value is built by a private helper (or handed to a recording helper): the one non-nil allocation it can be
		var allocs []ssa.Value
		for _, s := range p.ISources(val) {
			if core.IsNilConst(s) {
				continue
			}
			allocs = append(allocs, s)
		}
		if len(allocs) == 1 {
			val = allocs[0]
		}
	}
	// every field that gets as far as having its Value built is recorded: no way from the block that builds the
	// Value back to the field loop's header avoids the append (a `continue` after the Value was built — "this name
	// was already recorded, replace the earlier entry" — drops a field from the ordered list)
	if va, isAlloc := val.(*ssa.Alloc); isAlloc && va.Parent() == app.Parent() && va.Block() != app.Block() {
		var header *ssa.BasicBlock
		size := 1 << 30
		for _, lp := range naturalLoops(app.Parent()) {
			if lp.body[app.Block()] && lp.body[va.Block()] && len(lp.body) < size {
				header, size = lp.header, len(lp.body)
			}
		}
		if header != nil {
			skips := core.ReachableAvoiding(va.Block(), header, map[*ssa.BasicBlock]bool{app.Block(): true})
			c.R.Add("STRUCTWALK", "recorded-unconditionally", "structWalker", p.InstrPos(app), !skips,
				"once a field's Value is built it is always appended to the ordered value list (one value per field, in declaration order)",
				ternary(!skips, "the append is on every way to the next field", "the next field can be reached from "+p.InstrPos(va)+" without the append"))
		}
	}
	fieldStores := map[string]ssa.Value{}
	// stores to fields of the Value (directly, or via a literal copied in)
	var collect func(al ssa.Value, depth int)
	collect = func(al ssa.Value, depth int) {
		a, ok := al.(*ssa.Alloc)
		if !ok || depth > 2 {
			return
		}
		for _, ref := range *a.Referrers() {
			switch r := ref.(type) {
			case *ssa.FieldAddr:
				fr, _ := core.AsFieldAddr(r)
				for _, r2 := range *r.Referrers() {
					if st, ok := r2.(*ssa.Store); ok && st.Addr == ssa.Value(r) {
						fieldStores[fr.Field] = st.Val
					}
					if fa2, ok := r2.(*ssa.FieldAddr); ok {
						fr2, _ := core.AsFieldAddr(fa2)
						for _, r3 := range *fa2.Referrers() {
							if st, ok := r3.(*ssa.Store); ok {
								fieldStores[fr.Field+"."+fr2.Field] = st.Val
							}
						}
					}
				}
			case *ssa.Store:
				if r.Addr == ssa.Value(a) {
					if ld, ok := r.Val.(*ssa.UnOp); ok {
						collect(ld.X, depth+1)
					}
					// the whole value is built by a private step (`value := valueFromField(sf, i)`): its returned literal
					if cl, ok := r.Val.(*ssa.Call); ok {
						if h := cl.Common().StaticCallee(); h != nil && p.PrivateHelper(h) {
							for _, hr := range core.Returns(h) {
								if len(hr.Results) == 1 {
									if ld, ok := hr.Results[0].(*ssa.UnOp); ok {
										collect(ld.X, depth+1)
									}
								}
							}
						}
					}
				}
			}
		}
	}
	collect(val, 0)
	// nested literal for valueInternal
	if vi, ok := fieldStores["valueInternal"]; ok {
		if ld, ok := vi.(*ssa.UnOp); ok {
			if a, ok := ld.X.(*ssa.Alloc); ok {
				for _, ref := range *a.Referrers() {
					if fa, ok := ref.(*ssa.FieldAddr); ok {
						fr, _ := core.AsFieldAddr(fa)
						for _, r2 := range *fa.Referrers() {
							if st, ok := r2.(*ssa.Store); ok {
								fieldStores["valueInternal."+fr.Field] = st.Val
							}
						}
					}
				}
			}
		}
	}
	// the struct field being described: call typ.Field(i)
	var fieldCall *ssa.Call
	for _, ci := range p.RegionCalls(walker, "(reflect.Type).Field") {
		fieldCall, _ = ci.(*ssa.Call)
	}
	if fieldCall == nil {
		c.R.Undecided("STRUCTWALK", "field", "structWalker", p.Pos(walker.Pos()), "no reflect.Type.Field call")
		return
	}
	idx := fieldCall.Common().Args[0]
	if fieldCall.Common().IsInvoke() {
		idx = fieldCall.Common().Args[0]
	}
	sfOf := func(v ssa.Value) string {
		fr, ok := core.AsFieldLoad(v)
		if !ok || fr.Owner != "reflect.StructField" {
			return ""
		}
		for _, s := range p.ISources(loadBase(fr.Base)) {
			if s == ssa.Value(fieldCall) {
				return fr.Field
			}
		}
		return ""
	}
	// S1 index
	idxOK := false
	for k, v := range fieldStores {
		if strings.HasSuffix(k, ".index") || k == "index" {
			idxOK = v == idx || p.Bind(v) == idx
		}
	}
	c.R.Add("STRUCTWALK", "index-is-field-ordinal", "structWalker", p.InstrPos(app), idxOK, "the recorded struct-field index of a value is the ordinal of the field it describes", fmt.Sprintf("ok=%v", idxOK))
	// S1b: counted loop from 0 step 1 over NumField()
	order := false
	if ph, ok := idx.(*ssa.Phi); ok {
		zero, inc := false, false
		for _, e := range ph.Edges {
			if k, ok := core.ConstInt(e); ok && k == 0 {
				zero = true
			}
			if b, ok := e.(*ssa.BinOp); ok && b.Op == token.ADD && b.X == ssa.Value(ph) {
				if k, ok := core.ConstInt(b.Y); ok && k == 1 {
					inc = true
				}
			}
		}
		order = zero && inc
	}
	c.R.Add("STRUCTWALK", "declaration-order", "structWalker", p.InstrPos(app), order, "fields are visited in declaration order (counter from 0, step 1) and appended in that order", fmt.Sprintf("ok=%v", order))
	// S2 type
	c.R.Add("STRUCTWALK", "type-from-field", "structWalker", p.InstrPos(app), sfOf(fieldStores["Type"]) == "Type", "the recorded type is the field's type", "from StructField."+sfOf(fieldStores["Type"]))
	// S3 subtype = options[<const>] with the reader's subtype key
	subOK := false
	if lk, ok := fieldStores["Subtype"].(*ssa.Lookup); ok {
		if s, ok := core.ConstString(lk.Index); ok && s == "subtype" {
			subOK = true
		}
	}
	c.R.Add("STRUCTWALK", "subtype-from-tag", "structWalker", p.InstrPos(app), subOK, "the recorded subtype is the tag's subtype option", fmt.Sprintf("ok=%v", subOK))
	// S4 name: from tag part 0 if non-empty else field name; emptied by typeOnly
	nameSrc := map[string]bool{}
	var nameWalk func(v ssa.Value, d int)
	nameWalk = func(v ssa.Value, d int) {
		if d > 8 {
			return
		}
		switch x := v.(type) {
		case *ssa.Phi:
			for _, e := range x.Edges {
				nameWalk(e, d+1)
			}
		case *ssa.Call:
			if core.CalleeName(x.Common()) == "strings.ToLower" {
				nameWalk(x.Common().Args[0], d+1)
			}
		case *ssa.Const:
			if s, ok := core.ConstString(x); ok && s == "" {
				nameSrc["empty"] = true
			}
		case *ssa.Extract:
			// the part before the first comma: strings.Cut(tag, ",") — part 0 of the split tag in its modern spelling
			if cc, ok := x.Tuple.(*ssa.Call); ok && x.Index == 0 && core.CalleeName(cc.Common()) == "strings.Cut" {
				if sep, isK := core.ConstString(cc.Common().Args[1]); isK && sep == "," {
					if tg, isTag := core.Strip(cc.Common().Args[0]).(*ssa.Call); isTag && core.CalleeName(tg.Common()) == "(reflect.StructTag).Get" {
						nameSrc["tag-part-0"] = true
						return
					}
				}
			}
			// name part returned by a tag-parsing helper: every return is "" (no tag) or part 0 of the split tag
			if hc, ok := x.Tuple.(*ssa.Call); ok {
				if h := hc.Common().StaticCallee(); h != nil && c.P.InTarget(h) {
					all, any := true, false
					for _, r := range core.Returns(h) {
						if x.Index >= len(r.Results) {
							all = false
							continue
						}
						for _, rv := range core.Sources(r.Results[x.Index]) {
							if s, ok := core.ConstString(rv); ok && s == "" {
								nameSrc["empty"] = nameSrc["empty"] || len(core.Returns(h)) == 1 // the helper itself empties the name
								continue
							}
							// the helper computes the whole name (lower-casing included): read its result like an inline expression
							if cl, isC := rv.(*ssa.Call); isC && core.CalleeName(cl.Common()) == "strings.ToLower" {
								nameWalk(rv, d+1)
								continue
							}
							// the helper reads the name off the struct field it was handed
							if f := sfOf(rv); f != "" {
								nameSrc["field:"+f] = true
								continue
							}
							// the helper hands back the name it was given (no override in the tag): what the call site passed
							if prm, ok := rv.(*ssa.Parameter); ok && prm.Parent() == h {
								for i, q := range h.Params {
									if q == prm && i < len(hc.Common().Args) {
										nameWalk(hc.Common().Args[i], d+1)
									}
								}
								continue
							}
							if ld, ok := rv.(*ssa.UnOp); ok {
								if ia, ok := ld.X.(*ssa.IndexAddr); ok {
									if k, ok := core.ConstInt(ia.Index); ok && k == 0 {
										if cl, ok := ia.X.(*ssa.Call); ok && isSplitAll(cl) {
											any = true
											continue
										}
									}
								}
							}
							all = false
						}
					}
					if all && any {
						nameSrc["tag-part-0"] = true
					}
				}
			}
		case *ssa.UnOp:
			if f := sfOf(x); f != "" {
				nameSrc["field:"+f] = true
			} else if ia, ok := x.X.(*ssa.IndexAddr); ok {
				if k, ok := core.ConstInt(ia.Index); ok && k == 0 {
					if cl, ok := ia.X.(*ssa.Call); ok && isSplitAll(cl) {
						nameSrc["tag-part-0"] = true
					}
				}
			}
		}
	}
	nameWalk(fieldStores["Name"], 0)
	c.R.Add("STRUCTWALK", "name-sources", "structWalker", p.InstrPos(app), nameSrc["field:Name"] && nameSrc["tag-part-0"] && nameSrc["empty"] && len(nameSrc) == 3,
		"the recorded name comes from the tag's first part, else the field name, or is empty (type-only)", fmt.Sprintf("%v", nameSrc))
	// emptied exactly under the typeOnly option
	emptyOK := false
	nameV := fieldStores["Name"]
	// the name computed by a helper with one return: judge that return's operand
	if e, isE := nameV.(*ssa.Extract); isE {
		if hc, isC := e.Tuple.(*ssa.Call); isC {
			if h := hc.Common().StaticCallee(); h != nil && c.P.InTarget(h) && len(core.Returns(h)) == 1 && e.Index < len(core.Returns(h)[0].Results) {
				nameV = core.Returns(h)[0].Results[e.Index]
			}
		}
	}
	if ph, ok := nameV.(*ssa.Phi); ok {
		for i, e := range ph.Edges {
			if s, isS := core.ConstString(e); isS && s == "" {
				pred := ph.Block().Preds[i]
				for _, g := range append(core.Guards(pred), edgeGuard(pred, ph.Block())...) {
					l := core.LitOf(g.Cond, g.Pol)
					if l.Kind == "ok" && l.Pol {
						if lk, ok := l.Of.(*ssa.Lookup); ok {
							if s2, ok := core.ConstString(lk.Index); ok && s2 == "typeOnly" {
								emptyOK = true
							}
						}
					}
				}
			}
		}
	}
	c.R.Add("STRUCTWALK", "typeOnly-empties-name", "structWalker", p.InstrPos(app), emptyOK, "the name is emptied exactly when the tag carries the type-only option", fmt.Sprintf("ok=%v", emptyOK))
	// S4b: the options consulted for a field are those parsed from that field's own tag — the option map is not
	// carried from one field (loop iteration) to the next
	{
		carried := ""
		nLook := 0
		for _, g := range p.Region(walker) {
			headers := map[*ssa.BasicBlock]bool{}
			for _, lp := range naturalLoops(g) {
				headers[lp.header] = true
			}
			core.Instrs(g, func(in ssa.Instruction) {
				lk, ok := in.(*ssa.Lookup)
				if !ok || core.TypeStr(lk.X.Type()) != "map[string]string" {
					return
				}
				nLook++
				seen := map[ssa.Value]bool{}
				var walkv func(v ssa.Value)
				walkv = func(v ssa.Value) {
					if v == nil || seen[v] {
						return
					}
					seen[v] = true
					if ph, ok := v.(*ssa.Phi); ok {
						if headers[ph.Block()] {
							carried = "option map at " + p.InstrPos(lk) + " is carried over from the previous field (loop-header phi)"
						}
						for _, e := range ph.Edges {
							walkv(e)
						}
					}
					if ld, ok := v.(*ssa.UnOp); ok {
						if al, ok := ld.X.(*ssa.Alloc); ok {
							// a spilled local: declared outside the loop and assigned inside = carried
							for _, ref := range *al.Referrers() {
								if st, ok := ref.(*ssa.Store); ok && st.Addr == ssa.Value(al) {
									walkv(st.Val)
								}
							}
						}
					}
				}
				walkv(lk.X)
				// one map made before the loop and reused for every field: its entries survive from field to field unless
				// it is emptied (clear) at the start of every iteration, unconditionally
				for _, sv := range core.Sources(lk.X) {
					mk, isMk := sv.(*ssa.MakeMap)
					if !isMk {
						continue
					}
					for _, lp := range naturalLoops(g) {
						if !lp.body[lk.Block()] || lp.body[mk.Block()] {
							continue
						}
						cleared := false
						for _, ci := range core.Calls(g, "builtin.clear") {
							if len(ci.Common().Args) != 1 || ci.Common().Args[0] != ssa.Value(mk) || !lp.body[ci.Block()] || !ci.Block().Dominates(lk.Block()) {
								continue
							}
							// inside the loop and dominating the lookup: it runs in the same iteration, before the lookup (a path
							// from the loop header to the lookup that avoided it would contradict dominance)
							cleared = true
						}
						if !cleared {
							carried = "the option map consulted at " + p.InstrPos(lk) + " is made once before the loop over the fields and is not emptied in every iteration before it is consulted"
						}
					}
				}
			})
		}
		c.R.Add("STRUCTWALK", "options-per-field", "structWalker", p.Pos(walker.Pos()), carried == "" && nLook > 0,
			"the options consulted for a field (subtype, typeOnly) come from that field's own tag, never from a previously visited field", ternary(carried == "", fmt.Sprintf("%d option lookups, none loop-carried", nLook), carried))
	}
	// S5 skip unexported fields and the marker
	skipUnexp, skipMarker := false, false
	for _, l := range p.ExpandLitsKeep(p.ILits(app.Block())) {
		if l.Kind == "cmp" && l.Op == token.EQL && l.Pol {
			if s, ok := core.ConstString(l.Y); ok && s == "" && sfOf(l.X) == "PkgPath" {
				skipUnexp = true
			}
		}
		if l.Kind == "call" && !l.Pol {
			if cl, ok := l.Of.(*ssa.Call); ok && cl.Common().StaticCallee() != nil && cl.Common().StaticCallee() == c.markerFieldPredicate() {
				skipMarker = true
			}
		}
		// sf.IsExported() — the accessor for `sf.PkgPath == ""`
		if l.Kind == "call" && l.Pol && strings.HasSuffix(l.Callee, "reflect.StructField).IsExported") {
			skipUnexp = true
		}
	}
	c.R.Add("STRUCTWALK", "skip-unexported-and-marker", "structWalker", p.InstrPos(app), skipUnexp && skipMarker,
		"unexported fields and the marker field are skipped, everything else is recorded", fmt.Sprintf("unexported=%v marker=%v", skipUnexp, skipMarker))
}

func loadBase(v ssa.Value) ssa.Value {
	// a StructField local: the alloc's stored value
	if al, ok := v.(*ssa.Alloc); ok {
		if s := core.SingleStore(al); s != nil {
			return s
		}
	}
	return v
}

// isValidatingValueOf: h(v interface{}) (reflect.Value, bool) returning reflect.ValueOf(v) and that value's IsValid().
func (c *Ctx) isValidatingValueOf(h *ssa.Function) bool {
	if h == nil || !c.P.InTarget(h) || len(h.Params) != 1 || h.Signature.Results().Len() != 2 {
		return false
	}
	for _, r := range core.Returns(h) {
		vo, ok := r.Results[0].(*ssa.Call)
		if !ok || core.CalleeName(vo.Common()) != "reflect.ValueOf" || vo.Common().Args[0] != ssa.Value(h.Params[0]) {
			return false
		}
		iv, ok := r.Results[1].(*ssa.Call)
		if !ok || core.CalleeName(iv.Common()) != core.RVIsValid || iv.Common().Args[0] != ssa.Value(vo) {
			return false
		}
	}
	return len(core.Returns(h)) > 0
}

// runNilFunc — NILOPT-F. Every element appended to a []*Func in the target package is known to be non-nil at that
// point: it is the first result of a constructor returning (*Func, error) on that call's nil-error branch (and every
// nil-error return of an in-target constructor yields a fresh Func), or it was compared with nil on the way. A whole
// slice spread in (`append(list, more...)`) is accepted only from a list that is itself a converter list of this rule.
func (c *Ctx) runNilFunc() {
	p := c.P
	isFuncPtr := func(t types.Type) bool {
		pt, ok := t.Underlying().(*types.Pointer)
		return ok && core.NamedOf(pt.Elem()) == "Func"
	}
	isFuncList := func(t types.Type) bool {
		sl, ok := t.Underlying().(*types.Slice)
		return ok && isFuncPtr(sl.Elem())
	}
	// constructor summary: every return with a nil error constant returns a freshly allocated (non-nil) Func, or the
	// result of another such constructor
	var ctorOK func(f *ssa.Function, d int) bool
	ctorOK = func(f *ssa.Function, d int) bool {
		if f == nil || len(f.Blocks) == 0 || d > 3 {
			return false
		}
		res := f.Signature.Results()
		if res.Len() != 2 || !isFuncPtr(res.At(0).Type()) || !isErrorType(res.At(1).Type()) {
			return false
		}
		for _, r := range core.Returns(f) {
			if len(r.Results) != 2 {
				return false
			}
			if !core.IsNilConst(r.Results[1]) {
				// an error return: if the error may be nil here the Func must be non-nil as well
				if cl, ok := core.Strip(r.Results[0]).(*ssa.Extract); ok {
					if in, ok := cl.Tuple.(*ssa.Call); ok && ctorOK(in.Common().StaticCallee(), d+1) {
						continue // `return NewFunc(...)` forwarded pair
					}
				}
				if core.IsNilConst(r.Results[0]) {
					// (nil, err): fine when err is known non-nil on this path
					if nilCheckLit(core.Lits(core.Guards(r.Block())), r.Results[1], false) {
						continue
					}
					if _, isCall := core.Strip(r.Results[1]).(*ssa.Call); isCall {
						continue // a freshly built error (fmt.Errorf, errors.New)
					}
					return false
				}
				continue
			}
			v := core.Strip(r.Results[0])
			if _, fresh := v.(*ssa.Alloc); fresh {
				continue
			}
			if e, ok := v.(*ssa.Extract); ok {
				if in, ok := e.Tuple.(*ssa.Call); ok && ctorOK(in.Common().StaticCallee(), d+1) && nilCheckLit(core.Lits(core.Guards(r.Block())), errOf(in), true) {
					continue
				}
			}
			return false
		}
		return true
	}
	// the list a private step collected, every element of which was tested non-nil where it was appended
	stepListNonNil := func(src ssa.Value) bool {
		ex, ok := src.(*ssa.Extract)
		if !ok {
			return false
		}
		hc, ok := ex.Tuple.(*ssa.Call)
		if !ok {
			return false
		}
		h := hc.Common().StaticCallee()
		if h == nil || !p.PrivateHelper(h) {
			return false
		}
		all, any := true, false
		for _, hr := range core.Returns(h) {
			if ex.Index >= len(hr.Results) {
				continue
			}
			if k, isK := hr.Results[ex.Index].(*ssa.Const); isK && k.Value == nil {
				continue
			}
			for _, ap := range appendSites(h, hr.Results[ex.Index]) {
				for _, e := range appendedValues(ap) {
					any = true
					if !nilCheckLit(core.Lits(core.Guards(ap.Block())), e, false) {
						all = false
					}
				}
			}
		}
		return all && any
	}
	n := 0
	for _, f := range p.ArgFuncs() {
		for _, ci := range core.Calls(f, "builtin.append") {
			cl, ok := ci.(*ssa.Call)
			if !ok || !isFuncList(cl.Type()) {
				continue
			}
			n++
			lits := p.ExpandLitsKeep(p.ILits(cl.Block()))
			key := fmt.Sprintf("%s|append#%d", core.FuncName(f), n)
			elems := appendedValues(cl)
			if len(elems) == 0 {
				// spread of a whole slice
				src := core.Strip(cl.Common().Args[1])
				fromList := false
				if fr, ok := core.AsFieldLoad(src); ok && fr.Owner == "argBuilder" {
					fromList = true // another converter list of the builder (covered by this rule at its own appends)
				}
				// the list a private step collected, every element of which was tested non-nil where it was appended
				if ex, ok := src.(*ssa.Extract); ok {
					if hc, ok := ex.Tuple.(*ssa.Call); ok {
						if h := hc.Common().StaticCallee(); h != nil && p.PrivateHelper(h) {
							all, any := true, false
							for _, hr := range core.Returns(h) {
								if ex.Index >= len(hr.Results) {
									continue
								}
								if k, isK := hr.Results[ex.Index].(*ssa.Const); isK && k.Value == nil {
									continue
								}
								for _, ap := range appendSites(h, hr.Results[ex.Index]) {
									for _, e := range appendedValues(ap) {
										any = true
										if !nilCheckLit(core.Lits(core.Guards(ap.Block())), e, false) {
											all = false
										}
									}
								}
							}
							if all && any {
								fromList = true
							}
						}
					}
				}
				// slices.DeleteFunc(list, isNil): what is left has no nil element
				if dc, ok := src.(*ssa.Call); ok && len(dc.Common().Args) == 2 {
					if pk, fn := core.StdCallee(dc.Common().StaticCallee()); pk == "slices" && fn == "DeleteFunc" {
						var pred *ssa.Function
						switch pv := core.Strip(dc.Common().Args[1]).(type) {
						case *ssa.Function:
							pred = pv
						case *ssa.MakeClosure:
							pred, _ = pv.Fn.(*ssa.Function)
						}
						if pred != nil && len(pred.Params) == 1 && len(pred.Blocks) == 1 {
							for _, r := range core.Returns(pred) {
								if b, ok := r.Results[0].(*ssa.BinOp); ok && b.Op == token.EQL &&
									((b.X == ssa.Value(pred.Params[0]) && core.IsNilConst(b.Y)) || (b.Y == ssa.Value(pred.Params[0]) && core.IsNilConst(b.X))) {
									fromList = true
								}
							}
						}
					}
				}
				c.R.Add("NILOPT-F", key, core.FuncName(f), p.InstrPos(cl), fromList,
					"a *Func appended to a converter list is known to be non-nil (constructed on a nil-error branch or compared with nil)",
					ternary(fromList, "spread of the builder's own converter list, or of a list with its nil elements deleted", "a whole slice "+core.Path(src)+" is appended without looking at its elements"))
				continue
			}
			bad := ""
			for _, v := range elems {
				okv := false
				elemOfStepList := false
				if ld, isLd := core.Strip(v).(*ssa.UnOp); isLd {
					if ia, isIA := ld.X.(*ssa.IndexAddr); isIA && stepListNonNil(core.Strip(ia.X)) {
						elemOfStepList = true
					}
				}
				switch {
				case nilCheckLit(lits, v, false):
					okv = true
				case elemOfStepList:
					okv = true // an element of a list a private step collected from non-nil values only
				default:
					for _, sv := range core.Sources(v) {
						if _, fresh := sv.(*ssa.Alloc); fresh {
							okv = true
						}
						if e, isE := sv.(*ssa.Extract); isE {
							if in, isC := e.Tuple.(*ssa.Call); isC && in.Common().StaticCallee() != nil && ctorOK(in.Common().StaticCallee(), 0) && nilCheckLit(lits, errOf(in), true) {
								okv = true
							}
						}
					}
					if len(core.Sources(v)) != 1 {
						okv = okv && false
					}
				}
				if !okv {
					bad = core.Path(v)
				}
			}
			c.R.Add("NILOPT-F", key, core.FuncName(f), p.InstrPos(cl), bad == "",
				"a *Func appended to a converter list is known to be non-nil (constructed on a nil-error branch or compared with nil)",
				ternary(bad == "", "every element non-nil", "element "+bad+" may be nil"))
		}
	}
}

// errOf returns the error component extracted from a call returning (T, error), or nil.
func errOf(call *ssa.Call) ssa.Value {
	for _, ref := range *call.Referrers() {
		if e, ok := ref.(*ssa.Extract); ok && isErrorType(e.Type()) {
			return e
		}
	}
	return nil
}

// capLimited: v is a three-index slice x[:n:n] whose capacity equals its length: appending anything to it always
// allocates a new backing array, so nothing is written into memory x shares.
func capLimited(v ssa.Value) bool {
	sl, ok := core.Strip(v).(*ssa.Slice)
	if !ok || sl.Max == nil || sl.High == nil {
		return false
	}
	return sl.Max == sl.High || core.Path(sl.Max) == core.Path(sl.High)
}

// markerFieldPredicate finds the predicate over a reflect.StructField that compares its Type with the package-level
// marker type (the function that decides whether a field is the argmapper.Struct marker).
func (c *Ctx) markerFieldPredicate() *ssa.Function {
	for _, f := range c.P.ArgFuncs() {
		if f.Parent() != nil || len(f.Params) != 1 || core.TypeStr(f.Params[0].Type()) != "reflect.StructField" {
			continue
		}
		if f.Signature.Results().Len() != 1 || !types.Identical(f.Signature.Results().At(0).Type(), types.Typ[types.Bool]) {
			continue
		}
		found := false
		core.Instrs(f, func(in ssa.Instruction) {
			if b, ok := in.(*ssa.BinOp); ok && b.Op == token.EQL {
				for _, v := range []ssa.Value{b.X, b.Y} {
					if ld, ok := v.(*ssa.UnOp); ok {
						x := ld.X
						if fa, isF := x.(*ssa.FieldAddr); isF {
							x = fa.X // a field of a package-level struct (a shared marker StructField)
						}
						if _, isG := x.(*ssa.Global); isG {
							found = true
						}
					}
				}
			}
		})
		if found {
			return f
		}
	}
	return nil
}

// interfaceDescriptor: the package variable is initialised once, in the package initialiser, to
// reflect.TypeOf((*I)(nil)).Elem() for an interface type I.
func interfaceDescriptor(g *ssa.Global) bool {
	if g.Pkg == nil {
		return false
	}
	init := g.Pkg.Func("init")
	if init == nil {
		return false
	}
	n, ok := 0, false
	for _, mem := range g.Pkg.Members {
		f, isF := mem.(*ssa.Function)
		if !isF {
			continue
		}
		for _, h := range core.WithNested(f) {
			core.Instrs(h, func(in ssa.Instruction) {
				st, isS := in.(*ssa.Store)
				if !isS || st.Addr != ssa.Value(g) {
					return
				}
				n++
				el, isC := st.Val.(*ssa.Call)
				if !isC || !el.Common().IsInvoke() || el.Common().Method.Name() != "Elem" || h != init {
					return
				}
				to, isC := el.Common().Value.(*ssa.Call)
				if !isC || core.CalleeName(to.Common()) != "reflect.TypeOf" {
					return
				}
				mi, isM := to.Common().Args[0].(*ssa.MakeInterface)
				if !isM {
					return
				}
				if pt, isP := mi.X.Type().Underlying().(*types.Pointer); isP {
					if _, isI := pt.Elem().Underlying().(*types.Interface); isI {
						ok = true
					}
				}
			})
		}
	}
	return ok && n == 1
}

// markerTypePredicate: the func(reflect.Type) bool that asks the marker-field predicate about the fields of a type
// (found by shape, whatever it is called).
func (c *Ctx) markerTypePredicate() *ssa.Function {
	mf := c.markerFieldPredicate()
	if mf == nil {
		return nil
	}
	for _, f := range c.P.ArgFuncs() {
		if f.Parent() != nil || len(f.Params) != 1 || core.TypeStr(f.Params[0].Type()) != "reflect.Type" {
			continue
		}
		if f.Signature.Results().Len() != 1 || !types.Identical(f.Signature.Results().At(0).Type(), types.Typ[types.Bool]) {
			continue
		}
		// the marker test may sit in a literal handed to a library scan (`slices.ContainsFunc(fields, func(f) bool {…})`)
		for _, g := range core.WithNested(f) {
			for _, ci := range core.Calls(g) {
				if ci.Common().StaticCallee() == mf {
					return f
				}
			}
		}
	}
	return nil
}

// isSplitAll: strings.Split(s, sep), or its spelling strings.SplitN(s, sep, n) with a negative constant n (all parts).
func isSplitAll(cl *ssa.Call) bool {
	switch core.CalleeName(cl.Common()) {
	case "strings.Split":
		return true
	case "strings.SplitN":
		if k, ok := core.ConstInt(cl.Common().Args[2]); ok && k < 0 {
			return true
		}
	}
	return false
}
