package rules

import "golang.org/x/tools/go/ssa"

type coreFunc = ssa.Function
