package rules

import (
	"fmt"
	"go/token"
	"go/types"
	"sort"
	"strings"

	"argverif/internal/core"

	"golang.org/x/tools/go/ssa"
)

// EdgeRule is one extracted edge-creating call site of the resolution graph.
type EdgeRule struct {
	Fn       *ssa.Function
	Role     string
	Call     ssa.CallInstruction
	Pos      string
	CK, PK   []string          // consumer / provider vertex kinds
	CF, PF   map[string]string // label field -> path ("" = zero by construction)
	CNew     bool              // consumer vertex constructed at the site
	PNew     bool
	Rel      map[string]string // Type/Subtype/Name relation
	Weight   int64
	WeightOK bool
	// when the edge is added inside a private helper between the helper's parameters, Call/Fn are the helper's call
	// site (one rule per site); Inner is the AddEdge call itself
	Inner    ssa.CallInstruction
	Reweight bool // re-weights an existing edge (endpoints = element of InEdges(x), x)
	Class    string
	Lits     []core.Lit
	C, P     ssa.Value
	G        ssa.Value // the graph operand (bound to the call site's argument when the edge is added in a helper)
}

type edgeSiteT struct {
	call  ssa.CallInstruction
	a     []ssa.Value
	lits  []core.Lit
	pos   string
	inner ssa.CallInstruction
	env   map[*ssa.Parameter]ssa.Value
}

const emptyStr = `const:""`

func (c *Ctx) edgeRules() []EdgeRule {
	if c.edges != nil {
		return c.edges
	}
	p := c.P
	kinds, kerr := p.VertexKinds()
	roleOf := map[*ssa.Function]string{}
	for _, r := range []string{"funcBuilder", "inputBuilder", "graphBuilder", "resolver", "planner"} {
		if f := p.MustRole(r); f != nil {
			// the role function and the private steps it was split into
			for _, g := range p.Region(f) {
				if g.Parent() == nil {
					if _, taken := roleOf[g]; !taken {
						roleOf[g] = r
					}
				}
			}
			roleOf[f] = r
		}
	}
	addEdgeWeight, addEdgeOK := c.addEdgeSummary()
	var out []EdgeRule
	type edgeSite = edgeSiteT
	for _, f := range p.ArgFuncs() {
		var esites []edgeSite
		for _, call := range core.Calls(f, core.GAddEdge, core.GAddEdgeW) {
			a := call.Common().Args
			// an edge between parameters of a private helper (`func link(g, root, input)`): one edge per call site of the
			// helper, with the vertices (and weight) the site hands in
			bound := false
			if p.PrivateHelper(f) {
				for _, x := range a[1:] {
					if prm, ok := peelAdd(x).(*ssa.Parameter); ok && prm.Parent() == f {
						bound = true
					}
				}
			}
			if !bound {
				lits0 := core.Lits(core.Guards(call.Block()))
				// a private step whose guards test a boolean parameter (`linkTypedSubtypes(g, argHasSubtype)`): one edge per
				// call site, with the guards read under the constant that site hands in
				if bp := boolParamInLits(f, lits0); bp != nil && p.PrivateHelper(f) && len(p.Callers(f)) > 0 {
					idx, allConst := -1, true
					for i, q := range f.Params {
						if q == bp {
							idx = i
						}
					}
					for _, site := range p.Callers(f) {
						if idx < 0 || idx >= len(site.Common().Args) {
							allConst = false
						} else if _, isK := core.ConstBool(site.Common().Args[idx]); !isK {
							allConst = false
						}
					}
					if allConst {
						for _, site := range p.Callers(f) {
							k, _ := core.ConstBool(site.Common().Args[idx])
							lits := append(specialiseLits(lits0, bp, k), core.Lits(core.Guards(site.Block()))...)
							esites = append(esites, edgeSite{call, a, lits, p.InstrPos(call) + " (called at " + p.InstrPos(site) + ")", call, nil})
						}
						continue
					}
				}
				// a guard that relates two conditions (`(a.Subtype == "") != (b.Subtype == "")`: exactly one side has no
				// subtype) covers two edge classes at one site: one site per way the relation can hold
				if alts := splitRelatedConds(lits0); len(alts) > 1 {
					for i, ls := range alts {
						esites = append(esites, edgeSite{call, a, ls, fmt.Sprintf("%s (case %d of %d)", p.InstrPos(call), i+1, len(alts)), call, nil})
					}
					continue
				}
				esites = append(esites, edgeSite{call, a, lits0, p.InstrPos(call), call, nil})
				continue
			}
			for _, site := range p.Callers(f) {
				sub := func(v ssa.Value) ssa.Value {
					if prm, ok := core.Strip(v).(*ssa.Parameter); ok && prm.Parent() == f {
						for i, q := range f.Params {
							if q == prm && i < len(site.Common().Args) {
								return site.Common().Args[i]
							}
						}
					}
					return v
				}
				var b []ssa.Value
				env := map[*ssa.Parameter]ssa.Value{}
				for i, q := range f.Params {
					if i < len(site.Common().Args) {
						env[q] = site.Common().Args[i]
					}
				}
				for _, x := range a {
					if _, isPrm := core.Strip(x).(*ssa.Parameter); isPrm {
						b = append(b, p.Bind(core.Strip(sub(x))))
					} else {
						b = append(b, x) // e.g. g.AddOverwrite(param): described under the site's binding
					}
				}
				lits := append(core.Lits(core.Guards(call.Block())), core.Lits(core.Guards(site.Block()))...)
				esites = append(esites, edgeSite{site, b, lits, p.InstrPos(site), call, env})
			}
		}
		// an operand chosen by an accessor that switches on a discriminator of its receiver (`val.vertex()`,
		// `val.weight()`): one edge per case
		var split []edgeSite
		for _, es := range esites {
			split = append(split, c.splitByCase(es.call, es.a, es.lits, es.pos, es.inner, es.env, func(call ssa.CallInstruction, a []ssa.Value, lits []core.Lit, env map[*ssa.Parameter]ssa.Value) edgeSite {
				return edgeSite{call, a, lits, es.pos, es.inner, env}
			})...)
		}
		esites = split
		mk := func(es edgeSite) EdgeRule {
			call, a := es.call, es.a
			ef := call.Parent()
			e := EdgeRule{Fn: ef, Call: call, Pos: es.pos, C: a[1], P: a[2], G: a[0], Rel: map[string]string{}, Inner: es.inner}
			e.Role = roleOf[core.Outer(ef)]
			if e.Role == "" {
				e.Role = core.FuncName(ef)
			}
			if len(a) > 3 {
				e.Weight, e.WeightOK = core.ConstInt(a[3])
			} else {
				e.Weight, e.WeightOK = addEdgeWeight, addEdgeOK
			}
			e.Lits = es.lits
			c.vertexEnv = es.env
			e.CK, e.CF, e.CNew = c.describeVertex(a[1], e.Lits)
			e.PK, e.PF, e.PNew = c.describeVertex(a[2], e.Lits)
			// re-weighting: consumer is an element of InEdges(provider) on a graph
			if r, ok := core.Root(a[1]).(*ssa.Call); ok && core.CalleeName(r.Common()) == core.GInEdges {
				// compared under the call site's binding when the loop lives in a helper that is handed the vertex
				saved := core.PathEnv
				if es.env != nil {
					core.PathEnv = es.env
				}
				if core.Path(r.Common().Args[1]) == core.Path(a[2]) {
					e.Reweight = true
				}
				core.PathEnv = saved
			}
			if kerr == nil {
				c.relate(&e, kinds)
				c.classify(&e, kinds)
			}
			c.vertexEnv = nil
			return e
		}
		for _, es := range esites {
			e := mk(es)
			// a site reached over several guarded ways (`if a.Subtype != "" && b.Subtype != a.Subtype { continue }` before it:
			// either the first test failed, or the second did) whose joint guard fits no class: one site per incoming way,
			// accepted when every way is a class of its own
			if strings.HasPrefix(e.Class, "other:") && es.env == nil && kerr == nil {
				if blk := es.call.Block(); len(blk.Preds) >= 2 && len(blk.Preds) <= 3 {
					var alts []EdgeRule
					all := true
					for i, pr := range blk.Preds {
						iff, isIf := pr.Instrs[len(pr.Instrs)-1].(*ssa.If)
						if !isIf || pr == blk {
							all = false
							break
						}
						ls := append([]core.Lit{}, core.Lits(core.Guards(pr))...)
						ls = append(ls, core.LitOf(iff.Cond, pr.Succs[0] == blk))
						e2 := mk(edgeSite{es.call, es.a, ls, fmt.Sprintf("%s (way %d of %d)", p.InstrPos(es.call), i+1, len(blk.Preds)), es.inner, nil})
						if strings.HasPrefix(e2.Class, "other:") || e2.Class == "" {
							all = false
							break
						}
						// the classes that join a side without subtype to any subtype of the other side (G7, G8) exclude the
						// pair without any subtype, which belongs to the exact class with another weight: a way counts as one
						// of them only when it knows the other side's subtype to be non-empty
						nonEmpty := func(path string) bool {
							for _, l := range ls {
								if l.Kind == "cmp" && l.Op == token.EQL && !l.Pol {
									for _, pr := range [][2]ssa.Value{{l.X, l.Y}, {l.Y, l.X}} {
										if s, isS := core.ConstString(pr[1]); isS && s == "" && core.Path(pr[0]) == path {
											return true
										}
									}
								}
							}
							return false
						}
						if (e2.Class == "G7" && !nonEmpty(e2.PF["Subtype"])) || (e2.Class == "G8" && !nonEmpty(e2.CF["Subtype"])) {
							all = false
							break
						}
						alts = append(alts, e2)
					}
					if all && len(alts) > 1 {
						out = append(out, alts...)
						continue
					}
				}
			}
			out = append(out, e)
		}
	}
	sort.SliceStable(out, func(i, j int) bool { return out[i].Call.Pos() < out[j].Call.Pos() })
	c.edges = out
	return out
}

// caseAccessor describes a call of an accessor whose every return is selected by comparing one discriminator of its
// first parameter with a constant (`switch v.Kind() { case A: return x; case B: return y; default: panic }`).
type caseAccessor struct {
	call  *ssa.Call
	disc  string               // path of the discriminator over the accessor's first parameter
	vals  map[string]ssa.Value // constant -> returned value
	lits  map[string][]core.Lit
	order []string
}

func (c *Ctx) caseAccessorOf(v ssa.Value) *caseAccessor {
	call, ok := core.Strip(v).(*ssa.Call)
	if !ok || call.Common().IsInvoke() {
		return nil
	}
	h := call.Common().StaticCallee()
	if h == nil || !c.P.InTarget(h) || len(h.Blocks) == 0 || len(h.Params) == 0 || len(call.Common().Args) != 1 {
		return nil
	}
	ca := &caseAccessor{call: call, vals: map[string]ssa.Value{}, lits: map[string][]core.Lit{}}
	rets := core.Returns(h)
	if len(rets) < 2 {
		return nil
	}
	for _, r := range rets {
		if len(r.Results) != 1 {
			return nil
		}
		key := ""
		lits := core.Lits(core.Guards(r.Block()))
		for _, l := range lits {
			if l.Kind != "cmp" || l.Op != token.EQL {
				return nil
			}
			x, y := l.X, l.Y
			if _, isK := x.(*ssa.Const); isK {
				x, y = y, x
			}
			k, isK := y.(*ssa.Const)
			if !isK || k.Value == nil {
				return nil
			}
			d := core.Path(x)
			if dc, isCall := x.(*ssa.Call); isCall && !dc.Common().IsInvoke() && len(dc.Common().Args) == 1 && dc.Common().Args[0] == ssa.Value(h.Params[0]) {
				// a read-only classifier of the receiver (`v.Kind()`)
				if g := dc.Common().StaticCallee(); g != nil && c.readOnlyFunc(g, 0) {
					d = core.FuncName(g) + "(param0)"
				}
			}
			if !strings.Contains(d, "param0") || (ca.disc != "" && d != ca.disc) {
				return nil
			}
			ca.disc = d
			if l.Pol {
				if key != "" {
					return nil
				}
				key = core.Path(k)
			}
		}
		if key == "" {
			return nil
		}
		if _, dup := ca.vals[key]; dup {
			return nil
		}
		ca.vals[key] = r.Results[0]
		ca.lits[key] = lits
		ca.order = append(ca.order, key)
	}
	// every other way out of the accessor is a panic (the switch is exhaustive or fails loudly)
	for _, b := range h.Blocks {
		if len(b.Instrs) == 0 {
			continue
		}
		switch b.Instrs[len(b.Instrs)-1].(type) {
		case *ssa.Return, *ssa.Panic, *ssa.If, *ssa.Jump:
		default:
			return nil
		}
	}
	sort.Strings(ca.order)
	return ca
}

// readOnlyFunc: f (a function of the target) writes no memory and calls nothing but read-only functions: two calls
// with the same argument and no intervening write give the same result.
func (c *Ctx) readOnlyFunc(f *ssa.Function, d int) bool {
	if f == nil || len(f.Blocks) == 0 || !c.P.InTarget(f) || d > 2 {
		return false
	}
	ok := true
	core.Instrs(f, func(in ssa.Instruction) {
		switch x := in.(type) {
		case *ssa.Store:
			if _, local := x.Addr.(*ssa.Alloc); !local {
				ok = false
			}
		case *ssa.MapUpdate, *ssa.Send, *ssa.Go, *ssa.Defer:
			ok = false
		case ssa.CallInstruction:
			if x.Common().IsInvoke() {
				ok = false
				return
			}
			g := x.Common().StaticCallee()
			if g == nil {
				ok = false
				return
			}
			if core.IsPureCallee(core.CalleeName(x.Common())) {
				return
			}
			if !c.readOnlyFunc(g, d+1) {
				ok = false
			}
		}
	})
	return ok
}

// splitByCase expands an edge site whose vertex or weight operands are chosen by case accessors of the same
// receiver and discriminator into one site per case.
func (c *Ctx) splitByCase(call ssa.CallInstruction, a []ssa.Value, lits []core.Lit, pos string, inner ssa.CallInstruction,
	env map[*ssa.Parameter]ssa.Value, mk func(ssa.CallInstruction, []ssa.Value, []core.Lit, map[*ssa.Parameter]ssa.Value) edgeSiteT) []edgeSiteT {
	same := []edgeSiteT{mk(call, a, lits, env)}
	var accs []*caseAccessor
	idx := []int{}
	for i := 1; i < len(a); i++ {
		x := a[i]
		if i < 3 {
			x = peelAdd(x)
		}
		if ca := c.caseAccessorOf(x); ca != nil {
			accs = append(accs, ca)
			idx = append(idx, i)
		}
	}
	if len(accs) == 0 {
		return same
	}
	first := accs[0]
	for _, ca := range accs[1:] {
		if ca.disc != first.disc || strings.Join(ca.order, ",") != strings.Join(first.order, ",") ||
			core.Path(ca.call.Common().Args[0]) != core.Path(first.call.Common().Args[0]) {
			return same
		}
	}
	var out []edgeSiteT
	for _, key := range first.order {
		b := append([]ssa.Value{}, a...)
		env2 := map[*ssa.Parameter]ssa.Value{}
		for k, v := range env {
			env2[k] = v
		}
		for j, ca := range accs {
			b[idx[j]] = ca.vals[key]
			env2[ca.call.Common().StaticCallee().Params[0]] = ca.call.Common().Args[0]
		}
		l2 := append(append([]core.Lit{}, lits...), first.lits[key]...)
		out = append(out, mk(call, b, l2, env2))
	}
	return out
}

// peelAdd strips conversions and g.Add / g.AddOverwrite wrappers from a vertex operand.
func peelAdd(v ssa.Value) ssa.Value {
	x := core.Strip(v)
	for i := 0; i < 4; i++ {
		call, ok := x.(*ssa.Call)
		if !ok {
			break
		}
		n := core.CalleeName(call.Common())
		if n != core.GAdd && n != core.GAddOverwrite {
			break
		}
		x = core.Strip(call.Common().Args[1])
	}
	return x
}

// addEdgeSummary computes the wrapper summary AddEdge(a,b) ≡ AddEdgeWeighted(a,b,k).
func (c *Ctx) addEdgeSummary() (int64, bool) {
	f := c.P.Method(c.P.Graph, "Graph", "AddEdge")
	if f == nil {
		return 0, false
	}
	calls := core.Calls(f, core.GAddEdgeW)
	if len(calls) == 0 {
		// not a wrapper: AddEdge writes the adjacency maps itself (possibly through a private helper) — the weight is
		// the one constant it stores into the inner maps, keyed by its own two vertices (rule MIRROR-KEY checks the keys)
		gf, err := c.graphFieldRoles()
		if err != nil {
			return 0, false
		}
		var w int64
		n := 0
		for _, m := range c.mapMuts(gf, f) {
			if m.ref.level != "inner" || m.del {
				continue
			}
			k, ok := core.ConstInt(m.val)
			if !ok || (n > 0 && k != w) {
				return 0, false
			}
			w = k
			n++
		}
		return w, n == 2
	}
	if len(calls) != 1 {
		return 0, false
	}
	a := calls[0].Common().Args
	if core.Path(a[1]) != "param1" || core.Path(a[2]) != "param2" {
		return 0, false
	}
	return core.ConstInt(a[3])
}

// describeVertex gives kinds and label-field paths of a vertex operand.
func (c *Ctx) describeVertex(v ssa.Value, lits []core.Lit) (kinds []string, fields map[string]string, constructed bool) {
	p := c.P
	fields = map[string]string{}
	x := core.Strip(v)
	// look through g.Add(x) / g.AddOverwrite(x), parameters bound for the call site being expanded, and variables
	// captured by a local function literal
	// a private constructor step (`typedOutput(g, t, st)` returning `g.Add(&typedOutputVertex{Type: t, Subtype: st})`):
	// the vertex it builds, its parameters read as the arguments of this call
	var stepEnv map[*ssa.Parameter]ssa.Value
	for i := 0; i < 8; i++ {
		if call, ok := x.(*ssa.Call); ok {
			n := core.CalleeName(call.Common())
			if n == core.GAdd || n == core.GAddOverwrite {
				x = core.Strip(call.Common().Args[1])
				continue
			}
			if h := call.Common().StaticCallee(); h != nil && stepEnv == nil && !call.Common().IsInvoke() && p.PrivateHelper(h) && len(h.Blocks) == 1 {
				if rs := core.Returns(h); len(rs) == 1 && len(rs[0].Results) == 1 {
					if _, isAlloc := peelAdd(rs[0].Results[0]).(*ssa.Alloc); isAlloc {
						stepEnv = map[*ssa.Parameter]ssa.Value{}
						for j, q := range h.Params {
							if j < len(call.Common().Args) {
								stepEnv[q] = call.Common().Args[j]
							}
						}
						x = core.Strip(rs[0].Results[0])
						continue
					}
				}
			}
		}
		if prm, ok := x.(*ssa.Parameter); ok {
			if a, ok := c.vertexEnv[prm]; ok && a != nil {
				x = core.Strip(a)
				continue
			}
		}
		if d := p.DerefFree(x); d != nil && d != x {
			x = core.Strip(d)
			continue
		}
		break
	}
	kinds = p.KindOf(v)
	if len(kinds) != 1 || kinds[0] == "?" {
		if al, ok := x.(*ssa.Alloc); ok {
			if n := core.NamedOf(al.Type()); n != "" {
				kinds = []string{n}
			}
		} else if ks := p.KindOf(x); len(ks) >= 1 && ks[0] != "?" {
			kinds = ks
		}
	}
	if al, ok := x.(*ssa.Alloc); ok {
		// composite literal: fields are what is stored, the rest is zero
		constructed = true
		for _, n := range []string{"Name", "Type", "Subtype"} {
			fields[n] = emptyStr
		}
		saved := core.PathEnv
		if stepEnv != nil {
			core.PathEnv = stepEnv
		}
		for _, ref := range *al.Referrers() {
			fa, ok := ref.(*ssa.FieldAddr)
			if !ok {
				continue
			}
			fr, _ := core.AsFieldAddr(fa)
			for _, r2 := range *fa.Referrers() {
				if st, ok := r2.(*ssa.Store); ok && st.Addr == fa {
					fields[fr.Field] = core.Path(st.Val)
				}
			}
		}
		core.PathEnv = saved
		return
	}
	// an interface-typed value narrowed by a dominating successful type assertion
	if len(kinds) == 1 && kinds[0] == "?" {
		vp := core.Path(v)
		var ks []string
		for _, l := range lits {
			if l.Kind == "ok" && l.Pol {
				if ta, ok := l.Of.(*ssa.TypeAssert); ok && core.Path(ta.X) == vp {
					if n := core.NamedOf(ta.AssertedType); n != "" {
						ks = append(ks, n)
					}
				}
			}
		}
		if len(ks) == 1 {
			kinds = ks
		}
	}
	base := core.Path(x)
	for _, n := range []string{"Name", "Type", "Subtype"} {
		fields[n] = base + "." + n
	}
	return
}

func isEmptyPath(p string) bool { return p == emptyStr }

func (c *Ctx) relate(e *EdgeRule, k *core.Kinds) {
	single := func(ks []string) string {
		if len(ks) == 1 {
			return ks[0]
		}
		return ""
	}
	ck, pk := single(e.CK), single(e.PK)
	if !k.Label(ck) || !k.Label(pk) {
		return
	}
	for _, f := range []string{"Type", "Subtype", "Name"} {
		cp, pp := e.CF[f], e.PF[f]
		rel := "unconstrained"
		cEmpty := isEmptyPath(cp) || core.HasEq(e.Lits, cp, emptyStr, true)
		pEmpty := isEmptyPath(pp) || core.HasEq(e.Lits, pp, emptyStr, true)
		switch {
		case cp == pp || core.HasEq(e.Lits, cp, pp, true):
			rel = "="
		case f != "Type" && cEmpty && pEmpty:
			rel = "="
		case f != "Type" && cEmpty:
			rel = "consumer-empty"
		case f != "Type" && pEmpty:
			rel = "provider-empty"
		case f == "Type":
			// provider.Type.Implements(consumer.Type) and consumer.Type.Kind() == Interface
			impl, kind := false, false
			revImpl := false
			for _, l := range e.Lits {
				if l.Kind == "call" && l.Callee == "(reflect.Type).Implements" && l.Pol && len(l.Args) == 2 {
					if core.Path(l.Args[0]) == pp && core.Path(l.Args[1]) == cp {
						impl = true
					}
					if core.Path(l.Args[0]) == cp && core.Path(l.Args[1]) == pp {
						revImpl = true
					}
				}
				if l.Kind == "cmp" && l.Op == token.EQL && l.Pol {
					x, y := core.Path(l.X), core.Path(l.Y)
					want := "(reflect.Type).Kind(" + cp + ")"
					if (x == want && y == "const:20") || (y == want && x == "const:20") {
						kind = true
					}
				}
			}
			switch {
			case impl && kind:
				rel = "impl"
			case impl:
				rel = "impl-without-interface-kind-guard"
			case revImpl:
				rel = "impl-reversed"
			}
		}
		e.Rel[f] = rel
	}
}

func (c *Ctx) classify(e *EdgeRule, k *core.Kinds) {
	single := func(ks []string) string {
		if len(ks) == 1 {
			return ks[0]
		}
		return strings.Join(ks, "|")
	}
	ck, pk := single(e.CK), single(e.PK)
	switch {
	case e.Reweight:
		e.Class = "R1"
	case ck == k.Func && pk == k.Root:
		e.Class = "F1"
	case ck == k.Func && pk == k.Value:
		e.Class = "F2"
	case ck == k.Func && pk == k.Arg:
		e.Class = "F3"
	case ck == k.Value && pk == k.Func:
		e.Class = "F4"
	case ck == k.Out && pk == k.Func:
		e.Class = "F5"
	case pk == k.Root && e.Role == "inputBuilder":
		e.Class = "A"
	case pk == k.Root:
		e.Class = "G9"
	// the label relations are part of the class: the same pair of kinds joined under another relation is another rule
	case ck == k.Value && pk == k.Out && e.Rel["Type"] == "=" && e.Rel["Subtype"] == "provider-empty" && e.Rel["Name"] == "provider-empty":
		e.Class = "G1"
	case ck == k.Arg && pk == k.Value && e.Rel["Type"] == "=" && e.Rel["Subtype"] == "consumer-empty":
		e.Class = "G2"
	case ck == k.Arg && pk == k.Value && e.Rel["Type"] == "=" && e.Rel["Subtype"] == "=":
		e.Class = "G3"
	case ck == k.Arg && pk == k.Out && e.Rel["Subtype"] == "=" && e.Rel["Type"] == "=":
		e.Class = "G4"
	case ck == k.Out && pk == k.Out && e.Rel["Type"] == "impl":
		e.Class = "G5"
	case ck == k.Value && pk == k.Value && e.Rel["Type"] == "=" && e.Rel["Subtype"] == "consumer-empty" && e.Rel["Name"] == "=":
		e.Class = "G6"
	case ck == k.Arg && pk == k.Out && e.Rel["Type"] == "=" && e.Rel["Subtype"] == "consumer-empty":
		e.Class = "G7"
	case ck == k.Arg && pk == k.Out && e.Rel["Type"] == "=" && e.Rel["Subtype"] == "provider-empty":
		e.Class = "G8"
	default:
		e.Class = fmt.Sprintf("other:%s->%s(Type:%s Subtype:%s Name:%s)", ck, pk, e.Rel["Type"], e.Rel["Subtype"], e.Rel["Name"])
	}
}

func init() {
	register(&Engine{
		Name: "EDGE",
		Doc:  "edge-rule label obligations over every AddEdge[Weighted] call site (DESIGN §4 EDGE)",
		Run:  runEdge,
		Floor: map[string]int{
			"EDGE-T": 6, "EDGE-S": 6, "EDGE-N": 1, "EDGE-K": 10, "EDGE-V": 8, "EDGE-X": 7,
		},
	})
}

func runEdge(c *Ctx) {
	p := c.P
	kinds, err := p.VertexKinds()
	if err != nil {
		c.R.Undecided("EDGE-T", "kinds", "(vertex kinds)", "-", err.Error())
		return
	}
	edges := c.edgeRules()
	c.R.Note("EDGE", "vertex kinds: root=%s func=%s value=%s typedArg=%s typedOut=%s", kinds.Root, kinds.Func, kinds.Value, kinds.Arg, kinds.Out)
	seenKey := map[string]int{}
	classes := map[string]int{}
	for _, e := range edges {
		c.R.Func(core.FuncName(e.Fn))
		c.R.Sites++
		classes[e.Class]++
		ck, pk := strings.Join(e.CK, "|"), strings.Join(e.PK, "|")
		desc := fmt.Sprintf("%s: %s -> %s  Type:%s Subtype:%s Name:%s weight=%d", e.Class, ck, pk, e.Rel["Type"], e.Rel["Subtype"], e.Rel["Name"], e.Weight)
		c.R.Note("EDGE", "%s at %s in %s", desc, e.Pos, e.Role)
		base := fmt.Sprintf("%s|%s->%s|S:%s", e.Role, ck, pk, e.Rel["Subtype"])
		seenKey[base]++
		if n := seenKey[base]; n > 1 {
			base = fmt.Sprintf("%s#%d", base, n)
		}
		gs := core.LitStrings(e.Lits)
		if e.Reweight {
			continue // handed to PRIO-D
		}
		if !e.WeightOK {
			c.R.Undecided("EDGE-T", base+"|weight", e.Role, e.Pos, "edge weight is not a compile-time constant")
		}
		unknown := func(ks []string) bool {
			for _, k := range ks {
				if k == "?" {
					return true
				}
			}
			return len(ks) == 0
		}
		// edges to the root carry no label obligation (gating is REDEF-R1's business)
		if len(e.PK) == 1 && e.PK[0] == kinds.Root {
			continue
		}
		if unknown(e.CK) || unknown(e.PK) || len(e.CK) != 1 || len(e.PK) != 1 {
			c.R.Undecided("EDGE-T", base+"|kinds", e.Role, e.Pos,
				fmt.Sprintf("cannot determine the vertex kinds joined by this edge (consumer %v, provider %v)", e.CK, e.PK))
			continue
		}
		if !kinds.Label(e.CK[0]) || !kinds.Label(e.PK[0]) {
			continue // function wiring: one side is the function vertex
		}
		// EDGE-T
		tOK := e.Rel["Type"] == "=" || e.Rel["Type"] == "impl"
		c.R.Add("EDGE-T", base, e.Role, e.Pos, tOK,
			"consumer and provider have identical Type, or provider.Type implements consumer.Type under an interface-kind guard",
			"Type relation: "+e.Rel["Type"], gs...)
		// EDGE-S
		if e.Rel["Type"] == "=" {
			s := e.Rel["Subtype"]
			c.R.Add("EDGE-S", base, e.Role, e.Pos, s == "=" || s == "consumer-empty" || s == "provider-empty",
				"for identical types the subtype is equal or provably empty on one side",
				"Subtype relation: "+s, gs...)
		} else {
			c.R.Add("EDGE-S", base, e.Role, e.Pos, true, "subtype free for interface implementation edges", "Type relation: "+e.Rel["Type"], gs...)
		}
		// EDGE-N
		if e.CK[0] == kinds.Value && e.PK[0] == kinds.Value {
			c.R.Add("EDGE-N", base, e.Role, e.Pos, e.Rel["Name"] == "=",
				"an edge between two named value vertices requires equal names",
				"Name relation: "+e.Rel["Name"], gs...)
		}
	}
	// EDGE-X: the pass-through rules (G1–G8) are restricted by nothing but the reviewed conditions: kind filters,
	// label relations between the two endpoints, the interface-kind/implements pair, self-exclusion and
	// "consumer has no value yet". An additional condition silently narrows what can be derived (completeness).
	for _, e := range edges {
		if len(e.Class) != 2 || e.Class[0] != 'G' || e.Class == "G9" {
			continue
		}
		extra := ""
		ok := func(pth string) bool {
			if pth == emptyStr {
				return true
			}
			for _, f := range []string{"Name", "Type", "Subtype"} {
				if pth == e.CF[f] || pth == e.PF[f] {
					return true
				}
			}
			return false
		}
		cBase, pBase := strings.TrimSuffix(e.CF["Type"], ".Type"), strings.TrimSuffix(e.PF["Type"], ".Type")
		for _, l := range e.Lits {
			switch {
			case core.IsLoopBound(l):
			case l.Kind == "cmp" && l.Op == token.EQL && (core.IsNilConst(l.X) || core.IsNilConst(l.Y)) && l.Pol:
				// a dominating err == nil check
			case l.Kind == "ok":
				// kind filter on one of the endpoints
				if ta, isTA := l.Of.(*ssa.TypeAssert); !isTA || !l.Pol || !(strings.Contains(cBase, core.Path(ta.X)) || strings.Contains(pBase, core.Path(ta.X))) {
					extra = l.String()
				}
			case l.Kind == "cmp" && l.Op == token.EQL:
				x, y := core.Path(l.X), core.Path(l.Y)
				switch {
				case ok(x) && ok(y):
				case strings.HasPrefix(x, "(reflect.Type).Kind(") && y == "const:20" && x == "(reflect.Type).Kind("+e.CF["Type"]+")" && l.Pol:
				case !l.Pol && ((strings.Contains(cBase, x) && strings.Contains(pBase, y)) || (strings.Contains(cBase, y) && strings.Contains(pBase, x))):
					// raw != raw2 : an edge never joins a vertex with itself
				default:
					extra = l.String()
				}
			case l.Kind == "call" && l.Callee == "(reflect.Type).Implements" && l.Pol:
			case l.Kind == "call" && l.Callee == core.RVIsValid && !l.Pol && len(l.Args) == 1 && core.Path(l.Args[0]) == cBase+".Value":
			default:
				extra = l.String()
			}
		}
		c.R.Add("EDGE-X", e.Role+"|"+e.Class+"|no-unreviewed-restriction", e.Role, e.Pos, extra == "",
			"a pass-through edge rule is restricted only by kind filters, label relations of its two endpoints, the interface-kind/implements pair, self-exclusion and `consumer has no value yet`",
			ternary(extra == "", "only reviewed conditions", "additional condition: "+extra))
	}
	// the provider edge (function -> root, class F1) exists exactly for functions without inputs: a function that has
	// inputs and is nevertheless wired to the root is "reachable" without them, which diverts shortest paths through it
	for _, e := range edges {
		if e.Class != "F1" {
			continue
		}
		isEmptyTest := func(l core.Lit) bool {
			if l.Kind == "call" && l.Pol && strings.HasSuffix(l.Callee, ".empty") && len(l.Args) == 1 {
				if fr, ok := core.AsFieldLoad(l.Args[0]); ok && fr.Owner == "Func" {
					return true
				}
			}
			if l.Kind == "cmp" && l.Op == token.EQL && l.Pol {
				// the expanded form: len(input.values) == 0 / input.structType == nil
				if k, ok := core.ConstInt(l.Y); ok && k == 0 && strings.Contains(core.Path(l.X), "input") {
					return true
				}
				if core.IsNilConst(l.Y) && strings.Contains(core.Path(l.X), "input") {
					return true
				}
			}
			return false
		}
		has := func(ls []core.Lit) bool {
			for _, l := range p.ExpandLitsKeep(ls) {
				if isEmptyTest(l) {
					return true
				}
			}
			return false
		}
		okG, found := has(e.Lits), "no `input set is empty` guard dominates the edge"
		if !okG {
			// `a || b`: the block is entered over several edges — every one of them must carry an emptiness test
			blk := e.Inner.Block()
			if len(blk.Preds) > 1 {
				all := true
				for _, pb := range blk.Preds {
					ls := core.Lits(core.Guards(pb))
					if br, isIf := pb.Instrs[len(pb.Instrs)-1].(*ssa.If); isIf {
						ls = append(ls, core.LitOf(br.Cond, pb.Succs[0] == blk))
					}
					if !has(ls) {
						all = false
					}
				}
				okG = all
			}
		}
		if okG {
			found = "guarded by an emptiness test of the function's input set on every way in"
		}
		c.R.Add("EDGE-X", e.Role+"|F1|provider-edge-only-without-inputs", e.Role, e.Pos, okG,
			"a function vertex depends on the root directly only when the function has no inputs", found)
	}
	// EDGE-V: every vertex added to the graph is allocated for this graph (no vertex object, and hence no
	// vertex value, survives from an earlier call or planning run)
	nv := 0
	for _, f := range p.ArgFuncs() {
		for _, call := range core.Calls(f, core.GAdd, core.GAddOverwrite) {
			nv++
			fresh := p.FreshIn(call.Common().Args[1])
			c.R.Add("EDGE-V", fmt.Sprintf("%s|vertex#%d", core.FuncName(f), nv), core.FuncName(f), p.InstrPos(call), fresh,
				"every vertex added to a resolution graph is freshly allocated while that graph is built (vertex values cannot leak between calls)",
				ternary(fresh, "fresh", "vertex object "+core.Path(call.Common().Args[1])+" is not allocated here (it may carry a value from an earlier call)"))
		}
	}
	// EDGE-C (thorough): abstract label closure over chains of pass-through hops (DESIGN §9.5)
	if c.Tier == "thorough" {
		runEdgeClosure(c, edges, kinds)
	}
	// EDGE-K: every rule class of the reference table is present
	need := []string{"F1", "F2", "F3", "F4", "F5", "A", "G1", "G2", "G3", "G4", "G5", "G6", "G7", "G8", "G9"}
	for _, cl := range need {
		c.R.Add("EDGE-K", "class|"+cl, "(edge rule table)", "-", classes[cl] > 0,
			"edge rule class "+cl+" of the reference table (DESIGN §3) is present", fmt.Sprintf("%d site(s)", classes[cl]))
	}
	for cl, n := range classes {
		if strings.HasPrefix(cl, "other:") {
			c.R.Undecided("EDGE-K", "class|"+cl, "(edge rule table)", "-",
				fmt.Sprintf("%d edge site(s) of a class not in the reference table: %s", n, cl))
		}
	}
}

// runEdgeClosure lifts the per-edge obligations to chains of pass-through
// hops (edges between label-carrying vertices; a hop through a function vertex
// produces a new value and ends the chain). States are (kind, subtype class,
// name class, type relation to the origin); the obligation is that no origin
// with subtype s reaches, at identical type, a provider with a different
// non-empty subtype s', and no named origin reaches a differently named
// provider. Guards beyond the extracted relations are ignored (over-approximation:
// more transitions, so a discharged closure is sound).
func runEdgeClosure(c *Ctx, edges []EdgeRule, k *core.Kinds) {
	type state struct {
		kind, sub, name, trel string
	}
	type trans struct {
		from, to string
		rel      map[string]string
		class    string
	}
	var ts []trans
	for _, e := range edges {
		if e.Reweight || len(e.CK) != 1 || len(e.PK) != 1 || !k.Label(e.CK[0]) || !k.Label(e.PK[0]) {
			continue
		}
		ts = append(ts, trans{e.CK[0], e.PK[0], e.Rel, e.Class})
	}
	var origins []state
	for _, sub := range []string{"none", "s"} {
		origins = append(origins, state{k.Value, sub, "n", "same"}, state{k.Arg, sub, "none", "same"})
	}
	seen := map[state]string{}
	type item struct {
		st   state
		path string
		org  state
	}
	var work []item
	for _, o := range origins {
		work = append(work, item{o, "", o})
	}
	explored, bad := 0, ""
	visited := map[[2]state]bool{}
	for len(work) > 0 {
		it := work[len(work)-1]
		work = work[:len(work)-1]
		if visited[[2]state{it.org, it.st}] {
			continue
		}
		visited[[2]state{it.org, it.st}] = true
		explored++
		seen[it.st] = it.path
		// violation test (every label-carrying vertex can be a provider terminal)
		if it.path != "" && it.st.trel == "same" {
			if it.org.sub == "s" && it.st.sub == "s2" {
				bad = fmt.Sprintf("subtype s reaches a different subtype at identical type via %s", it.path)
			}
			if it.org.name == "n" && it.st.name == "n2" {
				bad = fmt.Sprintf("name n reaches a differently named value via %s", it.path)
			}
		}
		for _, t := range ts {
			if t.from != it.st.kind {
				continue
			}
			// subtype successors
			var subs []string
			switch t.rel["Subtype"] {
			case "=":
				subs = []string{it.st.sub}
			case "consumer-empty":
				if it.st.sub != "none" {
					continue
				}
				subs = []string{"none", "s", "s2"}
			case "provider-empty":
				subs = []string{"none"}
			default:
				subs = []string{"none", "s", "s2"}
			}
			trel := it.st.trel
			switch t.rel["Type"] {
			case "=":
			case "impl":
				trel = "impl"
			default:
				trel = "other"
			}
			// name successors
			var names []string
			if t.to == k.Value {
				switch {
				case it.st.kind == k.Value && t.rel["Name"] == "=":
					names = []string{it.st.name}
				case it.st.kind == k.Value:
					names = []string{it.st.name, "n2"}
				default:
					names = []string{"n", "n2"}
					if it.org.name == "none" {
						names = []string{"n"}
					}
				}
			} else {
				names = []string{"none"}
			}
			for _, sb := range subs {
				for _, nm := range names {
					work = append(work, item{state{t.to, sb, nm, trel}, it.path + ternary(it.path == "", "", ",") + t.class, it.org})
				}
			}
		}
	}
	c.R.Note("EDGE", "label closure: %d (origin,state) pairs explored over %d pass-through rules", explored, len(ts))
	c.R.Add("EDGE-C", "closure|subtype-and-name-preserved-along-chains", "(abstract label closure)", "-", bad == "",
		"along any chain of pass-through edges a subtype never turns into a different non-empty subtype at identical type, and a name never turns into a different name",
		ternary(bad == "", fmt.Sprintf("%d abstract states explored exhaustively, no violating chain", explored), bad))
}

// boolParamInLits: a boolean parameter of f that one of the literals compares a condition with.
func boolParamInLits(f *ssa.Function, lits []core.Lit) *ssa.Parameter {
	for _, l := range lits {
		for _, v := range []ssa.Value{l.X, l.Y, l.Of} {
			if prm, ok := v.(*ssa.Parameter); ok && prm.Parent() == f && types.Identical(prm.Type().Underlying(), types.Typ[types.Bool]) {
				return prm
			}
		}
	}
	return nil
}

// specialiseLits reads the literals with the boolean parameter bp fixed to k: `(cond) == bp` becomes cond (or its
// negation), `bp` itself becomes true/false and is dropped.
func specialiseLits(lits []core.Lit, bp *ssa.Parameter, k bool) []core.Lit {
	var out []core.Lit
	for _, l := range lits {
		switch {
		case l.Kind == "bool" && l.Of == ssa.Value(bp):
			continue
		case l.Kind == "cmp" && l.Op == token.EQL && (l.X == ssa.Value(bp) || l.Y == ssa.Value(bp)):
			other := l.X
			if other == ssa.Value(bp) {
				other = l.Y
			}
			// (other == bp) is l.Pol, bp == k  ⇒  other is (k == l.Pol)
			out = append(out, core.LitOf(other, k == l.Pol))
			continue
		}
		out = append(out, l)
	}
	return out
}

// splitRelatedConds: when one of the literals compares two boolean conditions with each other, returns the literal
// list once per way the comparison can hold, with the two conditions fixed; otherwise nil.
func splitRelatedConds(lits []core.Lit) [][]core.Lit {
	for i, l := range lits {
		if l.Kind != "cmp" || (l.Op != token.EQL && l.Op != token.NEQ) {
			continue
		}
		bx, okx := l.X.(*ssa.BinOp)
		by, oky := l.Y.(*ssa.BinOp)
		if !okx || !oky || !isBoolType(bx.Type()) || !isBoolType(by.Type()) {
			continue
		}
		differ := (l.Op == token.NEQ) == l.Pol // the two conditions have different truth values
		rest := append(append([]core.Lit{}, lits[:i]...), lits[i+1:]...)
		var out [][]core.Lit
		for _, vx := range []bool{true, false} {
			vy := vx
			if differ {
				vy = !vx
			}
			ls := append(append([]core.Lit{}, rest...), core.LitOf(bx, vx), core.LitOf(by, vy))
			out = append(out, ls)
		}
		return out
	}
	return nil
}

func isBoolType(t types.Type) bool {
	b, ok := t.Underlying().(*types.Basic)
	return ok && b.Kind() == types.Bool
}
