package rules

import (
	"fmt"
	"go/token"

	"argverif/internal/core"

	"golang.org/x/tools/go/ssa"
)

// Small helpers of package graph on which every other rule silently relies (round 11, DESIGN §7.16):
//   MIRROR-KEY  hashcode|verbatim        the identity of a vertex is v.Hashcode() for a hashable vertex and v itself
//                                        otherwise — nothing derived (no case folding, trimming, digest, repeated hashing)
//   MIRROR-KEY  VertexID|is-hashcode     the exported identity is that very function's result
//   MIRROR-VERT Vertices|complete        every entry of the vertex table is returned, unfiltered
//   MIRROR-EDGE AddEdge|unconditional    the unweighted form always (re)writes the edge with weight 1
//   HEAP-PATH   walk|only-exit / walk|map-read-only   the predecessor walk ends only where there is no predecessor
//                                        and does not modify the map it is handed
func runGraphHelpers(c *Ctx) {
	p := c.P
	hc := p.HashcodeFn()
	if hc == nil {
		c.R.Undecided("MIRROR-KEY", "hashcode", "(graph)", "-", "the vertex hashing function was not found")
	} else {
		c.R.Func(core.FuncName(hc))
		bad, n := "", 0
		for _, r := range core.Returns(hc) {
			for _, o := range core.ReturnOperand(r, 0) {
				n++
				switch x := core.Strip(o).(type) {
				case *ssa.Parameter:
					// v itself
				case *ssa.Call:
					// h.Hashcode() on the asserted parameter
					okc := false
					if x.Common().IsInvoke() && x.Common().Method.Name() == "Hashcode" {
						recv := x.Common().Value
						if e, isE := recv.(*ssa.Extract); isE {
							recv = e.Tuple
						}
						if ta, isT := recv.(*ssa.TypeAssert); isT && core.Strip(ta.X) == ssa.Value(hc.Params[0]) {
							okc = true
						}
					}
					if !okc {
						bad = "returns " + core.Path(o)
					}
				default:
					bad = "returns " + core.Path(o)
				}
			}
		}
		// no loop (hashing the hashcode again merges a vertex with whatever its hashcode happens to be)
		if len(naturalLoops(hc)) > 0 {
			bad = "the hashcode is computed in a loop"
		}
		c.R.Add("MIRROR-KEY", "hashcode|verbatim", core.FuncName(hc), p.Pos(hc.Pos()), bad == "" && n > 0,
			"a vertex is identified by exactly its Hashcode() when it has one and by itself otherwise — the identity is not folded, trimmed, digested or hashed again",
			ternary(bad == "", fmt.Sprintf("%d return(s): the Hashcode() result or the vertex", n), bad))
		if vid := p.Func(p.Graph, "VertexID"); vid != nil {
			okv := false
			for _, r := range core.Returns(vid) {
				if cl, ok := core.Strip(r.Results[0]).(*ssa.Call); ok && cl.Common().StaticCallee() == hc && len(core.Returns(vid)) == 1 && core.Strip(cl.Common().Args[0]) == ssa.Value(vid.Params[0]) {
					okv = true
				}
			}
			c.R.Add("MIRROR-KEY", "VertexID|is-hashcode", core.FuncName(vid), p.Pos(vid.Pos()), okv, "the exported vertex identity is the internal one", fmt.Sprintf("ok=%v", okv))
		}
	}
	gf, err := c.graphFieldRoles()
	if err != nil {
		return
	}
	// Vertices
	if vs := p.Method(p.Graph, "Graph", "Vertices"); vs != nil {
		c.R.Func(core.FuncName(vs))
		bad, n := "", 0
		for _, r := range core.Returns(vs) {
			for _, ap := range appendSites(vs, r.Results[0]) {
				for _, e := range appendedValues(ap) {
					n++
					ex, isE := e.(*ssa.Extract)
					okE := false
					if isE && ex.Index == 2 {
						if nx, ok := ex.Tuple.(*ssa.Next); ok {
							if rg, ok := nx.Iter.(*ssa.Range); ok {
								if ref := c.classifyMap(gf, rg.X); ref.level == "hash" && core.Strip(ref.base) == ssa.Value(vs.Params[0]) {
									okE = true
								}
							}
						}
					}
					if !okE {
						bad = "an element comes from " + core.Path(e)
					}
					for _, l := range core.Lits(core.Guards(ap.Block())) {
						if !core.IsLoopBound(l) {
							bad = "the append is filtered by " + l.String()
						}
					}
				}
			}
		}
		if n == 0 && bad == "" {
			bad = "no append of the vertex table's values found"
		}
		c.R.Add("MIRROR-VERT", "Vertices|complete", core.FuncName(vs), p.Pos(vs.Pos()), bad == "",
			"Vertices returns every entry of the vertex table, taken from the table itself and unfiltered (callers replace, prune and plan over this list)", ternary(bad == "", fmt.Sprintf("%d append(s) of range values of the table", n), bad))
	}
	// AddEdge
	if ae := p.Method(p.Graph, "Graph", "AddEdge"); ae != nil {
		c.R.Func(core.FuncName(ae))
		okA, why := false, "no call of the weighted form"
		// the private step the weighted form itself writes through (`g.link(h1, h2, weight)`), when both share it
		var linkStep *ssa.Function
		if aw := p.Method(p.Graph, "Graph", "AddEdgeWeighted"); aw != nil {
			for _, ci := range core.Calls(aw) {
				if h := ci.Common().StaticCallee(); h != nil && p.PrivateHelper(h) && len(ci.Common().Args) == 4 {
					linkStep = h
				}
			}
		}
		for _, ci := range core.Calls(ae) {
			if linkStep == nil || ci.Common().StaticCallee() != linkStep {
				continue
			}
			a := ci.Common().Args
			k, isK := core.ConstInt(a[3])
			h1, ok1 := p.IsHashcodeCall(core.Strip(a[1]))
			h2, ok2 := p.IsHashcodeCall(core.Strip(a[2]))
			straight := ok1 && ok2 && core.Strip(h1.Common().Args[0]) == ssa.Value(ae.Params[1]) && core.Strip(h2.Common().Args[0]) == ssa.Value(ae.Params[2])
			guards := core.Lits(core.Guards(ci.Block()))
			switch {
			case len(guards) > 0:
				why = "the edge is written only under " + guards[0].String()
			case !isK || k != 1 || !straight:
				why = "the link step is not called with (hashcode(v1), hashcode(v2), 1)"
			default:
				okA, why = true, "the weighted form's own link step with (hashcode(v1), hashcode(v2), 1) on every path"
			}
		}
		for _, ci := range core.Calls(ae, core.GAddEdgeW) {
			a := ci.Common().Args
			k, isK := core.ConstInt(a[3])
			straight := core.Strip(a[0]) == ssa.Value(ae.Params[0]) && core.Strip(a[1]) == ssa.Value(ae.Params[1]) && core.Strip(a[2]) == ssa.Value(ae.Params[2])
			guards := core.Lits(core.Guards(ci.Block()))
			switch {
			case len(guards) > 0:
				why = "the edge is written only under " + guards[0].String()
			case !isK || k != 1 || !straight:
				why = "the weighted form is not called with (v1, v2, 1)"
			default:
				okA, why = true, "AddEdgeWeighted(v1, v2, 1) on every path"
			}
		}
		c.R.Add("MIRROR-EDGE", "AddEdge|unconditional", core.FuncName(ae), p.Pos(ae.Pos()), okA,
			"AddEdge always writes the edge with weight 1, also when the two vertices are already linked (the last weight set is the one used)", why)
	}
	// EdgeToPath
	if ep := p.Method(p.Graph, "Graph", "EdgeToPath"); ep != nil && len(ep.Params) >= 3 {
		mp := ep.Params[2]
		mut := ""
		p.RegionInstrs(ep, func(in ssa.Instruction) {
			switch x := in.(type) {
			case *ssa.MapUpdate:
				if core.Strip(p.Bind(x.Map)) == ssa.Value(mp) || core.Strip(x.Map) == ssa.Value(mp) {
					mut = "stores into the predecessor map at " + p.InstrPos(in)
				}
			case *ssa.Call:
				if core.CalleeName(x.Common()) == "builtin.delete" && (core.Strip(x.Common().Args[0]) == ssa.Value(mp) || core.Strip(p.Bind(x.Common().Args[0])) == ssa.Value(mp)) {
					mut = "deletes from the predecessor map at " + p.InstrPos(in)
				}
			}
		})
		c.R.Add("HEAP-PATH", "walk|map-read-only", core.FuncName(ep), p.Pos(ep.Pos()), mut == "",
			"following the predecessor map does not modify it (a second path taken from the same search result must still be whole)", ternary(mut == "", "read-only", mut))
		// the walk loop: the loop whose header tests the cursor against nil; no other way out of it
		exits := ""
		for _, lp := range naturalLoops(ep) {
			hd := lp.header
			iff, ok := hd.Instrs[len(hd.Instrs)-1].(*ssa.If)
			if !ok {
				continue
			}
			b, isB := iff.Cond.(*ssa.BinOp)
			if !isB || (b.Op != token.NEQ && b.Op != token.EQL) || !(core.IsNilConst(b.X) || core.IsNilConst(b.Y)) {
				continue
			}
			for blk := range lp.body {
				for _, s := range blk.Succs {
					if !lp.body[s] && blk != hd {
						exits = "the walk can also be left at " + p.InstrPos(blk.Instrs[len(blk.Instrs)-1])
					}
				}
				for _, in := range blk.Instrs {
					if _, isRet := in.(*ssa.Return); isRet {
						exits = "the walk returns early at " + p.InstrPos(in)
					}
				}
			}
			// the header condition itself is the nil test only (no conjunction evaluated in another header block)
			if len(hd.Preds) > 0 {
				for _, pr := range hd.Preds {
					_ = pr
				}
			}
		}
		c.R.Add("HEAP-PATH", "walk|only-exit", core.FuncName(ep), p.Pos(ep.Pos()), exits == "",
			"the predecessor walk ends only where a vertex has no predecessor (no step budget, no early return: a map without an entry for the source is walked to its end all the same)", ternary(exits == "", "single exit at the nil test", exits))
	}
}
