package rules

import (
	"fmt"
	"go/token"
	"strings"

	"argverif/internal/core"

	"golang.org/x/tools/go/ssa"
)

// Small helpers of package graph on which every other rule silently relies (round 11, DESIGN §7.16):
//
//	MIRROR-KEY  hashcode|verbatim        the identity of a vertex is v.Hashcode() for a hashable vertex and v itself
//	                                     otherwise — nothing derived (no case folding, trimming, digest, repeated hashing)
//	MIRROR-KEY  VertexID|is-hashcode     the exported identity is that very function's result
//	MIRROR-VERT Vertices|complete        every entry of the vertex table is returned, unfiltered
//	MIRROR-EDGE AddEdge|unconditional    the unweighted form always (re)writes the edge with weight 1
//	HEAP-PATH   walk|only-exit / walk|map-read-only   the predecessor walk ends only where there is no predecessor
//	                                     and does not modify the map it is handed
func runGraphHelpers(c *Ctx) {
	p := c.P
	// a list that a graph function builds by appending and hands back starts empty: `make([]Vertex, 1, n)` would put a
	// nil vertex in front of what Vertices or KahnSort report
	for _, f := range p.GraphFuncs() {
		nList := 0
		core.Instrs(f, func(in ssa.Instruction) {
			mk, ok := in.(*ssa.MakeSlice)
			if !ok {
				return
			}
			appended := false
			for _, ref := range *mk.Referrers() {
				if cl, isC := ref.(*ssa.Call); isC && core.CalleeName(cl.Common()) == "builtin.append" && len(cl.Common().Args) > 0 && cl.Common().Args[0] == ssa.Value(mk) {
					appended = true
				}
				// stored in a variable that is appended onto later
				if st, isSt := ref.(*ssa.Store); isSt && st.Val == ssa.Value(mk) {
					if al, isAl := st.Addr.(*ssa.Alloc); isAl {
						for _, r2 := range *al.Referrers() {
							if ld, isLd := r2.(*ssa.UnOp); isLd {
								for _, r3 := range *ld.Referrers() {
									if cl, isC := r3.(*ssa.Call); isC && core.CalleeName(cl.Common()) == "builtin.append" && cl.Common().Args[0] == ssa.Value(ld) {
										appended = true
									}
								}
							}
						}
					}
				}
			}
			// through a phi (loop-carried list)
			for _, ref := range *mk.Referrers() {
				if ph, isPhi := ref.(*ssa.Phi); isPhi {
					for _, r2 := range *ph.Referrers() {
						if cl, isC := r2.(*ssa.Call); isC && core.CalleeName(cl.Common()) == "builtin.append" && cl.Common().Args[0] == ssa.Value(ph) {
							appended = true
						}
					}
				}
			}
			if !appended {
				return
			}
			k, isK := core.ConstInt(mk.Len)
			rule := "MIRROR-VERT"
			if strings.Contains(core.FuncName(f), "Kahn") {
				rule = "KAHN"
			}
			c.R.Func(core.FuncName(f))
			nList++
			c.R.Add(rule, fmt.Sprintf("appended-list-starts-empty|%s#%d", core.FuncName(f), nList), core.FuncName(f), p.InstrPos(mk), isK && k == 0,
				"a list built by appending starts empty (nothing but what is appended is reported)", ternary(isK && k == 0, "length 0", "made with length "+core.Path(mk.Len)))
		})
	}
	hc := p.HashcodeFn()
	if hc == nil {
		c.R.Undecided("MIRROR-KEY", "hashcode", "(graph)", "-", "the vertex hashing function was not found")
	} else {
		c.R.Func(core.FuncName(hc))
		bad, n := "", 0
		for _, r := range core.Returns(hc) {
			for _, o := range core.ReturnOperand(r, 0) {
				n++
				switch x := core.Strip(o).(type) {
				case *ssa.Parameter:
					// v itself
				case *ssa.Call:
					// h.Hashcode() on the asserted parameter
					okc := false
					if x.Common().IsInvoke() && x.Common().Method.Name() == "Hashcode" {
						recv := x.Common().Value
						if e, isE := recv.(*ssa.Extract); isE {
							recv = e.Tuple
						}
						if ta, isT := recv.(*ssa.TypeAssert); isT && core.Strip(ta.X) == ssa.Value(hc.Params[0]) {
							okc = true
						}
					}
					if !okc {
						bad = "returns " + core.Path(o)
					}
				default:
					bad = "returns " + core.Path(o)
				}
			}
		}
		// no loop (hashing the hashcode again merges a vertex with whatever its hashcode happens to be)
		if len(naturalLoops(hc)) > 0 {
			bad = "the hashcode is computed in a loop"
		}
		c.R.Add("MIRROR-KEY", "hashcode|verbatim", core.FuncName(hc), p.Pos(hc.Pos()), bad == "" && n > 0,
			"a vertex is identified by exactly its Hashcode() when it has one and by itself otherwise — the identity is not folded, trimmed, digested or hashed again",
			ternary(bad == "", fmt.Sprintf("%d return(s): the Hashcode() result or the vertex", n), bad))
		if vid := p.Func(p.Graph, "VertexID"); vid != nil {
			okv := false
			for _, r := range core.Returns(vid) {
				if cl, ok := core.Strip(r.Results[0]).(*ssa.Call); ok && cl.Common().StaticCallee() == hc && len(core.Returns(vid)) == 1 && core.Strip(cl.Common().Args[0]) == ssa.Value(vid.Params[0]) {
					okv = true
				}
			}
			c.R.Add("MIRROR-KEY", "VertexID|is-hashcode", core.FuncName(vid), p.Pos(vid.Pos()), okv, "the exported vertex identity is the internal one", fmt.Sprintf("ok=%v", okv))
		}
	}
	gf, err := c.graphFieldRoles()
	if err != nil {
		return
	}
	// Vertices
	if vs := p.Method(p.Graph, "Graph", "Vertices"); vs != nil {
		c.R.Func(core.FuncName(vs))
		bad, n := "", 0
		for _, r := range core.Returns(vs) {
			for _, ap := range appendSites(vs, r.Results[0]) {
				for _, e := range appendedValues(ap) {
					n++
					ex, isE := e.(*ssa.Extract)
					okE := false
					if isE && ex.Index == 2 {
						if nx, ok := ex.Tuple.(*ssa.Next); ok {
							if rg, ok := nx.Iter.(*ssa.Range); ok {
								if ref := c.classifyMap(gf, rg.X); ref.level == "hash" && core.Strip(ref.base) == ssa.Value(vs.Params[0]) {
									okE = true
								}
							}
						}
					}
					if !okE {
						bad = "an element comes from " + core.Path(e)
					}
					for _, l := range core.Lits(core.Guards(ap.Block())) {
						if !core.IsLoopBound(l) {
							bad = "the append is filtered by " + l.String()
						}
					}
				}
			}
		}
		if n == 0 && bad == "" {
			bad = "no append of the vertex table's values found"
		}
		c.R.Add("MIRROR-VERT", "Vertices|complete", core.FuncName(vs), p.Pos(vs.Pos()), bad == "",
			"Vertices returns every entry of the vertex table, taken from the table itself and unfiltered (callers replace, prune and plan over this list)", ternary(bad == "", fmt.Sprintf("%d append(s) of range values of the table", n), bad))
	}
	// OutEdges / InEdges: one table entry per key of the vertex's adjacency set
	for _, name := range []string{"OutEdges", "InEdges"} {
		ne := p.Method(p.Graph, "Graph", name)
		if ne == nil {
			continue
		}
		c.R.Func(core.FuncName(ne))
		bad, n := "", 0
		// the map a range runs over, seen through the parameter of a private step
		var rangedMaps func(v ssa.Value, d int) []ssa.Value
		rangedMaps = func(v ssa.Value, d int) []ssa.Value {
			if prm, ok := v.(*ssa.Parameter); ok && d < 3 && p.PrivateHelper(prm.Parent()) {
				var out []ssa.Value
				idx := -1
				for i, q := range prm.Parent().Params {
					if q == prm {
						idx = i
					}
				}
				for _, s := range p.Callers(prm.Parent()) {
					if idx >= 0 && idx < len(s.Common().Args) {
						out = append(out, rangedMaps(s.Common().Args[idx], d+1)...)
					}
				}
				return out
			}
			return []ssa.Value{v}
		}
		for _, r := range core.Returns(ne) {
			for _, ap := range appendSites(ne, r.Results[0]) {
				for _, e := range appendedValues(ap) {
					n++
					okE := false
					var lk *ssa.Lookup
					switch x := core.Strip(e).(type) {
					case *ssa.Lookup:
						lk = x
					case *ssa.Extract:
						lk, _ = x.Tuple.(*ssa.Lookup)
					}
					if lk != nil {
						if ref := c.classifyMap(gf, lk.X); ref.level == "hash" {
							if kx, ok := core.Strip(lk.Index).(*ssa.Extract); ok && kx.Index == 1 {
								if nx, ok := kx.Tuple.(*ssa.Next); ok {
									if rg, ok := nx.Iter.(*ssa.Range); ok {
										okE = true
										for _, m := range rangedMaps(rg.X, 0) {
											if ar := c.classifyMap(gf, m); ar.level != "inner" {
												okE = false
											}
										}
									}
								}
							}
						}
					}
					if !okE {
						bad = "an element is " + core.Path(e) + ", not the vertex table's entry for a key of the adjacency set"
					}
					for _, l := range core.Lits(core.Guards(ap.Block())) {
						if core.IsLoopBound(l) {
							continue
						}
						// "the set is not empty" (an early return of nil for a vertex without neighbours)
						if l.Kind == "cmp" && (l.Op == token.EQL || l.Op == token.NEQ || l.Op == token.GTR) {
							if cl, ok := core.Strip(l.X).(*ssa.Call); ok && core.CalleeName(cl.Common()) == "builtin.len" {
								if k, isK := core.ConstInt(l.Y); isK && k == 0 {
									if ar := c.classifyMap(gf, core.Strip(cl.Common().Args[0])); ar.level == "inner" {
										continue
									}
									if _, isP := core.Strip(cl.Common().Args[0]).(*ssa.Parameter); isP {
										continue
									}
								}
							}
							if core.IsNilConst(l.Y) || core.IsNilConst(l.X) {
								continue
							}
						}
						bad = "the append is filtered by " + l.String()
					}
				}
			}
		}
		if n == 0 && bad == "" {
			bad = "no append of vertex table entries found"
		}
		c.R.Add("MIRROR-VERT", name+"|complete", core.FuncName(ne), p.Pos(ne.Pos()), bad == "",
			name+" returns the vertex table's entry for every key of the vertex's adjacency set — one per neighbour, none passed over, none twice (two neighbours may print alike)",
			ternary(bad == "", fmt.Sprintf("%d append(s) of table entries by adjacency key", n), bad))
	}
	// AddEdge
	if ae := p.Method(p.Graph, "Graph", "AddEdge"); ae != nil {
		c.R.Func(core.FuncName(ae))
		okA, why := false, "no call of the weighted form"
		// the private step the weighted form itself writes through (`g.link(h1, h2, weight)`), when both share it
		var linkStep *ssa.Function
		if aw := p.Method(p.Graph, "Graph", "AddEdgeWeighted"); aw != nil {
			for _, ci := range core.Calls(aw) {
				if h := ci.Common().StaticCallee(); h != nil && p.PrivateHelper(h) && len(ci.Common().Args) == 4 {
					linkStep = h
				}
			}
		}
		for _, ci := range core.Calls(ae) {
			if linkStep == nil || ci.Common().StaticCallee() != linkStep {
				continue
			}
			a := ci.Common().Args
			k, isK := core.ConstInt(a[3])
			h1, ok1 := p.IsHashcodeCall(core.Strip(a[1]))
			h2, ok2 := p.IsHashcodeCall(core.Strip(a[2]))
			straight := ok1 && ok2 && core.Strip(h1.Common().Args[0]) == ssa.Value(ae.Params[1]) && core.Strip(h2.Common().Args[0]) == ssa.Value(ae.Params[2])
			guards := core.Lits(core.Guards(ci.Block()))
			switch {
			case len(guards) > 0:
				why = "the edge is written only under " + guards[0].String()
			case !isK || k != 1 || !straight:
				why = "the link step is not called with (hashcode(v1), hashcode(v2), 1)"
			default:
				okA, why = true, "the weighted form's own link step with (hashcode(v1), hashcode(v2), 1) on every path"
			}
		}
		for _, ci := range core.Calls(ae, core.GAddEdgeW) {
			a := ci.Common().Args
			k, isK := core.ConstInt(a[3])
			straight := core.Strip(a[0]) == ssa.Value(ae.Params[0]) && core.Strip(a[1]) == ssa.Value(ae.Params[1]) && core.Strip(a[2]) == ssa.Value(ae.Params[2])
			guards := core.Lits(core.Guards(ci.Block()))
			switch {
			case len(guards) > 0:
				why = "the edge is written only under " + guards[0].String()
			case !isK || k != 1 || !straight:
				why = "the weighted form is not called with (v1, v2, 1)"
			default:
				okA, why = true, "AddEdgeWeighted(v1, v2, 1) on every path"
			}
		}
		c.R.Add("MIRROR-EDGE", "AddEdge|unconditional", core.FuncName(ae), p.Pos(ae.Pos()), okA,
			"AddEdge always writes the edge with weight 1, also when the two vertices are already linked (the last weight set is the one used)", why)
	}
	// EdgeToPath
	if ep := p.Method(p.Graph, "Graph", "EdgeToPath"); ep != nil && len(ep.Params) >= 3 {
		mp := ep.Params[2]
		mut := ""
		p.RegionInstrs(ep, func(in ssa.Instruction) {
			switch x := in.(type) {
			case *ssa.MapUpdate:
				if core.Strip(p.Bind(x.Map)) == ssa.Value(mp) || core.Strip(x.Map) == ssa.Value(mp) {
					mut = "stores into the predecessor map at " + p.InstrPos(in)
				}
			case *ssa.Call:
				if core.CalleeName(x.Common()) == "builtin.delete" && (core.Strip(x.Common().Args[0]) == ssa.Value(mp) || core.Strip(p.Bind(x.Common().Args[0])) == ssa.Value(mp)) {
					mut = "deletes from the predecessor map at " + p.InstrPos(in)
				}
			}
		})
		c.R.Add("HEAP-PATH", "walk|map-read-only", core.FuncName(ep), p.Pos(ep.Pos()), mut == "",
			"following the predecessor map does not modify it (a second path taken from the same search result must still be whole)", ternary(mut == "", "read-only", mut))
		// the walk loop: the loop whose header tests the cursor against nil; no other way out of it
		exits := ""
		for _, lp := range naturalLoops(ep) {
			hd := lp.header
			iff, ok := hd.Instrs[len(hd.Instrs)-1].(*ssa.If)
			if !ok {
				continue
			}
			b, isB := iff.Cond.(*ssa.BinOp)
			if !isB || (b.Op != token.NEQ && b.Op != token.EQL) || !(core.IsNilConst(b.X) || core.IsNilConst(b.Y)) {
				continue
			}
			for blk := range lp.body {
				for _, s := range blk.Succs {
					if !lp.body[s] && blk != hd {
						exits = "the walk can also be left at " + p.InstrPos(blk.Instrs[len(blk.Instrs)-1])
					}
				}
				for _, in := range blk.Instrs {
					if _, isRet := in.(*ssa.Return); isRet {
						exits = "the walk returns early at " + p.InstrPos(in)
					}
				}
			}
			// the header condition itself is the nil test only (no conjunction evaluated in another header block)
			if len(hd.Preds) > 0 {
				for _, pr := range hd.Preds {
					_ = pr
				}
			}
		}
		// what is returned is what the walk collected, whatever its length: a path of one vertex is the source's own path
		{
			badRet := ""
			nret := 0
			var appends []*ssa.BasicBlock
			core.Instrs(ep, func(in ssa.Instruction) {
				if cl, ok := in.(*ssa.Call); ok && core.CalleeName(cl.Common()) == "builtin.append" {
					appends = append(appends, cl.Block())
				}
			})
			afterAppend := func(b *ssa.BasicBlock) bool {
				for _, ab := range appends {
					if ab == b || core.ReachableAvoiding(ab, b, nil) {
						return true
					}
				}
				return false
			}
			// a nil that arrives at a return over an edge that lies after an append throws the collected vertices away
			var nilAfter func(v ssa.Value, at *ssa.BasicBlock, d int) bool
			seenPhi := map[*ssa.Phi]bool{}
			nilAfter = func(v ssa.Value, at *ssa.BasicBlock, d int) bool {
				if d > 6 {
					return false
				}
				switch x := core.Strip(v).(type) {
				case *ssa.Const:
					return x.Value == nil && afterAppend(at)
				case *ssa.Phi:
					if seenPhi[x] {
						return false
					}
					seenPhi[x] = true
					for i, e := range x.Edges {
						if i < len(x.Block().Preds) && nilAfter(e, x.Block().Preds[i], d+1) {
							return true
						}
					}
				}
				return false
			}
			for _, r := range core.Returns(ep) {
				if len(r.Results) != 1 {
					continue
				}
				nret++
				if nilAfter(r.Results[0], r.Block(), 0) {
					badRet = "returns nil at " + p.InstrPos(r) + " after vertices were collected"
				}
			}
			c.R.Add("HEAP-PATH", "walk|returns-what-it-collected", core.FuncName(ep), p.Pos(ep.Pos()), badRet == "" && nret > 0,
				"EdgeToPath returns the vertices the walk collected, of whatever number (the source's own path is the source alone; a one-vertex result is not `no path`)", ternary(badRet == "", "every return hands back the collected list", badRet))
		}
		c.R.Add("HEAP-PATH", "walk|only-exit", core.FuncName(ep), p.Pos(ep.Pos()), exits == "",
			"the predecessor walk ends only where a vertex has no predecessor (no step budget, no early return: a map without an entry for the source is walked to its end all the same)", ternary(exits == "", "single exit at the nil test", exits))
	}
}
