package rules

import (
	"fmt"
	"go/token"
	"go/types"

	"argverif/internal/core"

	"golang.org/x/tools/go/ssa"
)

// DFSV / KAHN — traversal clauses of C20. Tarjan's partition and the DAG
// relaxation's agreement with Dijkstra are not decided here.

func init() {
	register(&Engine{
		Name:  "DFSV",
		Doc:   "visited-set discipline of DFS; copy-only mutation and leftover-edge scan of KahnSort",
		Run:   runDFSV,
		Floor: map[string]int{"DFSV": 6, "KAHN": 5},
	})
}

func runDFSV(c *Ctx) {
	p := c.P
	gf, err := c.graphFieldRoles()
	if err != nil {
		c.R.Undecided("DFSV", "fields", "graph.Graph", "-", err.Error())
		return
	}
	DFS := p.Method(p.Graph, "Graph", "DFS")
	if DFS == nil {
		c.R.Undecided("DFSV", "DFS", "Graph.DFS", "-", "exported method (*Graph).DFS not found")
		return
	}
	// helper = the in-package static callee of DFS
	var helper *ssa.Function
	var entryCall ssa.CallInstruction
	for _, call := range core.Calls(DFS) {
		if cal := call.Common().StaticCallee(); cal != nil && p.InTarget(cal) && cal != p.HashcodeFn() {
			helper, entryCall = cal, call
		}
	}
	if helper == nil {
		c.R.Undecided("DFSV", "helper", "Graph.DFS", p.Pos(DFS.Pos()), "DFS does not delegate to a recursive helper (different shape: undecidable by this rule)")
		return
	}
	hn := core.FuncName(helper)
	c.R.Func(core.FuncName(DFS), hn)

	// the traversal state by type: callback (func type), visited (map), vertex hash (interface). Callback and visited
	// set are either parameters of the helper or fields of one state struct it receives (`type walk struct{g, cb, visited}`).
	type slot struct {
		prm   *ssa.Parameter
		field string // "" = the parameter itself
	}
	var sCB, sVis slot
	var pV *ssa.Parameter
	first := 0
	if helper.Signature.Recv() != nil {
		first = 1
	}
	for _, prm := range helper.Params[first:] {
		switch prm.Type().Underlying().(type) {
		case *types.Signature:
			sCB = slot{prm: prm}
		case *types.Map:
			sVis = slot{prm: prm}
		case *types.Interface:
			pV = prm
		}
	}
	var stateParams []*ssa.Parameter
	for _, prm := range helper.Params {
		if st, n := core.StructOf(prm.Type()); st != nil && n != nil && core.NamedOf(prm.Type()) != "graph.Graph" {
			stateParams = append(stateParams, prm)
			for i := 0; i < st.NumFields(); i++ {
				switch st.Field(i).Type().Underlying().(type) {
				case *types.Signature:
					if sCB.prm == nil {
						sCB = slot{prm, core.CanonFieldName(st, i)}
					}
				case *types.Map:
					if sVis.prm == nil {
						sVis = slot{prm, core.CanonFieldName(st, i)}
					}
				}
			}
		}
	}
	if sCB.prm == nil || sVis.prm == nil || pV == nil {
		c.R.Undecided("DFSV", "params", hn, p.Pos(helper.Pos()), "helper parameters (callback, visited map, vertex) not recognised")
		return
	}
	// values are compared after binding the parameters of the walker's private steps (a `discovered(w)` predicate, a
	// `descend(w)` step that builds the next function) to what the walker hands them
	isParam := func(v ssa.Value, prm *ssa.Parameter) bool {
		for _, s := range core.Sources(v) {
			if s != prm && p.Bind(core.Strip(s)) != ssa.Value(prm) {
				return false
			}
		}
		return true
	}
	isSlot := func(v ssa.Value, sl slot) bool {
		if sl.field == "" {
			return isParam(v, sl.prm)
		}
		srcs := core.Sources(v)
		if len(srcs) == 0 {
			return false
		}
		for _, s := range srcs {
			fr, ok := core.AsFieldLoad(s)
			if !ok || fr.Field != sl.field || !isParam(fr.Base, sl.prm) {
				return false
			}
		}
		return true
	}
	pCB, pVis := sCB, sVis

	// V7: entry call passes a fresh map and hashcode(start)
	{
		a := entryCall.Common().Args
		freshMap, hashed := false, false
		for _, x := range a {
			if _, ok := x.(*ssa.MakeMap); ok {
				freshMap = true
			}
			if call, ok := p.IsHashcodeCall(x); ok && core.Strip(call.Common().Args[0]) == DFS.Params[1] {
				hashed = true
			}
			// a state struct built for this call: its visited field is a fresh map
			if al, ok := core.Root(x).(*ssa.Alloc); ok && sVis.field != "" {
				for _, ref := range *al.Referrers() {
					if fa, ok := ref.(*ssa.FieldAddr); ok {
						if fr, _ := core.AsFieldAddr(fa); fr.Field == sVis.field {
							for _, r2 := range *fa.Referrers() {
								if st, ok := r2.(*ssa.Store); ok {
									if _, isMk := st.Val.(*ssa.MakeMap); isMk {
										freshMap = true
									}
								}
							}
						}
					}
				}
			}
		}
		c.R.Add("DFSV", "entry", core.FuncName(DFS), p.InstrPos(entryCall), freshMap && hashed,
			"DFS starts the helper with a fresh visited set and the hash of the start vertex", fmt.Sprintf("fresh-map=%v hashcode(start)=%v", freshMap, hashed))
	}

	// state-struct form: the traversal state is set up once by DFS and never re-assigned during the walk
	if len(stateParams) > 0 && (sCB.field != "" || sVis.field != "") {
		bad := ""
		for _, fn := range core.WithNested(helper) {
			core.Instrs(fn, func(in ssa.Instruction) {
				if st, ok := in.(*ssa.Store); ok {
					if fr, ok := core.AsFieldAddr(st.Addr); ok && (fr.Field == sCB.field || fr.Field == sVis.field) {
						if _, n := core.StructOf(fr.Base.Type()); n != nil && core.NamedOf(fr.Base.Type()) == core.NamedOf(stateParams[0].Type()) {
							bad = "store to " + fr.Owner + "." + fr.Field + " at " + p.InstrPos(in)
						}
					}
				}
			})
		}
		c.R.Add("DFSV", "state-not-reassigned", hn, p.Pos(helper.Pos()), bad == "", "the callback and the visited set of one traversal are fixed for the whole walk", ternary(bad == "", "no store to the state fields during the walk", bad))
	}

	// V1: visited[v] stored before successors are iterated
	var mark *ssa.MapUpdate
	core.Instrs(helper, func(in ssa.Instruction) {
		if mu, ok := in.(*ssa.MapUpdate); ok && core.SetInsert(mu) && isSlot(mu.Map, pVis) && isParam(mu.Key, pV) {
			mark = mu
		}
	})
	var rng *ssa.Range
	core.Instrs(helper, func(in ssa.Instruction) {
		if r, ok := in.(*ssa.Range); ok {
			src := c.classifyMap(gf, r.X)
			if src.level == "inner" && src.field == "out" && src.keyV != nil && isParam(src.keyV, pV) {
				rng = r
			}
		}
	})
	c.R.Add("DFSV", "mark-before-iterate", hn, p.Pos(helper.Pos()), mark != nil && rng != nil && core.InstrDominates(mark, rng),
		"visited[v] is stored before the successors (out-adjacency of v) are iterated", fmt.Sprintf("mark=%v successors-loop=%v", mark != nil, rng != nil))
	if rng == nil {
		return
	}

	// the callback call
	var cbCall *ssa.Call
	core.Instrs(helper, func(in ssa.Instruction) {
		if call, ok := in.(*ssa.Call); ok && !call.Common().IsInvoke() && call.Common().StaticCallee() == nil {
			if isSlot(call.Common().Value, pCB) {
				cbCall = call
			}
		}
	})
	if cbCall == nil {
		c.R.Add("DFSV", "callback", hn, p.Pos(helper.Pos()), false, "the helper calls the callback for undiscovered successors", "no callback call found")
		return
	}
	// successor key w
	var wKey ssa.Value
	core.Instrs(helper, func(in ssa.Instruction) {
		if e, ok := in.(*ssa.Extract); ok && e.Index == 1 {
			if n, ok := e.Tuple.(*ssa.Next); ok && n.Iter == rng {
				wKey = e
			}
		}
	})
	isW := func(v ssa.Value) bool {
		for _, s := range core.Sources(v) {
			if s != wKey && p.Bind(core.Strip(s)) != wKey {
				return false
			}
		}
		return wKey != nil
	}
	guarded := false
	for _, l := range p.ExpandLits(core.Lits(core.Guards(cbCall.Block()))) {
		if lk, in, ok := core.MemberLit(l); ok && !in {
			if isSlot(lk.X, pVis) && isW(lk.Index) {
				guarded = true
			}
		}
	}
	c.R.Add("DFSV", "callback-only-undiscovered", hn, p.InstrPos(cbCall), guarded,
		"the callback runs only for successors not yet in the visited set", fmt.Sprintf("guarded=%v", guarded))
	a := cbCall.Common().Args
	argOK := false
	if len(a) == 2 {
		if lk, ok := a[0].(*ssa.Lookup); ok && isW(lk.Index) {
			if r := c.classifyMap(gf, lk.X); r.level == "hash" {
				argOK = true
			}
		}
	}
	c.R.Add("DFSV", "callback-vertex", hn, p.InstrPos(cbCall), argOK, "the callback receives the vertex registered for the successor's hash", fmt.Sprintf("ok=%v", argOK))

	// V4/V5: descent only through the next closure, with the same graph, callback, visited set and w
	direct := 0
	for _, call := range core.Calls(helper) {
		if call.Common().StaticCallee() == helper {
			direct++
		}
	}
	closureOK := false
	if len(a) == 2 {
		// the next function: a literal made here, or the one literal a private step returns
		var mc *ssa.MakeClosure
		for _, sv := range p.ISources(a[1]) {
			if m, ok := sv.(*ssa.MakeClosure); ok {
				if mc != nil && mc != m {
					mc = nil
					break
				}
				mc = m
			}
		}
		if mc != nil {
			fn := mc.Fn.(*ssa.Function)
			c.R.Func(core.FuncName(fn))
			for _, call := range core.Calls(fn) {
				if call.Common().StaticCallee() != helper {
					continue
				}
				ra := call.Common().Args
				res := func(v ssa.Value) ssa.Value {
					if d := p.DerefFree(v); d != nil {
						return d
					}
					return v
				}
				okAll := len(ra) == len(helper.Params)
				for i, prm := range helper.Params {
					if !okAll {
						break
					}
					got := res(ra[i])
					switch {
					case prm == pV:
						okAll = isW(got)
					case prm == sCB.prm && sCB.field == "":
						okAll = isSlot(got, sCB)
					case prm == sVis.prm && sVis.field == "":
						okAll = isSlot(got, sVis)
					default:
						okAll = isParam(got, prm)
					}
				}
				// the closure returns the recursive result
				retOK := false
				for _, r := range core.Returns(fn) {
					if len(r.Results) == 1 && r.Results[0] == call.Value() {
						retOK = true
					}
				}
				closureOK = okAll && retOK
			}
		}
	}
	c.R.Add("DFSV", "descent-only-via-next", hn, p.InstrPos(cbCall), direct == 0 && closureOK,
		"recursion happens only inside the `next` closure handed to the callback, on the same graph/callback/visited set and the successor's hash, and its result is returned",
		fmt.Sprintf("direct-recursive-calls=%d next-closure-ok=%v", direct, closureOK))
	// V6: callback error returned
	errRet := false
	for _, r := range core.Returns(helper) {
		if len(r.Results) == 1 && r.Results[0] == cbCall {
			for _, l := range core.Lits(core.Guards(r.Block())) {
				if l.Kind == "cmp" && !l.Pol && (l.X == ssa.Value(cbCall) || l.Y == ssa.Value(cbCall)) {
					errRet = true
				}
			}
		}
	}
	c.R.Add("DFSV", "callback-error-returned", hn, p.InstrPos(cbCall), errRet, "a non-nil callback error stops the traversal and is returned", fmt.Sprintf("ok=%v", errRet))

	runKahn(c, gf)
}

func runKahn(c *Ctx, gf *graphFields) {
	p := c.P
	ks := p.Method(p.Graph, "Graph", "KahnSort")
	if ks == nil {
		c.R.Undecided("KAHN", "KahnSort", "Graph.KahnSort", "-", "exported method (*Graph).KahnSort not found")
		return
	}
	name := core.FuncName(ks)
	c.R.Func(name)
	recv := ks.Params[0]
	// K1: works on a private copy only
	var cp *ssa.Call
	for _, call := range core.Calls(ks, core.GCopy) {
		if call.Common().Args[0] == recv {
			cp, _ = call.(*ssa.Call)
		}
	}
	usesRecv := false
	core.Instrs(ks, func(in ssa.Instruction) {
		if fa, ok := in.(*ssa.FieldAddr); ok && fa.X == recv {
			usesRecv = true
		}
		if call, ok := in.(ssa.CallInstruction); ok && call != ssa.CallInstruction(cp) {
			for _, a := range call.Common().Args {
				if a == recv {
					usesRecv = true
				}
			}
		}
	})
	c.R.Add("KAHN", "copy-only", name, p.Pos(ks.Pos()), cp != nil && !usesRecv,
		"KahnSort copies the graph first and never touches the receiver afterwards", fmt.Sprintf("copy=%v receiver-used=%v", cp != nil, usesRecv))
	if cp == nil {
		return
	}
	onCopy := func(base ssa.Value) bool {
		b := core.Strip(base)
		if prm, isPrm := b.(*ssa.Parameter); isPrm {
			b = core.Strip(p.Bind(prm)) // a private step of KahnSort that is handed the copy
		}
		return b == ssa.Value(cp)
	}

	// K2: the normal return is dominated by the leftover-edge scan whose positive branch panics
	var pan *ssa.Panic
	p.RegionInstrs(ks, func(in ssa.Instruction) {
		if pp, ok := in.(*ssa.Panic); ok {
			pan = pp
		}
	})
	// when the scan lives in a private step, the step's call in KahnSort stands for it
	inKs := func(b *ssa.BasicBlock) *ssa.BasicBlock {
		f := b.Parent()
		for i := 0; i < 4 && f != ks; i++ {
			sites := p.Callers(f)
			if len(sites) != 1 {
				return nil
			}
			b = sites[0].Block()
			f = b.Parent()
		}
		if f != ks {
			return nil
		}
		return b
	}
	scanOK := false
	var scanHeader *ssa.BasicBlock
	if pan != nil {
		for _, l := range core.Lits(core.Guards(pan.Block())) {
			if l.Kind == "cmp" && ((l.Pol && l.Op == token.GTR) || (!l.Pol && (l.Op == token.EQL || l.Op == token.LEQ))) {
				if k, ok := core.ConstInt(l.Y); ok && k == 0 {
					if call, ok := l.X.(*ssa.Call); ok && core.CalleeName(call.Common()) == "builtin.len" {
						r := c.classifyMap(gf, call.Common().Args[0])
						if r.level == "inner" && r.field == "out" && onCopy(r.base) {
							if n, ok := extractNext(call.Common().Args[0]); ok {
								scanOK = true
								scanHeader = inKs(n.Block())
							}
						}
					}
				}
			}
		}
	}
	// predicate form: `if g.hasEdges() { panic(…) }` with hasEdges ranging over the out-adjacency of what it is handed
	// and answering true exactly when some edge set is non-empty
	if pan != nil && !scanOK {
		for _, l := range core.Lits(core.Guards(pan.Block())) {
			if l.Kind != "call" || !l.Pol || len(l.Args) != 1 || !onCopy(l.Args[0]) {
				continue
			}
			cl, ok := l.Of.(*ssa.Call)
			if !ok {
				continue
			}
			h := cl.Common().StaticCallee()
			if h == nil || !p.PrivateHelper(h) {
				continue
			}
			nTrue, okP := 0, true
			var loopHdr *ssa.BasicBlock
			for _, r := range core.Returns(h) {
				if len(r.Results) != 1 {
					okP = false
					continue
				}
				v, isK := core.ConstBool(r.Results[0])
				if !isK {
					okP = false
					continue
				}
				if v {
					nTrue++
					found := false
					for _, hl := range core.Lits(core.Guards(r.Block())) {
						if hl.Kind == "cmp" && ((hl.Pol && hl.Op == token.GTR) || (!hl.Pol && (hl.Op == token.EQL || hl.Op == token.LEQ))) {
							if k, ok := core.ConstInt(hl.Y); ok && k == 0 {
								if lc, ok := hl.X.(*ssa.Call); ok && core.CalleeName(lc.Common()) == "builtin.len" {
									rr := c.classifyMap(gf, lc.Common().Args[0])
									if rr.level == "inner" && rr.field == "out" && core.Strip(rr.base) == ssa.Value(h.Params[0]) {
										if n, ok := extractNext(lc.Common().Args[0]); ok {
											found = true
											loopHdr = n.Block()
										}
									}
								}
							}
						}
					}
					if !found {
						okP = false
					}
				}
			}
			// the negative answer is given only after the scan ran to its end
			for _, r := range core.Returns(h) {
				if v, isK := core.ConstBool(r.Results[0]); isK && !v && loopHdr != nil && core.Reachable(r.Block(), loopHdr, nil) {
					okP = false
				}
			}
			if okP && nTrue > 0 {
				scanOK = true
				scanHeader = cl.Block()
			}
		}
	}
	retDom := scanOK
	for _, r := range core.Returns(ks) {
		if scanHeader == nil || !scanHeader.Dominates(r.Block()) {
			retDom = false
		}
	}
	c.R.Add("KAHN", "cycle-refused", name, p.Pos(ks.Pos()), scanOK && retDom,
		"every normal return is dominated by a scan over the copy's out-adjacency that panics if any edge is left (cyclic graphs are refused)",
		fmt.Sprintf("scan-with-panic=%v dominates-returns=%v", scanOK, retDom))

	// K3: every popped vertex is appended exactly once (unconditionally in the work-list body)
	// K4: a successor is pushed only when its in-adjacency is empty after the edge was removed
	var rem ssa.CallInstruction
	for _, call := range p.RegionCalls(ks, core.GRemoveEdge) {
		rem = call
	}
	pushOK, appendOK, initOK := false, false, false
	if rem != nil {
		n, m := core.Strip(rem.Common().Args[1]), core.Strip(rem.Common().Args[2])
		// m ranges over out[n] of the copy
		if e, ok := m.(*ssa.Extract); ok {
			if nx, ok := e.Tuple.(*ssa.Next); ok {
				if rg, ok := nx.Iter.(*ssa.Range); ok {
					r := c.classifyMap(gf, rg.X)
					if r.level == "inner" && r.field == "out" && onCopy(r.base) && r.keyV == n {
						// L = append(L, hash[n]) in the block that starts this range — or, when the release of n's successors is a
						// private step handed n, in the block of that step's call (before the call)
						emitBlock, emitN := rg.Block(), n
						var before ssa.Instruction
						if prm, isPrm := n.(*ssa.Parameter); isPrm && prm.Parent() != ks && p.PrivateHelper(prm.Parent()) {
							if sites := p.Callers(prm.Parent()); len(sites) == 1 {
								emitBlock, before = sites[0].Block(), sites[0]
								emitN = core.Strip(p.Bind(prm))
							}
						}
						for _, in := range emitBlock.Instrs {
							if before != nil && in == before {
								break
							}
							if call, ok := in.(*ssa.Call); ok && core.CalleeName(call.Common()) == "builtin.append" {
								for _, s := range appendedValues(call) {
									if lk, ok := s.(*ssa.Lookup); ok && (lk.Index == emitN || core.Strip(lk.Index) == emitN) {
										if hr := c.classifyMap(gf, lk.X); hr.level == "hash" && onCopy(hr.base) {
											appendOK = true
										}
									}
								}
							}
						}
					}
				}
			}
		}
		// push of m guarded by len(in[m]) == 0, evaluated after RemoveEdge
		core.Instrs(rem.Parent(), func(in ssa.Instruction) {
			call, ok := in.(*ssa.Call)
			if !ok {
				return
			}
			for _, s := range c.pushedValues(call) {
				if s != m {
					continue
				}
				for _, l := range core.Lits(core.Guards(call.Block())) {
					if l.Kind == "cmp" && l.Pol && l.Op == token.EQL {
						if k, ok := core.ConstInt(l.Y); ok && k == 0 {
							if lc, ok := l.X.(*ssa.Call); ok && core.CalleeName(lc.Common()) == "builtin.len" {
								r := c.classifyMap(gf, lc.Common().Args[0])
								if r.level == "inner" && r.field == "in" && r.keyV == m && onCopy(r.base) && core.InstrDominates(rem, lc) {
									pushOK = true
								}
							}
							// helper form: copy.inDegree(m) whose only return is len(receiver.in[param])
							if hc, ok := l.X.(*ssa.Call); ok && len(hc.Common().Args) == 2 && onCopy(hc.Common().Args[0]) && core.Strip(hc.Common().Args[1]) == m && core.InstrDominates(rem, hc) {
								if cal := hc.Common().StaticCallee(); cal != nil && p.InTarget(cal) && len(cal.Params) == 2 && len(core.Returns(cal)) == 1 {
									if rl, ok := core.Returns(cal)[0].Results[0].(*ssa.Call); ok && core.CalleeName(rl.Common()) == "builtin.len" {
										r := c.classifyMap(gf, rl.Common().Args[0])
										if r.level == "inner" && r.field == "in" && r.keyV == ssa.Value(cal.Params[1]) && core.Strip(r.base) == ssa.Value(cal.Params[0]) {
											pushOK = true
										}
									}
								}
							}
						}
					}
				}
			}
		})
	}
	// initial work list: keys of the in-adjacency with no entries (collected here or by a private step)
	p.RegionInstrs(ks, func(in ssa.Instruction) {
		call, ok := in.(*ssa.Call)
		if !ok {
			return
		}
		for _, s := range c.pushedValues(call) {
			e, ok := s.(*ssa.Extract)
			if !ok || e.Index != 1 {
				continue
			}
			nx, ok := e.Tuple.(*ssa.Next)
			if !ok {
				continue
			}
			rg, _ := nx.Iter.(*ssa.Range)
			if rg == nil {
				continue
			}
			if r := c.classifyMap(gf, rg.X); r.level == "outer" && r.field == "in" && onCopy(r.base) {
				for _, l := range core.Lits(core.Guards(call.Block())) {
					if l.Kind == "cmp" && l.Pol && l.Op == token.EQL {
						if k, ok := core.ConstInt(l.Y); ok && k == 0 {
							if lc, ok := l.X.(*ssa.Call); ok && core.CalleeName(lc.Common()) == "builtin.len" && sameNext(lc.Common().Args[0], nx, 2) {
								initOK = true
							}
						}
					}
				}
			}
		}
	})
	c.R.Add("KAHN", "initial-worklist", name, p.Pos(ks.Pos()), initOK, "the work list starts with exactly the vertices whose in-adjacency is empty", fmt.Sprintf("ok=%v", initOK))
	c.R.Add("KAHN", "emit-once", name, p.Pos(ks.Pos()), appendOK, "each vertex taken from the work list is appended to the order unconditionally, before its out-edges are processed", fmt.Sprintf("ok=%v", appendOK))
	hz := sliceReuseHazard(p, ks)
	c.R.Add("KAHN", "work-list-not-overwritten-while-read", name, p.Pos(ks.Pos()), hz == "",
		"the storage of the work list is not re-used for the vertices released in a round while that round is still being read", ternary(hz == "", "no append onto a shortened alias of a list still read", hz))
	c.R.Add("KAHN", "push-when-free", name, p.Pos(ks.Pos()), pushOK, "a successor enters the work list only when, after removing the edge, it has no incoming edge left", fmt.Sprintf("ok=%v", pushOK))
}

// pushedValues: the values a call adds to a list — the elements of a builtin append, or the arguments a private
// "push" helper appends (a helper whose only calls are appends of its own parameters).
func (c *Ctx) pushedValues(call *ssa.Call) []ssa.Value {
	if core.CalleeName(call.Common()) == "builtin.append" {
		return appendedValues(call)
	}
	h := call.Common().StaticCallee()
	if !c.P.PrivateHelper(h) || len(h.Blocks) != 1 {
		return nil
	}
	var out []ssa.Value
	for _, ci := range core.Calls(h) {
		ac, ok := ci.(*ssa.Call)
		if !ok || core.CalleeName(ac.Common()) != "builtin.append" {
			return nil
		}
		for _, v := range appendedValues(ac) {
			prm, ok := v.(*ssa.Parameter)
			if !ok {
				return nil
			}
			for i, q := range h.Params {
				if q == prm && i < len(call.Common().Args) {
					out = append(out, core.Strip(call.Common().Args[i]))
				}
			}
		}
	}
	return out
}

// appendedValues returns the element values appended by an append(s, elems...) call
// whose variadic part is a freshly built array (the usual lowering).
func appendedValues(call *ssa.Call) []ssa.Value {
	var out []ssa.Value
	a := call.Common().Args
	if len(a) < 2 {
		return nil
	}
	if sl, ok := a[1].(*ssa.Slice); ok {
		if al, ok := sl.X.(*ssa.Alloc); ok {
			for _, ref := range *al.Referrers() {
				if ia, ok := ref.(*ssa.IndexAddr); ok {
					for _, r2 := range *ia.Referrers() {
						if st, ok := r2.(*ssa.Store); ok && st.Addr == ia {
							out = append(out, core.Strip(st.Val))
						}
					}
				}
			}
		}
	}
	return out
}
