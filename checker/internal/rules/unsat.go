package rules

import (
	"fmt"
	"go/token"
	"go/types"
	"strings"

	"argverif/internal/core"

	"golang.org/x/tools/go/ssa"
)

// UNSAT — the unsatisfied-argument report (C02, C13). DESIGN §4 UNSAT U1–U7.

func init() {
	register(&Engine{
		Name:  "UNSAT",
		Doc:   "pruned requirements always produce the dedicated error; the error carries what is missing and what was given",
		Run:   runUnsat,
		Floor: map[string]int{"UNSAT-U1": 1, "UNSAT-U2": 3, "UNSAT-U3": 4, "UNSAT-U4": 1, "UNSAT-U5": 5, "UNSAT-U6": 2, "UNSAT-U7": 2, "UNSAT-U8": 3},
	})
}

// errLiteral finds the ErrArgumentUnsatisfied composite literal in f and the values stored into its fields. A call
// of a pure constructor shared by several detection sites (`newErrArgumentUnsatisfied(f, args, inputs, convs)`: one
// return, one literal, every field set from a parameter) counts as the literal at that call, with the fields bound to
// the call's arguments.
func errLiteral(f *ssa.Function) (ssa.Instruction, map[string]ssa.Value) {
	var lit ssa.Instruction
	fields := map[string]ssa.Value{}
	direct := func(g *ssa.Function) (*ssa.Alloc, map[string]ssa.Value) {
		var l *ssa.Alloc
		fs := map[string]ssa.Value{}
		core.Instrs(g, func(in ssa.Instruction) {
			al, ok := in.(*ssa.Alloc)
			if !ok || core.NamedOf(al.Type()) != "ErrArgumentUnsatisfied" {
				return
			}
			l = al
			for _, ref := range *al.Referrers() {
				if fa, ok := ref.(*ssa.FieldAddr); ok {
					fr, _ := core.AsFieldAddr(fa)
					for _, r2 := range *fa.Referrers() {
						if st, ok := r2.(*ssa.Store); ok && st.Addr == ssa.Value(fa) {
							fs[fr.Field] = st.Val
						}
					}
				}
			}
		})
		return l, fs
	}
	if l, fs := direct(f); l != nil {
		return l, fs
	}
	for _, ci := range core.Calls(f) {
		g := ci.Common().StaticCallee()
		if g == nil || g == f || g.Parent() != nil || len(g.Blocks) != 1 || core.PkgOf(g) != core.PkgOf(f) {
			continue
		}
		l, fs := direct(g)
		if l == nil || len(core.Returns(g)) != 1 {
			continue
		}
		pure := true
		bound := map[string]ssa.Value{}
		for name, v := range fs {
			prm, isPrm := core.Strip(v).(*ssa.Parameter)
			if !isPrm {
				pure = false
				break
			}
			for i, q := range g.Params {
				if q == prm && i < len(ci.Common().Args) {
					bound[name] = ci.Common().Args[i]
				}
			}
		}
		if !pure {
			continue
		}
		if in, ok := ci.(ssa.Instruction); ok {
			lit, fields = in, bound
		}
	}
	return lit, fields
}

// lenPositive: lits contain "len(v) > 0" with polarity pol (or the equivalent len(v)==0 / != 0 forms).
func lenPositive(lits []core.Lit, v ssa.Value, pol bool) bool {
	isLen := func(x ssa.Value) bool {
		cl, ok := x.(*ssa.Call)
		return ok && core.CalleeName(cl.Common()) == "builtin.len" && cl.Common().Args[0] == v
	}
	for _, l := range lits {
		if l.Kind != "cmp" {
			continue
		}
		k, isK := core.ConstInt(l.Y)
		if isLen(l.X) && isK && k == 0 {
			if l.Op == token.GTR && l.Pol == pol {
				return true
			}
			if l.Op == token.EQL && l.Pol == !pol {
				return true
			}
		}
	}
	return false
}

// appendSites lists the append calls that grow accumulator acc (a phi web) and the appended element values.
func appendSites(f *ssa.Function, acc ssa.Value) []*ssa.Call {
	web := map[ssa.Value]bool{}
	var grow func(v ssa.Value)
	grow = func(v ssa.Value) {
		if v == nil || web[v] {
			return
		}
		web[v] = true
		switch x := v.(type) {
		case *ssa.Phi:
			for _, e := range x.Edges {
				grow(e)
			}
		case *ssa.Call:
			if core.CalleeName(x.Common()) == "builtin.append" {
				grow(x.Common().Args[0])
			}
			// an accumulator threaded through a private helper: acc = helper(…, acc)
			if pr := core.Active; pr != nil {
				if h := x.Common().StaticCallee(); pr.PrivateHelper(h) && h.Signature.Results().Len() == 1 {
					for _, r := range core.Returns(h) {
						for _, o := range core.ReturnOperand(r, 0) {
							grow(o)
						}
					}
				}
			}
		case *ssa.Extract:
			// one of several results of a private helper: the list it returns at that position
			if cl, ok := x.Tuple.(*ssa.Call); ok {
				if pr := core.Active; pr != nil {
					if h := cl.Common().StaticCallee(); pr.PrivateHelper(h) {
						for _, r := range core.Returns(h) {
							for _, o := range core.ReturnOperand(r, x.Index) {
								grow(o)
							}
						}
					}
				}
			}
		case *ssa.Parameter:
			if pr := core.Active; pr != nil && pr.PrivateHelper(x.Parent()) {
				if _, isSlice := x.Type().Underlying().(*types.Slice); isSlice {
					for i, q := range x.Parent().Params {
						if q == x {
							for _, site := range pr.Callers(x.Parent()) {
								if i < len(site.Common().Args) {
									grow(site.Common().Args[i])
								}
							}
						}
					}
				}
			}
		case *ssa.UnOp:
			if al, ok := x.X.(*ssa.Alloc); ok {
				for _, ref := range *al.Referrers() {
					if st, ok := ref.(*ssa.Store); ok && st.Addr == ssa.Value(al) {
						grow(st.Val)
					}
				}
				// a variable captured by a local function literal: what the literal assigns to it
				if pr := core.Active; pr != nil && al.Heap {
					for _, a := range al.Parent().AnonFuncs {
						for _, fv := range a.FreeVars {
							if pr.Binding(fv) != ssa.Value(al) {
								continue
							}
							for _, ref := range *fv.Referrers() {
								if st, ok := ref.(*ssa.Store); ok && st.Addr == ssa.Value(fv) {
									grow(st.Val)
								}
							}
						}
					}
				}
			}
			if fv, ok := x.X.(*ssa.FreeVar); ok {
				// inside the literal: the captured accumulator itself
				if pr := core.Active; pr != nil {
					if b, ok := pr.Binding(fv).(*ssa.Alloc); ok {
						for _, ref := range *b.Referrers() {
							if st, ok := ref.(*ssa.Store); ok && st.Addr == ssa.Value(b) {
								grow(st.Val)
							}
						}
					}
					for _, ref := range *fv.Referrers() {
						if st, ok := ref.(*ssa.Store); ok && st.Addr == ssa.Value(fv) {
							grow(st.Val)
						}
					}
				}
			}
		}
	}
	grow(acc)
	var out []*ssa.Call
	for v := range web {
		if cl, ok := v.(*ssa.Call); ok && core.CalleeName(cl.Common()) == "builtin.append" {
			out = append(out, cl)
		}
	}
	return out
}

func runUnsat(c *Ctx) {
	c.runValueOf()
	p := c.P
	gb := c.role("UNSAT-U1", "graphBuilder")
	ib := c.role("UNSAT-U5", "inputBuilder")
	fb := c.role("UNSAT-U2", "funcBuilder")
	res := c.role("UNSAT-U7", "resolver")
	exec := c.role("UNSAT-U7", "executor")
	if gb == nil || ib == nil || fb == nil || res == nil || exec == nil {
		return
	}
	// the function that builds the error: the graph builder itself or one of its private steps
	uf := gb
	lit, fields := errLiteral(gb)
	if lit == nil {
		for _, g := range p.Region(gb) {
			if l2, f2 := errLiteral(g); l2 != nil {
				lit, fields, uf = l2, f2, g
			}
		}
	}
	c.R.Func(core.FuncName(uf))
	if lit == nil {
		c.R.Add("UNSAT-U1", "graphBuilder|error-literal", "graphBuilder", p.Pos(gb.Pos()), false, "the graph builder reports pruned requirements with the dedicated error type", "no ErrArgumentUnsatisfied literal in the graph builder")
		return
	}
	unsat := fields["Args"]
	if unsat == nil {
		c.R.Add("UNSAT-U5", "graphBuilder|Args", "graphBuilder", p.InstrPos(lit), false, "the error literal carries the list of missing arguments", "Args not set")
		return
	}

	// when the literal lives in a pure constructor (a step that only assembles the error from what it is handed), the
	// decision is made where the constructor is called: read U1 there, with the constructor's call as "the literal"
	ufD, litD, unsatD := uf, lit.(ssa.Value), unsat
	if uf != gb {
		rets := core.Returns(uf)
		pure := len(rets) == 1
		if pure {
			for _, l := range core.Lits(core.Guards(rets[0].Block())) {
				if !core.IsLoopBound(l) {
					pure = false
				}
			}
		}
		if pure {
			sites := p.Callers(uf)
			if len(sites) == 1 {
				if cv, ok := sites[0].(*ssa.Call); ok {
					ufD, litD = core.Outer(sites[0].Parent()), ssa.Value(cv)
					if prm, isPrm := core.Strip(unsat).(*ssa.Parameter); isPrm {
						unsatD = p.Bind(prm)
					}
				}
			}
		}
	}
	// ---- U1: every success return is dominated by len(unsatisfied) > 0 being false
	nSucc := 0
	for _, r := range core.Returns(ufD) {
		ev := r.Results[len(r.Results)-1]
		lits := core.Lits(core.Guards(r.Block()))
		isErrRet := false
		for _, s := range core.Sources(ev) {
			if core.Strip(s) == litD {
				isErrRet = true
			}
		}
		if nilCheckLit(lits, ev, false) {
			isErrRet = true
		}
		if isErrRet {
			continue
		}
		nSucc++
		ok := lenPositive(lits, unsatD, false)
		c.R.Add("UNSAT-U1", fmt.Sprintf("graphBuilder|success-return#%d", nSucc), "graphBuilder", p.InstrPos(r), ok,
			"the graph builder returns without error only where the list of unsatisfied requirements is empty", ternary(ok, "dominated by len(unsatisfied)==0", "not dominated by the emptiness check"), core.LitStrings(lits)...)
	}
	if ufD != gb {
		// the step's verdict is the graph builder's verdict: every return of the graph builder is an earlier error
		// return or hands back exactly what the step returned
		for _, r := range core.Returns(gb) {
			ev := r.Results[len(r.Results)-1]
			lits := core.Lits(core.Guards(r.Block()))
			if nilCheckLit(lits, ev, false) {
				continue
			}
			nSucc++
			ok := false
			srcs := core.Sources(ev)
			if len(srcs) > 0 {
				ok = true
				for _, sv := range srcs {
					cl, isC := sv.(*ssa.Call)
					if !isC || cl.Common().StaticCallee() != ufD {
						ok = false
					}
				}
			}
			c.R.Add("UNSAT-U1", fmt.Sprintf("graphBuilder|success-return#%d", nSucc), "graphBuilder", p.InstrPos(r), ok,
				"the graph builder returns without error only where the list of unsatisfied requirements is empty", ternary(ok, "returns the verdict of "+core.FuncName(ufD), "a return bypasses the unsatisfied-requirements check"), core.LitStrings(lits)...)
		}
	}
	// the error return is on the non-empty branch and returns the literal
	errRetOK := false
	for _, r := range core.Returns(ufD) {
		ev := r.Results[len(r.Results)-1]
		for _, s := range core.Sources(ev) {
			if core.Strip(s) == litD && lenPositive(core.Lits(core.Guards(r.Block())), unsatD, true) {
				errRetOK = true
			}
		}
	}
	c.R.Add("UNSAT-U1", "graphBuilder|error-return", "graphBuilder", p.InstrPos(lit), errRetOK, "a non-empty list of unsatisfied requirements returns the dedicated error", fmt.Sprintf("ok=%v", errRetOK))

	// ---- U2: appends to unsatisfied
	var targetVertex ssa.Value
	for _, ci := range core.Calls(gb) {
		if ci.Common().StaticCallee() == fb {
			targetVertex = ci.(*ssa.Call)
		}
	}
	var removes []ssa.CallInstruction = p.RegionCalls(gb, core.GRemove)
	dfsCalls := p.RegionCalls(gb, core.GDFS)
	for i, ap := range appendSites(uf, unsat) {
		key := fmt.Sprintf("graphBuilder|append#%d", i+1)
		pos := p.InstrPos(ap)
		elems := appendedValues(ap)
		var req ssa.Value
		fromReq := false
		for _, e := range elems {
			if v := c.vertexOfValue(e); v != nil {
				req = v
			}
		}
		var reqList *ssa.Call
		if req != nil {
			if r, ok := p.Bind(core.Root(req)).(*ssa.Call); ok && core.CalleeName(r.Common()) == core.GOutEdges && targetVertex != nil && sameVal(r.Common().Args[1], targetVertex) {
				reqList, fromReq = r, true
			}
		}
		c.R.Add("UNSAT-U2", key+"|element-is-target-requirement", "graphBuilder", pos, fromReq,
			"each reported missing argument is the value of a requirement (out-edge) of the target's function vertex", fmt.Sprintf("ok=%v", fromReq))
		captured := reqList != nil
		if reqList != nil {
			for _, rm := range removes {
				if !p.IDominates(reqList, rm, gb) {
					captured = false
				}
			}
			for _, d := range dfsCalls {
				if !p.IDominates(reqList, d, gb) {
					captured = false
				}
			}
		}
		c.R.Add("UNSAT-U2", key+"|requirements-captured-before-pruning", "graphBuilder", pos, captured,
			"the requirement list is captured before anything is pruned from the graph", fmt.Sprintf("ok=%v", captured))
		// guard: g.Vertex(VertexID(req)) == nil
		gone := false
		for _, l := range core.Lits(core.Guards(ap.Block())) {
			if l.Kind == "cmp" && l.Op == token.EQL && l.Pol {
				for _, pair := range [][2]ssa.Value{{l.X, l.Y}, {l.Y, l.X}} {
					if cl, ok := pair[0].(*ssa.Call); ok && core.CalleeName(cl.Common()) == core.GVertex && core.IsNilConst(pair[1]) {
						if id, ok := cl.Common().Args[1].(*ssa.Call); ok && core.CalleeName(id.Common()) == core.GVertexID && req != nil && id.Common().Args[0] == req {
							gone = true
						}
					}
				}
			}
		}
		c.R.Add("UNSAT-U2", key+"|guarded-by-pruned", "graphBuilder", pos, gone,
			"a requirement is reported missing exactly when it is no longer in the pruned graph", fmt.Sprintf("ok=%v", gone))
		// the loop visits every requirement: no other guard than the loop bound and the interface assertion (whose failure panics)
		extra := ""
		for _, l := range core.Lits(core.Guards(ap.Block())) {
			s := l.String()
			switch {
			case l.Kind == "cmp" && l.Op == token.LSS:
			case l.Kind == "ok":
			case l.Kind == "cmp" && l.Op == token.EQL && (core.IsNilConst(l.X) || core.IsNilConst(l.Y)):
			default:
				extra = s
			}
		}
		c.R.Add("UNSAT-U2", key+"|no-other-filter", "graphBuilder", pos, extra == "", "no further condition filters which pruned requirements are reported", ternary(extra == "", "none", "extra guard: "+extra))
	}

	// ---- U3: pruning removes only vertices the root DFS did not visit
	var visitedAlloc ssa.Value
	for i, rm := range removes {
		key := fmt.Sprintf("graphBuilder|remove#%d", i+1)
		v := rm.Common().Args[1]
		notVisited := false
		for _, l := range core.Lits(core.Guards(rm.Block())) {
			if lk, in, ok := core.MemberLit(l); ok && !in {
				if id, ok := lk.Index.(*ssa.Call); ok && core.CalleeName(id.Common()) == core.GVertexID && id.Common().Args[0] == v {
					notVisited = true
					visitedAlloc = lk.X
				}
			}
		}
		overAll := false
		if r, ok := core.Root(v).(*ssa.Call); ok && core.CalleeName(r.Common()) == core.GVertices {
			overAll = true
		}
		c.R.Add("UNSAT-U3", key+"|only-unvisited", "graphBuilder", p.InstrPos(rm), notVisited && overAll,
			"a vertex is removed only if the traversal from the input root did not visit it", fmt.Sprintf("guarded-by-not-visited=%v over-all-vertices=%v", notVisited, overAll))
	}
	if len(removes) == 0 {
		c.R.Add("UNSAT-U3", "graphBuilder|remove", "graphBuilder", p.Pos(gb.Pos()), false, "unreachable vertices are pruned", "no Remove call")
	}
	// visited is filled only by the root literal and the DFS callback; DFS runs on Reverse() from the root; stops at the target
	if len(dfsCalls) == 1 && visitedAlloc != nil {
		d := dfsCalls[0]
		onRev := false
		if rv, ok := d.Common().Args[0].(*ssa.Call); ok && core.CalleeName(rv.Common()) == core.GReverse {
			onRev = true
		}
		rootV := p.Bind(d.Common().Args[1])
		rootKinds := p.KindOf(rootV)
		k, _ := p.VertexKinds()
		fromRoot := k != nil && len(rootKinds) == 1 && rootKinds[0] == k.Root
		c.R.Add("UNSAT-U3", "graphBuilder|dfs-from-root-on-reverse", "graphBuilder", p.InstrPos(d), onRev && fromRoot,
			"reachability is computed from the input root over the reversed graph (providers → consumers)", fmt.Sprintf("reverse=%v from-root=%v", onRev, fromRoot))
		// callback
		var cb *ssa.Function
		for _, a := range d.Common().Args {
			if mc, ok := core.Strip(a).(*ssa.MakeClosure); ok {
				cb = mc.Fn.(*ssa.Function)
			}
		}
		cbOK, stopOK := false, false
		if cb != nil {
			c.R.Func(core.FuncName(cb))
			core.Instrs(cb, func(in ssa.Instruction) {
				if mu, ok := in.(*ssa.MapUpdate); ok && core.SetInsert(mu) {
					if id, ok := mu.Key.(*ssa.Call); ok && core.CalleeName(id.Common()) == core.GVertexID && id.Common().Args[0] == ssa.Value(cb.Params[0]) {
						if postDominatesEntry(cb, mu.Block()) {
							cbOK = true
						}
					}
				}
			})
			// returns nil without descending only when v == target; otherwise returns next()
			for _, r := range core.Returns(cb) {
				if core.IsNilConst(r.Results[0]) {
					for _, l := range core.Lits(core.Guards(r.Block())) {
						if l.Kind == "cmp" && l.Op == token.EQL && l.Pol {
							x, y := l.X, l.Y
							if x == ssa.Value(cb.Params[0]) || y == ssa.Value(cb.Params[0]) {
								o := y
								if y == ssa.Value(cb.Params[0]) {
									o = x
								}
								if d := p.DerefFree(o); d != nil && targetVertex != nil && p.Bind(core.Strip(d)) == targetVertex {
									stopOK = true
								} else if fv, ok := o.(*ssa.FreeVar); ok {
									if b := p.Binding(fv); b != nil && p.Bind(core.Strip(b)) == targetVertex {
										stopOK = true
									}
								}
							}
						}
					}
				}
			}
		}
		c.R.Add("UNSAT-U3", "graphBuilder|callback-marks-every-visited", "graphBuilder", p.InstrPos(d), cbOK, "the traversal callback records every vertex it is called for", fmt.Sprintf("ok=%v", cbOK))
		c.R.Add("UNSAT-U3", "graphBuilder|traversal-stops-only-at-target", "graphBuilder", p.InstrPos(d), stopOK, "the traversal declines to descend only at the target function vertex", fmt.Sprintf("ok=%v", stopOK))
	} else {
		c.R.Undecided("UNSAT-U3", "graphBuilder|dfs", "graphBuilder", p.Pos(gb.Pos()), fmt.Sprintf("expected one DFS call and a visited set, found %d / %v", len(dfsCalls), visitedAlloc != nil))
	}

	// ---- U4: Inputs converts every input vertex
	inputs := fields["Inputs"]
	var ibCall *ssa.Call
	for _, ci := range core.Calls(gb) {
		if ci.Common().StaticCallee() == ib {
			ibCall, _ = ci.(*ssa.Call)
		}
	}
	u4 := false
	why4 := "Inputs not set"
	if inputs != nil && ibCall != nil {
		aps := appendSites(uf, inputs)
		why4 = fmt.Sprintf("%d append site(s)", len(aps))
		for _, ap := range aps {
			for _, e := range appendedValues(ap) {
				{
					vx := c.vertexOfValue(e)
					if vx != nil {
						if r, ok := p.Bind(core.Root(vx)).(*ssa.Extract); ok && r.Tuple == ssa.Value(ibCall) && r.Index == 0 {
							extra := ""
							for _, l := range core.Lits(core.Guards(ap.Block())) {
								switch {
								case l.Kind == "cmp" && l.Op == token.LSS:
								case l.Kind == "ok":
								case lenPositive([]core.Lit{l}, unsat, true):
								case l.Kind == "cmp" && l.Op == token.EQL && (core.IsNilConst(l.X) || core.IsNilConst(l.Y)):
								default:
									extra = l.String()
								}
							}
							u4 = extra == ""
							why4 = ternary(u4, "every element of the input vertex list is converted", "filtered by "+extra)
						}
					}
				}
			}
		}
	}
	c.R.Add("UNSAT-U4", "graphBuilder|inputs-complete", "graphBuilder", p.InstrPos(lit), u4, "the error's input list is built from every supplied input vertex, unfiltered", why4)

	// ---- U5: literal fields
	c.R.Add("UNSAT-U5", "literal|Func", "graphBuilder", p.InstrPos(lit), fields["Func"] != nil && p.Bind(fields["Func"]) == ssa.Value(gb.Params[0]), "the error names the target function", fmt.Sprintf("set=%v", fields["Func"] != nil))
	c.R.Add("UNSAT-U5", "literal|Args", "graphBuilder", p.InstrPos(lit), fields["Args"] != nil, "the error carries the missing arguments", fmt.Sprintf("set=%v", fields["Args"] != nil))
	c.R.Add("UNSAT-U5", "literal|Inputs", "graphBuilder", p.InstrPos(lit), fields["Inputs"] != nil, "the error carries the supplied inputs", fmt.Sprintf("set=%v", fields["Inputs"] != nil))
	convOK := false
	if cv := fields["Converters"]; cv != nil && ibCall != nil {
		for _, s := range core.Sources(cv) {
			if e, ok := p.Bind(s).(*ssa.Extract); ok && e.Tuple == ssa.Value(ibCall) && e.Index == 1 {
				convOK = true
			}
		}
	}
	c.R.Add("UNSAT-U5", "literal|Converters", "graphBuilder", p.InstrPos(lit), convOK, "the error carries the converter list returned by the input builder", fmt.Sprintf("ok=%v", convOK))
	// the input builder's converter list contains every supplied converter (and receives every generated one)
	{
		okAll := true
		why := ""
		for _, r := range core.Returns(ib) {
			if len(r.Results) < 2 {
				continue
			}
			if len(r.Results) == 3 && !core.IsNilConst(r.Results[2]) {
				continue // error return
			}
			for _, s := range p.ISources(r.Results[1]) {
				if core.IsNilConst(s) {
					continue // the error return of a step helper
				}
				if !c.containsSuppliedConvs(ib, s, r) {
					okAll = false
					why = "returned converter list " + core.Path(s) + " does not provably contain the builder's supplied converters"
				}
			}
		}
		// every generated converter is appended to it
		genOK := true
		for _, ci := range p.RegionCalls(ib) {
			cc := ci.Common()
			if !cc.IsInvoke() && cc.StaticCallee() == nil && core.TypeStr(cc.Value.Type()) == "ConverterGenFunc" {
				cv := ci.(*ssa.Call)
				var fnv ssa.Value
				for _, ref := range *cv.Referrers() {
					if e, ok := ref.(*ssa.Extract); ok && e.Index == 0 {
						fnv = e
					}
				}
				appended := false
				if fnv != nil {
					for _, u := range core.Users(fnv) {
						if st, ok := u.(*ssa.Store); ok {
							if _, ok := st.Addr.(*ssa.IndexAddr); ok {
								appended = true
							}
						}
					}
				}
				if !appended {
					genOK = false
				}
			}
		}
		c.R.Add("UNSAT-U5", "inputBuilder|converter-list-complete", "inputBuilder", p.Pos(ib.Pos()), okAll && genOK,
			"the converter list the input builder returns contains every supplied converter and every generated one", ternary(okAll && genOK, "ok", why+fmt.Sprintf(" generated-appended=%v", genOK)))
	}

	// ---- U6: Error() renders every missing argument
	em := p.Method(p.Arg, "ErrArgumentUnsatisfied", "Error")
	if em == nil {
		c.R.Undecided("UNSAT-U6", "Error", "ErrArgumentUnsatisfied.Error", "-", "method not found")
	} else {
		c.R.Func(core.FuncName(em))
		rendered, flows := false, false
		type cand struct {
			fn  *ssa.Function
			env map[*ssa.Parameter]ssa.Value
		}
		cands := []cand{{em, nil}}
		for _, ci := range core.Calls(em) {
			if h := ci.Common().StaticCallee(); h != nil && p.InTarget(h) && h.Blocks != nil && h != em {
				env := map[*ssa.Parameter]ssa.Value{}
				for i, prm := range h.Params {
					if i < len(ci.Common().Args) {
						env[prm] = ci.Common().Args[i]
					}
				}
				cands = append(cands, cand{h, env})
			}
		}
		for _, cd := range cands {
			up := func(v ssa.Value) ssa.Value {
				v = core.Strip(v)
				if prm, ok := v.(*ssa.Parameter); ok {
					if a, ok := cd.env[prm]; ok {
						return core.Strip(a)
					}
				}
				return v
			}
			core.Instrs(cd.fn, func(in ssa.Instruction) {
				cl, ok := in.(*ssa.Call)
				if !ok {
					return
				}
				cal := cl.Common().StaticCallee()
				if cal == nil || cal.Name() != "String" || cal.Signature.Recv() == nil || core.NamedOf(cal.Signature.Recv().Type()) != "Value" {
					return
				}
				// receiver is an element of e.Args (possibly seen through the helper's slice parameter)
				ld, ok := cl.Common().Args[0].(*ssa.UnOp)
				if !ok {
					return
				}
				ia, ok := ld.X.(*ssa.IndexAddr)
				if !ok {
					return
				}
				fr, ok := core.AsFieldLoad(up(ia.X))
				if !ok || fr.Owner != "ErrArgumentUnsatisfied" || fr.Field != "Args" {
					return
				}
				onlyLoop := true
				for _, l := range core.Lits(core.Guards(cl.Block())) {
					if !core.IsLoopBound(l) {
						onlyLoop = false
					}
				}
				rendered = onlyLoop
				// its text reaches the returned message (interprocedural may-flow: through writers, builders and helpers)
				if p.MayFlowToReturn([]ssa.Value{cl}, em) {
					flows = true
				}
			})
		}
		c.R.Add("UNSAT-U6", "Error|renders-every-missing-argument", core.FuncName(em), p.Pos(em.Pos()), rendered, "the message renders every element of the missing-argument list", fmt.Sprintf("ok=%v", rendered))
		c.R.Add("UNSAT-U6", "Error|rendering-reaches-message", core.FuncName(em), p.Pos(em.Pos()), flows, "the rendered missing arguments flow into the returned message", fmt.Sprintf("ok=%v", flows))
		// the rendered text is an operand of the formatting calls, never (part of) their format string: names, subtypes and
		// type strings are free-form and may contain '%' (a URL-escaped type URL), which a format string would reinterpret
		{
			nf, dyn := 0, ""
			p.RegionInstrs(em, func(in ssa.Instruction) {
				cl, ok := in.(*ssa.Call)
				if !ok {
					return
				}
				idx := -1
				switch core.CalleeName(cl.Common()) {
				case "fmt.Sprintf", "fmt.Errorf", "fmt.Printf":
					idx = 0
				case "fmt.Fprintf":
					idx = 1
				}
				if idx < 0 || idx >= len(cl.Common().Args) {
					return
				}
				nf++
				if _, isK := core.ConstString(cl.Common().Args[idx]); !isK {
					dyn = core.ShortCallee(core.CalleeName(cl.Common())) + " at " + p.InstrPos(in) + " with format " + core.Path(cl.Common().Args[idx])
				}
			})
			c.R.Add("UNSAT-U6", "Error|formats-are-constants", core.FuncName(em), p.Pos(em.Pos()), dyn == "",
				"every formatting call of the message has a constant format string (rendered labels are operands only)", ternary(dyn == "", fmt.Sprintf("%d formatting call(s), all constant formats", nf), "non-constant format: "+dyn))
		}
	}

	// the rendering of a Value shows its type as itself (or its String()): Name()/PkgPath() are empty for every unnamed
	// type and Kind() merges all types of a kind, so a missing `[]string` parameter would not be named by the message
	if vs := p.Method(p.Arg, "Value", "String"); vs != nil {
		proj := ""
		p.RegionInstrs(vs, func(in ssa.Instruction) {
			cl, ok := in.(*ssa.Call)
			if !ok || !cl.Common().IsInvoke() || core.TypeStr(cl.Common().Value.Type()) != "reflect.Type" {
				return
			}
			if fr, ok := core.AsFieldLoad(cl.Common().Value); ok && fr.Owner == "Value" && fr.Field == "Type" {
				if m := cl.Common().Method.Name(); m != "String" {
					proj = "reflect.Type." + m + "() at " + p.InstrPos(in)
				}
			}
		})
		c.R.Func(core.FuncName(vs))
		c.R.Add("UNSAT-U6", "Value.String|type-as-itself", core.FuncName(vs), p.Pos(vs.Pos()), proj == "",
			"a Value is rendered with its type itself (or its String()), not through a coarser projection of it", ternary(proj == "", "the type / String()", "rendered through "+proj))
	}

	// ---- U7: resolver: late unsatisfied detection precedes any execution
	rlit, rfields := errLiteral(res)
	if rlit == nil {
		// the planning step of the resolver may have been extracted: look in its private helpers
		for _, g := range p.Region(res) {
			if l2, f2 := errLiteral(g); l2 != nil {
				rlit, rfields = l2, f2
			}
		}
	}
	if rlit == nil || rfields["Args"] == nil {
		c.R.Add("UNSAT-U7", "resolver|error-literal", "resolver", p.Pos(res.Pos()), false, "the resolver reports late-detected unsatisfied arguments with the dedicated error type", "no literal")
		return
	}
	runsat := rfields["Args"]
	for _, ci := range p.RegionCalls(res) {
		if ci.Common().StaticCallee() == exec {
			// what is known where the converter executes, including what a nil error of the planning step implies
			ok := lenPositive(p.ExpandLitsKeep(p.ILits(ci.Block())), runsat, false)
			c.R.Add("UNSAT-U7", "resolver|execute-only-when-none-unsatisfied", "resolver", p.InstrPos(ci), ok,
				"converters execute only after all paths were planned and none was found unsatisfied", fmt.Sprintf("ok=%v", ok))
		}
	}
	rerr := false
	for _, r := range core.Returns(res) {
		for _, v := range core.ReturnOperand(r, len(r.Results)-1) {
			if core.Strip(v) == rlit.(ssa.Value) {
				rerr = true
			}
			for _, sv := range p.ISources(v) {
				if core.Strip(sv) == rlit.(ssa.Value) {
					rerr = true
				}
			}
		}
	}
	c.R.Add("UNSAT-U7", "resolver|returns-dedicated-error", "resolver", p.InstrPos(rlit), rerr && rfields["Func"] != nil, "the late detection returns the dedicated error naming the target", fmt.Sprintf("returned=%v", rerr))
}

func storesInBlock(b *ssa.BasicBlock) []*ssa.Store {
	var out []*ssa.Store
	for _, in := range b.Instrs {
		if st, ok := in.(*ssa.Store); ok {
			out = append(out, st)
		}
	}
	return out
}

// containsSuppliedConvs: slice value s (returned by the input builder) contains the builder's supplied converters.
func (c *Ctx) containsSuppliedConvs(ib *ssa.Function, s ssa.Value, at ssa.Instruction) bool {
	isConvsField := func(v ssa.Value) bool {
		fr, ok := core.AsFieldLoad(v)
		return ok && fr.Owner == "argBuilder" && strings.Contains(core.TypeStr(v.Type()), "[]*Func")
	}
	seen := map[ssa.Value]bool{}
	var ok func(v ssa.Value) bool
	ok = func(v ssa.Value) bool {
		if seen[v] {
			return true
		}
		seen[v] = true
		switch x := v.(type) {
		case *ssa.Phi:
			for _, e := range x.Edges {
				if !ok(e) {
					return false
				}
			}
			return true
		case *ssa.Call:
			if core.CalleeName(x.Common()) == "builtin.append" {
				// append(base, elems...) contains whatever base contains; or appends the supplied list itself
				if ok(x.Common().Args[0]) {
					return true
				}
				return len(x.Common().Args) > 1 && isConvsField(x.Common().Args[1])
			}
			// library copies: slices.Clone(b.convs), slices.Concat(b.convs, …)
			if pk, fn := core.StdCallee(x.Common().StaticCallee()); pk == "slices" && len(x.Common().Args) >= 1 {
				switch fn {
				case "Clone":
					return isConvsField(x.Common().Args[0]) || ok(x.Common().Args[0])
				case "Concat":
					for _, e := range sliceElems(x.Common().Args[0], 0, map[ssa.Value]bool{}) {
						if isConvsField(e) || ok(e) {
							return true
						}
					}
				}
			}
		case *ssa.MakeSlice:
			// must be the destination of copy(dst, b.convs) before the return, with len >= len(b.convs)
			copied := false
			core.Instrs(x.Parent(), func(in ssa.Instruction) {
				if cl, isC := in.(*ssa.Call); isC && core.CalleeName(cl.Common()) == "builtin.copy" {
					if cl.Common().Args[0] == ssa.Value(x) && isConvsField(cl.Common().Args[1]) {
						if at.Parent() == cl.Parent() {
							if core.InstrDominates(cl, at) {
								copied = true
							}
						} else {
							// the slice is built in a step helper: the copy must precede every return of that helper
							all := true
							for _, hr := range core.Returns(x.Parent()) {
								returnsIt := false
								for _, o := range hr.Results {
									for _, sv := range core.Sources(o) {
										if sv == ssa.Value(x) {
											returnsIt = true
										}
									}
								}
								if returnsIt && !core.InstrDominates(cl, hr) {
									all = false
								}
							}
							copied = all
						}
					}
				}
			})
			lenOK := false
			if cl, isC := x.Len.(*ssa.Call); isC && core.CalleeName(cl.Common()) == "builtin.len" && isConvsField(cl.Common().Args[0]) {
				lenOK = true
			}
			return copied && lenOK
		case *ssa.Parameter:
			// the list handed to a private step (`b.generateConverters(g, root, convs)`): what the call site hands in
			if b := c.P.Bind(x); b != ssa.Value(x) {
				if bi, isI := b.(ssa.Instruction); isI && bi.Parent() == at.Parent() {
					return ok(b)
				}
				// judged at the step's call site
				for _, site := range c.P.Callers(x.Parent()) {
					if si, isI := site.(ssa.Instruction); isI {
						return c.containsSuppliedConvs(ib, b, si)
					}
				}
			}
		default:
			if isConvsField(v) {
				return true
			}
		}
		return false
	}
	return ok(s)
}

// vertexOfValue: e is the user-facing Value of vertex x — `x.(valueConverter).value()` directly, or through an
// in-target helper h(x) every return of which is such a value() call on (an assertion of) its only parameter.
func (c *Ctx) vertexOfValue(e ssa.Value) ssa.Value {
	cl, ok := e.(*ssa.Call)
	if !ok {
		return nil
	}
	direct := func(cl *ssa.Call) ssa.Value {
		if !cl.Common().IsInvoke() || cl.Common().Method.Name() != c.P.ValuerMethodName() {
			return nil
		}
		switch x := cl.Common().Value.(type) {
		case *ssa.Extract:
			if t, ok := x.Tuple.(*ssa.TypeAssert); ok {
				return t.X
			}
		case *ssa.TypeAssert:
			return x.X
		}
		return nil
	}
	if v := direct(cl); v != nil {
		return v
	}
	cal := cl.Common().StaticCallee()
	if cal == nil || !c.P.InTarget(cal) || len(cal.Params) != 1 || len(cl.Common().Args) != 1 {
		return nil
	}
	for _, r := range core.Returns(cal) {
		if len(r.Results) != 1 {
			return nil
		}
		rc, ok := r.Results[0].(*ssa.Call)
		if !ok {
			return nil
		}
		if v := direct(rc); v == nil || v != ssa.Value(cal.Params[0]) {
			return nil
		}
	}
	return cl.Common().Args[0]
}

// runValueOf — UNSAT-U8. The user-facing Value of a vertex (what the dedicated error lists as missing arguments and
// direct inputs, and what the input filter is shown) carries the vertex's own labels: every label field of the Value
// built by a kind's value() method is read from the same-named field of that vertex.
func (c *Ctx) runValueOf() {
	p := c.P
	kinds, err := p.VertexKinds()
	if err != nil {
		c.R.Undecided("UNSAT-U8", "kinds", "(vertex kinds)", "-", err.Error())
		return
	}
	// the Value a converter generator is shown for a vertex (func(graph.Vertex) *Value): built by the vertex's own
	// value() or, field by field, from the asserted vertex — its Value field included
	for _, g := range p.ArgFuncs() {
		if g.Parent() != nil || len(g.Params) != 1 || g.Signature.Recv() != nil || g.Signature.Results().Len() != 1 {
			continue
		}
		if !strings.HasSuffix(core.TypeStr(g.Params[0].Type()), "graph.Vertex") || core.TypeStr(g.Signature.Results().At(0).Type()) != "*Value" {
			continue
		}
		c.R.Func(core.FuncName(g))
		bad, nl := "", 0
		for _, r := range core.Returns(g) {
			for _, sv := range core.Sources(r.Results[0]) {
				if core.IsNilConst(sv) {
					continue
				}
				nl++
				switch x := sv.(type) {
				case *ssa.Alloc:
					hasV := false
					for _, ref := range *x.Referrers() {
						if fa, ok := ref.(*ssa.FieldAddr); ok {
							if fr, _ := core.AsFieldAddr(fa); fr.Field == "Value" {
								for _, r2 := range *fa.Referrers() {
									if sto, ok := r2.(*ssa.Store); ok && sto.Addr == ssa.Value(fa) {
										if src, ok := core.AsFieldLoad(sto.Val); ok && src.Field == "Value" && kinds.Label(src.Owner) && len(core.Guards(sto.Block())) <= len(core.Guards(x.Block())) {
											hasV = true
										}
									}
								}
							}
						}
					}
					if !hasV {
						bad = "the Value built at " + p.InstrPos(x) + " does not carry the vertex's value"
					}
				case *ssa.Call:
					if !(x.Common().IsInvoke() && x.Common().Method.Name() == p.ValuerMethodName()) {
						if cal := x.Common().StaticCallee(); cal == nil || cal.Name() != p.ValuerMethodName() {
							bad = "returns " + core.Path(sv)
						}
					}
				default:
					bad = "returns " + core.Path(sv)
				}
			}
		}
		c.R.Add("UNSAT-U8", core.FuncName(g)+"|generator-value-carries-the-vertex-value", core.FuncName(g), p.Pos(g.Pos()), bad == "" && nl > 0,
			"the Value shown to converter generators for a vertex carries that vertex's value, for named and type-only values alike", ternary(bad == "", fmt.Sprintf("%d form(s)", nl), bad))
	}
	for _, k := range kinds.All {
		if !kinds.Label(k) {
			continue
		}
		m := p.Method(p.Arg, k, p.ValuerMethodName())
		if m == nil {
			c.R.Undecided("UNSAT-U8", k+"|value", k, "-", "vertex kind "+k+" has no value() method")
			continue
		}
		c.R.Func(core.FuncName(m))
		recv := m.Params[0]
		var lit *ssa.Alloc
		for _, r := range core.Returns(m) {
			for _, sv := range p.ISources(r.Results[0]) {
				if al, ok := sv.(*ssa.Alloc); ok && core.NamedOf(al.Type()) == "Value" {
					lit = al
				}
			}
		}
		if lit == nil {
			c.R.Undecided("UNSAT-U8", k+"|value", core.FuncName(m), p.Pos(m.Pos()), "value() does not return a Value literal")
			continue
		}
		st, _ := core.StructOf(recv.Type())
		bad := ""
		n := 0
		carriesValue, condValue := false, ""
		for _, ref := range *lit.Referrers() {
			fa, ok := ref.(*ssa.FieldAddr)
			if !ok {
				continue
			}
			fr, _ := core.AsFieldAddr(fa)
			if fr.Field == "Value" {
				// the vertex's value is carried over too, whatever it is (an unset or zero value included)
				for _, r2 := range *fa.Referrers() {
					if sto, ok := r2.(*ssa.Store); ok && sto.Addr == ssa.Value(fa) {
						carriesValue = true
						if gs := core.Guards(sto.Block()); len(gs) > 0 {
							condValue = core.LitOf(gs[0].Cond, gs[0].Pol).String()
						}
					}
				}
				continue
			}
			if fr.Field != "Name" && fr.Field != "Type" && fr.Field != "Subtype" {
				continue
			}
			for _, r2 := range *fa.Referrers() {
				sto, ok := r2.(*ssa.Store)
				if !ok || sto.Addr != ssa.Value(fa) {
					continue
				}
				n++
				v := core.Strip(sto.Val)
				if prm, isPrm := v.(*ssa.Parameter); isPrm {
					// a shared constructor handed the vertex's fields: bind its parameter at THIS method's call of it
					v = core.Strip(p.Bind(prm))
					if h := prm.Parent(); h != m {
						for _, ci := range core.Calls(m) {
							if ci.Common().StaticCallee() == h {
								for i, q := range h.Params {
									if q == prm && i < len(ci.Common().Args) {
										v = core.Strip(ci.Common().Args[i])
									}
								}
							}
						}
					}
				}
				src, ok := core.AsFieldLoad(v)
				if !ok || src.Field != fr.Field || core.Strip(p.Bind(core.Strip(src.Base))) != ssa.Value(recv) {
					bad = fmt.Sprintf("Value.%s is taken from %s", fr.Field, core.Path(sto.Val))
				}
			}
		}
		// every label field the kind has must be carried over
		want := 0
		if st != nil {
			for i := 0; i < st.NumFields(); i++ {
				switch st.Field(i).Name() {
				case "Name", "Type", "Subtype":
					want++
				}
			}
		}
		if bad == "" && n < want {
			bad = fmt.Sprintf("only %d of the kind's %d label fields are carried over", n, want)
		}
		c.R.Add("UNSAT-U8", k+"|value-carries-the-vertex-value", core.FuncName(m), p.Pos(m.Pos()), carriesValue && condValue == "",
			"the Value reported for a vertex carries the vertex's own value unconditionally (a zero or unset value is reported as it is)",
			ternary(carriesValue && condValue == "", "copied unconditionally", ternary(!carriesValue, "the Value field is not set", "copied only under "+condValue)))
		c.R.Add("UNSAT-U8", k+"|value-carries-own-labels", core.FuncName(m), p.Pos(m.Pos()), bad == "",
			"the Value reported for a vertex (missing arguments, direct inputs, what the input filter sees) carries that vertex's own name, type and subtype",
			ternary(bad == "", fmt.Sprintf("%d label field(s) copied from the same-named vertex field", n), bad))
	}
}
