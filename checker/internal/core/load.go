// Package core loads the target repository from source (type-checked, SSA form)
// and offers the shared analyses every rule engine uses: callee resolution,
// access paths, dominating guards, CFG reachability, freshness, call graph.
//
// Nothing in this package (or in any rule) executes code of the target.
package core

import (
	"fmt"
	"go/token"
	"go/types"
	"os"
	"sort"
	"strings"

	"golang.org/x/tools/go/packages"
	"golang.org/x/tools/go/ssa"
	"golang.org/x/tools/go/ssa/ssautil"
)

const (
	ArgPath   = "github.com/hashicorp/go-argmapper"
	GraphPath = "github.com/hashicorp/go-argmapper/internal/graph"
)

// Prog is the loaded target program.
type Prog struct {
	errG     *ssa.Global
	errGDone bool

	Dir   string
	Fset  *token.FileSet
	Pkgs  []*packages.Package
	SSA   *ssa.Program
	Arg   *ssa.Package
	Graph *ssa.Package

	// Funcs lists every source-level function of the two packages, including
	// methods and (nested) function literals, in deterministic order.
	Funcs []*ssa.Function

	callers map[*ssa.Function][]ssa.CallInstruction
	closure map[*ssa.Function]*ssa.MakeClosure
	roles   map[string]*ssa.Function

	kinds    *Kinds
	kindsErr error

	invoked map[string]bool
	private map[*ssa.Function]bool
	roleSet map[*ssa.Function]bool
}

// Load type-checks /repo's current working tree and builds SSA for it.
// Any load or type error is fatal for the checker (exit 2), never a verdict.
func Load(dir string, tags string) (*Prog, error) {
	os.Unsetenv("GOWORK")
	env := append(os.Environ(),
		"GOFLAGS=-mod=mod", "GOPROXY=off", "GOSUMDB=off", "GOTOOLCHAIN=local", "GOWORK=off")
	cfg := &packages.Config{
		Mode:  packages.LoadAllSyntax,
		Dir:   dir,
		Env:   env,
		Tests: false,
	}
	if tags != "" {
		cfg.BuildFlags = []string{"-tags=" + tags}
	}
	pkgs, err := packages.Load(cfg, "./...")
	if err != nil {
		return nil, fmt.Errorf("packages.Load: %v", err)
	}
	var errs []string
	packages.Visit(pkgs, nil, func(p *packages.Package) {
		for _, e := range p.Errors {
			errs = append(errs, e.Error())
		}
	})
	if len(errs) > 0 {
		return nil, fmt.Errorf("target does not load cleanly: %s", strings.Join(errs, "; "))
	}
	if len(pkgs) < 2 {
		return nil, fmt.Errorf("expected at least 2 packages under %s, got %d", dir, len(pkgs))
	}
	prog, spkgs := ssautil.AllPackages(pkgs, ssa.InstantiateGenerics)
	prog.Build()

	p := &Prog{Dir: dir, Pkgs: pkgs, SSA: prog, Fset: prog.Fset}
	for i, sp := range spkgs {
		if sp == nil {
			continue
		}
		switch pkgs[i].PkgPath {
		case ArgPath:
			p.Arg = sp
		case GraphPath:
			p.Graph = sp
		}
	}
	if p.Arg == nil || p.Graph == nil {
		return nil, fmt.Errorf("packages %s and %s not both found", ArgPath, GraphPath)
	}
	p.collectFuncs()
	p.indexCalls()
	p.buildCanon()
	Active = p
	if h := p.HashcodeFn(); h != nil && h.Object() != nil {
		pureCallees[h.Object().(*types.Func).FullName()] = true
	}
	return p, nil
}

func (p *Prog) collectFuncs() {
	seen := map[*ssa.Function]bool{}
	var add func(f *ssa.Function)
	add = func(f *ssa.Function) {
		if f == nil || seen[f] || f.Blocks == nil {
			return
		}
		if f.Synthetic != "" && !strings.HasPrefix(f.Name(), "init") && !IsInstance(f) {
			return
		}
		if f.TypeParams().Len() > 0 && len(f.TypeArgs()) == 0 {
			return // a generic function is analysed through its instantiations (monomorphised bodies)
		}
		seen[f] = true
		p.Funcs = append(p.Funcs, f)
		for _, a := range f.AnonFuncs {
			add(a)
		}
	}
	for _, pkg := range []*ssa.Package{p.Arg, p.Graph} {
		var names []string
		for n := range pkg.Members {
			names = append(names, n)
		}
		sort.Strings(names)
		for _, n := range names {
			switch m := pkg.Members[n].(type) {
			case *ssa.Function:
				add(m)
			case *ssa.Type:
				t := m.Type()
				for _, tt := range []types.Type{t, types.NewPointer(t)} {
					ms := p.SSA.MethodSets.MethodSet(tt)
					for i := 0; i < ms.Len(); i++ {
						fn := p.SSA.MethodValue(ms.At(i))
						if fn != nil && fn.Pkg == pkg {
							add(fn)
						}
					}
				}
			}
		}
	}
	// instantiations of the two packages' generic functions, found at their call sites
	for i := 0; i < len(p.Funcs); i++ {
		for _, b := range p.Funcs[i].Blocks {
			for _, in := range b.Instrs {
				if c, ok := in.(ssa.CallInstruction); ok {
					if cal := c.Common().StaticCallee(); cal != nil && IsInstance(cal) {
						if pk := PkgOf(cal); pk == p.Arg || pk == p.Graph {
							add(cal)
						}
					}
				}
			}
		}
	}
	sort.SliceStable(p.Funcs, func(i, j int) bool { return p.Funcs[i].Pos() < p.Funcs[j].Pos() })
}

// IsInstance reports whether f is an instantiation of a generic function.
func IsInstance(f *ssa.Function) bool { return f != nil && f.Origin() != nil && f.Origin() != f }

// PkgOf is the package a function belongs to; an instantiation belongs to the package of its generic function, a
// function literal to that of its outermost enclosing function.
func PkgOf(f *ssa.Function) *ssa.Package {
	if f == nil {
		return nil
	}
	for f.Parent() != nil {
		f = f.Parent()
	}
	if f.Pkg == nil && f.Origin() != nil {
		return f.Origin().Pkg
	}
	return f.Pkg
}

func (p *Prog) indexCalls() {
	p.callers = map[*ssa.Function][]ssa.CallInstruction{}
	p.closure = map[*ssa.Function]*ssa.MakeClosure{}
	for _, f := range p.Funcs {
		for _, b := range f.Blocks {
			for _, in := range b.Instrs {
				if c, ok := in.(ssa.CallInstruction); ok {
					if cal := c.Common().StaticCallee(); cal != nil {
						p.callers[cal] = append(p.callers[cal], c)
					}
				}
				if mc, ok := in.(*ssa.MakeClosure); ok {
					p.closure[mc.Fn.(*ssa.Function)] = mc
				}
			}
		}
	}
}

// Callers returns the static call sites of f inside the two packages.
func (p *Prog) Callers(f *ssa.Function) []ssa.CallInstruction { return p.callers[f] }

// ClosureSite returns the MakeClosure instruction that creates anonymous
// function f (nil for a named function or a capture-free literal).
func (p *Prog) ClosureSite(f *ssa.Function) *ssa.MakeClosure { return p.closure[f] }

// InTarget reports whether f belongs to one of the two target packages.
func (p *Prog) InTarget(f *ssa.Function) bool {
	if f == nil {
		return false
	}
	pk := PkgOf(f)
	return pk != nil && (pk == p.Arg || pk == p.Graph)
}

// Pos renders a position as file:line relative to the repository.
func (p *Prog) Pos(pos token.Pos) string {
	if !pos.IsValid() {
		return "-"
	}
	ps := p.Fset.Position(pos)
	return fmt.Sprintf("%s:%d", strings.TrimPrefix(ps.Filename, p.Dir+"/"), ps.Line)
}

// InstrPos gives the best position known for an instruction.
func (p *Prog) InstrPos(in ssa.Instruction) string {
	if in == nil {
		return "-"
	}
	if in.Pos().IsValid() {
		return p.Pos(in.Pos())
	}
	// fall back to any positioned instruction of the block, then the function
	if b := in.Block(); b != nil {
		for _, o := range b.Instrs {
			if o.Pos().IsValid() {
				return p.Pos(o.Pos()) + "~"
			}
		}
	}
	if in.Parent() != nil {
		return p.Pos(in.Parent().Pos()) + "~"
	}
	return "-"
}

// FuncName is a short, stable display name: Type.method, func, or outer$n.
func FuncName(f *ssa.Function) string {
	if f == nil {
		return "<nil>"
	}
	s := f.String()
	if pk := PkgOf(f); pk != nil {
		s = f.RelString(pk.Pkg)
	}
	s = strings.ReplaceAll(s, "(*", "")
	s = strings.ReplaceAll(s, "(", "")
	s = strings.ReplaceAll(s, ")", "")
	return s
}

// Outer returns the outermost enclosing named function of f.
func Outer(f *ssa.Function) *ssa.Function {
	for f.Parent() != nil {
		f = f.Parent()
	}
	return f
}

// OnlyStaticallyCalled reports whether f is an unexported package-level
// function (no receiver, not a literal) of the target packages that is never
// used as a value: every invocation is one of Callers(f).
func (p *Prog) OnlyStaticallyCalled(f *ssa.Function) bool {
	if f == nil || f.Parent() != nil || f.Signature.Recv() != nil || !p.InTarget(f) {
		return false
	}
	if o := f.Object(); o == nil || o.Exported() {
		return false
	}
	for _, g := range p.Funcs {
		for _, b := range g.Blocks {
			for _, in := range b.Instrs {
				for _, op := range in.Operands(nil) {
					if op == nil || *op != ssa.Value(f) {
						continue
					}
					if ci, ok := in.(ssa.CallInstruction); ok && ci.Common().Value == ssa.Value(f) {
						// the callee position; make sure it is not also an argument
						isArg := false
						for _, a := range ci.Common().Args {
							if a == ssa.Value(f) {
								isArg = true
							}
						}
						if !isArg {
							continue
						}
					}
					return false
				}
			}
		}
	}
	return true
}

// StaticHelpers returns the unexported in-target functions that f (or one of
// its nested literals) calls statically — the "one level of helper" that
// recognisers tolerate. f itself is not included.
func (p *Prog) StaticHelpers(f *ssa.Function) []*ssa.Function {
	var out []*ssa.Function
	seen := map[*ssa.Function]bool{f: true}
	for _, fn := range WithNested(f) {
		Instrs(fn, func(in ssa.Instruction) {
			ci, ok := in.(ssa.CallInstruction)
			if !ok {
				return
			}
			cal := ci.Common().StaticCallee()
			if cal == nil || seen[cal] || !p.InTarget(cal) || len(cal.Blocks) == 0 {
				return
			}
			if o := cal.Object(); o != nil && o.Exported() {
				return
			}
			seen[cal] = true
			out = append(out, cal)
		})
	}
	return out
}
