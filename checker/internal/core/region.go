package core

import (
	"go/token"
	"strings"

	"golang.org/x/tools/go/ssa"
)

// Regions: "virtual inlining" of private helpers.
//
// A private helper is an unexported, non-recursive function or method of the
// target packages that is only ever invoked through static calls and that is
// not itself one of the resolved roles. Extracting part of a function into
// such a helper (or splitting a function into a driver plus steps) does not
// change behaviour, so the recognisers look at a role function together with
// its private helpers:
//
//   - Region(f): f, its nested literals and the private helpers they call;
//   - ISources(v): def-use closure that continues through helper parameters
//     (to the arguments at every call site) and helper results (to the
//     operands of every return);
//   - IReturns(f): the returns of f, with `return helper(...)` expanded to the
//     helper's own returns;
//   - ILits(b): guard literals of b plus those common to every call site of
//     b's helper;
//   - IDominates(a, b): dominance lifted across helper call sites.

// Active is the program most recently loaded (used by helpers that have no receiver).
var Active *Prog

func (p *Prog) invokedNames() map[string]bool {
	if p.invoked != nil {
		return p.invoked
	}
	p.invoked = map[string]bool{}
	for _, f := range p.Funcs {
		Instrs(f, func(in ssa.Instruction) {
			if ci, ok := in.(ssa.CallInstruction); ok && ci.Common().IsInvoke() {
				p.invoked[ci.Common().Method.Name()] = true
			}
			// bound method values / method expressions used as values
			for _, op := range in.Operands(nil) {
				if op == nil || *op == nil {
					continue
				}
				if fn, ok := (*op).(*ssa.Function); ok && fn.Synthetic != "" {
					n := fn.Name()
					n = strings.TrimSuffix(n, "$bound")
					n = strings.TrimSuffix(n, "$thunk")
					p.invoked[n] = true
				}
			}
		})
	}
	return p.invoked
}

func (p *Prog) usedAsValue(h *ssa.Function) bool {
	for _, g := range p.Funcs {
		for _, b := range g.Blocks {
			for _, in := range b.Instrs {
				for _, op := range in.Operands(nil) {
					if op == nil || *op != ssa.Value(h) {
						continue
					}
					if ci, ok := in.(ssa.CallInstruction); ok && ci.Common().Value == ssa.Value(h) {
						isArg := false
						for _, a := range ci.Common().Args {
							if a == ssa.Value(h) {
								isArg = true
							}
						}
						if !isArg {
							continue
						}
					}
					return true
				}
			}
		}
	}
	return false
}

// NoExpand, when set, disables helper expansion (used while roles are being resolved).
var noExpand int

// PrivateHelper reports whether h is a private helper in the sense above.
func (p *Prog) PrivateHelper(h *ssa.Function) bool {
	if h == nil || noExpand > 0 {
		return false
	}
	if v, ok := p.private[h]; ok {
		return v
	}
	if p.private == nil {
		p.private = map[*ssa.Function]bool{}
	}
	p.private[h] = false // cut recursion
	ok := func() bool {
		if !p.InTarget(h) || len(h.Blocks) == 0 || (h.Synthetic != "" && !IsInstance(h)) {
			return false
		}
		if h.Parent() != nil {
			// a local function literal that is only ever called directly by its creator (`add := func(…){…}; add(x)`)
			return p.localClosure(h)
		}
		o := h.Object()
		if o == nil || o.Exported() {
			return false
		}
		if len(p.Callers(h)) == 0 {
			return false
		}
		for _, ci := range Calls(h) {
			if ci.Common().StaticCallee() == h {
				return false
			}
		}
		if h.Signature.Recv() != nil && p.invokedNames()[h.Name()] {
			return false
		}
		if p.usedAsValue(h) {
			return false
		}
		if p.isRoleFn(h) {
			return false
		}
		return true
	}()
	p.private[h] = ok
	return ok
}

var allRoles = []string{"Call", "Redefine", "Convert", "executor", "resolver", "graphBuilder", "inputBuilder", "funcBuilder",
	"outputMapper", "planner", "optionApplier", "defaultsMerger", "structWalker", "lifter", "convertMulti", "resultAdapter",
	"zeroBody", "outputValidator"}

func (p *Prog) isRoleFn(h *ssa.Function) bool {
	if p.roleSet == nil {
		noExpand++
		p.roleSet = map[*ssa.Function]bool{}
		for _, r := range allRoles {
			if f, err := p.Role(r); err == nil && f != nil {
				p.roleSet[f] = true
			}
		}
		if hf := p.HashcodeFn(); hf != nil {
			p.roleSet[hf] = true
		}
		noExpand--
	}
	return p.roleSet[h]
}

// Region returns f, its nested literals, and (transitively, three levels) the private helpers they call.
func (p *Prog) Region(f *ssa.Function) []*ssa.Function {
	if f == nil {
		return nil
	}
	seen := map[*ssa.Function]bool{}
	var out []*ssa.Function
	var add func(g *ssa.Function, d int)
	add = func(g *ssa.Function, d int) {
		for _, fn := range WithNested(g) {
			if seen[fn] {
				continue
			}
			seen[fn] = true
			out = append(out, fn)
			if d >= 3 {
				continue
			}
			Instrs(fn, func(in ssa.Instruction) {
				if ci, ok := in.(ssa.CallInstruction); ok {
					if cal := ci.Common().StaticCallee(); cal != nil && !seen[cal] && p.PrivateHelper(cal) {
						add(cal, d+1)
					}
				}
			})
		}
	}
	add(f, 0)
	return out
}

// RegionInstrs visits every instruction of Region(f).
func (p *Prog) RegionInstrs(f *ssa.Function, fn func(ssa.Instruction)) {
	for _, g := range p.Region(f) {
		Instrs(g, fn)
	}
}

// RegionCalls lists the calls (optionally restricted to callee names) made anywhere in Region(f).
func (p *Prog) RegionCalls(f *ssa.Function, names ...string) []ssa.CallInstruction {
	var out []ssa.CallInstruction
	for _, g := range p.Region(f) {
		out = append(out, Calls(g, names...)...)
	}
	return out
}

func paramIdx(x *ssa.Parameter) int {
	for i, q := range x.Parent().Params {
		if q == x {
			return i
		}
	}
	return -1
}

// ISources is Sources continued through private helpers.
func (p *Prog) ISources(v ssa.Value) []ssa.Value {
	seen := map[ssa.Value]bool{}
	var out []ssa.Value
	var walk func(v ssa.Value, d int)
	walk = func(v ssa.Value, d int) {
		for _, s := range Sources(v) {
			if seen[s] {
				continue
			}
			seen[s] = true
			if d < 4 {
				switch x := s.(type) {
				case *ssa.Parameter:
					if h := x.Parent(); p.PrivateHelper(h) {
						if i := paramIdx(x); i >= 0 {
							for _, site := range p.Callers(h) {
								if as := site.Common().Args; i < len(as) {
									walk(as[i], d+1)
								}
							}
							continue
						}
					}
				case *ssa.Call:
					if h := x.Common().StaticCallee(); p.PrivateHelper(h) && h.Signature.Results().Len() == 1 {
						for _, r := range Returns(h) {
							for _, o := range ReturnOperand(r, 0) {
								walk(o, d+1)
							}
						}
						continue
					}
				case *ssa.Extract:
					if cl, ok := x.Tuple.(*ssa.Call); ok {
						if h := cl.Common().StaticCallee(); p.PrivateHelper(h) {
							for _, r := range Returns(h) {
								for _, o := range ReturnOperand(r, x.Index) {
									walk(o, d+1)
								}
							}
							continue
						}
					}
				}
			}
			out = append(out, s)
		}
	}
	walk(v, 0)
	return out
}

// IRet is one way a function returns: the innermost return instruction, its
// operands, and the helper call sites through which it is forwarded.
type IRet struct {
	Ret     *ssa.Return
	Results []ssa.Value
	Via     []*ssa.Call
}

// IReturns lists the returns of f; a return that forwards the results of a
// private helper call unchanged is replaced by the helper's returns.
func (p *Prog) IReturns(f *ssa.Function) []IRet {
	var out []IRet
	var expand func(g *ssa.Function, via []*ssa.Call, d int)
	expand = func(g *ssa.Function, via []*ssa.Call, d int) {
		for _, r := range Returns(g) {
			var fw *ssa.Call
			if d < 3 && len(r.Results) > 0 {
				switch x := r.Results[0].(type) {
				case *ssa.Call:
					if len(r.Results) == 1 {
						fw = x
					}
				case *ssa.Extract:
					if cl, ok := x.Tuple.(*ssa.Call); ok {
						all := true
						for i, o := range r.Results {
							e, ok := o.(*ssa.Extract)
							if !ok || e.Tuple != ssa.Value(cl) || e.Index != i {
								all = false
							}
						}
						if all {
							fw = cl
						}
					}
				}
			}
			if fw != nil {
				if h := fw.Common().StaticCallee(); p.PrivateHelper(h) {
					expand(h, append(append([]*ssa.Call{}, via...), fw), d+1)
					continue
				}
			}
			out = append(out, IRet{Ret: r, Results: r.Results, Via: via})
		}
	}
	expand(f, nil, 0)
	return out
}

// ILits returns the guard literals of block b and, when b lies in a private
// helper, the literals that guard every one of its call sites (recursively).
func (p *Prog) ILits(b *ssa.BasicBlock) []Lit {
	return p.ilits(b, 0)
}

func (p *Prog) ilits(b *ssa.BasicBlock, d int) []Lit {
	out := Lits(Guards(b))
	f := b.Parent()
	if f == nil || d > 3 {
		return out
	}
	if mc := p.ClosureSite(f); mc != nil && f.Parent() != nil {
		return out
	}
	if !p.PrivateHelper(f) {
		return out
	}
	sites := p.Callers(f)
	var common map[string]Lit
	for i, s := range sites {
		ls := p.ilits(s.Block(), d+1)
		m := map[string]Lit{}
		for _, l := range ls {
			m[l.String()] = l
		}
		if i == 0 {
			common = m
			continue
		}
		for k := range common {
			if _, ok := m[k]; !ok {
				delete(common, k)
			}
		}
	}
	for _, l := range common {
		out = append(out, l)
	}
	return out
}

// Anchors lifts instruction in up to function top: the instruction itself when
// it is in top (or in a literal nested in top → its MakeClosure), or the call
// sites in top through which its private helper is reached. `must` reports
// whether the instruction executes whenever the returned anchor call completes
// normally (it dominates every return of its helper).
func (p *Prog) Anchors(in ssa.Instruction, top *ssa.Function) (anchors []ssa.Instruction, must bool) {
	return p.anchors(in, top, 0)
}

func (p *Prog) anchors(in ssa.Instruction, top *ssa.Function, d int) ([]ssa.Instruction, bool) {
	f := in.Parent()
	if f == top {
		return []ssa.Instruction{in}, true
	}
	if d > 3 {
		return nil, false
	}
	if f.Parent() != nil {
		if mc := p.ClosureSite(f); mc != nil {
			as, _ := p.anchors(mc, top, d+1)
			return as, false
		}
		return nil, false
	}
	if !p.PrivateHelper(f) {
		return nil, false
	}
	must := true
	for _, r := range Returns(f) {
		if !InstrDominates(in, r) {
			must = false
		}
	}
	var out []ssa.Instruction
	for _, s := range p.Callers(f) {
		as, m := p.anchors(s, top, d+1)
		if len(as) == 0 {
			return nil, false
		}
		must = must && m
		out = append(out, as...)
	}
	return out, must
}

// IDominates reports that a executes before b on every path to b, where both
// lie in Region(top): a (or the helper call that must execute it) dominates b
// (or every call site of the helper b lies in).
func (p *Prog) IDominates(a, b ssa.Instruction, top *ssa.Function) bool {
	if a.Parent() == b.Parent() {
		return InstrDominates(a, b)
	}
	// b inside a helper that a's function calls (or deeper): lift b first
	if bs, _ := p.Anchors(b, a.Parent()); len(bs) > 0 {
		for _, x := range bs {
			if !InstrDominates(a, x) {
				return false
			}
		}
		return true
	}
	as, must := p.Anchors(a, top)
	bs, _ := p.Anchors(b, top)
	if len(as) == 0 || len(bs) == 0 || !must {
		return false
	}
	for _, y := range bs {
		ok := false
		for _, x := range as {
			if x != y && InstrDominates(x, y) {
				ok = true
			}
		}
		if !ok {
			return false
		}
	}
	return true
}

// Bind resolves a parameter of a private helper that has exactly one call site
// to the argument passed there (transitively); any other value is returned
// unchanged.
func (p *Prog) Bind(v ssa.Value) ssa.Value {
	for i := 0; i < 4; i++ {
		prm, ok := v.(*ssa.Parameter)
		if !ok {
			return v
		}
		h := prm.Parent()
		if !p.PrivateHelper(h) {
			return v
		}
		sites := p.Callers(h)
		idx := paramIdx(prm)
		if len(sites) != 1 || idx < 0 || idx >= len(sites[0].Common().Args) {
			return v
		}
		v = sites[0].Common().Args[idx]
	}
	return v
}

// InRegion reports whether g is f, a literal nested in f, or one of f's private helpers.
func (p *Prog) InRegion(g, f *ssa.Function) bool {
	for _, x := range p.Region(f) {
		if x == g {
			return true
		}
	}
	return false
}

// GeneratedBody returns the function literal that Redefine (or one of its
// private helpers) hands to reflect.MakeFunc: the body of the redefined function.
func (p *Prog) GeneratedBody() *ssa.Function {
	rd := p.MustRole("Redefine")
	if rd == nil {
		return nil
	}
	var body *ssa.Function
	n := 0
	for _, ci := range p.RegionCalls(rd, "reflect.MakeFunc") {
		for _, src := range p.ISources(ci.Common().Args[1]) {
			switch x := src.(type) {
			case *ssa.MakeClosure:
				body, _ = x.Fn.(*ssa.Function)
				// a bound method value (`impl.call`): the method itself
				if body != nil && body.Synthetic != "" {
					for _, ci := range Calls(body) {
						if cal := ci.Common().StaticCallee(); cal != nil && p.InTarget(cal) {
							body = cal
						}
					}
				}
				n++
			case *ssa.Function:
				body = x
				n++
			}
		}
	}
	if n != 1 {
		return nil
	}
	return body
}

// ConstructedField resolves a load of a struct field that is assigned exactly once in the whole program, in the
// composite literal that creates the object (an immutable-after-construction field of an unexported type), to the
// value stored there — read through Bind, so that a constructor's parameter becomes its caller's argument. Any
// other value is returned unchanged.
func (p *Prog) ConstructedField(v ssa.Value) ssa.Value {
	fr, ok := AsFieldLoad(v)
	if !ok || fr.Owner == "" {
		return v
	}
	var stored ssa.Value
	n := 0
	for _, f := range p.Funcs {
		Instrs(f, func(in ssa.Instruction) {
			st, ok := in.(*ssa.Store)
			if !ok {
				return
			}
			sf, ok := AsFieldAddr(st.Addr)
			if !ok || sf.Owner != fr.Owner || sf.Field != fr.Field {
				return
			}
			n++
			if p.FreshIn(st.Addr) {
				stored = st.Val
			} else {
				n += 100 // assigned after construction somewhere: not resolvable
			}
		})
	}
	if n != 1 || stored == nil {
		return v
	}
	return p.Bind(Strip(stored))
}

// localClosure: function literal h is bound to a local name and only ever called directly, in the function that
// creates it (it is not returned, stored, passed on or captured by another literal).
func (p *Prog) localClosure(h *ssa.Function) bool {
	mc := p.ClosureSite(h)
	var fv ssa.Value = h
	if mc != nil {
		fv = mc
	}
	refs := fv.Referrers()
	if refs == nil {
		return false // capture-free literal referenced as a bare function value: decided by usedAsValue elsewhere
	}
	n := 0
	for _, r := range *refs {
		ci, ok := r.(ssa.CallInstruction)
		if !ok || ci.Common().Value != fv {
			return false
		}
		for _, a := range ci.Common().Args {
			if a == fv {
				return false
			}
		}
		if _, isDefer := r.(*ssa.Defer); isDefer {
			return false
		}
		if _, isGo := r.(*ssa.Go); isGo {
			return false
		}
		n++
	}
	return n > 0
}

// FlatFieldAddr decodes the address of a struct field like AsFieldAddr and
// folds by-value nesting: the address of field g of a struct that is itself
// stored by value in field f of T — written t.f.g, or reached through the
// receiver or parameter of a private helper that is handed &t.f — is reported
// as field "f.g" of T with t as base.
func (p *Prog) FlatFieldAddr(v ssa.Value) (FieldRef, bool) {
	fr, ok := AsFieldAddr(v)
	if !ok {
		return fr, false
	}
	for i := 0; i < 3; i++ {
		outer, ok := p.Bind(Strip(fr.Base)).(*ssa.FieldAddr)
		if !ok {
			break
		}
		o, ok := AsFieldAddr(outer)
		if !ok {
			break
		}
		fr = FieldRef{Owner: o.Owner, Field: o.Field + "." + fr.Field, Base: o.Base}
	}
	return fr, true
}

// FlatFieldLoad is AsFieldLoad with the nesting folded as in FlatFieldAddr.
func (p *Prog) FlatFieldLoad(v ssa.Value) (FieldRef, bool) {
	switch x := v.(type) {
	case *ssa.UnOp:
		if x.Op == token.MUL {
			return p.FlatFieldAddr(x.X)
		}
	case *ssa.Field:
		fr, ok := AsFieldLoad(v)
		if !ok {
			return fr, false
		}
		// t.f.g read out of a loaded copy of t.f
		if in, ok := p.FlatFieldLoad(x.X); ok {
			return FieldRef{Owner: in.Owner, Field: in.Field + "." + fr.Field, Base: in.Base}, true
		}
		return fr, true
	}
	return AsFieldLoad(v)
}

// UsedAsValue reports whether h is referenced other than as the callee of a static call.
func (p *Prog) UsedAsValue(h *ssa.Function) bool { return p.usedAsValue(h) }

// Expansion is one instance of an instruction of a straight-line private
// helper (a setter such as `func (s *state) setLast(v T) { s.Value = v }`): the
// call site through which it executes and the arguments bound to the helper's
// parameters there. For an instruction that is not in such a helper there is
// one expansion: the instruction itself with no bindings.
type Expansion struct {
	At    ssa.Instruction
	binds map[*ssa.Parameter]ssa.Value
}

// Sub replaces a helper parameter by the argument bound at the expansion's call site.
func (e Expansion) Sub(v ssa.Value) ssa.Value {
	for i := 0; i < 4; i++ {
		prm, ok := v.(*ssa.Parameter)
		if !ok {
			return v
		}
		a, ok := e.binds[prm]
		if !ok {
			return v
		}
		v = a
	}
	return v
}

// Expand lists the instances of in. An instruction in a single-block private
// helper executes exactly when the helper is called, so each call site is an
// instance (followed upwards through further single-block helpers, depth 3).
func (p *Prog) Expand(in ssa.Instruction) []Expansion {
	return p.expand(in, map[*ssa.Parameter]ssa.Value{}, 0)
}

func (p *Prog) expand(in ssa.Instruction, binds map[*ssa.Parameter]ssa.Value, d int) []Expansion {
	h := in.Parent()
	self := []Expansion{{At: in, binds: binds}}
	if h == nil || d > 3 || len(h.Blocks) != 1 || h.Parent() != nil || !p.PrivateHelper(h) {
		return self
	}
	sites := p.Callers(h)
	if len(sites) == 0 {
		return self
	}
	var out []Expansion
	for _, s := range sites {
		args := s.Common().Args
		if s.Common().IsInvoke() || len(args) != len(h.Params) {
			return self
		}
		b := map[*ssa.Parameter]ssa.Value{}
		for k, v := range binds {
			b[k] = v
		}
		for i, prm := range h.Params {
			b[prm] = args[i]
		}
		out = append(out, p.expand(s, b, d+1)...)
	}
	return out
}
