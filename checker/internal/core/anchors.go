package core

import (
	"go/types"

	"golang.org/x/tools/go/ssa"
)

// Anchors found by shape rather than by identifier, so that renaming an internal identifier changes nothing.

// ErrTypeGlobal: the package variable of type reflect.Type initialised in the package initialiser to
// reflect.TypeOf((*error)(nil)).Elem().
func (p *Prog) ErrTypeGlobal() *ssa.Global {
	if p.errG != nil || p.errGDone {
		return p.errG
	}
	p.errGDone = true
	init := p.Arg.Func("init")
	if init == nil {
		return nil
	}
	Instrs(init, func(in ssa.Instruction) {
		st, ok := in.(*ssa.Store)
		if !ok {
			return
		}
		g, ok := st.Addr.(*ssa.Global)
		if !ok || g.Pkg != p.Arg {
			return
		}
		el, ok := st.Val.(*ssa.Call)
		if !ok {
			return
		}
		// reflect.TypeFor[error]() — the generic spelling of the same descriptor
		if pk, fn := StdCallee(el.Common().StaticCallee()); pk == "reflect" && fn == "TypeFor" {
			if ta := el.Common().StaticCallee().TypeArgs(); len(ta) == 1 && types.Identical(ta[0], types.Universe.Lookup("error").Type()) {
				p.errG = g
			}
			return
		}
		if !el.Common().IsInvoke() || el.Common().Method.Name() != "Elem" {
			return
		}
		to, ok := el.Common().Value.(*ssa.Call)
		if !ok || CalleeName(to.Common()) != "reflect.TypeOf" {
			return
		}
		mi, ok := to.Common().Args[0].(*ssa.MakeInterface)
		if !ok {
			return
		}
		if pt, ok := mi.X.Type().Underlying().(*types.Pointer); ok {
			if types.Identical(pt.Elem(), types.Universe.Lookup("error").Type()) {
				p.errG = g
			}
		}
	})
	return p.errG
}

// IsErrTypeGlobal: v is (a load of) the error type descriptor.
func (p *Prog) IsErrTypeGlobal(v ssa.Value) bool {
	g := p.ErrTypeGlobal()
	if g == nil {
		return false
	}
	if u, ok := v.(*ssa.UnOp); ok {
		v = u.X
	}
	return v == ssa.Value(g)
}

// ValuerMethodName: the name of the single method of the package's interface whose only method takes nothing and
// returns *Value (the value-converter interface of the label-carrying vertex kinds); "" when there is no such
// interface.
func (p *Prog) ValuerMethodName() string {
	_, m := p.valuer()
	return m
}

// ValuerIfaceName: the name of that interface type.
func (p *Prog) ValuerIfaceName() string {
	n, _ := p.valuer()
	return n
}

func (p *Prog) valuer() (string, string) {
	iface, meth := "", ""
	for name, mem := range p.Arg.Members {
		t, ok := mem.(*ssa.Type)
		if !ok {
			continue
		}
		it, ok := t.Type().Underlying().(*types.Interface)
		if !ok || it.NumMethods() != 1 {
			continue
		}
		sig := it.Method(0).Type().(*types.Signature)
		if sig.Params().Len() == 0 && sig.Results().Len() == 1 && TypeStr(sig.Results().At(0).Type()) == "*Value" {
			if iface != "" && name > iface {
				continue
			}
			iface, meth = name, it.Method(0).Name()
		}
	}
	return iface, meth
}
