package core

import (
	"go/types"

	"golang.org/x/tools/go/ssa"
)

// MayFlow is an interprocedural may-flow (taint) closure over the target
// packages: starting from seed values it marks every value and every memory
// object (identified by the root of its address) that the seed's content can
// reach — through conversions, arithmetic/concatenation, stores and loads,
// varargs packing, arguments of in-module callees (into their parameters and
// back out through results and pointer parameters) and arguments of external
// callees (into their result and into every pointer argument, which covers
// writers such as bytes.Buffer, strings.Builder and fmt.Fprintf).
//
// It over-approximates; rules use it only for "content X reaches Y" clauses
// whose violation is the complete absence of a flow.
func (p *Prog) MayFlow(seeds []ssa.Value) map[ssa.Value]bool {
	t := map[ssa.Value]bool{}
	var work []ssa.Value
	mark := func(v ssa.Value) {
		if v == nil || t[v] {
			return
		}
		if _, isC := v.(*ssa.Const); isC {
			return
		}
		t[v] = true
		work = append(work, v)
	}
	for _, s := range seeds {
		mark(s)
	}
	isPtrLike := func(v ssa.Value) bool {
		switch v.Type().Underlying().(type) {
		case *types.Pointer, *types.Slice, *types.Map, *types.Interface:
			return true
		}
		return false
	}
	paramIndex := func(x *ssa.Parameter) int {
		for i, q := range x.Parent().Params {
			if q == x {
				return i
			}
		}
		return -1
	}
	for len(work) > 0 {
		v := work[len(work)-1]
		work = work[:len(work)-1]
		// a tainted parameter that is pointer-like: the caller's object is tainted too (writes through it)
		if prm, ok := v.(*ssa.Parameter); ok && isPtrLike(prm) {
			if i := paramIndex(prm); i >= 0 {
				for _, site := range p.Callers(prm.Parent()) {
					if as := site.Common().Args; i < len(as) {
						mark(Root(as[i]))
						mark(as[i])
					}
				}
			}
		}
		refs := v.Referrers()
		if refs == nil {
			continue
		}
		for _, r := range *refs {
			switch x := r.(type) {
			case *ssa.Store:
				if x.Val == v {
					mark(Root(x.Addr))
					mark(x.Addr)
					if ia, ok := x.Addr.(*ssa.IndexAddr); ok {
						mark(ia.X)
					}
					if fa, ok := x.Addr.(*ssa.FieldAddr); ok {
						mark(fa.X)
					}
				}
			case *ssa.MapUpdate:
				if x.Value == v || x.Key == v {
					mark(Root(x.Map))
					mark(x.Map)
				}
			case *ssa.Return:
				fn := x.Parent()
				for _, site := range p.Callers(fn) {
					if sv, ok := site.(ssa.Value); ok {
						mark(sv)
					}
				}
			case ssa.CallInstruction:
				cc := x.Common()
				cal := cc.StaticCallee()
				args := cc.Args
				inModule := cal != nil && p.InTarget(cal) && len(cal.Blocks) > 0 && !cc.IsInvoke()
				if inModule {
					for i, a := range args {
						if a == v && i < len(cal.Params) {
							mark(cal.Params[i])
						}
					}
					if mc, ok := cc.Value.(*ssa.MakeClosure); ok {
						for i, b := range mc.Bindings {
							if b == v && i < len(cal.FreeVars) {
								mark(cal.FreeVars[i])
							}
						}
					}
				} else {
					isArg := cc.Value == v
					for _, a := range args {
						if a == v {
							isArg = true
						}
					}
					if isArg {
						if sv, ok := x.(ssa.Value); ok {
							mark(sv)
						}
						for _, a := range args {
							if isPtrLike(a) {
								mark(Root(a))
								mark(a)
							}
						}
						if cc.IsInvoke() && isPtrLike(cc.Value) {
							mark(Root(cc.Value))
							mark(cc.Value)
						}
					}
				}
			case *ssa.MakeClosure:
				if fn, ok := x.Fn.(*ssa.Function); ok {
					for i, b := range x.Bindings {
						if b == v && i < len(fn.FreeVars) {
							mark(fn.FreeVars[i])
						}
					}
				}
				mark(x)
			case ssa.Value:
				// conversions, phis, binary operations, loads, slices, field/index addresses, extracts, …
				mark(x)
			}
		}
	}
	return t
}

// MayFlowToReturn reports whether the content of a seed may reach a value returned by f.
func (p *Prog) MayFlowToReturn(seeds []ssa.Value, f *ssa.Function) bool {
	t := p.MayFlow(seeds)
	for _, r := range Returns(f) {
		for _, res := range r.Results {
			if t[res] {
				return true
			}
		}
	}
	return false
}
